/-
C15: the FULL meaning of an invocation — everything the runtime builds the
pipestance from, reachable from the top-level call — split into the part that
`Ast.EquivalentCall` compares (`Meaning.compared`, the unfolded tree
`Martian.Equiv.semCall`) and the part it does not look at (`Meaning.ignored`,
one entry per occurrence, tagged with the path of call ids that leads to it).

`Ignored` enumerates, constructor by constructor, what equivalence.go ignores:
  calleeName    the declared name of the called stage/pipeline (only the call's
                own id is compared; "may change if the call is aliased")
  volatile      the call's `volatile` modifier ("volatile is ignored")
  stageSrc      `src <lang> "<path> <args>"` ("stage source code … ignored")
  resources     the stage's `using (threads, mem_gb, vmem_gb, special, volatile = strict)`
  retain        stage `retain (…)` / pipeline `retain (CALL.out, …)` ("VDR retention ignored")
  chunkParams   the `split (in …, out …)` parameters ("split ins/outs are ignored")
  fileTypeName  the type name of a parameter of scalar file kind ("file types may change their names")
  outName       the output file name of a stage output, and of a non-file pipeline output
  help          parameter help strings
Since the repair of F20 the DEFINITIONS of the struct types used by reachable
parameters are part of the compared meaning (`Meaning.compared.2`, the unfolded
type trees `typesSem`): `Ast.EquivalentCall` runs a second pass (`structComparer`)
over the same call tree which compares them member by member.  Whether that
pass exists is the regenerated fact `Gen.c15StructsCompared`.
Not part of the meaning at all (purely textual): comments, whitespace, order of
declarations / parameters / bindings / calls / map keys, include structure,
callables and types not reachable from the top-level call.
The static map-call source (`CallStm.Mapping`) is derived from the `split`
bindings, which are compared, and is therefore not a separate component.

Core Lean only.
-/
import Martian.Equiv

namespace Martian.Equiv
open Martian.SortKeys

/-- what `Martian.Equiv.Callable` leaves out of a stage / pipeline declaration -/
structure Extra where
  src : Key
  resources : Key
  retain : List Key
  chunkIns : List (Key × Param)
  chunkOuts : List (Key × Param)
  /-- help strings of the in / out parameters, keyed `i:<id>` / `o:<id>` -/
  helps : List (Key × Key)
  deriving DecidableEq, Repr

def Extra.empty : Extra := { src := [], resources := [], retain := [], chunkIns := [], chunkOuts := [], helps := [] }

structure FullProg where
  core : Prog
  /-- by callable name -/
  extras : List (Key × Extra)
  /-- struct type definitions by name: fields with their types -/
  structs : List (Key × List (Key × Param))

inductive Ignored
  | calleeName (n : Key)
  | volatile (b : Bool)
  | stageSrc (s : Key)
  | resources (s : Key)
  | retain (l : List Key)
  | chunkParams (ins outs : List (Key × Param))
  | fileTypeName (mode : Bool) (param tname : Key)      -- mode: false = in, true = out
  | outName (param name : Key)
  | help (l : List (Key × Key))
  deriving DecidableEq, Repr

def Ignored.kind : Ignored → String
  | .calleeName _ => "calleeName"
  | .volatile _ => "volatile"
  | .stageSrc _ => "stageSrc"
  | .resources _ => "resources"
  | .retain _ => "retain"
  | .chunkParams _ _ => "chunkParams"
  | .fileTypeName _ _ _ => "fileTypeName"
  | .outName _ _ => "outName"
  | .help _ => "help"

abbrev Path := List Key

/-- ignored aspects of a parameter list (`isOut`, `isStage` select the out-name rule) -/
def paramsIgnored (_structs : List (Key × List (Key × Param))) (isOut isStage : Bool)
    (l : List (Key × Param)) : List Ignored :=
  (sortK l).flatMap fun p =>
    (if p.2.fileKind == 2 then [Ignored.fileTypeName isOut p.1 p.2.tname] else []) ++
    (if isOut && (isStage || !(p.2.fileKind == 2 || p.2.fileKind == 3)) then [Ignored.outName p.1 p.2.outName] else [])

def here (path : Path) (l : List Ignored) : List (Path × Ignored) := l.map fun i => (path, i)

/-- everything under a call that the comparison does not look at -/
def ignoredCall (p : FullProg) : Nat → Path → Call → List (Path × Ignored)
  | 0, _, _ => []
  | n + 1, path, c =>
    let at_ := path ++ [c.id]
    let x := (lookupL c.decId p.extras).getD Extra.empty
    here at_ [.calleeName c.decId, .volatile c.mods.volatile] ++
    match lookupL c.decId p.core.tab with
    | none => []
    | some (.stage _ i o) =>
        here at_ ([.stageSrc x.src, .resources x.resources, .retain (sortKeys x.retain),
          .chunkParams (sortK x.chunkIns) (sortK x.chunkOuts), .help (sortK x.helps)] ++
          paramsIgnored p.structs false true i ++ paramsIgnored p.structs true true o)
    | some (.pipeline i o cs _) =>
        here at_ ([.retain (sortKeys x.retain), .help (sortK x.helps)] ++
          paramsIgnored p.structs false false i ++ paramsIgnored p.structs true false o) ++
        (sortK (keyed cs)).flatMap fun q => ignoredCall p n at_ q.2

/-! ## struct type definitions (the second pass of `Ast.EquivalentCall`: `structComparer`) -/

abbrev Structs := List (Key × List (Key × Param))

/-- `structComparer.typeName` / `.member`: neither name is a struct, or both are
and the structs have the same member names, the members agree like parameters
(`inParamEq`) and have equivalent types.  `fuel` bounds the nesting (compile
rejects a struct that contains itself; members refer to earlier types). -/
def structTreeEq (SA SB : Structs) : Nat → Key → Key → Bool
  | 0, _, _ => true
  | n + 1, t, u =>
    match lookupL t SA, lookupL u SB with
    | none, none => true
    | some fa, some fb =>
        matchAll (fun x y => inParamEq x y && structTreeEq SA SB n x.tname y.tname) fa fb
    | _, _ => false

/-- `structComparer.inParams` / `.outParams` loop body -/
def tyEq (SA SB : Structs) (fs : Nat) (x y : Param) : Bool := structTreeEq SA SB fs x.tname y.tname

def typesCallable (SA SB : Structs) (fs : Nat) (rec : Call → Call → Bool) : Callable → Callable → Bool
  | .stage _ i o, .stage _ i' o' => matchAll (tyEq SA SB fs) i i' && matchAll (tyEq SA SB fs) o o'
  | .pipeline i o cs _, .pipeline i' o' cs' _ =>
      matchAll (tyEq SA SB fs) i i' && matchAll (tyEq SA SB fs) o o' &&
      matchAll rec (keyed cs) (keyed cs')
  | _, _ => false

/-- `structComparer.call` -/
def typesCall (SA SB : Structs) (fs : Nat) : Nat → Tab → Tab → Call → Call → Bool
  | 0, _, _, _, _ => true
  | n + 1, T, U, c, d =>
    match lookupL c.decId T, lookupL d.decId U with
    | none, none => true
    | some x, some y => typesCallable SA SB fs (typesCall SA SB fs n T U) x y
    | _, _ => false

/-- the unfolded definition of a type: not a struct, or the struct's members
(sorted by name) with what is compared of each and its own unfolded type -/
inductive TyTree
  | cut
  | leaf
  | node (fields : List (Key × (SemParam × TyTree)))

def tyTree (S : Structs) : Nat → Key → TyTree
  | 0, _ => .cut
  | n + 1, t =>
    match lookupL t S with
    | none => .leaf
    | some fs => .node (sortK (fs.map fun f => (f.1, (semIn f.2, tyTree S n f.2.tname))))

/-- the struct definitions under a call: per callable the unfolded types of its
parameters, per pipeline those of its calls -/
inductive TSem
  | cut
  | missing
  | stage (ins outs : List (Key × TyTree))
  | pipeline (ins outs : List (Key × TyTree)) (calls : List (Key × TSem))

def typesSemCallable (S : Structs) (fs : Nat) (rec : Call → TSem) : Callable → TSem
  | .stage _ i o =>
      .stage (sortK (i.map fun p => (p.1, tyTree S fs p.2.tname))) (sortK (o.map fun p => (p.1, tyTree S fs p.2.tname)))
  | .pipeline i o cs _ =>
      .pipeline (sortK (i.map fun p => (p.1, tyTree S fs p.2.tname))) (sortK (o.map fun p => (p.1, tyTree S fs p.2.tname)))
        (sortK ((keyed cs).map fun p => (p.1, rec p.2)))

def typesSem (S : Structs) (fs : Nat) : Nat → Tab → Call → TSem
  | 0, _, _ => .cut
  | n + 1, T, c =>
    match lookupL c.decId T with
    | none => .missing
    | some x => typesSemCallable S fs (typesSem S fs n T) x

/-- struct tables as Go holds them: member names of a struct are distinct -/
def structsWf (S : Structs) : Bool := S.all (fun s => nodupKeys s.2)

def sfuel (a b : FullProg) : Nat := a.structs.length + b.structs.length + 1

/-- `Ast.EquivalentCall`: the call comparison and, when `structsCompared` (the
regenerated fact: the second pass exists), the struct definitions. -/
def equivalentCallFull (selfCompare structsCompared : Bool) (a b : FullProg) : Bool :=
  equivalentCall selfCompare a.core b.core &&
  (!structsCompared ||
    typesCall a.structs b.structs (sfuel a b) (Prog.fuel a.core b.core) a.core.tab b.core.tab a.core.call b.core.call)

structure Meaning where
  /-- what `EquivalentCall` compares: `equivalentCallFull a b ↔ compared a = compared b`:
  the unfolded call tree and the unfolded struct definitions of its parameters -/
  compared : Sem × TSem
  /-- what it deliberately (or not) does not look at -/
  ignored : List (Path × Ignored)

def meaning (n fs : Nat) (p : FullProg) : Meaning :=
  { compared := (semCall n p.core.tab p.core.call, typesSem p.structs fs n p.core.tab p.core.call),
    ignored := ignoredCall p n [] p.core.call }

/-- the kinds of ignored aspects in which two programs differ (for the driver) -/
def ignoredDiffKinds (a b : List (Path × Ignored)) : List String :=
  let d := (a.filter fun x => !b.contains x) ++ (b.filter fun x => !a.contains x)
  (d.map fun x => x.2.kind).eraseDups

end Martian.Equiv

namespace Martian.Equiv
open Martian.SortKeys

/-! ## the meaning with EXPLICIT fuel exhaustion

`semCall` is fuel-bounded (`Prog.fuel`); at fuel 0 it is `.cut`.  `semCallO` returns
`none` exactly when the unfolding would be cut.  `Props.C15.sem_fuel_stable`: when it
succeeds at a fuel, `semCall` is that meaning at this and every larger fuel, so the
verdict of the comparison does not depend on the fuel either (`equiv_fuel_stable`). -/

def seqO {α : Type} : List (Option α) → Option (List α)
  | [] => some []
  | none :: _ => none
  | some a :: rest => (seqO rest).map (a :: ·)

def semCallableO (rec : Call → Option Sem) : Callable → Option Sem
  | .stage s i o =>
      some (.stage s (sortK (i.map fun p => (p.1, semIn p.2))) (sortK (o.map fun p => (p.1, semOut false p.2))))
  | .pipeline i o cs r =>
      (seqO ((keyed cs).map fun p => (rec p.2).map fun s => (p.1, s))).map fun l =>
        .pipeline (sortK (i.map fun p => (p.1, semIn p.2))) (sortK (o.map fun p => (p.1, semOut true p.2)))
          (semBinds r) (sortK l)

def semCallO : Nat → Tab → Call → Option Sem
  | 0, _, _ => none
  | n + 1, T, c =>
      (match lookupL c.decId T with
       | none => some Sem.missing
       | some x => semCallableO (semCallO n T) x).map fun callee =>
        .call c.id (semBinds c.binds) c.mods.isLocal c.mods.preflight (c.mods.disabled.map Exp.sem) callee

end Martian.Equiv
