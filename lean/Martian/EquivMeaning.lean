/-
C15: the FULL meaning of an invocation — everything the runtime builds the
pipestance from, reachable from the top-level call — split into the part that
`Ast.EquivalentCall` compares (`Meaning.compared`, the unfolded tree
`Martian.Equiv.semCall`) and the part it does not look at (`Meaning.ignored`,
one entry per occurrence, tagged with the path of call ids that leads to it).

`Ignored` enumerates, constructor by constructor, what equivalence.go ignores:
  calleeName    the declared name of the called stage/pipeline (only the call's
                own id is compared; "may change if the call is aliased")
  volatile      the call's `volatile` modifier ("volatile is ignored")
  stageSrc      `src <lang> "<path> <args>"` ("stage source code … ignored")
  resources     the stage's `using (threads, mem_gb, vmem_gb, special, volatile = strict)`
  retain        stage `retain (…)` / pipeline `retain (CALL.out, …)` ("VDR retention ignored")
  chunkParams   the `split (in …, out …)` parameters ("split ins/outs are ignored")
  fileTypeName  the type name of a parameter of scalar file kind ("file types may change their names")
  outName       the output file name of a stage output, and of a non-file pipeline output
  help          parameter help strings
  structDef     the DEFINITION of a struct type used by a reachable parameter: only the
                struct's name is compared (not documented as intended — reported by the
                harness as a finding when a changed definition is accepted)
Not part of the meaning at all (purely textual): comments, whitespace, order of
declarations / parameters / bindings / calls / map keys, include structure,
callables and types not reachable from the top-level call.
The static map-call source (`CallStm.Mapping`) is derived from the `split`
bindings, which are compared, and is therefore not a separate component.

Core Lean only.
-/
import Martian.Equiv

namespace Martian.Equiv
open Martian.SortKeys

/-- what `Martian.Equiv.Callable` leaves out of a stage / pipeline declaration -/
structure Extra where
  src : Key
  resources : Key
  retain : List Key
  chunkIns : List (Key × Param)
  chunkOuts : List (Key × Param)
  /-- help strings of the in / out parameters, keyed `i:<id>` / `o:<id>` -/
  helps : List (Key × Key)
  deriving DecidableEq, Repr

def Extra.empty : Extra := { src := [], resources := [], retain := [], chunkIns := [], chunkOuts := [], helps := [] }

structure FullProg where
  core : Prog
  /-- by callable name -/
  extras : List (Key × Extra)
  /-- struct type definitions by name: fields with their types -/
  structs : List (Key × List (Key × Param))

inductive Ignored
  | calleeName (n : Key)
  | volatile (b : Bool)
  | stageSrc (s : Key)
  | resources (s : Key)
  | retain (l : List Key)
  | chunkParams (ins outs : List (Key × Param))
  | fileTypeName (mode : Bool) (param tname : Key)      -- mode: false = in, true = out
  | outName (param name : Key)
  | help (l : List (Key × Key))
  | structDef (name : Key) (fields : List (Key × Param))
  deriving DecidableEq, Repr

def Ignored.kind : Ignored → String
  | .calleeName _ => "calleeName"
  | .volatile _ => "volatile"
  | .stageSrc _ => "stageSrc"
  | .resources _ => "resources"
  | .retain _ => "retain"
  | .chunkParams _ _ => "chunkParams"
  | .fileTypeName _ _ _ => "fileTypeName"
  | .outName _ _ => "outName"
  | .help _ => "help"
  | .structDef _ _ => "structDef"

abbrev Path := List Key

/-- struct definitions reachable from a type name (fuel = number of struct types) -/
def structDefs (structs : List (Key × List (Key × Param))) : Nat → Key → List Ignored
  | 0, _ => []
  | n + 1, t =>
    match lookupL t structs with
    | none => []
    | some fs => .structDef t (sortK fs) :: (sortK fs).flatMap fun f => structDefs structs n f.2.tname

/-- ignored aspects of a parameter list (`isOut`, `isStage` select the out-name rule) -/
def paramsIgnored (structs : List (Key × List (Key × Param))) (isOut isStage : Bool)
    (l : List (Key × Param)) : List Ignored :=
  (sortK l).flatMap fun p =>
    (if p.2.fileKind == 2 then [Ignored.fileTypeName isOut p.1 p.2.tname] else []) ++
    (if isOut && (isStage || !(p.2.fileKind == 2 || p.2.fileKind == 3)) then [Ignored.outName p.1 p.2.outName] else []) ++
    structDefs structs structs.length p.2.tname

def here (path : Path) (l : List Ignored) : List (Path × Ignored) := l.map fun i => (path, i)

/-- everything under a call that the comparison does not look at -/
def ignoredCall (p : FullProg) : Nat → Path → Call → List (Path × Ignored)
  | 0, _, _ => []
  | n + 1, path, c =>
    let at_ := path ++ [c.id]
    let x := (lookupL c.decId p.extras).getD Extra.empty
    here at_ [.calleeName c.decId, .volatile c.mods.volatile] ++
    match lookupL c.decId p.core.tab with
    | none => []
    | some (.stage _ i o) =>
        here at_ ([.stageSrc x.src, .resources x.resources, .retain (sortKeys x.retain),
          .chunkParams (sortK x.chunkIns) (sortK x.chunkOuts), .help (sortK x.helps)] ++
          paramsIgnored p.structs false true i ++ paramsIgnored p.structs true true o)
    | some (.pipeline i o cs _) =>
        here at_ ([.retain (sortKeys x.retain), .help (sortK x.helps)] ++
          paramsIgnored p.structs false false i ++ paramsIgnored p.structs true false o) ++
        (sortK (keyed cs)).flatMap fun q => ignoredCall p n at_ q.2

structure Meaning where
  /-- what `EquivalentCall` compares: `equivalentCall a b ↔ compared a = compared b` -/
  compared : Sem
  /-- what it deliberately (or not) does not look at -/
  ignored : List (Path × Ignored)

def meaning (n : Nat) (p : FullProg) : Meaning :=
  { compared := semCall n p.core.tab p.core.call, ignored := ignoredCall p n [] p.core.call }

/-- the kinds of ignored aspects in which two programs differ (for the driver) -/
def ignoredDiffKinds (a b : List (Path × Ignored)) : List String :=
  let d := (a.filter fun x => !b.contains x) ++ (b.filter fun x => !a.contains x)
  (d.map fun x => x.2.kind).eraseDups

end Martian.Equiv
