/-
C09 model, a whole comment-free MRO file: ACCEPTED SOURCE TEXTS.

`Martian.FormatFile.parseFile` is a RAW reader: the float leaves of every value
expression keep the token text, the `threads` value of every stage keeps the
token text, and `mem_gb` / `vmem_gb` are read EXACTLY (`readGBTok`).  This file
holds what is needed to state the round-trip theorems of section WholeFile over
the source texts the reader accepts, assembling the parts
`Martian.FormatExpText`, `Martian.FormatDeclText`, `Martian.FormatCallText`:

* `canonFile g h`: the file as Go holds it — every float leaf through `g`
  (`canonPipeline g` on the pipelines, `canonCall2 g` on the top-level call),
  the `threads` value of every stage through `h` (`canonStage h`);
  `parseFileGH g h` = `UncheckedParse` (reader, then `canonFile g h`).
* `pDeclsR rd`, `pFileR rd`, `parseFileR rd`: the reader of `dec_list` / `file`
  with the reader of `mem_gb` / `vmem_gb` a parameter (`pStageR rd`).
  `pFileR readGBTok` is `pFile` (`pFileR_exact`, Proofs/FormatFileRange.lean);
  `parseFile32 = parseFileR readGB32Tok` reads the two values through the
  float32 rounding of the literal, as the REAL parser does (F29);
  `parseFile32GH g h` = the real `UncheckedParse`.
* `fileRaw`: the RANGE of the reader on ANY source text (no exception): every
  part in the raw range of its reader (`wfFiletype`, `structRaw`, `stageRaw`,
  `wfPipelineRaw`, `wfCall2Raw`), and at least one declaration or the call.
* the exception hypotheses of the text-side theorems, lifted to the file (Bool,
  evaluated by the driver on what the REAL parser returns):
  `fileStrsValid` (F6b; include paths, struct members, stages, pipelines, the
  call), `fileNoNegZero` (F26), `fileMBValid` (F25) / `fileMB32Valid` (F29),
  `fileModsDistinct` (F40), `fileCallsDistinct` (F34); `fileHyps` =
  `fileHyps32`: the conjunction with `fileMB32Valid` (F29's range is the range
  of `wfFile`; F25's is subsumed).

Core Lean only.
-/
import Martian.FormatFile
import Martian.FormatDeclText
import Martian.FormatCallText

namespace Martian.FormatFile
open Martian.Lexer (Bytes)
open Martian.FormatExp Martian.FormatDecl Martian.FormatCall2
open Martian.FormatStage (Stage pStageR canonStage stageStrsValid stageMBValid stageMB32Valid stageRaw)
open Martian.FormatPipe (Pipeline pPipeline)
open Martian.FormatRes (sStage)
open Martian.FormatCallText (canonCall2 canonPipeline wfCall2Raw wfPipelineRaw call2StrsValid
  call2NoNegZero modsDistinct pipeStrsValid pipeNoNegZero pipeModsDistinct pipeCallsDistinct)

/-! ## the file as Go holds it -/

def canonCallable (g h : Bytes → Bytes) : Callable → Callable
  | .stage s => .stage (canonStage h s)
  | .pipeline p => .pipeline (canonPipeline g p)

/-- every float leaf of every expression through `g`, the `threads` value of every stage
through `h`; includes, filetypes and structs hold no number -/
def canonFile (g h : Bytes → Bytes) (f : File) : File :=
  ⟨f.includes, f.filetypes, f.structs, f.callables.map (canonCallable g h), f.call.map (canonCall2 g)⟩

/-- `Parser.UncheckedParse` on a comment-free source, as Go holds the result; `mem_gb` / `vmem_gb`
read exactly -/
def parseFileGH (g h : Bytes → Bytes) (src : Bytes) : Option File := (parseFile src).map (canonFile g h)

/-! ## the reader with the reader of `mem_gb` / `vmem_gb` a parameter -/

/-- `pDecls` with `pStageR rd` for `pStage` -/
def pDeclsR (rd : Tok → Option Int) : Nat → List Tok → Option (List Decl × List Tok)
  | 0, _ => none
  | f + 1, ts =>
    match decKind ts with
    | 1 =>
      match pFiletypeDecl ts with
      | some (t, r) => (pDeclsR rd f r).map fun (ds, r') => (.filetype t :: ds, r')
      | none => none
    | 2 =>
      match pStructDecl ts with
      | some (s, r) => (pDeclsR rd f r).map fun (ds, r') => (.struct s :: ds, r')
      | none => none
    | 3 =>
      match pStageR rd ts with
      | some (s, r) => (pDeclsR rd f r).map fun (ds, r') => (.stage s :: ds, r')
      | none => none
    | 4 =>
      match pPipeline ts with
      | some (p, r) => (pDeclsR rd f r).map fun (ds, r') => (.pipeline p :: ds, r')
      | none => none
    | _ => some ([], ts)

/-- `pFile` with `pDeclsR rd` for `pDecls` -/
def pFileR (rd : Tok → Option Int) (ts : List Tok) : Option File :=
  match pIncludes (ts.length + 1) ts with
  | some (incs, r0) =>
    match pDeclsR rd (ts.length + 1) r0 with
    | some (ds, []) => if ds.isEmpty then none else some (distribute incs ds none)
    | some (ds, r1) =>
      match pCall2 r1 with
      | some (c, []) => some (distribute incs ds (some c))
      | _ => none
    | none => none
  | none => none

def parseFileR (rd : Tok → Option Int) (src : Bytes) : Option File := (lexAll src).bind (pFileR rd)

/-- a comment-free source read as the REAL parser reads it: `mem_gb` / `vmem_gb` of every stage
through the float32 rounding of the literal (`readGB32Tok`) -/
def parseFile32 (src : Bytes) : Option File := parseFileR Martian.FormatRes.readGB32Tok src

/-- … and with the numbers as Go holds them: the real `UncheckedParse` -/
def parseFile32GH (g h : Bytes → Bytes) (src : Bytes) : Option File := (parseFile32 src).map (canonFile g h)

/-! ## the range of the reader -/

/-- the range of `struct`: `wfStruct` without the validity of help texts and out names -/
def structRaw (s : Struct) : Bool := isIdent s.id && !s.members.isEmpty && s.members.all memberRaw

def callableRaw : Callable → Bool
  | .stage s => stageRaw s
  | .pipeline p => wfPipelineRaw p

def declRaw : Decl → Bool
  | .filetype t => wfFiletype t
  | .struct s => structRaw s
  | .stage s => stageRaw s
  | .pipeline p => wfPipelineRaw p

def callOptRaw : Option Call2 → Bool
  | some c => wfCall2Raw c
  | none => true

/-- the range of the file reader on ANY source text: `wfFile` without the validity of the strings
(include paths are whatever `unquote` returned), and with every part in the raw range of its
reader — float leaves and `threads` as token texts, no bound on `mem_gb` / `vmem_gb`, no
distinctness of modifier ids or call ids -/
def fileRaw (f : File) : Bool :=
  f.filetypes.all wfFiletype && f.structs.all structRaw && f.callables.all callableRaw &&
    callOptRaw f.call &&
    (!f.filetypes.isEmpty || !f.structs.isEmpty || !f.callables.isEmpty || f.call.isSome)

/-! ## the exception hypotheses, lifted to the file -/

def callableStrsValid : Callable → Bool
  | .stage s => stageStrsValid s
  | .pipeline p => pipeStrsValid p

def callOptAll (q : Call2 → Bool) : Option Call2 → Bool
  | some c => q c
  | none => true

/-- F6b: every string `unquote` produced is valid UTF-8 — the include paths, help texts and out
names of struct members and of the parameters of stages and pipelines, `special` and the src
command of every stage, every string in a binding value of every call -/
def fileStrsValid (f : File) : Bool :=
  f.includes.all Martian.ShellQuote.validUtf8 && f.structs.all declStrsValid &&
    f.callables.all callableStrsValid && callOptAll call2StrsValid f.call

def callableNoNegZero : Callable → Bool
  | .stage _ => true
  | .pipeline p => pipeNoNegZero p

/-- F26: no float leaf `-0` in any binding value -/
def fileNoNegZero (f : File) : Bool := f.callables.all callableNoNegZero && callOptAll call2NoNegZero f.call

def callableMBValid : Callable → Bool
  | .stage s => stageMBValid s
  | .pipeline _ => true

/-- F25: `mem_gb` / `vmem_gb` of every stage below 2^53 GB (not a hypothesis of any theorem any
more: `fileMB32Valid` implies it; kept as the description of F25's range) -/
def fileMBValid (f : File) : Bool := f.callables.all callableMBValid

def callableMB32Valid : Callable → Bool
  | .stage s => stageMB32Valid s
  | .pipeline _ => true

/-- F29: `mem_gb` / `vmem_gb` of every stage below 256 GB in magnitude -/
def fileMB32Valid (f : File) : Bool := f.callables.all callableMB32Valid

def callableModsDistinct : Callable → Bool
  | .stage _ => true
  | .pipeline p => pipeModsDistinct p

/-- F40: no modifier id twice in one `using` block of a call -/
def fileModsDistinct (f : File) : Bool := f.callables.all callableModsDistinct && callOptAll modsDistinct f.call

def callableCallsDistinct : Callable → Bool
  | .stage _ => true
  | .pipeline p => pipeCallsDistinct p

/-- F34: no two calls with the same id in one pipeline -/
def fileCallsDistinct (f : File) : Bool := f.callables.all callableCallsDistinct

/-- the exception hypotheses of the text-side theorems (about the reader with the EXACT reading of
`mem_gb` / `vmem_gb` and about the reader with the REAL float32 reading alike): F6b, F26, F29, F40,
F34.  The resource conjunct is `fileMB32Valid` (every `mem_gb` / `vmem_gb` below 256 GB in magnitude,
`wfMB`): the range where the exact reading of the model and the float32 reading of the real parser
agree on what `formatGB` prints, and the range of `wfFile`; F25 (`fileMBValid`, below 2^53 GB) is
subsumed. -/
def fileHyps (f : File) : Bool :=
  fileStrsValid f && fileNoNegZero f && fileMB32Valid f && fileModsDistinct f && fileCallsDistinct f

/-- the same conjunction under the name the float32-reader theorems use (`fileHyps32 f = fileHyps f`
by `rfl`: `Proofs.FormatFileRangeText.fileHyps32_eq`) -/
def fileHyps32 (f : File) : Bool :=
  fileStrsValid f && fileNoNegZero f && fileMB32Valid f && fileModsDistinct f && fileCallsDistinct f

/-! ## a sample source text (Props.C09 section AcceptedFileTexts; served to the harness by the
driver op `C09.filesample`, which ties both texts to the real parser and formatter) -/

/-- the bytes of ASCII strings, concatenated (short pieces: the kernel evaluates `String.toList`
of a literal in time quadratic in its length) -/
def asciiCat : List String → Bytes
  | [] => []
  | s :: r => (s.toList.map fun c => UInt8.ofNat c.toNat) ++ asciiCat r

/-- a whole file in non-canonical spelling: an include; a pipeline BEFORE the filetype `json.gz` it
uses, its three calls all out of dependency order (`C` needs `B` and `A`, `B` needs `A`), keyword
modifiers `local volatile`, `1e3`, `007`, duplicate map keys; a `filetype` with blanks around the
dot; a stage on the same line with `split using (`, the resources in source order `threads, memgb,
volatile, threads, vmem_gb` (repeated key: the last wins; `memgb` is `mem_gb`; `007`, `1e0`,
`0.50`); a struct AFTER the stage; the call; four comments, tabs, blank lines, no final newline -/
def sampleFileText : Bytes := asciiCat [
  "@include \"a.mro\"  # c\n\n\n",
  "pipeline P(in int a \"h\", out map<int[]>[] r,",
  "out json.gz,){ # c\n",
  "  map call C(x = split B.o, * = self,) ",
  "using (disabled = A.d,)\n",
  " call local volatile B(y = [A.o, 1e3],) ",
  "call A(z = {\"b\":self.a, \"a\":007, \"b\":null},)\n",
  " return (r = C.o,) retain (C.o,) }\n",
  "filetype  json . gz ;",
  "stage S ( in int a \"\\u0041\" , out float , ",
  "src py \"x.py  -v\" ,# c\n ) ",
  "split using ( in int c , ) ",
  "using ( threads = 007 , memgb = 1e0 , ",
  "volatile = strict , threads=0.50, ",
  "vmem_gb = 0.50,) retain ( a , )\n",
  "\tstruct  T ( int a \"h\" ,",
  "map<json.gz[ ]>[] b , )\n",
  " call P ( a = 1e3 , )"]

/-- what the formatter makes of it: includes, filetypes, structs, callables (source order), call;
the calls of `P` in dependency order `A, B, C` -/
def sampleFileCanon : Bytes := asciiCat [
  "@include \"a.mro\"\n\nfiletype json.gz;\n\nstruct T(\n",
  "    int              a \"h\",\n    map<json.gz[]>[] b,\n)\n\n",
  "pipeline P(\n    in  int          a        \"h\",\n",
  "    out map<int[]>[] r,\n    out json.gz,\n)\n{\n    call A(\n",
  "        z = {\n            \"a\": 7,\n            \"b\": null,\n",
  "        },\n    )\n\n    call B(\n        y = [\n            A.o,\n",
  "            1000,\n        ],\n    ) using (\n",
  "        local    = true,\n        volatile = true,\n    )\n\n",
  "    map call C(\n        x = split B.o,\n        * = self,\n",
  "    ) using (\n        disabled = A.d,\n    )\n\n    return (\n",
  "        r = C.o,\n    )\n\n    retain (\n        C.o,\n    )\n}\n\n",
  "stage S(\n    in  int   a        \"A\",\n    out float,\n",
  "    src py    \"x.py -v\",\n) split (\n    in  int   c,\n) using (\n",
  "    mem_gb   = 1,\n    threads  = 0.5,\n    vmem_gb  = 0.5,\n",
  "    volatile = strict,\n) retain (\n    a,\n)\n\ncall P(\n",
  "    a = 1000,\n)\n"]

/-- for the examples: the id of a callable and the callee names of its calls in order -/
def callableCalls : Callable → Bytes × List Bytes
  | .stage s => (s.id, [])
  | .pipeline p => (p.id, p.body.calls.map (·.decId))

/-- for the examples: `mem_gb` (in MB) of every stage of the file -/
def fileMems (f : File) : List (Option Int) :=
  f.callables.filterMap fun c => match c with
    | .stage s => some (s.res.bind (·.mem))
    | .pipeline _ => none

end Martian.FormatFile
