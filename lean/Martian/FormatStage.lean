/-
C09 model, part 5: whole `stage` declarations — the printer of
martian/syntax/format_callable.go `Stage.format` (all of it but comments) and
the reader of grammar.y `stage` / `split_param_list`, assembled from the
parameter lists of `Martian.FormatDecl` and the trailing clauses of
`Martian.FormatRes`, on the tokens of `Martian.FormatExp`.

* `Stage`: Go's `syntax.Stage` without positions and comments: `Id`,
  `InParams`, `OutParams`, `Src.{Lang, Path, Args}`, `Split`, `ChunkIns`,
  `ChunkOuts`, `Resources` (`none` = nil), `Retain` (`none` = nil; `some ids` =
  the ids of `Retain.Params`).
* `fmtStage` follows `Stage.format` line by line:
  `measureParamsWidths(InParams, OutParams, ChunkIns, ChunkOuts)` (`stageWidths`;
  the chunk lists count whether or not the stage is split), `modeWidth =
  max(modeWidth, len("src"))` (`modeW`), the in and out parameters, the src line
  with `(modeWidth, typeWidth)`, then THE QUIRK `if idWidth > 30 || helpWidth >
  20 { _, _, idWidth, helpWidth = measureParamsWidths(ChunkIns, ChunkOuts) }`
  (`chunkW`: the id and help columns of the chunk parameters are re-measured
  over the chunk lists alone only when the overall id column is wider than 30 or
  the overall help column wider than 20; the mode and type columns never are),
  `) split (` newline and the chunk parameters when `Split`, the `using` and
  `retain` clauses when present, `)` newline.
* `pStage`: `STAGE id '(' in_param_list out_param_list src_stm ')'
  split_param_list resources stage_retain` on a token list, returning the tokens
  after the declaration (a file is a sequence of declarations).
  `split_param_list` is empty, `SPLIT USING '(' … ')'` or `SPLIT '(' … ')'`
  (LALR(1): after the `)` that closes the first block a SPLIT token is shifted;
  after SPLIT a USING token is shifted); both parameter lists of either block
  may be empty (`split ()` is a split stage without chunk parameters).
  `parseStage`: a file that consists of one stage declaration.
* `wfStage`: what the parser can produce (and the printer is claimed for).

Core Lean only.
-/
import Martian.FormatDecl
import Martian.FormatRes

namespace Martian.FormatStage
open Martian.Lexer (Bytes)
open Martian.FormatExp
open Martian.FormatDecl (Param fmtParams widths maxWidths pInParams pOutParams wfParam)
open Martian.FormatRes (Lang Res fmtSrc fmtTail pSrc sStage sUsing wfSrc wfRes wfRetain)

/-- `syntax.Stage` -/
structure Stage where
  id : Bytes
  ins : List Param
  outs : List Param
  lang : Lang
  path : Bytes
  args : List Bytes
  split : Bool
  chunkIns : List Param
  chunkOuts : List Param
  res : Option Res
  retain : Option (List Bytes)
  deriving Repr, DecidableEq, Inhabited

/-! ## printer -/

/-- `measureParamsWidths(self.InParams, self.OutParams, self.ChunkIns, self.ChunkOuts)` -/
def stageWidths (s : Stage) : Nat × Nat × Nat × Nat :=
  maxWidths [widths s.ins, widths s.outs, widths s.chunkIns, widths s.chunkOuts]

/-- `modeWidth = max(modeWidth, len("src"))` -/
def modeW (s : Stage) : Nat := max (stageWidths s).1 3

def typeW (s : Stage) : Nat := (stageWidths s).2.1

def idW (s : Stage) : Nat := (stageWidths s).2.2.1

def helpW (s : Stage) : Nat := (stageWidths s).2.2.2

/-- `if idWidth > 30 || helpWidth > 20 { _, _, idWidth, helpWidth =
measureParamsWidths(self.ChunkIns, self.ChunkOuts) }`: (idWidth, helpWidth) for
the chunk parameters -/
def chunkW (s : Stage) : Nat × Nat :=
  if idW s > 30 ∨ helpW s > 20 then
    ((maxWidths [widths s.chunkIns, widths s.chunkOuts]).2.2.1,
      (maxWidths [widths s.chunkIns, widths s.chunkOuts]).2.2.2)
  else (idW s, helpW s)

/-- `) split (` newline -/
def sSplitOpen : Bytes := [0x29, 0x20] ++ sSplit ++ [0x20, 0x28, 0x0A]

/-- the split block of `Stage.format`: nothing for a stage that is not split -/
def fmtSplit (s : Stage) : Bytes :=
  if s.split then
    sSplitOpen ++ fmtParams (modeW s) (typeW s) (chunkW s).1 (chunkW s).2 s.chunkIns ++
      fmtParams (modeW s) (typeW s) (chunkW s).1 (chunkW s).2 s.chunkOuts
  else []

/-- `Stage.format` (no comments) -/
def fmtStage (s : Stage) : Bytes :=
  sStage ++ [0x20] ++ s.id ++ [0x28, 0x0A] ++
    fmtParams (modeW s) (typeW s) (idW s) (helpW s) s.ins ++
    fmtParams (modeW s) (typeW s) (idW s) (helpW s) s.outs ++
    fmtSrc (modeW s) (typeW s) s.lang s.path s.args ++
    fmtSplit s ++ fmtTail s.res s.retain

/-! ## reader -/

/-- after SPLIT: an optional USING -/
def skipUsing : List Tok → List Tok
  | .id u :: r => if u = sUsing then r else .id u :: r
  | ts => ts

/-- `'(' in_param_list out_param_list` of a split block (its `)` is left: it is
the one `resources stage_retain` start after) -/
def pChunk (f : Nat) : List Tok → Option ((List Param × List Param) × List Tok)
  | .punct c :: r =>
    if c = 0x28 then
      match pInParams f r with
      | some (ci, r1) =>
        match pOutParams f r1 with
        | some (co, r2) => some ((ci, co), r2)
        | none => none
      | none => none
    else none
  | _ => none

/-- `')' split_param_list` up to (not including) the `)` that ends the part
before `resources`: for a stage that is not split nothing is consumed -/
def pSplit (f : Nat) : List Tok → Option ((Bool × List Param × List Param) × List Tok)
  | .punct c :: .id w :: ts =>
    if c = 0x29 ∧ w = sSplit then
      match pChunk f (skipUsing ts) with
      | some ((ci, co), r) => some ((true, ci, co), r)
      | none => none
    else some ((false, [], []), .punct c :: .id w :: ts)
  | ts => some ((false, [], []), ts)

/-- `in_param_list out_param_list src_stm ')' split_param_list resources
stage_retain` (after `STAGE id '('`) -/
def pStageBody (f : Nat) (name : Bytes) (ts : List Tok) : Option (Stage × List Tok) :=
  match pInParams f ts with
  | some (ins, r1) =>
    match pOutParams f r1 with
    | some (outs, r2) =>
      match pSrc r2 with
      | some ((lang, path, args), r3) =>
        match pSplit f r3 with
        | some ((sp, ci, co), r4) =>
          match Martian.FormatRes.pTail r4 with
          | some ((res, ret), rest) =>
            some (⟨name, ins, outs, lang, path, args, sp, ci, co, res, ret⟩, rest)
          | none => none
        | none => none
      | none => none
    | none => none
  | none => none

/-- `stage` at the head of a token list; returns the declaration and the
tokens after it -/
def pStage (ts : List Tok) : Option (Stage × List Tok) :=
  match ts with
  | .reserved w :: .id name :: .punct c :: r =>
    if w = sStage ∧ c = 0x28 then pStageBody (ts.length + 1) name r else none
  | _ => none

/-- a token list that is exactly one stage declaration -/
def pStageAll (ts : List Tok) : Option Stage :=
  match pStage ts with
  | some (s, []) => some s
  | _ => none

/-- a file that consists of one `stage` declaration -/
def parseStage (src : Bytes) : Option Stage := (lexAll src).bind pStageAll

/-! ## the values the parser can produce -/

def isIn (p : Param) : Bool := !p.out

def isOut (p : Param) : Bool := p.out

/-- ids are identifiers; the parameters are well-formed and of the mode of
their list; a stage that is not split has no chunk parameters; src line,
resources and retain list are well-formed -/
def wfStage (s : Stage) : Bool :=
  isIdent s.id &&
  s.ins.all wfParam && s.ins.all isIn && s.outs.all wfParam && s.outs.all isOut &&
  s.chunkIns.all wfParam && s.chunkIns.all isIn && s.chunkOuts.all wfParam && s.chunkOuts.all isOut &&
  (s.split || (s.chunkIns.isEmpty && s.chunkOuts.isEmpty)) &&
  wfSrc s.path s.args &&
  (match s.res with | some r => wfRes r | none => true) &&
  (match s.retain with | some ids => wfRetain ids | none => true)

end Martian.FormatStage
