/-
C08 model: the goyacc PARSER DRIVER (`mmParse` / `(*mmParserImpl).Parse` and
`mmlex1`, `mmErrorMessage` of martian/syntax/grammar.go), run on the constant
tables of that file.

* `Tab`: a table, chunked by 32 (`tab[i/32][i%32]`; the kernel evaluates that
  quickly).  `Tab.get?` = a Go slice index: `none` is the run-time panic "index
  out of range".
* `Tables`: `mmExca mmAct mmPact mmPgo mmR1 mmR2 mmChk mmDef mmTok1 mmTok2
  mmTok3` and the constants, all re-read from grammar.go on every run
  (`Martian.LexerLRGen.genTables`).
* `lex1` = `mmlex1` (the translation of the scanner's token id into the
  parser's token number), `action` = the decision the loop takes in state `s`
  on token `tok` (labels `mmnewstate` / `mmdefault`: shift, reduce by default
  or exception table, accept, error), `gotoState` = the goto computation after
  a reduction, `step` = one round of the loop from `mmnewstate` to the next
  `mmnewstate` (shift / reduce / accept / error recovery with `Errflag`),
  `run` = the loop.
* The semantic actions are abstracted: a reduction pops `mmR2[n]` entries and
  pushes the goto state, values are ignored; the actions that can abort the
  parse (`return 1`; only productions in `failProds`, regenerated) are an
  arbitrary oracle `fail : Nat → Bool` on the index of the reduce event (Martian/LexerActions.lean models those actions; the
  totality theorems hold for every oracle).
* `Event`: the lines the real loop prints with `mmDebug = 4`, which the harness
  compares with the real parser's own output.

Core Lean only.
-/
namespace Martian.LexerLR

abbrev Tab (α : Type) := List (List α)

def Tab.get? {α : Type} (t : Tab α) (i : Int) : Option α :=
  if i < 0 then none else (t[i.toNat / 32]?).bind (·[i.toNat % 32]?)

def Tab.size {α : Type} (t : Tab α) : Nat := (t.map List.length).sum

structure Tables where
  exca : Tab Int
  act : Tab Int
  pact : Tab Int
  pgo : Tab Int
  r1 : Tab Int
  r2 : Tab Int
  chk : Tab Int
  dfl : Tab Int
  tok1 : Tab Int
  tok2 : Tab Int
  tok3 : Tab Int
  last : Int
  priv : Int
  flag : Int
  errCode : Int
  eofCode : Int
  ntoknames : Nat
  nerrmsgs : Nat
  failProds : List Nat   -- the productions whose semantic action contains a `return` (can abort the parse)

/-! ## `mmlex1` -/

/-- the loop over `mmTok3` (pairs); `token` keeps the last first component read -/
def tok3loop (T : Tables) (char : Int) : Nat → Int → Int → Option Int
  | 0, _, token => some token
  | f + 1, i, token =>
    if i < (T.tok3.size : Int) then
      (T.tok3.get? i).bind fun t =>
        if t == char then T.tok3.get? (i + 1) else tok3loop T char f (i + 2) t
    else some token

/-- `mmlex1` after `char = lex.Lex(lval)`: the internal token number -/
def lex1 (T : Tables) (char : Int) : Option Int :=
  let t0 : Option Int :=
    if char ≤ 0 then T.tok1.get? 0
    else if char < (T.tok1.size : Int) then T.tok1.get? char
    else if char ≥ T.priv && char < T.priv + (T.tok2.size : Int) then T.tok2.get? (char - T.priv)
    else tok3loop T char (T.tok3.size + 1) 0 0
  t0.bind fun token => if token == 0 then T.tok2.get? 1 else some token

/-! ## the decision in a state -/

inductive Act
  | shift (s : Nat)
  | reduce (n : Nat)
  | accept
  | error
  deriving Repr, DecidableEq

/-- first loop over `mmExca`: find the pair `(-1, state)`; returns the index
of that pair (`none` = the loop runs off the table) -/
def excaFind (T : Tables) (s : Int) : Nat → Int → Option Int
  | 0, _ => none
  | f + 1, xi =>
    match T.exca.get? xi, T.exca.get? (xi + 1) with
    | some a, some b => if a == -1 && b == s then some xi else excaFind T s f (xi + 2)
    | _, _ => none

/-- second loop: from `xi` on, the first pair whose first component is negative
or the token; returns `mmExca[xi+1]` -/
def excaScan (T : Tables) (tok : Int) : Nat → Int → Option Int
  | 0, _ => none
  | f + 1, xi =>
    match T.exca.get? xi with
    | some a => if a < 0 || a == tok then T.exca.get? (xi + 1) else excaScan T tok f (xi + 2)
    | none => none

def excaLookup (T : Tables) (s : Nat) (tok : Int) : Option Int :=
  (excaFind T s (T.exca.size + 1) 0).bind fun xi => excaScan T tok (T.exca.size + 1) (xi + 2)

/-- the shift test of `mmnewstate` for a state whose `mmPact` entry is `p`:
`some (some a)` = valid shift to `a`, `some none` = no shift, `none` = index
panic.  (`mmErrorMessage` runs the same test for every token name.) -/
def shiftProbe (T : Tables) (p : Int) (tok : Int) : Option (Option Int) :=
  let n := p + tok
  if n < 0 || n ≥ T.last then some none
  else
    (T.act.get? n).bind fun a =>
      (T.chk.get? a).bind fun c => if c == tok then some (some a) else some none

/-- does the loop need the lookahead token in state `s`? -/
def needsLA (T : Tables) (s : Nat) : Option Bool :=
  (T.pact.get? s).bind fun p => (T.dfl.get? s).bind fun d => some (decide (p > T.flag) || d == -2)

def action (T : Tables) (s : Nat) (tok : Int) : Option Act :=
  (T.pact.get? s).bind fun p =>
    let sh : Option (Option Int) := if p ≤ T.flag then some none else shiftProbe T p tok
    sh.bind fun sh =>
      match sh with
      | some a => some (.shift a.toNat)
      | none =>
        (T.dfl.get? s).bind fun d =>
          if d == -2 then
            (excaLookup T s tok).bind fun n =>
              if n < 0 then some .accept else if n == 0 then some .error else some (.reduce n.toNat)
          else if d == 0 then some .error
          else if d < 0 then none        -- goyacc never emits this; treated as a defect of the tables
          else some (.reduce d.toNat)

/-- the goto state after reducing to nonterminal `A` with `t` exposed -/
def gotoState (T : Tables) (t : Nat) (A : Int) : Option Int :=
  (T.pgo.get? A).bind fun g =>
    let j := g + t + 1
    if j ≥ T.last then T.act.get? g
    else
      (T.act.get? j).bind fun s2 =>
        (T.chk.get? s2).bind fun c => if c != -A then T.act.get? g else some s2

/-- is there a shift on `error` in state `st` (error recovery)?  `some (some s')`
/ `some none` / `none` = panic -/
def errorShift (T : Tables) (st : Nat) : Option (Option Int) :=
  (T.pact.get? st).bind fun p =>
    let n := p + T.errCode
    if n ≥ 0 && n < T.last then
      (T.act.get? n).bind fun a => (T.chk.get? a).bind fun c => if c == T.errCode then some (some a) else some none
    else some none

/-- index safety of `mmErrorMessage(state, lookAhead)` (with `mmErrorVerbose`;
no `mmErrorMessages` entries): the shift probe for every token name, and the
exception-table walk -/
def errMsgSafe (T : Tables) (s : Nat) : Bool :=
  match T.pact.get? s, T.dfl.get? s with
  | some p, some d =>
    ((List.range (T.ntoknames + 1)).all fun tok => decide (tok < 4) || (shiftProbe T p tok).isSome) &&
    (d != -2 || (excaLookup T s (-1)).isSome)
  | _, _ => false

/-! ## the loop -/

inductive Event
  | push (s : Nat)                 -- `char … in state-s` at label mmstack
  | lex (token : Int) (char : Int) -- `lex TOKEN(char)` in mmlex1
  | reduce (n s : Nat)             -- `reduce n in: state-s`
  | err (s : Nat) (token : Int)    -- `state-s saw TOKEN`
  | pop (s : Nat)                  -- `error recovery pops state s`
  | discard (token : Int)          -- `error recovery discards TOKEN`
  deriving Repr, DecidableEq

structure Cfg where
  stack : List Nat               -- states, top first
  la : Option (Int × Int)        -- lookahead (char, token); `none` = `mmrcvr.char < 0`
  errflag : Nat
  input : List Int               -- what `Lex` will still return (then 0 for ever)
  nread : Nat                    -- calls of `Lex` so far
  nred : Nat                     -- reduce events so far
  deriving Repr

inductive Step
  | cont (c : Cfg) (evs : List Event)
  | done (result : Nat) (evs : List Event) (syntaxErrorAt : Option Nat) (c : Cfg)
  | panic
  deriving Repr

/-- make sure there is a lookahead (`if mmrcvr.char < 0 { mmlex1 }`) -/
def ensureLA (T : Tables) (c : Cfg) : Option (Cfg × List Event) :=
  match c.la with
  | some _ => some (c, [])
  | none =>
    let (char, rest) : Int × List Int :=
      match c.input with
      | x :: r => (x, r)
      | [] => (0, [])
    (lex1 T char).bind fun tok =>
      some ({ c with la := some (char, tok), input := rest, nread := c.nread + 1 }, [.lex tok char])

/-- error recovery, cases `Errflag` 0/1/2: pop until a state shifts `error` -/
def recover (T : Tables) : List Nat → List Event → Option (Option (List Nat) × List Event)
  | [], evs => some (none, evs)
  | st :: below, evs =>
    match errorShift T st with
    | none => none
    | some (some a) => some (some (a.toNat :: st :: below), evs ++ [.push a.toNat])
    | some none => recover T below (evs ++ [.pop st])

/-- `mmtoken` (−1 when there is no lookahead) -/
def laTok : Option (Int × Int) → Int
  | some (_, t) => t
  | none => -1

def step (T : Tables) (fail : Nat → Bool) (c : Cfg) : Step :=
  match c.stack with
  | [] => .panic
  | s :: below =>
    match needsLA T s with
    | none => .panic
    | some need =>
      match (if need then ensureLA T c else some (c, [])) with
      | none => .panic
      | some (c1, ev1) =>
        let tok : Int := laTok c1.la
        match action T s tok with
        | none => .panic
        | some (.shift s') =>
          .cont { c1 with stack := s' :: s :: below, la := none, errflag := c1.errflag - 1 } (ev1 ++ [.push s'])
        | some .accept => .done 0 ev1 none c1
        | some (.reduce n) =>
          -- tables first (mmR2, mmR1, mmPgo, mmAct, mmChk), then the semantic action, then the push
          match T.r2.get? n, T.r1.get? n with
          | some k, some A =>
            if k < 0 then .panic else
            match (s :: below).drop k.toNat with
            | [] => .panic                      -- `mmS[mmp]` with mmp < 0
            | t :: rest =>
              match gotoState T t A with
              | none => .panic
              | some s2 =>
                if s2 < 0 then .panic else
                let evs := ev1 ++ [.reduce n s]
                if T.failProds.contains n && fail c1.nred then .done 1 evs none { c1 with nred := c1.nred + 1 }
                else .cont { c1 with stack := s2.toNat :: t :: rest, nred := c1.nred + 1 } (evs ++ [.push s2.toNat])
          | _, _ => .panic
        | some .error =>
          match c1.errflag with
          | 3 =>
            -- no shift yet; clobber the input char
            if tok == T.eofCode then .done 1 (ev1 ++ [.discard tok]) (some (c1.nread - 1)) c1
            else .cont { c1 with la := none } (ev1 ++ [.discard tok])
          | ef =>
            -- brand new error: `mmlex.Error(mmErrorMessage(state, token))`
            let new := ef == 0
            if new && !(errMsgSafe T s) then .panic else
            let ev2 := if new then ev1 ++ [.err s tok] else ev1
            match recover T (s :: below) ev2 with
            | none => .panic
            | some (some st', evs) => .cont { c1 with stack := st', errflag := 3 } evs
            | some (none, evs) => .done 1 evs (some (c1.nread - 1)) c1

/-- outcome of a whole parse -/
inductive Outcome
  | accept
  | syntaxError (tokenIndex : Nat)   -- index of the lookahead token (= number of tokens, at the end of the input)
  | actionError                      -- a semantic action aborted the parse (`return 1`)
  | panic
  | outOfFuel
  deriving Repr, DecidableEq

def init (input : List Int) : Cfg := ⟨[0], none, 0, input, 0, 0⟩

/-- the loop; the events are accumulated in REVERSE order (newest first) -/
def runFuel (T : Tables) (fail : Nat → Bool) : Nat → Cfg → List Event → Outcome × List Event
  | 0, _, evs => (.outOfFuel, evs)
  | f + 1, c, evs =>
    match step T fail c with
    | .panic => (.panic, evs)
    | .done 0 ev _ _ => (.accept, ev.reverse ++ evs)
    | .done _ ev (some i) _ => (.syntaxError i, ev.reverse ++ evs)
    | .done _ ev none _ => (.actionError, ev.reverse ++ evs)
    | .cont c' ev => runFuel T fail f c' (ev.reverse ++ evs)

end Martian.LexerLR
