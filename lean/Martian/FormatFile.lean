/-
C09 model, part 6: a whole comment-free MRO file — the printer of
martian/syntax/formatter.go `Ast.format(writeIncludes = true)` (what
`FormatSrcBytes` returns; it does not post-process the string) with
format_callable.go `Callables.format`, the distribution of the declarations by
ast.go `NewAst`, and the reader of grammar.y `file`, `includes`, `dec_list`,
`dec`, assembled from the parts `Martian.FormatDecl` (`filetype`, `struct`),
`Martian.FormatStage`, `Martian.FormatPipe` and `Martian.FormatCall2` (the
top-level call), on the tokens of `Martian.FormatExp` (whose `nextLex` has the
token INCLUDE_DIRECTIVE: `@include` followed by a non-word byte).

* `File` is the shape of the Go `Ast` after `NewAst`: `Includes` (the values of
  the directives), `UserTypes`, `StructTypes`, `Callables.List` (stages and
  pipelines interleaved in source order), `Call`.  The SOURCE order of the
  declarations of different kinds is not part of the AST.
* `Decl`: one `dec` of the grammar.  `distribute incs ds call` = `NewAst(ds,
  call, …)` with `Includes = incs`.
* `fmtFile` = `Ast.format(true)` without comments: the `@include` lines; the
  `needSpacer` logic (a blank line before the filetype block if includes were
  written, before the struct block if anything precedes, BETWEEN structs,
  before the callables if anything precedes, between callables, before the
  call if anything precedes); filetypes one per line.
* `fmtSource raw w incs ds call`: a source text in canonical token spelling with
  the declarations in SOURCE order (`raw`: pipelines with their calls in source
  order, `fmtPipelineRaw`), piece number `k` followed by the white space `w k`.
* `parseFile`: `Parser.UncheckedParse` on a comment-free source: `includes`
  (`INCLUDE_DIRECTIVE LITSTRING`)*, `dec`* (the head token decides: FILETYPE,
  STRUCT, STAGE, PIPELINE), then the end of the input (at least one `dec`
  then: neither the empty file nor a file of `@include` lines only is a
  `file`) or one `call_stm` and the end of the input.  A file that is a value
  expression (the `val_exp` alternative, for `ParseValExp`) is rejected by
  `yaccParse` ("Expected: includes or stage or pipeline or call.").
* `normFile`: what reading the printed file gives back: `normPipeline` on the
  pipelines, `normCall2` on the call, the identity elsewhere.
* `wfFile`: every part well formed, include paths valid UTF-8, and at least one
  declaration or the call.

Core Lean only.
-/
import Martian.FormatStage
import Martian.FormatPipe

namespace Martian.FormatFile
open Martian.Lexer (Bytes unquoteBytes)
open Martian.Format (quoteString)
open Martian.FormatExp Martian.FormatDecl Martian.FormatCall2
open Martian.FormatStage (Stage fmtStage pStage wfStage)
open Martian.FormatPipe (Pipeline fmtPipeline fmtPipelineRaw pPipeline normPipeline wfPipeline sPipeline)
open Martian.FormatRes (sStage)

/-! ## AST -/

/-- an element of `Callables.List` -/
inductive Callable
  | stage (s : Stage)
  | pipeline (p : Pipeline)
  deriving Repr, Inhabited

/-- `syntax.Ast` after `NewAst` (no comments, no positions) -/
structure File where
  includes : List Bytes
  filetypes : List Filetype
  structs : List Struct
  callables : List Callable
  call : Option Call2
  deriving Repr, Inhabited

/-- one `dec` of the grammar -/
inductive Decl
  | filetype (t : Filetype)
  | struct (s : Struct)
  | stage (s : Stage)
  | pipeline (p : Pipeline)
  deriving Repr, Inhabited

def Callable.toDecl : Callable → Decl
  | .stage s => .stage s
  | .pipeline p => .pipeline p

def filetypesOf : List Decl → List Filetype
  | [] => []
  | .filetype t :: r => t :: filetypesOf r
  | _ :: r => filetypesOf r

def structsOf : List Decl → List Struct
  | [] => []
  | .struct s :: r => s :: structsOf r
  | _ :: r => structsOf r

def callablesOf : List Decl → List Callable
  | [] => []
  | .stage s :: r => .stage s :: callablesOf r
  | .pipeline p :: r => .pipeline p :: callablesOf r
  | _ :: r => callablesOf r

/-- `NewAst(ds, call, …)` with `Includes = incs`: the declarations are distributed over
`UserTypes`, `StructTypes` and `Callables.List`, each list in source order -/
def distribute (incs : List Bytes) (ds : List Decl) (call : Option Call2) : File :=
  ⟨incs, filetypesOf ds, structsOf ds, callablesOf ds, call⟩

/-- the declarations of a file in the order `Ast.format` prints them -/
def declsOf (f : File) : List Decl :=
  f.filetypes.map .filetype ++ (f.structs.map .struct ++ f.callables.map Callable.toDecl)

/-! ## printer -/

/-- `@include <path>` newline -/
def fmtInclude (p : Bytes) : Bytes := sAtInclude ++ [0x20] ++ quoteString p ++ [0x0A]

def fmtIncludes : List Bytes → Bytes
  | [] => []
  | p :: r => fmtInclude p ++ fmtIncludes r

def fmtFiletypes : List Filetype → Bytes
  | [] => []
  | t :: r => fmtFiletype t ++ fmtFiletypes r

/-- `for i, structType := range self.StructTypes { if i != 0 { NEWLINE }; structType.format }` -/
def fmtStructs : List Struct → Bytes
  | [] => []
  | [s] => fmtStruct s
  | s :: r => fmtStruct s ++ 0x0A :: fmtStructs r

def fmtCallable : Callable → Bytes
  | .stage s => fmtStage s
  | .pipeline p => fmtPipeline p

/-- `Callables.format` -/
def fmtCallables : List Callable → Bytes
  | [] => []
  | [c] => fmtCallable c
  | c :: r => fmtCallable c ++ 0x0A :: fmtCallables r

/-- `if cond { NEWLINE }` -/
def spacer (cond : Bool) : Bytes := if cond then [0x0A] else []

/-- `needSpacer` after the include lines -/
def sp1 (f : File) : Bool := !f.includes.isEmpty
/-- `needSpacer` after the filetype block -/
def sp2 (f : File) : Bool := sp1 f || !f.filetypes.isEmpty
/-- `needSpacer` after the struct block -/
def sp3 (f : File) : Bool := sp2 f || !f.structs.isEmpty

def fmtCallOpt (pre : Bool) : Option Call2 → Bytes
  | some c => spacer pre ++ fmtCall2 [] c
  | none => []

/-- `Ast.format(true)` = the result of `FormatSrcBytes` -/
def fmtFile (f : File) : Bytes :=
  fmtIncludes f.includes ++
    (spacer (sp1 f && !f.filetypes.isEmpty) ++ fmtFiletypes f.filetypes) ++
    (spacer (sp2 f && !f.structs.isEmpty) ++ fmtStructs f.structs) ++
    (spacer (sp3 f && !f.callables.isEmpty) ++ fmtCallables f.callables) ++
    fmtCallOpt (!f.callables.isEmpty || sp3 f) f.call

/-! ## a source text with the declarations in source order -/

/-- a declaration in canonical token spelling; `raw`: a pipeline with its calls where they are
(`fmtPipelineRaw`), else in `topoSort` order -/
def fmtDecl (raw : Bool) : Decl → Bytes
  | .filetype t => fmtFiletype t
  | .struct s => fmtStruct s
  | .stage s => fmtStage s
  | .pipeline p => if raw then fmtPipelineRaw p else fmtPipeline p

def fmtIncludesSrc (w : Nat → Bytes) : Nat → List Bytes → Bytes
  | _, [] => []
  | k, p :: r => fmtInclude p ++ w k ++ fmtIncludesSrc w (k + 1) r

def fmtDeclsSrc (raw : Bool) (w : Nat → Bytes) : Nat → List Decl → Bytes
  | _, [] => []
  | k, d :: r => fmtDecl raw d ++ w k ++ fmtDeclsSrc raw w (k + 1) r

def fmtCallSrc (w : Nat → Bytes) (k : Nat) : Option Call2 → Bytes
  | some c => fmtCall2 [] c ++ w k
  | none => []

/-- a source in canonical token spelling: the include lines, the declarations in SOURCE order
(`raw`: the calls of every pipeline in source order as well), the call; piece number `k` (counting
from 0 through all three groups) is followed by `w k` (white space: blank lines, or nothing —
every piece ends with a newline) -/
def fmtSource (raw : Bool) (w : Nat → Bytes) (incs : List Bytes) (ds : List Decl)
    (call : Option Call2) : Bytes :=
  fmtIncludesSrc w 0 incs ++
    (fmtDeclsSrc raw w incs.length ds ++ fmtCallSrc w (incs.length + ds.length) call)

/-! ## reader -/

/-- `includes`: (`INCLUDE_DIRECTIVE LITSTRING`)*; an INCLUDE_DIRECTIVE must be followed by a
string -/
def pIncludes : Nat → List Tok → Option (List Bytes × List Tok)
  | 0, _ => none
  | f + 1, .reserved k :: ts =>
    if k = sAtInclude then
      match ts with
      | .str s :: r =>
        match unquoteBytes s, pIncludes f r with
        | some p, some (ps, r') => some (p :: ps, r')
        | _, _ => none
      | _ => none
    else some ([], .reserved k :: ts)
  | _ + 1, ts => some ([], ts)

/-- `dec: FILETYPE id_list ';'` at the head of a token list -/
def pFiletypeDecl (ts : List Tok) : Option (Filetype × List Tok) :=
  match ts with
  | .id k :: .id x :: r =>
    if k = sFiletype then
      match pDots (ts.length + 1) r with
      | some (xs, .punct c :: r') => if c == 0x3B then some (⟨x :: xs⟩, r') else none
      | _ => none
    else none
  | _ => none

/-- `struct` at the head of a token list -/
def pStructDecl (ts : List Tok) : Option (Struct × List Tok) :=
  match ts with
  | .id k :: .id x :: .punct c :: r =>
    if k = sStruct && c == 0x28 then
      match pMembers (ts.length + 1) r with
      | some (ms, .punct d :: r') => if d == 0x29 then some (⟨x, ms⟩, r') else none
      | _ => none
    else none
  | _ => none

/-- the kind of declaration the head token starts (`0` = none: the `dec_list` ends) -/
def decKind : List Tok → Nat
  | .id k :: _ => if k = sFiletype then 1 else if k = sStruct then 2 else 0
  | .reserved k :: _ => if k = sStage then 3 else if k = sPipeline then 4 else 0
  | _ => 0

/-- `dec_list` (possibly empty here; the caller demands one `dec` where the grammar does):
declarations as long as the head token starts one -/
def pDecls : Nat → List Tok → Option (List Decl × List Tok)
  | 0, _ => none
  | f + 1, ts =>
    match decKind ts with
    | 1 =>
      match pFiletypeDecl ts with
      | some (t, r) => (pDecls f r).map fun (ds, r') => (.filetype t :: ds, r')
      | none => none
    | 2 =>
      match pStructDecl ts with
      | some (s, r) => (pDecls f r).map fun (ds, r') => (.struct s :: ds, r')
      | none => none
    | 3 =>
      match pStage ts with
      | some (s, r) => (pDecls f r).map fun (ds, r') => (.stage s :: ds, r')
      | none => none
    | 4 =>
      match pPipeline ts with
      | some (p, r) => (pDecls f r).map fun (ds, r') => (.pipeline p :: ds, r')
      | none => none
    | _ => some ([], ts)

/-- `file` (all alternatives but `val_exp`) on a token list -/
def pFile (ts : List Tok) : Option File :=
  match pIncludes (ts.length + 1) ts with
  | some (incs, r0) =>
    match pDecls (ts.length + 1) r0 with
    | some (ds, []) => if ds.isEmpty then none else some (distribute incs ds none)
    | some (ds, r1) =>
      match pCall2 r1 with
      | some (c, []) => some (distribute incs ds (some c))
      | _ => none
    | none => none
  | none => none

/-- `Parser.UncheckedParse` on a comment-free source: the `Ast`, or `none` for an error -/
def parseFile (src : Bytes) : Option File := (lexAll src).bind pFile

/-! ## what reading a printed file gives back; the files the claim is made for -/

def normCallable : Callable → Callable
  | .stage s => .stage s
  | .pipeline p => .pipeline (normPipeline p)

/-- pipelines in normal form (calls in `topoSort` order, each in normal form), the top-level
call in normal form; includes, filetypes, structs and stages are read back as they are -/
def normFile (f : File) : File :=
  ⟨f.includes, f.filetypes, f.structs, f.callables.map normCallable, f.call.map normCall2⟩

/-- what the reader returns for a declaration of a source in source order: the calls of a
pipeline stay where they are, each in normal form -/
def readDecl : Decl → Decl
  | .pipeline p => .pipeline ⟨p.id, p.ins, p.outs, normBody p.body⟩
  | d => d

def wfCallable : Callable → Bool
  | .stage s => wfStage s
  | .pipeline p => wfPipeline p

def wfDecl : Decl → Bool
  | .filetype t => wfFiletype t
  | .struct s => wfStruct s
  | .stage s => wfStage s
  | .pipeline p => wfPipeline p

def wfCallOpt : Option Call2 → Bool
  | some c => wfCall2 c
  | none => true

/-- the include paths are what `unquote` returned (valid UTF-8); every declaration and the call
are well formed; there is at least one declaration or the call (`file` has no alternative
without both) -/
def wfFile (f : File) : Bool :=
  f.includes.all Martian.ShellQuote.validUtf8 && f.filetypes.all wfFiletype && f.structs.all wfStruct &&
    f.callables.all wfCallable && wfCallOpt f.call &&
    (!f.filetypes.isEmpty || !f.structs.isEmpty || !f.callables.isEmpty || f.call.isSome)

/-- the same for a source: what `wfFile (distribute incs ds call)` says -/
def wfSource (incs : List Bytes) (ds : List Decl) (call : Option Call2) : Bool :=
  incs.all Martian.ShellQuote.validUtf8 && ds.all wfDecl && wfCallOpt call && (!ds.isEmpty || call.isSome)

end Martian.FormatFile
