/-
Sched — the pipestance scheduler's sentinel-file bookkeeping as a labelled
transition system (serves C02, C03, C05, C06).  See Martian/SCHED_SPEC.md.

What is modelled (martian/core):
* `Metadata._getStateNoLock`           → `metaState`
* `Chunk.getState`                      → `chunkState`
* `Fork.getState`                       → `forkState`
* `Node.getState` (with its `break`)    → `nodeState`
* guards of `Node.step`, `Fork.stepStage/doSplit/doChunks/doJoin/doComplete/
  stepPipeline`, `Chunk.step`           → `launchOk`, `mrpWriteOk`, `enabled`
* `Pipestance.Reset/RestartLocalJobs`, `Metadata.checkedReset/restartLocal/
  restartQueuedLocal/uncheckedReset`, `loadCache` → events `restart`, `reset`

Every object (fork directory, split, join, chunk i) has two sentinel sets:
`seen` (mrp's cache `Metadata.contents`) and `disk` (the directory).  The
journal is not represented: a journal entry exists only for a file that is on
disk, so "became visible through RefreshState" (`R`), "loaded by loadCache"
(`D`) and "found by poll()" (`W` of something already on disk) are all the
same transition `seen += x` guarded by `x ∈ disk`.

Core Lean only (links into the driver).
-/
namespace Martian.Sched

/-! ## association maps (replace-in-place, default for absent keys) -/

def aget {κ α} [DecidableEq κ] (d : α) : List (κ × α) → κ → α
  | [], _ => d
  | (k', v) :: r, k => if k' = k then v else aget d r k

def aset {κ α} [DecidableEq κ] : List (κ × α) → κ → α → List (κ × α)
  | [], k, v => [(k, v)]
  | (k', v') :: r, k, v => if k' = k then (k, v) :: r else (k', v') :: aset r k v

def amap {κ α} (f : α → α) (m : List (κ × α)) : List (κ × α) :=
  m.map fun p => (p.1, f p.2)

/-! ## sentinels -/

inductive Sentinel where
  | errors | assert | complete | disabled | log | jobinfo | queuedLocally
  deriving DecidableEq, Repr, Inhabited

/-- A set of sentinel files. -/
structure SSet where
  errors : Bool := false
  assert : Bool := false
  complete : Bool := false
  disabled : Bool := false
  log : Bool := false
  jobinfo : Bool := false
  queued : Bool := false
  deriving DecidableEq, Repr, Inhabited

def SSet.has (x : SSet) : Sentinel → Bool
  | .errors => x.errors
  | .assert => x.assert
  | .complete => x.complete
  | .disabled => x.disabled
  | .log => x.log
  | .jobinfo => x.jobinfo
  | .queuedLocally => x.queued

def SSet.add (x : SSet) : Sentinel → SSet
  | .errors => { x with errors := true }
  | .assert => { x with assert := true }
  | .complete => { x with complete := true }
  | .disabled => { x with disabled := true }
  | .log => { x with log := true }
  | .jobinfo => { x with jobinfo := true }
  | .queuedLocally => { x with queued := true }

def SSet.del (x : SSet) : Sentinel → SSet
  | .errors => { x with errors := false }
  | .assert => { x with assert := false }
  | .complete => { x with complete := false }
  | .disabled => { x with disabled := false }
  | .log => { x with log := false }
  | .jobinfo => { x with jobinfo := false }
  | .queuedLocally => { x with queued := false }

def SSet.sub (x y : SSet) : Bool :=
  (!x.errors || y.errors) && (!x.assert || y.assert) && (!x.complete || y.complete) &&
  (!x.disabled || y.disabled) && (!x.log || y.log) && (!x.jobinfo || y.jobinfo) &&
  (!x.queued || y.queued)

/-- `MetadataState` values that `_getStateNoLock` can return with `ok = true`. -/
inductive MState where
  | failed | complete | disabled | running | queued
  deriving DecidableEq, Repr, Inhabited

/-- The sentinel precedence of `_getStateNoLock`, in source order
(compared with the regenerated fact `Gen.metaStatePrecedence`). -/
def precedence : List (Sentinel × MState) :=
  [(.errors, .failed), (.assert, .failed), (.complete, .complete),
   (.disabled, .disabled), (.log, .running), (.jobinfo, .queued)]

def metaStateWith (prec : List (Sentinel × MState)) (x : SSet) : Option MState :=
  match prec.find? (fun p => x.has p.1) with
  | some p => some p.2
  | none => none

/-- `Metadata._getStateNoLock`: `none` = `(Waiting, false)`. -/
def metaState (x : SSet) : Option MState :=
  if x.errors then some .failed
  else if x.assert then some .failed
  else if x.complete then some .complete
  else if x.disabled then some .disabled
  else if x.log then some .running
  else if x.jobinfo then some .queued
  else none

def Sentinel.name : Sentinel → String
  | .errors => "errors" | .assert => "assert" | .complete => "complete"
  | .disabled => "disabled" | .log => "log" | .jobinfo => "jobinfo"
  | .queuedLocally => "queued_locally"

def MState.name : MState → String
  | .failed => "failed" | .complete => "complete" | .disabled => "disabled"
  | .running => "running" | .queued => "queued"

def precedenceNames : List (String × String) :=
  precedence.map fun p => (p.1.name, p.2.name)

/-! ## objects -/

inductive Role where
  | split | chunk (i : Nat) | join | fork
  deriving DecidableEq, Repr, Inhabited

def Role.isJob : Role → Bool
  | .fork => false
  | _ => true

/-- One metadata object: node `n`, fork `f` (model fork index), role. -/
structure Obj where
  n : Nat
  f : Nat
  r : Role
  deriving DecidableEq, Repr, Inhabited

structure Meta where
  seen : SSet := {}
  disk : SSet := {}
  deriving DecidableEq, Repr, Inhabited

inductive Kind where
  | stage | splitstage | pipeline
  deriving DecidableEq, Repr, Inhabited

structure NodeInfo where
  kind : Kind
  pre : List Nat
  preflight : Bool := false
  deriving DecidableEq, Repr, Inhabited

/-- `loading`: between construction / `restart` and the first `refresh`
(LoadMetadata, Reset, RestartLocalJobs run here); `crashed`: mrp is dead. -/
inductive Phase where
  | loading | normal | crashed
  deriving DecidableEq, Repr, Inhabited

/-- Node states (`Waiting` is the empty string in Go, printed `none`). -/
inductive NState where
  | waiting | running | complete | failed | disabled
  deriving DecidableEq, Repr, Inhabited

inductive FState where
  | ready | failed | complete | disabled
  | split (m : MState) | chunksComplete | chunksRunning | join (m : MState)
  deriving DecidableEq, Repr, Inhabited

structure State where
  nodes : List NodeInfo := []
  forks : List (Nat × List Nat) := []          -- node ↦ fork indices, in `Node.forks` order
  nchunks : List ((Nat × Nat) × Nat) := []     -- (node, fork) ↦ number of chunk objects
  metas : List (Obj × Meta) := []
  cached : List (Nat × NState) := []           -- `Node.state`
  inc : Nat := 0                               -- incarnation of mrp
  phase : Phase := .loading
  launches : List (Obj × Nat) := []            -- ghost: every submission (object, incarnation)
  resets : List (Obj × Nat) := []              -- ghost: every restart-time reset
  reopened : Bool := false                     -- ghost: a restart gave a finished node a new fork
  full : Bool := false                         -- `Config.FullStageReset` (constant of a run)
  wipedAtLoad : List Nat := []                 -- nodes whose state was Failed or Running right after the last re-attach
  alive : List Obj := []                       -- ghost: job objects whose submitted job has neither ended nor died
  deriving Repr, Inhabited

def State.kind (s : State) (n : Nat) : Kind := ((s.nodes[n]?).map (·.kind)).getD .pipeline
def State.pre (s : State) (n : Nat) : List Nat := ((s.nodes[n]?).map (·.pre)).getD []
def State.forksOf (s : State) (n : Nat) : List Nat := aget [] s.forks n
def State.nch (s : State) (n f : Nat) : Nat := aget 0 s.nchunks (n, f)
def State.m (s : State) (o : Obj) : Meta := aget {} s.metas o
def State.cachedOf (s : State) (n : Nat) : NState := aget .waiting s.cached n

/-- state of an object as the scheduler sees it -/
def State.st (s : State) (o : Obj) : Option MState := metaState (s.m o).seen
/-- state of an object according to the directory -/
def State.dst (s : State) (o : Obj) : Option MState := metaState (s.m o).disk

def State.hasObj (s : State) (o : Obj) : Bool :=
  decide (o.n < s.nodes.length) && (s.forksOf o.n).contains o.f &&
  match o.r with
  | .chunk i => decide (i < s.nch o.n o.f)
  | _ => true

/-! ## derived states (exact clones of the Go code) -/

/-- `Chunk.getState`: `none` = `Ready`. -/
def chunkState (s : State) (n f i : Nat) : Option MState := s.st ⟨n, f, .chunk i⟩

def chunkStates (s : State) (n f : Nat) : List (Option MState) :=
  (List.range (s.nch n f)).map (chunkState s n f)

inductive CSum where
  | failed | complete | running | none
  deriving DecidableEq, Repr

/-- the chunk loop of `Fork.getState` (only entered when there are chunks) -/
def chunkSum (cs : List (Option MState)) : CSum :=
  if cs.isEmpty then .none
  else if cs.any (· == some .failed) then .failed
  else if cs.all (· == some .complete) then .complete
  else if cs.all (fun c => c == some .complete || c == some .queued || c == some .running) then .running
  else .none

/-- `Fork.getState` as a pure function of the four kinds of member states -/
def forkStateOf (fm jm : Option MState) (cs : List (Option MState)) (sm : Option MState) : FState :=
  match fm with
  | some .failed => .failed
  | some .complete => .complete
  | some .disabled => .disabled
  | _ =>
    match jm with
    | some .failed => .failed
    | some st => .join st
    | none =>
      match chunkSum cs with
      | .failed => .failed
      | .complete => .chunksComplete
      | .running => .chunksRunning
      | .none =>
        match sm with
        | some .failed => .failed
        | some st => .split st
        | none => .ready

/-- the order in which `forkStateOf` (= `Fork.getState`) consults the fork's members
(compared with the regenerated fact `Gen.forkStateOrder`) -/
def forkStateOrderNames : List String := ["metadata", "join_metadata", "chunks", "split_metadata"]

/-- `Fork.getState` -/
def forkState (s : State) (n f : Nat) : FState :=
  forkStateOf (s.st ⟨n, f, .fork⟩) (s.st ⟨n, f, .join⟩) (chunkStates s n f) (s.st ⟨n, f, .split⟩)

inductive Scan where
  | failed | done (allDisabled : Bool) | incomplete
  deriving DecidableEq, Repr

/-- the fork loop of `Node.getState`: NOTE the `break` at the first fork that
is neither complete nor disabled — a failed fork *behind* it is not seen. -/
def scanForks : List FState → Bool → Scan
  | [], d => .done d
  | .failed :: _, _ => .failed
  | .complete :: r, _ => scanForks r false
  | .disabled :: r, d => scanForks r d
  | _ :: _, _ => .incomplete

def forkStates (s : State) (n : Nat) : List FState := (s.forksOf n).map (forkState s n)

/-- `Node.getState() ∈ {Complete, DisabledState}` -/
def nodeDone (s : State) (n : Nat) : Bool :=
  match scanForks (forkStates s n) true with
  | .done _ => true
  | _ => false

/-- `Node.getState` as a pure function of the fork states (in `Node.forks`
order) and of "every prenode's getState() is Complete or DisabledState" -/
def nodeStateOf (fs : List FState) (preDone : Bool) : NState :=
  match scanForks fs true with
  | .failed => .failed
  | .done true => .disabled
  | .done false => .complete
  | .incomplete => if preDone then .running else .waiting

/-- `Node.getState` (prenodes are asked for their *live* state). -/
def nodeState (s : State) (n : Nat) : NState :=
  nodeStateOf (forkStates s n) ((s.pre n).all (nodeDone s))

/-- the fork's own metadata says complete or disabled -/
def fmDone (s : State) (n f : Nat) : Bool :=
  s.st ⟨n, f, .fork⟩ == some .complete || s.st ⟨n, f, .fork⟩ == some .disabled

/-! ## events -/

inductive Ev where
  | W (o : Obj) (x : Sentinel)     -- mrp wrote x (or found it by poll): seen (+disk)
  | R (o : Obj) (x : Sentinel)     -- RefreshState made x visible
  | D (o : Obj) (x : Sentinel)     -- loadCache made x visible
  | U (o : Obj) (x : Sentinel)     -- removed (only `_queued_locally`, by the job manager)
  | fork (n f : Nat)
  | forkorder (n : Nat) (l : List Nat)
  | mkchunks (n f k : Nat)
  | launch (o : Obj)
  | joblog (o : Obj)
  | jobend (o : Obj) (x : Sentinel)
  | silentfail (o : Obj)
  | refresh | stepend
  | nodestate (n : Nat) (st : NState)
  | killed (o : Obj)
  | crash | restart
  | reset (o : Obj)
  deriving DecidableEq, Repr, Inhabited

/-- everything a chunk launch needs except the bookkeeping flags -/
def allChunksComplete (s : State) (n f : Nat) : Bool :=
  (chunkStates s n f).all (· == some .complete)

/-- Guard under which mrp itself creates sentinel `x` in object `o`
(`Fork.doSplit` stub, `doJoin` stub, `doComplete`, `stepPipeline`,
`writeDisable`, the various `writeError`/`WriteErrorString` sites). -/
def mrpWriteOk (s : State) (o : Obj) (x : Sentinel) : Bool :=
  match x, o.r with
  | .errors, .fork => !fmDone s o.n o.f
  -- mrp fails a job object only while its fork is unfinished (heartbeat / queue query for a queued or
  -- running job, `_stage_defs` parse in `doChunks`, `Chunk.verifyOutput` at the start of `doJoin`,
  -- reading the join's `_outs` in `doComplete`); split and chunks only before the join is submitted
  | .errors, .join => !fmDone s o.n o.f
  -- the split (heartbeat / queue query while it runs, `_stage_defs` parse in `doChunks`) only before any
  -- chunk of the fork has been submitted
  | .errors, .split => !fmDone s o.n o.f && s.st ⟨o.n, o.f, .join⟩ == none &&
      (List.range (s.nch o.n o.f)).all fun i => !(s.m ⟨o.n, o.f, .chunk i⟩).disk.jobinfo
  | .errors, _ => !fmDone s o.n o.f && s.st ⟨o.n, o.f, .join⟩ == none
  | .complete, .split =>
    s.phase == .normal && s.kind o.n == .stage && s.cachedOf o.n == .running &&
    forkState s o.n o.f == .ready
  | .complete, .join =>
    s.phase == .normal && s.kind o.n == .stage && s.cachedOf o.n == .running &&
    !fmDone s o.n o.f && s.st o == none && 0 < s.nch o.n o.f && allChunksComplete s o.n o.f
  | .complete, .fork =>
    s.phase == .normal && s.cachedOf o.n == .running && !fmDone s o.n o.f &&
    (s.kind o.n == .pipeline || s.st ⟨o.n, o.f, .join⟩ == some .complete)
  | .disabled, .fork =>
    -- `Fork.disabled`/`writeDisable` in `stepStage`/`stepPipeline`, and
    -- `expandForkFromObj` for a fork whose map source turned out null/empty: the
    -- expansion also runs on the nodes bound to the same source
    -- (`bNode.expandForks`), whatever their own state, and while re-attaching
    -- (`RestoreForks`) — so there is no condition on the node, only on the fork
    s.kind o.n == .pipeline || forkState s o.n o.f == .ready
  | _, _ => false

/-- Guard of a job submission (`Node.step` → `Fork.stepStage` → `doSplit` /
`doChunks` → `Chunk.step` / `doJoin`). -/
def launchOk (s : State) (o : Obj) : Bool :=
  s.phase == .normal && s.hasObj o && s.cachedOf o.n == .running &&
  !(s.launches.contains (o, s.inc)) && !fmDone s o.n o.f &&
  match o.r with
  | .split => s.kind o.n == .splitstage && forkState s o.n o.f == .ready
  | .chunk _ =>
    s.kind o.n != Kind.pipeline && s.st o == none &&
    s.st ⟨o.n, o.f, .split⟩ == some .complete && s.st ⟨o.n, o.f, .join⟩ == none
  | .join =>
    s.kind o.n == .splitstage && s.st o == none &&
    (if s.nch o.n o.f == 0 then s.st ⟨o.n, o.f, .split⟩ == some .complete
     else allChunksComplete s o.n o.f)
  | .fork => false

/-- Default mode: `Pipestance.Reset` → `checkedReset` (state failed), `RestartLocalJobs` →
`restartQueuedLocal` (`_queued_locally` present) / `restartLocal` (queued, or
running with a dead pid); all look at the freshly loaded cache = the directory.
`FullStageReset` mode (local job mode): `Node.reset` removes the whole directory of
every node whose state after re-attaching was Running (`Runtime.reattach` →
`RestartRunningNodes`) or Failed (`Pipestance.Reset`) — every object of every fork,
the fork's own metadata included, finished chunks too — and
`restartLocalJobs`/`restartLocallyQueuedJobs` do nothing. -/
def resetOk (s : State) (o : Obj) : Bool :=
  s.phase == .loading &&
  if s.full then s.wipedAtLoad.contains o.n
  else
    o.r.isJob &&
    (s.dst o == some .failed || s.dst o == some .queued ||
     -- `restartLocal`: a running job is reset only if its recorded pid is dead
     (s.dst o == some .running && !s.alive.contains o) ||
     -- `restartQueuedLocal`: `_queued_locally` is still there; a job that nevertheless recorded its
     -- completion only loses the sentinel (the branch added by the repair 23063ab)
     ((s.m o).disk.queued && s.dst o != some .complete))

/-- nothing is left in the job directories of fork (n, f), and its own metadata holds nothing but
(possibly) `_disabled`: the placeholder fork of a mapped call that was disabled before its forks
were known is replaced by the real forks when mrp re-attaches
(corpus/sched/reopen-disabled-map.trace) -/
def forkEmpty (s : State) (n f : Nat) : Bool :=
  (!(s.m ⟨n, f, .fork⟩).disk.errors && !(s.m ⟨n, f, .fork⟩).disk.assert &&
    !(s.m ⟨n, f, .fork⟩).disk.complete) &&
  (s.m ⟨n, f, .split⟩).disk == {} && (s.m ⟨n, f, .join⟩).disk == {} &&
  (List.range (s.nch n f)).all fun i => (s.m ⟨n, f, .chunk i⟩).disk == {}

def allFresh (s : State) : Bool :=
  (List.range s.nodes.length).all fun n => s.cachedOf n == nodeState s n

/-- the fork list rebuilt at restart: known forks only, none twice -/
def isSubNodup : List Nat → List Nat → Bool
  | [], _ => true
  | a :: r, l' => l'.contains a && !r.contains a && isSubNodup r l'

/-- named guards: the event is enabled iff all hold; the name of the first
failing one is the rejection reason. -/
def guards (s : State) : Ev → List (String × Bool)
  | .W o x => [("mrp-dead", s.phase != Phase.crashed), ("no-such-object", s.hasObj o),
               ("write-not-enabled", (s.m o).disk.has x || mrpWriteOk s o x)]
  | .R o x => [("mrp-dead", s.phase != Phase.crashed), ("no-such-object", s.hasObj o),
               ("not-on-disk", (s.m o).disk.has x)]
  | .D o x => [("mrp-dead", s.phase != Phase.crashed), ("no-such-object", s.hasObj o),
               ("not-on-disk", (s.m o).disk.has x)]
  | .U _ x => [("only-queued_locally-is-removed", x == .queuedLocally)]
  | .fork n f => [("mrp-dead", s.phase != Phase.crashed), ("no-such-node", decide (n < s.nodes.length)),
                  ("fork-exists", !(s.forksOf n).contains f),
                  ("expansion-of-finished-or-running-node",
                    s.phase != Phase.normal || (!nodeDone s n && s.cachedOf n != NState.running))]
  | .forkorder n l => [("only-at-load", s.phase == .loading), ("not-a-sublist-of-known-forks", isSubNodup l (s.forksOf n)),
                       -- re-attaching rebuilds the fork list from what exists: a fork is only dropped from it
                       -- when nothing is left in its job directories (and it is neither complete nor failed)
                       ("dropped-fork-not-empty", (s.forksOf n).all fun f => l.contains f || forkEmpty s n f)]
  | .mkchunks n f k =>
      [("mrp-dead", s.phase != Phase.crashed), ("no-such-fork", s.hasObj ⟨n, f, .fork⟩),
       ("pipeline-has-no-chunks", s.kind n != Kind.pipeline),
       ("chunks-before-split-complete",
         s.phase != Phase.normal ||
          (s.nch n f == 0 && 0 < k && s.cachedOf n == .running && !fmDone s n f &&
           s.st ⟨n, f, .split⟩ == some .complete && s.st ⟨n, f, .join⟩ == none)),
       -- re-attaching (`NewFork` re-reads `_stage_defs`; a wiped stage has no chunks): chunk objects are
       -- only dropped when nothing is left in their directories, and only appear before the join exists
       ("chunks-redefined-at-reattach",
         s.phase == Phase.normal ||
          (((List.range (s.nch n f)).all fun i => decide (i < k) || (s.m ⟨n, f, .chunk i⟩).disk == {}) &&
           (k ≤ s.nch n f || (!(s.m ⟨n, f, .join⟩).disk.jobinfo && !(s.m ⟨n, f, .join⟩).disk.complete))))]
  | .launch o => [("launch-not-enabled", launchOk s o)]
  | .joblog o => [("not-a-job", o.r.isJob), ("not-launched", (s.m o).disk.jobinfo),
                  ("job-dead", s.alive.contains o)]
  | .jobend o x =>
      [("not-a-job", o.r.isJob), ("bad-outcome", x == .complete || x == .errors || x == .assert),
       ("not-launched", (s.m o).disk.jobinfo), ("not-started", (s.m o).disk.log),
       ("already-ended", !(s.m o).disk.complete && !(s.m o).disk.assert),
       ("job-dead", s.alive.contains o)]
  | .silentfail o => [("mrp-dead", s.phase != Phase.crashed), ("not-a-job", o.r.isJob),
                      ("not-launched", (s.m o).disk.jobinfo), ("job-dead", s.alive.contains o)]
  | .refresh => [("mrp-dead", s.phase != Phase.crashed),
                 ("stale-node-state-after-load", s.phase != Phase.loading || allFresh s)]
  | .stepend => []
  | .nodestate n st => [("mrp-dead", s.phase != Phase.crashed), ("no-such-node", decide (n < s.nodes.length)),
                        ("not-the-node-state", st == nodeState s n)]
  | .killed _ => []
  | .crash => [("mrp-dead", s.phase != Phase.crashed)]
  | .restart => [("mrp-not-dead", s.phase == .crashed)]
  | .reset o => [("reset-not-enabled", resetOk s o)]

def enabled (s : State) (e : Ev) : Bool := (guards s e).all (·.2)

def whyNot (s : State) (e : Ev) : Option String :=
  ((guards s e).find? (fun g => !g.2)).map (·.1)

def State.updMeta (s : State) (o : Obj) (f : Meta → Meta) : State :=
  { s with metas := aset s.metas o (f (s.m o)) }

def see (x : Sentinel) (m : Meta) : Meta := { m with seen := m.seen.add x }
def put (x : Sentinel) (m : Meta) : Meta := { seen := m.seen.add x, disk := m.disk.add x }
def toDisk (x : Sentinel) (m : Meta) : Meta := { m with disk := m.disk.add x }
def unq (m : Meta) : Meta := { seen := m.seen.del .queuedLocally, disk := m.disk.del .queuedLocally }
def reload (m : Meta) : Meta := { m with seen := m.disk }

def apply (s : State) : Ev → State
  | .W o x => s.updMeta o (put x)
  | .R o x => s.updMeta o (see x)
  | .D o x => s.updMeta o (see x)
  | .U o _ => s.updMeta o unq
  | .fork n f =>
      -- re-attaching rebuilds the forks (`RestoreForks`): a disabled mapped call whose
      -- placeholder fork had been disabled before its forks were known gets fresh forks
      -- and is, for a moment, unfinished again; remembered in `reopened`
      { s with forks := aset s.forks n (s.forksOf n ++ [f]),
               reopened := s.reopened || (s.phase == .loading && s.inc != 0 && nodeDone s n) }
  | .forkorder n l => { s with forks := aset s.forks n l }
  | .mkchunks n f k => { s with nchunks := aset s.nchunks (n, f) k }
  | .launch o =>
      { s.updMeta o (fun m => put .queuedLocally (put .jobinfo m)) with
        launches := (o, s.inc) :: s.launches, alive := o :: s.alive.filter (· != o) }
  | .joblog o => s.updMeta o (toDisk .log)   -- `_queued_locally` is removed separately (`U`)
  | .jobend o x => { s.updMeta o (toDisk x) with alive := s.alive.filter (· != o) }
  | .silentfail o => { s.updMeta o (put .errors) with alive := s.alive.filter (· != o) }
  | .refresh => { s with phase := .normal }
  | .stepend => s
  | .nodestate n st => { s with cached := aset s.cached n st }
  | .killed o => { s with alive := s.alive.filter (· != o) }
  | .crash => { s with phase := .crashed }
  | .restart =>
      let s' : State := { s with phase := .loading, inc := s.inc + 1, metas := amap reload s.metas }
      { s' with wipedAtLoad := (List.range s.nodes.length).filter fun n =>
          nodeState s' n == .failed || nodeState s' n == .running }
  | .reset o =>
      { s.updMeta o (fun _ => ({} : Meta)) with
        resets := (o, s.inc) :: s.resets, alive := s.alive.filter (· != o) }

/-- one step: the event must be enabled -/
def step (s : State) (e : Ev) : Option State :=
  if enabled s e then some (apply s e) else none

/-- replay a history; `Except (index, reason)` -/
def replayFrom (i : Nat) (s : State) : List Ev → Except (Nat × String) State
  | [] => .ok s
  | e :: es =>
    if enabled s e then replayFrom (i + 1) (apply s e) es
    else .error (i, (whyNot s e).getD "?")

def replay (s : State) (es : List Ev) : Except (Nat × String) State := replayFrom 0 s es

/-- the initial state for a graph: no forks yet, nothing on disk, phase `loading` -/
def init (nodes : List NodeInfo) : State := { nodes := nodes }

/-- the same in `FullStageReset` mode -/
def initFull (nodes : List NodeInfo) : State := { nodes := nodes, full := true }

/-- accepted histories, as a relation (what the theorems quantify over) -/
inductive Reach (g : List NodeInfo) : State → Prop where
  | init : Reach g (init g)
  | step {s e} : Reach g s → enabled s e = true → Reach g (apply s e)

/-- accepted histories in `FullStageReset` mode -/
inductive ReachFull (g : List NodeInfo) : State → Prop where
  | init : ReachFull g (initFull g)
  | step {s e} : ReachFull g s → enabled s e = true → ReachFull g (apply s e)

/-- events of a run without failures and without interruption -/
def Ev.failureFree : Ev → Bool
  | .jobend _ x => x == .complete
  | .silentfail _ => false
  | .W _ x => x != Sentinel.errors && x != Sentinel.assert
  | .crash => false
  | .restart => false
  | .reset _ => false
  | .killed _ => false   -- a job that dies without a trace
  | _ => true

def FailureFree (h : List Ev) : Prop := ∀ e ∈ h, e.failureFree = true


/-! ## printing (driver) -/

def NState.name : NState → String
  | .waiting => "none" | .running => "running" | .complete => "complete"
  | .failed => "failed" | .disabled => "disabled"

def FState.name : FState → String
  | .ready => "ready" | .failed => "failed" | .complete => "complete" | .disabled => "disabled"
  | .split m => "split_" ++ m.name | .chunksComplete => "chunks_complete"
  | .chunksRunning => "chunks_running" | .join m => "join_" ++ m.name

def chunkStateName : Option MState → String
  | none => "ready"
  | some m => m.name

end Martian.Sched
