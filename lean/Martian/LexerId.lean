import Martian.Lexer

/-!
C08 model: the identifier rule `tokIdRule = ^_?[[:alpha:]]\w*\b` as a
hand-written recogniser (Proofs/LexerRegexId.lean: it equals the
leftmost-first match of the parsed regenerated regex for every input).
-/
namespace Martian.Lexer

def isAlpha (b : UInt8) : Bool := (0x41 ≤ b && b ≤ 0x5A) || (0x61 ≤ b && b ≤ 0x7A)

/-- maximal run of word characters, and the rest -/
def spanWord : Bytes → Bytes × Bytes
  | [] => ([], [])
  | c :: r => if isWord c then let (d, t) := spanWord r; (c :: d, t) else ([], c :: r)

def idRuleSrc : String := "^_?[[:alpha:]]\\w*\\b"

/-- optional `_`, a letter, then the maximal run of word characters (the `\b`
at the end holds exactly when the run is maximal; `_` not followed by a letter
is no identifier) -/
def matchId (b : Bytes) : Option Bytes :=
  match b with
  | c :: r =>
    if c == 0x5F then
      match r with
      | c1 :: r1 => if isAlpha c1 then some (c :: c1 :: (spanWord r1).1) else none
      | [] => none
    else if isAlpha c then some (c :: (spanWord r).1) else none
  | [] => none

/-- Go's `strconv.ParseInt(s, 10, 64)` syntax: optional sign, then at least one
digit, nothing else (underscores are only allowed with base 0). -/
def goIntSyntax (s : Bytes) : Bool :=
  let (_, r) := optSign s
  let (ds, rest) := spanDigits r
  ds ≠ [] && rest = []

end Martian.Lexer
