/-
Whole programs (C07, the headline as one theorem): pipelines calling stages and
other pipelines, singly or mapped, run by a CHECKED semantics on top of the
faithful run-time model of Martian/TypingRun.lean (`evalT`, `deliveredT`,
`retValueT`).

`run n P O callee inputs` runs one invocation of a callable:
  * a stage: its outputs are whatever the outside world (`O`) returns;
  * a pipeline: its calls in dependency order (`runCalls`), each call
    - resolves, for every declared parameter, the values its binding delivers
      (`deliveredT`: the run time's `Path` / element-wise literals) and CHECKS
      that each validates against the parameter's declared type (`argLists` –
      a value that does not validate makes the run fail: `none`),
    - invokes the callee once, or once per fork of a map call (split
      parameters receive their element, the others the whole value), and
      records the (merged) outputs `t` / `t[]` / `map<t>`,
    then resolves the return bindings at the declared output types
    (`retValueT`).
`none` = a run-time resolution error, a delivered value that does not validate,
or not enough fuel (`n` bounds the nesting depth of pipelines).

A call whose `disabled` modifier resolves to `true` is not invoked and delivers
`null` outputs (`disabledRT`).

Simplifications, stated: the number of forks of a mapped call is the length of
the longest split collection and a shorter one reads as `null` there (a
run-time length mismatch between two split collections is the by-design error
T-K3, outside the theorem); the keys of a map call are those of its first split
collection.

Core Lean only; `run` is structural on the fuel, `runCalls` on the list.
-/
import Martian.TypingRun

namespace Martian.Typing
open Martian.Json Martian.Types

/-! ## equality test on types (no `DecidableEq` on the mutual `Ty`) -/

mutual
  def tyEq : Ty → Ty → Bool
    | .base a, .base b => a == b
    | .user a, .user b => a == b
    | .arr a, .arr b => tyEq a b
    | .tmap a, .tmap b => tyEq a b
    | .struct n fs, .struct m gs => n == m && fieldsEq fs gs
    | _, _ => false
  def fieldsEq : Fields → Fields → Bool
    | .nil, .nil => true
    | .cons k t r, .cons k' t' r' => k == k' && tyEq t t' && fieldsEq r r'
    | _, _ => false
end

def paramsEq : List (Bytes × Ty) → List (Bytes × Ty) → Bool
  | [], [] => true
  | (k, t) :: r, (k', t') :: r' => k == k' && tyEq t t' && paramsEq r r'
  | _, _ => false

def calleeEq (a b : Callee) : Bool :=
  a.name == b.name && a.isStage == b.isStage && paramsEq a.params b.params && fieldsEq a.outs b.outs

/-! ## programs -/

structure Prog where
  pipes : List Pipeline

def Prog.find (P : Prog) (name : Bytes) : Option Pipeline :=
  P.pipes.find? (fun p => p.name == name)

/-- the outside world: the outputs of one invocation of the stage `name` on the
given inputs -/
abbrev Oracle := Bytes → List (Bytes × J) → J

/-- the result of a checked run -/
inductive Res (α : Type) where
  | ok (a : α)
  /-- the run STOPS BY DESIGN: a `disabled` modifier resolved to null.  The run time
  refuses that (`Fork.disabled`: "disabled is bound to a null value, which is
  not permitted", the fork fails with "Could not evaluate disabled state"), although
  null conforms to `bool` like to every type; a null that is known when the
  program is invoked is refused at once (`resolveDisableExp`: "disabled cannot
  be bound to a null value") -/
  | nullDisabled
  /-- a resolution failed or a delivered value does not conform: what
  `program_sound_partial` excludes -/
  | fail

def Res.map {α β : Type} (f : α → β) : Res α → Res β
  | .ok a => .ok (f a)
  | .nullDisabled => .nullDisabled
  | .fail => .fail

/-- all results, if all are ok; `fail` if one failed; else `nullDisabled` -/
def Res.collect {α : Type} : List (Res α) → Res (List α)
  | [] => .ok []
  | r :: rs =>
    match r, collect rs with
    | .ok a, .ok as => .ok (a :: as)
    | .fail, _ => .fail
    | _, .fail => .fail
    | _, _ => .nullDisabled

/-- how an invocation of a callable is run -/
abbrev Runner := Callee → List (Bytes × J) → Res J

def Bind.isSplit : Bind → Bool
  | .split _ => true
  | .plain _ => false

/-- per declared parameter: is it split, and the delivered values – each CHECKED
against the parameter's declared type -/
def argLists (Γ : Env) (ρ : Store) (bs : List (Bytes × Bind)) :
    List (Bytes × Ty) → Option (List (Bytes × Bool × List J))
  | [] => some []
  | (x, t) :: r =>
    match bs.lookup x with
    | none => none
    | some b =>
      match deliveredT Γ ρ t b with
      | none => none
      | some vs =>
        if vs.all (fun v => valid t v) then
          (match argLists Γ ρ bs r with
            | some as => some ((x, b.isSplit, vs) :: as)
            | none => none)
        else none

/-- the inputs of fork `i` -/
def forkInputs (args : List (Bytes × Bool × List J)) (i : Nat) : List (Bytes × J) :=
  args.map fun a => (a.1, if a.2.1 then a.2.2.getD i .null else a.2.2.headD .null)

def nforks (args : List (Bytes × Bool × List J)) : Nat :=
  args.foldl (fun m a => if a.2.1 then max m a.2.2.length else m) 0

def objKeys : J → List Bytes
  | .obj kvs => kvs.map Prod.fst
  | _ => []

/-- the keys of the first split collection of a map call -/
def splitKeys (Γ : Env) (ρ : Store) : List (Bytes × Ty) → List (Bytes × Bind) → List Bytes
  | [], _ => []
  | (x, t) :: r, bs =>
    match bs.lookup x with
    | some (.split (.map _ kvs)) => kvs.toList.map Prod.fst
    | some (.split e) =>
      (match evalT Γ ρ (.tmap t) e with
        | some v => objKeys v
        | none => [])
    | _ => splitKeys Γ ρ r bs

/-- one call: the callee once, or once per fork -/
def callOut (rc : Runner) (callee : Callee) (keys : List Bytes) (args : List (Bytes × Bool × List J)) :
    Option SplitShape → Res J
  | none => rc callee (forkInputs args 0)
  | some (.arr _) =>
    (Res.collect ((List.range (nforks args)).map fun i => rc callee (forkInputs args i))).map J.arr
  | some (.map _) =>
    (Res.collect ((List.range (nforks args)).map fun i =>
      (rc callee (forkInputs args i)).map fun o => (keys.getD i [], o))).map J.obj

/-- the `disabled` modifier at run time (`Fork.disabled`): the reference is
resolved like any binding to a `bool`; `true` = the call is skipped, `false` = it
runs, null = the run time refuses to go on (`Res.nullDisabled`) -/
def disabledRT (Γ : Env) (ρ : Store) (m : Mods) : Res Bool :=
  match usingDisabled m.usings with
  | none => .ok false
  | some e =>
    match evalT Γ ρ (.base .bool) (bindExp Γ (.base .bool) e) with
    | some (.bool b) => .ok b
    | some .null => .nullDisabled
    | _ => .fail

def stepCall (rc : Runner) (Γ : Env) (ρ : Store) (c : CallStm) : Res (Env × Store) :=
  match checkStm Γ c, allBinds Γ c.callee.params c.binds c.wild with
  | some sh, some bs =>
    (match disabledRT Γ ρ c.mods with
      | .fail => .fail
      | .nullDisabled => .nullDisabled
      | .ok true =>
        -- a disabled call is not invoked; its outputs are null
        .ok ({ Γ with calls := Γ.calls ++ [(c.id, c.sig sh)] }, { ρ with calls := ρ.calls ++ [(c.id, .null)] })
      | .ok false =>
        match argLists Γ ρ bs c.callee.params with
        | none => .fail
        | some args =>
          match callOut rc c.callee (splitKeys Γ ρ c.callee.params bs) args sh with
          | .fail => .fail
          | .nullDisabled => .nullDisabled
          | .ok out =>
            .ok ({ Γ with calls := Γ.calls ++ [(c.id, c.sig sh)] }, { ρ with calls := ρ.calls ++ [(c.id, out)] }))
  | _, _ => .fail

def runCalls (rc : Runner) : Env → Store → List CallStm → Res (Env × Store)
  | Γ, ρ, [] => .ok (Γ, ρ)
  | Γ, ρ, c :: r =>
    match stepCall rc Γ ρ c with
    | .fail => .fail
    | .nullDisabled => .nullDisabled
    | .ok s => runCalls rc s.1 s.2 r

/-- one invocation of a pipeline -/
def runPipe (rc : Runner) (p : Pipeline) (ins : List (Bytes × J)) : Res J :=
  match runCalls rc { self := p.ins, calls := [] } { self := ins, calls := [] } p.calls with
  | .fail => .fail
  | .nullDisabled => .nullDisabled
  | .ok s =>
    match allBinds s.1 p.outs.toList p.ret p.retWild with
    | none => .fail
    | some bs =>
      match retValueT s.1 s.2 bs p.outs with
      | none => .fail
      | some vs => .ok (.obj vs)

/-- `n` levels of pipelines -/
def run (P : Prog) (O : Oracle) : Nat → Runner
  | 0 => fun _ _ => .fail
  | n + 1 => fun callee ins =>
    if callee.isStage then .ok (O callee.name ins)
    else
      match P.find callee.name with
      | none => .fail
      | some p => runPipe (run P O n) p ins

/-- the whole program: the top-level call statement, outside any pipeline -/
def runProgram (P : Prog) (O : Oracle) (n : Nat) (top : CallStm) : Res (Env × Store) :=
  stepCall (run P O n) emptyEnv { self := [], calls := [] } top

/-! ## the static hypotheses, as one decidable check -/

/-- `n` levels suffice for this callable (the call graph below it is acyclic
and at most `n` deep) -/
def fits (P : Prog) : Nat → Callee → Bool
  | 0, _ => false
  | n + 1, c =>
    c.isStage ||
      (match P.find c.name with
        | none => false
        | some p => p.calls.all fun s => fits P n s.callee)

/-- every split binding of the call is a map LITERAL with `n` keys, all of them
legal file names: the keys of the forks are known at compile time -/
def staticLegalKeys (n : Nat) (params : List (Bytes × Ty)) (bs : List (Bytes × Bind)) : Bool :=
  params.all fun p =>
    match bs.lookup p.1 with
    | some (.split (.map _ kvs)) =>
      decide (kvs.toList.length = n) && (kvs.toList.map Prod.fst).all legalName
    | some (.split _) => false
    | _ => true

/-- everything the theorem needs of one call statement in the environment `Γ`
(beyond its acceptance by `checkStm`):
well-formed declared types, distinct parameter names; well-formed expressions; `noHole` at every
reference (`bindHoleFreeT`: the C17 holes F9 / F10); a MAP call of a callable
whose outputs are file-typed must have STATICALLY KNOWN LEGAL KEYS – every split
binding a map literal whose keys are legal file names (`staticLegalKeys`) –
because its merged `map<struct>` needs fork keys that are legal file names and
nothing enforces that for keys that only exist at run time (audit M3); a called
pipeline is the one the program defines under that name. -/
def okStm (P : Prog) (Γ : Env) (c : CallStm) (sh : Option SplitShape) : Bool :=
  c.callee.params.all (fun p => p.2.wf) && (Ty.struct c.callee.name c.callee.outs).wf &&
  decide ((c.callee.params.map Prod.fst).Nodup) &&
  (match allBinds Γ c.callee.params c.binds c.wild with
    | none => false
    | some bs => bs.all fun ib =>
        ib.2.wf && (match c.callee.params.lookup ib.1 with
          | some t => bindHoleFreeT Γ t ib.2
          | none => true)) &&
  (match usingDisabled c.mods.usings with
    | some e => e.wf
    | none => true) &&
  (match sh with
    | some (.map ks) =>
      !isDirMap (Ty.struct c.callee.name c.callee.outs) ||
        (match allBinds Γ c.callee.params c.binds c.wild, ks with
          | some bs, some k => staticLegalKeys k.length c.callee.params bs
          | _, _ => false)
    | _ => true) &&
  (c.callee.isStage ||
    (match P.find c.callee.name with
      | some q => calleeEq q.callee c.callee
      | none => false))

/-- the calls of a pipeline body: accepted (`checkStm`), with new names, and `okStm` -/
def okCalls (P : Prog) : Env → List CallStm → Option Env
  | Γ, [] => some Γ
  | Γ, c :: r =>
    if (Γ.calls.lookup c.id).isSome then none
    else
      match checkStm Γ c with
      | none => none
      | some sh =>
        if okStm P Γ c sh then okCalls P { Γ with calls := Γ.calls ++ [(c.id, c.sig sh)] } r else none

/-- a pipeline: accepted (incl. no unused input), its calls `okCalls`, its return
bindings plain, well-formed and hole-free, its declared types well-formed -/
def okPipe (P : Prog) (p : Pipeline) : Bool :=
  validPipelineU p && p.ins.all (fun i => i.2.wf) && (Ty.struct p.name p.outs).wf &&
  (match okCalls P { self := p.ins, calls := [] } p.calls with
    | none => false
    | some Γ =>
      match allBinds Γ p.outs.toList p.ret p.retWild with
      | none => false
      | some bs => bs.all fun ib =>
          match ib.2 with
          | .plain e =>
            e.wf && (match p.outs.toList.lookup ib.1 with
              | some t => holeFree Γ t (bindExp Γ t e)
              | none => true)
          | .split _ => false)

/-! ### references into untyped maps (what `MakePipelineCallGraph` refuses)

The real run time never materialises the outputs of a nested pipeline or the
inputs of a called pipeline: `MakePipelineCallGraph` COMPOSES the bindings across
pipeline boundaries, and a mapped call whose forks are known statically is expanded
to a literal of references.  Wherever the composed expression below an UNTYPED
`map` destination is a map / struct literal that contains a reference, the resolver
refuses the program by design ("reference … cannot be bound inside an untyped
map", known finding F-C07-UMAP; audit pass 2, N1), although the compile-time
rules accept the binding.  The checked semantics `run` materialises values and
does not model the composition; the decidable hypothesis below excludes,
conservatively, every binding whose composed form can be such a literal. -/

mutual
  /-- the type contains the untyped `map` somewhere -/
  def hasUMap : Ty → Bool
    | .base b => b == .map
    | .user _ => false
    | .arr t => hasUMap t
    | .tmap t => hasUMap t
    | .struct _ fs => hasUMapF fs
  def hasUMapF : Fields → Bool
    | .nil => false
    | .cons _ t r => hasUMap t || hasUMapF r
end

/-- a mapped call whose composed form is safe below an untyped map: not map-mode.
(An array-mode call is expanded to / merged as an ARRAY, whose destination level is
an array type.  A map-mode call with statically known keys is expanded to a map
literal of references – refused; whether the keys are static after composition
depends on the callers, so every map mode is excluded here, conservatively: the
run-time map merges that 5969c07 repaired stay OUTSIDE the theorem.) -/
def srcSafe : Option SplitShape → Bool
  | some (.map _) => false
  | _ => true

/-- the call statements of a body that call `q`, with their environments -/
def sitesIn (q : Bytes) : Env → List CallStm → List (Env × CallStm)
  | _, [] => []
  | Γ, c :: r =>
    (if c.callee.name == q then [(Γ, c)] else []) ++
      (match checkStm Γ c with
        | some sh => sitesIn q { Γ with calls := Γ.calls ++ [(c.id, c.sig sh)] } r
        | none => [])

/-- a bare reference to an output of a singly-called STAGE of the same body: a value that only
exists at run time, whatever the callers of the pipeline do -/
def stageRef (P : Prog) (Γ : Env) : Exp → Bool
  | .call id _ =>
    (match Γ.calls.lookup id with
      | some sig => (P.find sig.name).isNone && sig.src.isNone
      | none => false)
  | _ => false

/-- `self.x` inside the pipeline named `q` is a run-time value in EVERY call of `q`:
`q` is not the top pipeline (whose inputs are literals) and every call binds `x` to
a bare reference to a stage output, plainly or split -/
def selfRuntimeIn (P : Prog) (topName : Bytes) (q : Bytes) (x : Bytes) : Bool :=
  q != topName &&
    P.pipes.all fun p' =>
      (sitesIn q { self := p'.ins, calls := [] } p'.calls).all fun site =>
        match allBinds site.1 site.2.callee.params site.2.binds site.2.wild with
        | none => false
        | some bs =>
          match bs.lookup x with
          | some (.plain e) => stageRef P site.1 e
          | some (.split e) => stageRef P site.1 e
          | none => false

/-- the keys of the MAP-mode call `c` of the body of `q` (environment `Γ`) are only
known at run time, also after the bindings have been composed across pipeline
boundaries: every split argument is a bare reference to a stage output of the
body, or to an input that is a run-time value in every call of `q`.  Such a merge
is resolved by `TopNode.resolveMerge` (an untyped-map destination takes it since
2cc08f5); with statically known keys it is expanded to a map literal of
references, which the resolver refuses inside an untyped map. -/
def runtimeKeys (P : Prog) (topName : Bytes) (q : Bytes) (Γ : Env) (c : CallStm) : Bool :=
  match allBinds Γ c.callee.params c.binds c.wild with
  | none => false
  | some bs => bs.all fun ib =>
      match ib.2 with
      | .plain _ => true
      | .split (.call id p) => stageRef P Γ (.call id p)
      | .split (.self x _) => selfRuntimeIn P topName q x
      | .split _ => false

/-- the composed form of a reference to the call `id` of the body of `q` is safe
below an untyped map as far as the MODE of the call goes: not map-mode, or map-mode
with run-time keys -/
def modeSafe (P : Prog) (topName : Bytes) (q : Pipeline) (id : Bytes) (src : Option SplitShape) : Bool :=
  srcSafe src ||
    (sitesInBody q.calls).any fun site => site.2.id == id && runtimeKeys P topName q.name site.1 site.2
where
  sitesInBody (calls : List CallStm) : List (Env × CallStm) :=
    allSites { self := q.ins, calls := [] } calls
  allSites : Env → List CallStm → List (Env × CallStm)
    | _, [] => []
    | Γ, c :: r =>
      (Γ, c) :: (match checkStm Γ c with
        | some sh => allSites { Γ with calls := Γ.calls ++ [(c.id, c.sig sh)] } r
        | none => [])

/-- the composed form of the output `o` of the pipeline `q` is a reference (to an
output of a stage) or a reference-free literal: its return binding is one, or a
reference to such an output of a pipeline it calls (`fuel` levels) -/
def pipeOutSafe (P : Prog) (topName : Bytes) : Nat → Pipeline → Bytes → Bool
  | 0, _, _ => false
  | n + 1, q, o =>
    match checkCalls { self := q.ins, calls := [] } q.calls with
    | none => false
    | some Γ =>
      match allBinds Γ q.outs.toList q.ret q.retWild with
      | none => false
      | some bs =>
        match bs.lookup o with
        | some (.plain e) =>
          !e.hasRef ||
            (match e with
              | .call id path =>
                (match Γ.calls.lookup id with
                  | some sig =>
                    modeSafe P topName q id sig.src &&
                      (match P.find sig.name with
                        | none => true
                        | some q' =>
                          match path with
                          | o' :: _ => pipeOutSafe P topName n q' o'
                          | [] => false)
                  | none => false)
              | _ => false)
        | _ => false

/-- a BARE reference whose composed form is still a reference or a reference-free
literal: an output of a stage (not map-mode), such an output of a nested pipeline,
or an input `self.x` for which `selfSafe x` holds -/
def bareSafe (P : Prog) (topName : Bytes) (fuel : Nat) (cur : Pipeline) (selfSafe : Bytes → Bool) (Γ : Env) : Exp → Bool
  | .call id path =>
    (match Γ.calls.lookup id with
      | some sig =>
        modeSafe P topName cur id sig.src &&
          (match P.find sig.name with
            | none => true
            | some q =>
              match path with
              | o :: _ => pipeOutSafe P topName fuel q o
              | [] => false)
      | none => false)
  | .self x _ => selfSafe x
  | _ => false

/-- an argument of a call of a nested pipeline: what `self.x` stands for inside it -/
def argSafe (P : Prog) (topName : Bytes) (fuel : Nat) (caller : Pipeline) (Γ : Env) (e : Exp) : Bool :=
  !e.hasRef || bareSafe P topName fuel caller (fun _ => caller.name == topName) Γ e

def bindArgSafe (P : Prog) (topName : Bytes) (fuel : Nat) (caller : Pipeline) (Γ : Env) : Bind → Bool
  | .plain e => argSafe P topName fuel caller Γ e
  | .split (.arr xs) => xs.toList.all (argSafe P topName fuel caller Γ)
  | .split (.map _ kvs) => kvs.toList.all fun kv => argSafe P topName fuel caller Γ kv.2
  | .split e => argSafe P topName fuel caller Γ e

/-- `self.x` inside `q`: `q` is the top pipeline (its inputs are reference-free
literals of the top-level call), or EVERY call of `q` in the program binds `x` to a
reference-free literal, a bare reference to a safe output, or a bare input of the top
pipeline -/
def selfSafeIn (P : Prog) (fuel : Nat) (topName : Bytes) (q : Pipeline) (x : Bytes) : Bool :=
  q.name == topName ||
    P.pipes.all fun p' =>
      (sitesIn q.name { self := p'.ins, calls := [] } p'.calls).all fun site =>
        match allBinds site.1 site.2.callee.params site.2.binds site.2.wild with
        | none => false
        | some bs =>
          match bs.lookup x with
          | some b => bindArgSafe P topName fuel p' site.1 b
          | none => false

mutual
  /-- position by position: wherever the destination is (or, below a bare reference,
  contains) the untyped `map`, the expression is reference-free or `safe` -/
  def umapT (safe : Exp → Bool) : Ty → Exp → Bool
    | .base b, e => b != .map || !e.hasRef || safe e
    | .user _, _ => true
    | .arr t, e =>
      match e with
      | .arr xs => xs.toList.all (fun x => umapT safe t x)
      | e => !hasUMap t || !e.hasRef || safe e
    | .tmap t, e =>
      match e with
      | .map _ kvs => kvs.toList.all (fun kv => umapT safe t kv.2)
      | e => !hasUMap t || !e.hasRef || safe e
    | .struct _ fs, e =>
      match e with
      | .map _ kvs => umapTF safe fs kvs
      | e => !hasUMapF fs || !e.hasRef || safe e
  def umapTF (safe : Exp → Bool) : Fields → KVs → Bool
    | .nil, _ => true
    | .cons k t r, kvs =>
      (match kvs.get k with
        | none => true
        | some e => umapT safe t e) && umapTF safe r kvs
end

def umapBind (safe : Exp → Bool) (t : Ty) : Bind → Bool
  | .plain e => umapT safe t e
  | .split (.arr xs) => xs.toList.all (fun x => umapT safe t x)
  | .split (.map _ kvs) => kvs.toList.all (fun kv => umapT safe t kv.2)
  | .split e => !hasUMap t || safe e

def umapCalls (safe : Env → Exp → Bool) : Env → List CallStm → Bool
  | _, [] => true
  | Γ, c :: r =>
    match checkStm Γ c, allBinds Γ c.callee.params c.binds c.wild with
    | some sh, some bs =>
      (bs.all fun ib =>
        match c.callee.params.lookup ib.1 with
        | some t => umapBind (safe Γ) t ib.2
        | none => true) &&
      umapCalls safe { Γ with calls := Γ.calls ++ [(c.id, c.sig sh)] } r
    | _, _ => true

/-- every call argument and every return binding of the pipeline `p` of a program
whose top pipeline is `topName` -/
def umapPipe (P : Prog) (topName : Bytes) (p : Pipeline) : Bool :=
  let fuel := P.pipes.length + 1
  let safe : Env → Exp → Bool := fun Γ => bareSafe P topName fuel p (selfSafeIn P fuel topName p) Γ
  umapCalls safe { self := p.ins, calls := [] } p.calls &&
  (match checkCalls { self := p.ins, calls := [] } p.calls with
    | none => true
    | some Γ =>
      match allBinds Γ p.outs.toList p.ret p.retWild with
      | none => true
      | some bs => bs.all fun ib =>
          match p.outs.toList.lookup ib.1 with
          | some t => umapBind (safe Γ) t ib.2
          | none => true)

/-- no `disabled` modifier of the body is fed by a call of the same body that has a
`disabled` modifier itself.  The output of a possibly-disabled producer may be
null without any stage returning null; the real code refuses such a control when
the program is invoked ("disabled modifier cannot be bound to a value that may be
null" – `DisabledExp.makeDisabledExp`; "disabled cannot be bound to a null value"
when the producer is statically disabled), unless the producer's own control is
statically false.  (Third audit pass, A4.  Not covered: a control fed by an output
of a nested PIPELINE whose producing call is conditionally disabled.) -/
def ctlPipe (p : Pipeline) : Bool :=
  p.calls.all fun c =>
    match usingDisabled c.mods.usings with
    | some (.call id _) =>
      p.calls.all fun c' => c'.id != id || (usingDisabled c'.mods.usings).isNone
    | _ => true

/-- the whole program: every pipeline definition, the top-level call, and no
reference that is composed into an untyped map -/
def progOk (P : Prog) (top : CallStm) : Bool :=
  P.pipes.all (okPipe P) && validTop top &&
    (match checkStm emptyEnv top with
      | some sh => okStm P emptyEnv top sh
      | none => false) &&
    P.pipes.all (fun p => umapPipe P top.callee.name p) &&
    P.pipes.all ctlPipe

/-- `progOk` without the hypothesis about composed bindings -/
def progOkCore (P : Prog) (top : CallStm) : Bool :=
  P.pipes.all (okPipe P) && validTop top &&
    (match checkStm emptyEnv top with
      | some sh => okStm P emptyEnv top sh
      | none => false) &&
    P.pipes.all ctlPipe

/-- what happens when the program is handed to the run time -/
inductive Outcome where
  /-- `InvokePipeline` refuses the program BY DESIGN: a reference would be bound
  inside an untyped map (`MakePipelineCallGraph`: "reference … cannot be bound
  inside an untyped map").  In the model: `umapPipe` fails for some pipeline – a
  conservative stand-in (the real code refuses only if the model does; tied per
  run), not a model of the composition. -/
  | refusedAtInvoke
  | ran (r : Res (Env × Store))

/-- invoke, then run -/
def invokeAndRun (P : Prog) (O : Oracle) (n : Nat) (top : CallStm) : Outcome :=
  if P.pipes.all (fun p => umapPipe P top.callee.name p) then .ran (runProgram P O n top)
  else .refusedAtInvoke

/-- no call of the program has a `disabled` modifier -/
def noDisabled (P : Prog) (top : CallStm) : Bool :=
  (usingDisabled top.mods.usings).isNone &&
    P.pipes.all fun p => p.calls.all fun c => (usingDisabled c.mods.usings).isNone

/-- the callables the program calls -/
def Prog.callees (P : Prog) (top : CallStm) : List Callee :=
  top.callee :: P.pipes.flatMap (fun p => p.calls.map (fun c => c.callee))

/-- the only assumption about the outside world: every invocation of a stage
the program calls returns outputs that conform to the stage's declared output
types -/
def OracleOk (P : Prog) (top : CallStm) (O : Oracle) : Prop :=
  ∀ c ∈ P.callees top, c.isStage = true → ∀ ins : List (Bytes × J),
    valid (.struct c.name c.outs) (O c.name ins) = true

end Martian.Typing
