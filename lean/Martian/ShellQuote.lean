/-
C18 model: martian/core/shell_quote.go `appendShellSafeQuote`, and
martian/core/jobmanager_remote.go `formatArgs`, together with a model of POSIX
shell word evaluation restricted to what those functions can emit.

Core Lean only (no Mathlib) so that the driver links natively.
-/
namespace Martian.ShellQuote

abbrev Bytes := List UInt8

/-! ## UTF-8 (as Go's `utf8.DecodeRuneInString` accepts it) -/

def isCont (b : UInt8) : Bool := 0x80 ≤ b && b ≤ 0xBF

/-- second byte of a rune is `≥ 0x80` in every accepted range -/
def ok2 (b0 b1 : UInt8) : Bool := 0xC2 ≤ b0 && b0 ≤ 0xDF && isCont b1

def ok3 (b0 b1 b2 : UInt8) : Bool :=
  0xE0 ≤ b0 && b0 ≤ 0xEF &&
    (if b0 == 0xE0 then 0xA0 ≤ b1 else 0x80 ≤ b1) &&
    (if b0 == 0xED then b1 ≤ 0x9F else b1 ≤ 0xBF) && isCont b2

def ok4 (b0 b1 b2 b3 : UInt8) : Bool :=
  0xF0 ≤ b0 && b0 ≤ 0xF4 &&
    (if b0 == 0xF0 then 0x90 ≤ b1 else 0x80 ≤ b1) &&
    (if b0 == 0xF4 then b1 ≤ 0x8F else b1 ≤ 0xBF) && isCont b2 && isCont b3

/-- Width of the rune encoded at the head of the list, or `none` when Go's
decoder would return `(RuneError, 1)`.  Follows Go's `first`/`acceptRanges`
tables (= Unicode Table 3-7). -/
def runeWidth : Bytes → Option Nat
  | [] => none
  | b0 :: r =>
    if b0 < 0x80 then some 1 else
    match r with
    | [] => none
    | [b1] => if ok2 b0 b1 then some 2 else none
    | [b1, b2] => if ok2 b0 b1 then some 2 else if ok3 b0 b1 b2 then some 3 else none
    | b1 :: b2 :: b3 :: _ =>
      if ok2 b0 b1 then some 2 else if ok3 b0 b1 b2 then some 3
      else if ok4 b0 b1 b2 b3 then some 4 else none

/-- `validFrom s k`: `s` is valid UTF-8 given that its first `k` bytes are the
(already validated) continuation bytes of a rune. -/
def validFrom : Bytes → Nat → Bool
  | [], _ => true
  | _ :: r, k + 1 => validFrom r k
  | b :: r, 0 =>
    match runeWidth (b :: r) with
    | some w => validFrom r (w - 1)
    | none => false

def validUtf8 (s : Bytes) : Bool := validFrom s 0

/-! ## The quoter -/

/-- The escape table: byte ↦ replacement, regenerated from the `switch` in
`appendShellSafeQuote` (see `Gen.Facts.shellEscapes`). -/
abbrev EscTable := List (UInt8 × Bytes)

def escOf (tbl : EscTable) (b : UInt8) : Bytes :=
  match tbl.lookup b with
  | some r => r
  | none => [b]

def octal (b : UInt8) : Bytes :=
  [(0x5C : UInt8), (0x30 : UInt8) + (b >>> 6), (0x30 : UInt8) + ((b >>> 3) &&& 7), (0x30 : UInt8) + (b &&& 7)]

/-- Body of `appendShellSafeQuote` (between the two `"`); `k` counts the
pending continuation bytes of a multi-byte rune that are copied verbatim. -/
def quoteFrom (tbl : EscTable) : Bytes → Nat → Bytes
  | [], _ => []
  | b :: r, k + 1 => b :: quoteFrom tbl r k
  | b :: r, 0 =>
    if b < 0x80 then escOf tbl b ++ quoteFrom tbl r 0
    else match runeWidth (b :: r) with
      | some w => b :: quoteFrom tbl r (w - 1)
      | none => octal b ++ quoteFrom tbl r 0

def quoteBody (tbl : EscTable) (s : Bytes) : Bytes := quoteFrom tbl s 0

def quote (tbl : EscTable) (s : Bytes) : Bytes := 0x22 :: (quoteBody tbl s ++ [0x22])

/-! ## POSIX shell: inside double quotes (XCU 2.2.3)

`$` and `` ` `` start an expansion (we report `none`: the word would not be
reproduced literally); `\` quotes only `$`, `` ` ``, `"`, `\` and newline
(the latter is a line continuation and disappears); any other `\x` keeps both
characters; an unescaped `"` ends the segment. -/

def dqSpecial (b : UInt8) : Bool := b == 0x24 || b == 0x60 || b == 0x22 || b == 0x5C

/-- Evaluate the inside of a double-quoted segment.  Input starts just after
the opening `"`.  Returns the value and the input remaining after the closing
`"`; `none` = unterminated, or an expansion would happen. -/
def dqEvalBody : Bytes → Option (Bytes × Bytes)
  | [] => none
  | b :: r =>
    if b == 0x22 then some ([], r)
    else if b == 0x24 || b == 0x60 then none
    else if b == 0x5C then
      match r with
      | [] => none
      | c :: r' =>
        if dqSpecial c then (dqEvalBody r').map fun (v, rest) => (c :: v, rest)
        else if c == 0x0A then dqEvalBody r'
        else (dqEvalBody r').map fun (v, rest) => (0x5C :: c :: v, rest)
    else (dqEvalBody r).map fun (v, rest) => (b :: v, rest)

/-- Evaluate a complete double-quoted word: `"…"` and nothing after. -/
def dqEval (w : Bytes) : Option Bytes :=
  match w with
  | 0x22 :: r =>
    match dqEvalBody r with
    | some (v, []) => some v
    | _ => none
  | _ => none

/-! ## POSIX shell: splitting a command line into words

Restricted to the token shapes `formatArgs` emits: blanks (space/tab),
backslash-newline continuations between words, and words that are
concatenations of plain name characters (`A-Za-z0-9_=` — the `KEY=` prefix of
an assignment word) and double-quoted segments.  Anything else yields `none`
(the model refuses to speak about it). -/

def isPlain (b : UInt8) : Bool :=
  (0x41 ≤ b && b ≤ 0x5A) || (0x61 ≤ b && b ≤ 0x7A) || (0x30 ≤ b && b ≤ 0x39)
    || b == 0x5F || b == 0x3D

def isBlank (b : UInt8) : Bool := b == 0x20 || b == 0x09

/-- `shWordsAux input cur inWord acc`.  `cur` is the word being built, `inWord`
records whether a word has started (an empty `""` is still a word), `acc` the
finished words.  Well-founded on the input length: every step consumes at
least one byte (the double-quote step is guarded accordingly). -/
def shWordsAux (inp : Bytes) (cur : Bytes) (inWord : Bool) (acc : List Bytes) :
    Option (List Bytes) :=
  match inp with
  | [] => some (if inWord then acc ++ [cur] else acc)
  | b :: r =>
    if isBlank b then shWordsAux r [] false (if inWord then acc ++ [cur] else acc)
    else if b == 0x5C then
      match r with
      | c :: r' => if c == 0x0A then shWordsAux r' cur inWord acc else none  -- line continuation only
      | [] => none
    else if b == 0x22 then
      match h : dqEvalBody r with
      | some (v, rest) =>
        if hlt : rest.length < r.length + 1 then shWordsAux rest (cur ++ v) true acc else none
      | none => none
    else if isPlain b then shWordsAux r (cur ++ [b]) true acc
    else none
termination_by inp.length
decreasing_by
  all_goals simp_wf
  all_goals omega

def shWords (inp : Bytes) : Option (List Bytes) := shWordsAux inp [] false []

/-! ## `formatArgs` -/

def sep : Bytes := [0x20, 0x5C, 0x0A, 0x20, 0x20]   -- " \\\n  "

/-- The word the shell must see for an assignment: `KEY=value`. -/
def assignWord (kv : Bytes × Bytes) : Bytes := kv.1 ++ [0x3D] ++ kv.2

def envStr (tbl : EscTable) (kv : Bytes × Bytes) : Bytes :=
  kv.1 ++ [0x3D] ++ quote tbl kv.2

/-- `formatArgs` given the environment strings in the order Go's
`sort.Strings` leaves them (bytewise lexicographic on the rendered string). -/
def formatArgsOrdered (tbl : EscTable) (envs : List (Bytes × Bytes)) (cmd : Bytes)
    (argv : List Bytes) : Bytes :=
  (envs.map fun kv => envStr tbl kv ++ sep).flatten
    ++ quote tbl cmd
    ++ (argv.map fun a => sep ++ quote tbl a).flatten

def bytesLt : Bytes → Bytes → Bool
  | [], [] => false
  | [], _ :: _ => true
  | _ :: _, [] => false
  | a :: as, b :: bs => a < b || (a == b && bytesLt as bs)

def insertSorted (tbl : EscTable) (kv : Bytes × Bytes) : List (Bytes × Bytes) → List (Bytes × Bytes)
  | [] => [kv]
  | x :: xs => if bytesLt (envStr tbl kv) (envStr tbl x) then kv :: x :: xs
               else x :: insertSorted tbl kv xs

def sortEnvs (tbl : EscTable) (envs : List (Bytes × Bytes)) : List (Bytes × Bytes) :=
  envs.foldr (insertSorted tbl) []

def formatArgs (tbl : EscTable) (envs : List (Bytes × Bytes)) (cmd : Bytes)
    (argv : List Bytes) : Bytes :=
  formatArgsOrdered tbl (sortEnvs tbl envs) cmd argv

end Martian.ShellQuote
