import Martian.Vdr

/-!
Path normalisation and symbolic links as the VDR code sees them:
`filepath.Clean` on rooted paths, `pathIsInside` on uncleaned arguments, and
`getLogicalFileNames` (the name, its cleaned form, the fully resolved name and
every hop of the symlink chain) over a small file-system model: a list of
entries at their real locations, some of them links — also links to
directories, so that a path may lead through linked parent components.
-/
namespace Martian.Vdr

/-- split at every separator (`"/a//b/"` ↦ `["", "a", "", "b", ""]`) -/
def splitSlash : Path → List Path
  | [] => [[]]
  | ch :: r =>
    if ch == '/' then [] :: splitSlash r
    else match splitSlash r with
      | [] => [[ch]]
      | h :: t => (ch :: h) :: t

/-- the component stack of `filepath.Clean` for a rooted path: empty and `.`
components vanish, `..` pops (and is dropped at the root) -/
def cleanComps : List Path → List Path → List Path
  | acc, [] => acc.reverse
  | acc, c :: r =>
    if c == [] || c == ['.'] then cleanComps acc r
    else if c == ['.', '.'] then cleanComps (acc.drop 1) r
    else cleanComps (c :: acc) r

def joinComps (cs : List Path) : Path := cs.flatMap (fun c => '/' :: c)

/-- `filepath.Clean` on a rooted (absolute) path -/
def cleanAbs (p : Path) : Path :=
  let cs := cleanComps [] (splitSlash p)
  if cs.isEmpty then ['/'] else joinComps cs

/-- `pathIsInside` as written: equal strings, else compare the cleaned forms -/
def pathIsInsideRaw (test parent : Path) : Bool :=
  test == parent ||
    (let p := cleanAbs parent; let n := cleanAbs test
     n == p || (p.length < n.length && (p ++ ['/']).isPrefixOf n))

/-- `filepath.Dir` of a clean rooted path -/
def dirOf (p : Path) : Path :=
  let cs := cleanComps [] (splitSlash p)
  if cs.length ≤ 1 then ['/'] else joinComps cs.dropLast

def isAbs (p : Path) : Bool := p.head? == some '/'

/-- one file-system entry: its (clean, rooted) path and, for a symlink, the link text -/
structure FsEnt where
  path : Path
  link : Option Path
  deriving DecidableEq, Repr

def fsFind (fs : List FsEnt) (p : Path) : Option FsEnt := fs.find? (fun e => e.path == p)

/-- the components of a rooted path after cleaning -/
def compsOf (p : Path) : List Path := cleanComps [] (splitSlash p)

def joinRoot (cs : List Path) : Path := if cs.isEmpty then ['/'] else joinComps cs

/-- `filepath.EvalSymlinks`: resolve the components left to right; a link is
replaced by its (cleaned) destination and resolution starts over.  `res` are
the components already known to be real directories. -/
def evalFrom (fs : List FsEnt) : Nat → List Path → List Path → Option Path
  | 0, _, _ => none
  | _ + 1, res, [] => some (joinRoot res)
  | fuel + 1, res, c :: rest =>
    match fsFind fs (joinComps (res ++ [c])) with
    | none => none
    | some e =>
      match e.link with
      | none => evalFrom fs fuel (res ++ [c]) rest
      | some raw =>
        let t := if isAbs raw then cleanAbs raw else cleanAbs (joinComps res ++ ['/'] ++ raw)
        evalFrom fs fuel [] (compsOf t ++ rest)

def evalSymlinks (fs : List FsEnt) (p : Path) : Option Path := evalFrom fs 200 [] (compsOf p)

/-- `os.Lstat` / `os.Readlink`: parent components are resolved, the last one is not -/
def lfind (fs : List FsEnt) (p : Path) : Option FsEnt :=
  match (compsOf p).reverse with
  | [] => fsFind fs ['/']
  | last :: revInit =>
    match evalFrom fs 200 [] revInit.reverse with
    | none => none
    | some d => fsFind fs (if d == ['/'] then '/' :: last else d ++ '/' :: last)

/-- the destination of a link as the loop uses it (relative ones are joined
to the directory and cleaned, absolute ones are kept as written) -/
def linkDest (name raw : Path) : Path :=
  if isAbs raw then raw else cleanAbs (dirOf name ++ ['/'] ++ raw)

/-- an absolute, unclean destination also contributes its cleaned form -/
def addClean (names : List Path) (raw : Path) : List Path :=
  if isAbs raw && cleanAbs raw != raw && !(names.contains (cleanAbs raw))
  then names ++ [cleanAbs raw] else names

/-- the loop of `getLogicalFileNames` over the chain of links; `names` is the
result so far (also the seen set, once the loop has started) -/
def chase (fs : List FsEnt) : Nat → Path → List Path → List Path
  | 0, _, names => names
  | fuel + 1, name, names =>
    match lfind fs name with
    | none => names
    | some e =>
      match e.link with
      | none => names
      | some raw =>
        if (addClean names raw).contains (linkDest name raw) then addClean names raw
        else
          -- Lstat(dest) is done on the uncleaned name; the model's entries are clean
          match lfind fs (cleanAbs (linkDest name raw)) with
          | none => addClean names raw ++ [linkDest name raw]
          | some _ => chase fs fuel (cleanAbs (linkDest name raw)) (addClean names raw ++ [linkDest name raw])

/-- `getLogicalFileNames` -/
def logicalNames (fs : List FsEnt) (name : Path) : List Path :=
  match lfind fs (cleanAbs name) with
  | none => []
  | some _ =>
    let names := [name]
    let names := if cleanAbs name != name then names ++ [cleanAbs name] else names
    let names := match evalSymlinks fs (cleanAbs name) with
      | some r => if r != cleanAbs name then names ++ [r] else names
      | none => names
    chase fs 40 (cleanAbs name) names

/-- no symbolic link of the file system is a proper ancestor of `p`: every
parent component of `p` is a real directory, so the operating system acts on
`p` where it is written -/
def ParentsReal (fs : List FsEnt) (p : Path) : Prop :=
  ∀ e ∈ fs, e.link ≠ none → ¬ ((e.path ++ ['/']) <+: p)

/-- where an operation on `p` acts when the link `e` is a parent component of
`p` (the kernel resolves parent links; the last component is not followed by
`os.RemoveAll`) -/
def throughLink (e : FsEnt) (p : Path) : Path :=
  match e.link with
  | some t => if (e.path ++ ['/']).isPrefixOf p then t ++ p.drop e.path.length else p
  | none => p

end Martian.Vdr
