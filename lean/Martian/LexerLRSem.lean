import Martian.LexerLRGen
import Martian.FormatExp
import Martian.FormatCall2

/-!
C08/C09: semantic values for the LR driver model on the VALUE-EXPRESSION
sub-grammar: `parseLR : List Tok → Option Exp` is the real algorithm — the
goyacc loop `mmParse` on the regenerated tables (Martian/LexerLR.lean) — with
the semantic actions of grammar.y for `val_exp`, `exp`, `ref_exp`, the list
rules, `id_list` and `file: val_exp`, building x-c09's AST type
`Martian.FormatExp.Exp` from x-c09's token type.

The actions are recognised by their TEXT in grammar.go (`Gen.mmProdBody`,
re-read on every run): `semTable` lists the text each modelled action has; a
production whose action text is not listed is "unknown" (its value is `none`),
a production without an action has goyacc's default `$$ = $1`.
-/
namespace Martian.LexerLR
open Martian.FormatExp (Exp Tok)
open Martian.FormatCall (Bind)
open Martian.FormatCall2 (Call2 Mods)

abbrev Bytes := List UInt8

/-- a value-stack entry -/
inductive Val
  | none
  | tok (t : Tok)                      -- a shifted token (`lval.val` = its text)
  | ids (l : List Bytes)               -- `id_list`: the ids between the dots
  | exp (e : Exp)
  | exps (l : List Exp)
  | kvs (l : List (Bytes × Exp))       -- a Go map under construction, in insertion order
  | result (e : Exp)                   -- `mmlex.exp`, set by `file: val_exp`
  | mods (l p v : Bool)                -- `modifiers`
  | bind (b : Bind)                    -- a binding; the wildcard binding has the id `*`
  | binds (l : List Bind)              -- `BindStms.List` (also of a `using` block)
  | call (c : Call2)
  | resultCall (c : Call2)             -- `global.call` of `file: call_stm`
  deriving Repr, Inhabited

inductive Sem
  | fileVal | idsSnoc | idsOne | expsSnoc | expsOne | kvSnoc | kvOne | svSnoc | svOne | expOfV | expOfR
  | floatE | intE | strE | nullE | arrE | arrEmpty | mapE | structE | mapEmpty | trueE | falseE
  | refCallOut | refCallDefault | refCall | refSelf | refSelfOut
  | fileCall | callBegin | callBeginAs | callBinds | callMapBinds | callUsing | modsEmpty | modsLocal | modsPre | modsVol
  | bindsEmpty | bindsSnoc | bindsOne | modLocal | modPre | modVol | modDisabled | bindStm | wildRef | wildSelf
  | splitColl | splitRef
  deriving Repr, DecidableEq

/-- the text of each modelled action in grammar.go (normalised by the extractor) -/
def semTable : List (String × Sem) := [
  ("{ global := NewAst(nil, nil, mmDollar[1].loc.File) mmlex.(*mmLexInfo).global = global mmlex.(*mmLexInfo).exp = mmDollar[1].vexp }",
    .fileVal),
  ("{ mmVAL.val = append(append(mmDollar[1].val, '.'), mmDollar[3].val...) }",
    .idsSnoc),
  ("{ mmVAL.val = mmDollar[1].val[:len(mmDollar[1].val):len(mmDollar[1].val)] }",
    .idsOne),
  ("{ mmVAL.exps = append(mmDollar[1].exps, mmDollar[3].exp) }",
    .expsSnoc),
  ("{ mmVAL.exps = []Exp{mmDollar[1].exp} }",
    .expsOne),
  ("{ mmDollar[1].kvpairs[unquote(mmDollar[3].val)] = mmDollar[5].exp mmVAL.kvpairs = mmDollar[1].kvpairs }",
    .kvSnoc),
  ("{ mmVAL.kvpairs = map[string]Exp{unquote(mmDollar[1].val): mmDollar[3].exp} }",
    .kvOne),
  ("{ mmDollar[1].kvpairs[mmDollar[3].intern.Get(mmDollar[3].val)] = mmDollar[5].exp mmVAL.kvpairs = mmDollar[1].kvpairs }",
    .svSnoc),
  ("{ mmVAL.kvpairs = map[string]Exp{mmDollar[1].intern.Get(mmDollar[1].val): mmDollar[3].exp} }",
    .svOne),
  ("{ mmVAL.exp = mmDollar[1].vexp }",
    .expOfV),
  ("{ mmVAL.exp = mmDollar[1].rexp }",
    .expOfR),
  ("{ f := parseFloat(mmDollar[1].val) mmVAL.vexp = &FloatExp{valExp: valExp{Node: NewAstNode(mmDollar[1].loc)}, Value: f} }",
    .floatE),
  ("{ i := parseInt(mmDollar[1].val) mmVAL.vexp = &IntExp{valExp: valExp{Node: NewAstNode(mmDollar[1].loc)}, Value: i} }",
    .intE),
  ("{ mmVAL.vexp = &StringExp{valExp: valExp{Node: NewAstNode(mmDollar[1].loc)}, Value: unquote(mmDollar[1].val)} }",
    .strE),
  ("{ mmVAL.vexp = &NullExp{valExp: valExp{Node: NewAstNode(mmDollar[1].loc)}} }",
    .nullE),
  ("{ mmVAL.vexp = &ArrayExp{valExp: valExp{Node: NewAstNode(mmDollar[1].loc)}, Value: mmDollar[2].exps} }",
    .arrE),
  ("{ mmVAL.vexp = &ArrayExp{valExp: valExp{Node: NewAstNode(mmDollar[1].loc)}, Value: make([]Exp, 0)} }",
    .arrEmpty),
  ("{ mmVAL.vexp = &MapExp{valExp: valExp{Node: NewAstNode(mmDollar[1].loc)}, Kind: KindMap, Value: mmDollar[2].kvpairs} }",
    .mapE),
  ("{ mmVAL.vexp = &MapExp{valExp: valExp{Node: NewAstNode(mmDollar[1].loc)}, Kind: KindStruct, Value: mmDollar[2].kvpairs} }",
    .structE),
  ("{ mmVAL.vexp = &MapExp{valExp: valExp{Node: NewAstNode(mmDollar[1].loc)}, Kind: KindMap, Value: make(map[string]Exp, 0)} }",
    .mapEmpty),
  ("{ mmVAL.vexp = &BoolExp{valExp: valExp{Node: NewAstNode(mmDollar[1].loc)}, Value: true} }",
    .trueE),
  ("{ mmVAL.vexp = &BoolExp{valExp: valExp{Node: NewAstNode(mmDollar[1].loc)}, Value: false} }",
    .falseE),
  ("{ mmVAL.rexp = &RefExp{Node: NewAstNode(mmDollar[1].loc), Kind: KindCall, Id: mmDollar[1].intern.Get(mmDollar[1].val), OutputId: mmDollar[3].intern.Get(mmDollar[3].val)} }",
    .refCallOut),
  ("{ mmVAL.rexp = &RefExp{Node: NewAstNode(mmDollar[1].loc), Kind: KindCall, Id: mmDollar[1].intern.Get(mmDollar[1].val), OutputId: defaultOutName} }",
    .refCallDefault),
  ("{ mmVAL.rexp = &RefExp{Node: NewAstNode(mmDollar[1].loc), Kind: KindCall, Id: mmDollar[1].intern.Get(mmDollar[1].val)} }",
    .refCall),
  ("{ mmVAL.rexp = &RefExp{Node: NewAstNode(mmDollar[1].loc), Kind: KindSelf, Id: mmDollar[3].intern.Get(mmDollar[3].val)} }",
    .refSelf),
  ("{ mmVAL.rexp = &RefExp{Node: NewAstNode(mmDollar[1].loc), Kind: KindSelf, Id: mmDollar[3].intern.Get(mmDollar[3].val), OutputId: mmDollar[5].intern.Get(mmDollar[5].val)} }",
    .refSelfOut),
  ("{ global := NewAst(nil, mmDollar[1].call, mmDollar[1].loc.File) mmlex.(*mmLexInfo).global = global }",
    .fileCall),
  ("{ id := mmDollar[3].intern.Get(mmDollar[3].val) mmVAL.call = &CallStm{Node: NewAstNode(mmDollar[1].loc), Modifiers: mmDollar[2].modifiers, Id: id, DecId: id} }",
    .callBegin),
  ("{ mmVAL.call = &CallStm{Node: NewAstNode(mmDollar[1].loc), Modifiers: mmDollar[2].modifiers, Id: mmDollar[5].intern.Get(mmDollar[5].val), DecId: mmDollar[3].intern.Get(mmDollar[3].val)} }",
    .callBeginAs),
  ("{ mmDollar[1].call.Bindings = mmDollar[3].bindings mmVAL.call = mmDollar[1].call }",
    .callBinds),
  ("{ mmDollar[2].call.Bindings = mmDollar[4].bindings mmDollar[2].call.Mapping = &mapSourcePlaceholder mmVAL.call = mmDollar[2].call }",
    .callMapBinds),
  ("{ mmDollar[1].call.Modifiers.Bindings = mmDollar[4].bindings mmVAL.call = mmDollar[1].call }",
    .callUsing),
  ("{ mmVAL.modifiers = new(Modifiers) }",
    .modsEmpty),
  ("{ mmVAL.modifiers.Local = true }",
    .modsLocal),
  ("{ mmVAL.modifiers.Preflight = true }",
    .modsPre),
  ("{ mmVAL.modifiers.Volatile = true }",
    .modsVol),
  ("{ mmVAL.bindings = &BindStms{Node: NewAstNode(mmDollar[0].loc)} }",
    .bindsEmpty),
  ("{ mmDollar[1].bindings.List = append(mmDollar[1].bindings.List, mmDollar[2].binding) mmVAL.bindings = mmDollar[1].bindings }",
    .bindsSnoc),
  ("{ mmVAL.bindings = &BindStms{Node: NewAstNode(mmDollar[0].loc), List: []*BindStm{mmDollar[1].binding}} }",
    .bindsOne),
  ("{ mmVAL.binding = &BindStm{Node: NewAstNode(mmDollar[1].loc), Id: local, Exp: mmDollar[3].vexp} }",
    .modLocal),
  ("{ mmVAL.binding = &BindStm{Node: NewAstNode(mmDollar[1].loc), Id: preflight, Exp: mmDollar[3].vexp} }",
    .modPre),
  ("{ mmVAL.binding = &BindStm{Node: NewAstNode(mmDollar[1].loc), Id: volatile, Exp: mmDollar[3].vexp} }",
    .modVol),
  ("{ mmVAL.binding = &BindStm{Node: NewAstNode(mmDollar[1].loc), Id: disabled, Exp: mmDollar[3].rexp} }",
    .modDisabled),
  ("{ mmVAL.binding = &BindStm{Node: NewAstNode(mmDollar[1].loc), Id: mmDollar[1].intern.Get(mmDollar[1].val), Exp: mmDollar[3].exp} }",
    .bindStm),
  ("{ mmVAL.binding = &BindStm{Node: NewAstNode(mmDollar[1].loc), Id: \"*\", Exp: mmDollar[3].rexp} }",
    .wildRef),
  ("{ mmVAL.binding = &BindStm{Node: NewAstNode(mmDollar[1].loc), Id: \"*\", Exp: &RefExp{Node: NewAstNode(mmDollar[3].loc), Kind: KindSelf}} }",
    .wildSelf),
  ("{ mmVAL.binding = &BindStm{Node: NewAstNode(mmDollar[1].loc), Id: mmDollar[1].intern.Get(mmDollar[1].val), Exp: &SplitExp{valExp: valExp{Node: NewAstNode(mmDollar[3].loc)}, Value: mmDollar[4].vexp, Source: mmDollar[4].vexp.(MapCallSource)}} }",
    .splitColl),
  ("{ mmVAL.binding = &BindStm{Node: NewAstNode(mmDollar[1].loc), Id: mmDollar[1].intern.Get(mmDollar[1].val), Exp: &SplitExp{valExp: valExp{Node: NewAstNode(mmDollar[3].loc)}, Value: mmDollar[4].rexp}} }",
    .splitRef)
]

def semOfBody (body : String) : Option Sem := (semTable.find? fun p => p.1 == body).map (·.2)

/-- the `id` a value stands for (`id: ID | COMPILED | …` have the default action) -/
def idOf : Val → Option Bytes
  | .tok (.id w) => some w
  | _ => none

/-- `BindStms.List` as the parser builds it → the bindings and the final
wildcard binding (`* = …`), if any -/
def splitWild (bs : List Bind) : List Bind × Option Exp :=
  match bs.getLast? with
  | some b => if b.id == Martian.FormatCall2.sStar then (bs.dropLast, some b.exp) else (bs, Option.none)
  | Option.none => ([], Option.none)

/-- a modelled action on `$1 … $k`; `none` = the Go action would panic
(`parseInt` / `unquote` on a text the scanner does not emit) or the values do
not have the shape the grammar guarantees -/
def semApply : Sem → List Val → Option Val
  | .floatE, [.tok (.float t)] => some (.exp (.float t))
  | .intE, [.tok (.int t)] => (Martian.Lexer.parseInt t).map fun i => .exp (.int i)
  | .strE, [.tok (.str t)] => (Martian.Lexer.unquoteBytes t).map fun s => .exp (.str s)
  | .nullE, [_] => some (.exp .null)
  | .trueE, [_] => some (.exp (.bool true))
  | .falseE, [_] => some (.exp (.bool false))
  | .arrE, [_, .exps l, _] => some (.exp (.arr l))
  | .arrEmpty, [_, _] => some (.exp (.arr []))
  | .mapE, [_, .kvs l, _] => some (.exp (.map (Martian.FormatExp.mkMap l)))
  | .structE, [_, .kvs l, _] => some (.exp (.struct (Martian.FormatExp.mkMap l)))
  | .mapEmpty, [_, _] => some (.exp (.map []))
  | .expsSnoc, [.exps l, _, .exp e] => some (.exps (l ++ [e]))
  | .expsOne, [.exp e] => some (.exps [e])
  | .kvSnoc, [.kvs l, _, .tok (.str k), _, .exp e] =>
    (Martian.Lexer.unquoteBytes k).map fun key => .kvs (l ++ [(key, e)])
  | .kvOne, [.tok (.str k), _, .exp e] => (Martian.Lexer.unquoteBytes k).map fun key => .kvs [(key, e)]
  | .svSnoc, [.kvs l, _, v, _, .exp e] => (idOf v).map fun key => .kvs (l ++ [(key, e)])
  | .svOne, [v, _, .exp e] => (idOf v).map fun key => .kvs [(key, e)]
  | .expOfV, [.exp e] => some (.exp e)
  | .expOfR, [.exp e] => some (.exp e)
  | .refCallOut, [v, _, .ids l] => (idOf v).map fun x => .exp (.ref false x l)
  | .refCallDefault, [v, _, _] => (idOf v).map fun x => .exp (.ref false x [Martian.FormatExp.sDefault])
  | .refCall, [v] => (idOf v).map fun x => .exp (.ref false x [])
  | .refSelf, [_, _, v] => (idOf v).map fun x => .exp (.ref true x [])
  | .refSelfOut, [_, _, v, _, .ids l] => (idOf v).map fun x => .exp (.ref true x l)
  | .idsSnoc, [.ids l, _, v] => (idOf v).map fun x => .ids (l ++ [x])
  | .idsOne, [v] => (idOf v).map fun x => .ids [x]
  | .fileVal, [.exp e] => some (.result e)
  -- call statements (`file: call_stm`)
  | .modsEmpty, [] => some (.mods false false false)
  | .modsLocal, [.mods _ p v, _] => some (.mods true p v)
  | .modsPre, [.mods l _ v, _] => some (.mods l true v)
  | .modsVol, [.mods l p _, _] => some (.mods l p true)
  | .callBegin, [_, .mods l p v, x] => (idOf x).map fun d => .call ⟨d, d, [], Option.none, ⟨l, p, v, []⟩⟩
  | .callBeginAs, [_, .mods l p v, x, _, y] =>
    (idOf x).bind fun d => (idOf y).map fun i => .call ⟨d, i, [], Option.none, ⟨l, p, v, []⟩⟩
  | .callBinds, [.call c, _, .binds bs, _] => some (.call { c with binds := (splitWild bs).1, wildcard := (splitWild bs).2 })
  | .callMapBinds, [_, .call c, _, .binds bs, _] =>
    some (.call { c with binds := (splitWild bs).1, wildcard := (splitWild bs).2 })
  | .callUsing, [.call c, _, _, .binds ms, _] =>
    some (.call { c with mods := { c.mods with binds := ms.map fun b => (b.id, b.exp) } })
  | .bindsEmpty, [] => some (.binds [])
  | .bindsSnoc, [.binds l, .bind b] => some (.binds (l ++ [b]))
  | .bindsOne, [.bind b] => some (.binds [b])
  | .modLocal, [_, _, .exp e, _] => some (.bind ⟨Martian.FormatCall2.sLocal, false, e⟩)
  | .modPre, [_, _, .exp e, _] => some (.bind ⟨Martian.FormatCall2.sPreflight, false, e⟩)
  | .modVol, [_, _, .exp e, _] => some (.bind ⟨Martian.FormatCall2.sVolatile, false, e⟩)
  | .modDisabled, [_, _, .exp e, _] => some (.bind ⟨Martian.FormatCall2.sDisabled, false, e⟩)
  | .bindStm, [x, _, .exp e, _] => (idOf x).map fun k => .bind ⟨k, false, e⟩
  | .wildRef, [_, _, .exp e, _] => some (.bind ⟨Martian.FormatCall2.sStar, false, e⟩)
  | .wildSelf, [_, _, _, _] => some (.bind ⟨Martian.FormatCall2.sStar, false, .ref true [] []⟩)
  | .splitColl, [x, _, _, .exp e, _] => (idOf x).map fun k => .bind ⟨k, true, e⟩
  | .splitRef, [x, _, _, .exp e, _] => (idOf x).map fun k => .bind ⟨k, true, e⟩
  | .fileCall, [.call c] => some (.resultCall c)
  | _, _ => none

/-- which modelled action production `n` has: `none` = no action in grammar.go
(goyacc's default `$$ = $1`), `some none` = an action outside the modelled
sub-grammar -/
def semKind (n : Nat) : Option (Option Sem) :=
  (Gen.mmProdBody.find? (fun p => p.1 == n)).map fun p => semOfBody p.2

/-- the semantic action of production `n` on its right-hand side values -/
def semAct (n : Nat) (args : List Val) : Option Val :=
  match semKind n with
  | none => some (args.headD .none)              -- no action: `$$ = $1`
  | some (some s) => semApply s args
  | some none => some .none                      -- an action outside the modelled sub-grammar

/-- the id `Lex` returns for a token of x-c09's token type -/
def tokChar (t : Tok) : Int :=
  let idn (name : String) : Int := (Martian.Tokenizer.lookupId Gen.tokIds name : Nat)
  match t with
  | .punct c => (c.toNat : Int)
  | .str _ => idn "LITSTRING"
  | .int _ => idn "NUM_INT"
  | .float _ => idn "NUM_FLOAT"
  | .id w =>
    match Martian.FormatExp.lookupKw w Martian.FormatExp.keywordTable with
    | some name => if Martian.FormatExp.idTokens.contains name then idn name else idn "ID"
    | none => idn "ID"
  | .kTrue => idn "TRUE"
  | .kFalse => idn "FALSE"
  | .kNull => idn "NULL"
  | .kSelf => idn "SELF"
  | .kDefault => idn "DEFAULT"
  | .reserved w =>
    match Martian.FormatExp.lookupKw w Martian.FormatExp.keywordTable with
    | some name => idn name
    | none => if w == Martian.FormatExp.sAtInclude then idn "INCLUDE_DIRECTIVE" else idn "INVALID"

structure SemState where
  vals : List Val            -- value stack, top first, parallel to the state stack
  la : Option Tok
  toks : List Tok
  pending : Option Nat       -- a reduction whose goto push has not happened yet
  ok : Bool                  -- no action has failed

/-- replay the driver's events (in order) on the value stack -/
def semStep (T : Tables) (st : SemState) : Event → SemState
  | .lex _ _ =>
    match st.toks with
    | t :: r => { st with la := some t, toks := r }
    | [] => { st with la := Option.none }
  | .reduce n _ => { st with pending := some n }
  | .push _ =>
    match st.vals, st.pending with
    | [], _ => { st with vals := [.none] }                 -- the initial push of state 0
    | _, some n =>
      let k := ((T.r2.get? n).getD 0).toNat
      match semAct n ((st.vals.take k).reverse) with
      | some v => { st with vals := v :: st.vals.drop k, pending := Option.none }
      | Option.none => { st with vals := .none :: st.vals.drop k, pending := Option.none, ok := false }
    | _, Option.none =>
      { st with vals := (match st.la with | some t => .tok t | Option.none => .none) :: st.vals, la := Option.none }
  | _ => st

/-- **the goyacc parser on a token list**, as `Parser.ParseValExp` uses it: the
driver loop on the regenerated tables, the modelled semantic actions, and the
result `mmlex.exp` of an accepting run (`none`: syntax error, an action that
would panic, or not a value expression) -/
def runSem (ts : List Tok) : Option Val :=
  let chars := ts.map tokChar
  let r := runFuel genTables (fun _ => false) (fuelFor genCert chars) (init chars) [.push 0]
  match r.1 with
  | .accept =>
    let st := r.2.reverse.foldl (semStep genTables) ⟨[], Option.none, ts, Option.none, true⟩
    if st.ok then st.vals.head? else Option.none
  | _ => Option.none

def parseLR (ts : List Tok) : Option Exp :=
  match runSem ts with
  | some (.result e) => some e
  | _ => Option.none

/-- the goyacc parser on a token list that is ONE call statement (`file:
call_stm`): modifiers, `as`, bindings with `split` and the wildcard, `using`
blocks — x-c09's `Call2` -/
def parseLRCall (ts : List Tok) : Option Call2 :=
  match runSem ts with
  | some (.resultCall c) => some c
  | _ => Option.none

mutual
/-- structural equality of expressions, as a Boolean (for kernel-checked examples) -/
def expEq : Exp → Exp → Bool
  | .null, .null => true
  | .nilArr, .nilArr => true
  | .bool a, .bool b => a == b
  | .int a, .int b => a == b
  | .float a, .float b => a == b
  | .str a, .str b => a == b
  | .arr a, .arr b => expsEq a b
  | .map a, .map b => kvsEq a b
  | .struct a, .struct b => kvsEq a b
  | .ref s x o, .ref s' x' o' => s == s' && x == x' && o == o'
  | _, _ => false
def expsEq : List Exp → List Exp → Bool
  | [], [] => true
  | a :: r, b :: r' => expEq a b && expsEq r r'
  | _, _ => false
def kvsEq : List (Bytes × Exp) → List (Bytes × Exp) → Bool
  | [], [] => true
  | (k, a) :: r, (k', b) :: r' => k == k' && expEq a b && kvsEq r r'
  | _, _ => false
end

def optExpEq : Option Exp → Option Exp → Bool
  | some a, some b => expEq a b
  | Option.none, Option.none => true
  | _, _ => false

/-- `Parser.ParseValExp` through the goyacc model: x-c09's tokenizer, then `parseLR` -/
def parseValExpLR (src : Bytes) : Option Exp := (Martian.FormatExp.lexAll src).bind parseLR

end Martian.LexerLR
