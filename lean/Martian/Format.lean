/-
C09 model: the pieces of the canonical formatter with a logical core.

* `quoteString` of martian/syntax/format_exp.go over bytes (the JSON-style
  string printer used for every string literal, help text, out name, map key);
  its inverse is the lexer's `unquoteBytes` (Martian/Lexer.lean).
* the emission of `src` commands / `@include` paths: raw (as shipped) or quoted
  (repaired).
* `Pipeline.topoSort` of compile_pipelines.go: transitive closure of the call
  dependencies (the until-nothing-changes loop of `addNextDeps`), then the stable "shift a call to just after its last
  dependency" loop which the formatter and the compiler both run.

Core Lean only.
-/
import Martian.ShellQuote
import Martian.Lexer

namespace Martian.Format
open Martian.Lexer (Bytes unqLoop unquoteBytes)
open Martian.ShellQuote (runeWidth validUtf8 validFrom)

/-! ## quoteString -/

def hexDigit (n : Nat) : UInt8 := if n < 10 then UInt8.ofNat (48 + n) else UInt8.ofNat (87 + n)

/-- what `quoteString` writes for one ASCII byte -/
def escAscii (b : UInt8) : Bytes :=
  if b == 0x5C || b == 0x22 then [0x5C, b]
  else if 0x20 ≤ b then [b]
  else if b == 0x08 then [0x5C, 0x62]
  else if b == 0x0C then [0x5C, 0x66]
  else if b == 0x0A then [0x5C, 0x6E]
  else if b == 0x0D then [0x5C, 0x72]
  else if b == 0x09 then [0x5C, 0x74]
  else [0x5C, 0x75, 0x30, 0x30, hexDigit (b.toNat / 16), hexDigit (b.toNat % 16)]

/-- `�`, ` `, ` ` -/
def escFFFD : Bytes := [0x5C, 0x75, 0x66, 0x66, 0x66, 0x64]
def esc2028 : Bytes := [0x5C, 0x75, 0x32, 0x30, 0x32, 0x38]
def esc2029 : Bytes := [0x5C, 0x75, 0x32, 0x30, 0x32, 0x39]

/-- continuation bytes of the rune being processed: copy them or drop them -/
inductive Pend
  | none
  | copy (k : Nat)
  | drop (k : Nat)
  deriving Repr, DecidableEq

/-- Body of `quoteString` (between the two quotes).  A valid multi-byte rune is
copied (its continuation bytes in `copy` mode) unless it is U+2028/U+2029,
which are written as ` ` / ` ` (continuation bytes dropped); a byte
that does not start a valid rune is written as `�`. -/
def quoteFrom : Bytes → Pend → Bytes
  | [], _ => []
  | b :: r, .copy (k + 1) => b :: quoteFrom r (if k = 0 then .none else .copy k)
  | _ :: r, .drop (k + 1) => quoteFrom r (if k = 0 then .none else .drop k)
  | b :: r, _ =>
    if b < 0x80 then escAscii b ++ quoteFrom r .none
    else match runeWidth (b :: r) with
      | some w =>
        if b == 0xE2 && r.take 2 == [0x80, 0xA8] then esc2028 ++ quoteFrom r (.drop 2)
        else if b == 0xE2 && r.take 2 == [0x80, 0xA9] then esc2029 ++ quoteFrom r (.drop 2)
        else b :: quoteFrom r (if w ≤ 1 then .none else .copy (w - 1))
      | none => escFFFD ++ quoteFrom r .none

def quoteBody (s : Bytes) : Bytes := quoteFrom s .none
def quoteString (s : Bytes) : Bytes := 0x22 :: (quoteBody s ++ [0x22])

/-- `src`/`@include` text as shipped: the value between bare quotes -/
def emitRaw (s : Bytes) : Bytes := 0x22 :: (s ++ [0x22])

/-! ## topoSort -/

abbrev Dep := Nat → Nat → Bool

def depOfEdges (edges : List (Nat × Nat)) : Dep := fun a b => edges.contains (a, b)

/-- one round of `addNextDeps`: add the dependencies of dependencies -/
def closeOnce (n : Nat) (d : Dep) : Dep :=
  fun a b => d a b || (List.range n).any fun c => d a c && d c b

/-- materialise a relation on `0 … n-1` (keeps evaluation polynomial) -/
def tabulate (n : Nat) (d : Dep) : List (List Bool) :=
  (List.range n).map fun a => (List.range n).map fun b => d a b

def ofTable (t : List (List Bool)) : Dep := fun a b => (t.getD a []).getD b false

/-- `k` rounds of `addNextDeps` on the materialised relation, whatever they
change.  FORMER definition of `closedTable` (`closeTab n n`); kept because the
lemma `closeTab_mono` and older notes refer to it.  Not used by `topoSort` any more. -/
def closeTab (n : Nat) : Nat → List (List Bool) → List (List Bool)
  | 0, t => t
  | k + 1, t => closeTab n k (tabulate n (closeOnce n (ofTable t)))

/-- the `for changes` loop of `addNextDeps`: one Jacobi round at a time (the
missing dependencies of every call are computed from the same snapshot of the
map, then all added) until a round adds nothing.  The first argument after `n`
is fuel. -/
def closeFix (n : Nat) : Nat → List (List Bool) → List (List Bool)
  | 0, t => t
  | k + 1, t =>
    let t' := tabulate n (closeOnce n (ofTable t))
    if t' == t then t else closeFix n k t'

/-- the closed dependency table `topoSort` hands to the shift loop: the direct
dependencies among calls `0 … n-1`, closed by the loop the code runs: rounds of
`closeOnce` until nothing changes.  Fuel `n² + 1`: every round that changes the
table adds at least one of the at most `n²` pairs, so the fuel is never
exhausted and the result is a fixed point of `closeOnce`
(`closedTable_fix` in Proofs/FormatClosure.lean), hence transitive
(`closedDeps_trans`).  (On a dependency cycle the Go loop stops early with an
error; the model runs on to the fixed point and `hasCycle` reports the cycle.) -/
def closedTable (n : Nat) (edges : List (Nat × Nat)) : List (List Bool) :=
  closeFix n (n * n + 1) (tabulate n (depOfEdges edges))

def hasCycle (n : Nat) (d : Dep) : Bool := (List.range n).any fun a => d a a

/-- index (in `rest`) of the last element `c` depends on -/
def lastDepIdx (d : Dep) (c : Nat) : List Nat → Nat → Option Nat → Option Nat
  | [], _, acc => acc
  | x :: r, i, acc => lastDepIdx d c r (i + 1) (if d c x then some i else acc)

/-- one iteration of the `for checkIndex+1 < len(calls)` loop -/
def step (d : Dep) (l : List Nat) (i : Nat) : List Nat × Nat :=
  match l.drop i with
  | [] => (l, i + 1)
  | c :: rest =>
    match lastDepIdx d c rest 0 none with
    | none => (l, i + 1)
    | some m => (l.take i ++ (rest.take (m + 1) ++ c :: rest.drop (m + 1)), i)

def loop (d : Dep) : Nat → List Nat → Nat → List Nat
  | 0, l, _ => l
  | f + 1, l, i =>
    if i + 1 < l.length then loop d f (step d l i).1 (step d l i).2 else l

/-- `topoSort` on calls `0 … n-1` in source order with the direct dependency
edges `(a, b)` = "a uses an output of b".  A dependency cycle is an error and
leaves the order unchanged. -/
def topoSort (n : Nat) (edges : List (Nat × Nat)) : List Nat :=
  let t := closedTable n edges
  if hasCycle n (ofTable t) then List.range n else loop (ofTable t) (n * n + n + 1) (List.range n) 0

/-- the relation is transitive / irreflexive on the given calls: what
`addNextDeps` establishes (closure: proved for every graph, `closedDeps_trans`;
cycle = error) before the shift loop runs -/
def transOn (l : List Nat) (d : Dep) : Bool :=
  l.all fun a => l.all fun b => l.all fun c => !(d a b && d b c) || d a c

def irreflOn (l : List Nat) (d : Dep) : Bool := l.all fun a => !d a a

/-- the dependency relation `topoSort` hands to the shift loop -/
def closedDeps (n : Nat) (edges : List (Nat × Nat)) : Dep := ofTable (closedTable n edges)

/-- no element has a dependency later in the list -/
def sortedFrom (d : Dep) : List Nat → Bool
  | [] => true
  | c :: r => (r.all fun x => !d c x) && sortedFrom d r

end Martian.Format
