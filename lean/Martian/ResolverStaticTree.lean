/-
C01 — the static phase for call graphs with MAPPED PIPELINES and NESTED map calls over
collections of statically known size (no `disabled`).  Same per-call steps as
Martian/ResolverStatic.lean; what is new:

* the result is a TREE (`STree`): a mapped call contributes a `sub` node holding its index set
  and the nodes below it, so that the stage instances can be enumerated in den's order (for each
  index of the call, everything below it) and a node below two mapped calls forks over both;
* the merge over a mapped call of known size is unrolled by specialising the callee's outputs
  to every fork (`pushFork` = `Exp.BindingPath("", {call: index})`: references get the fork
  index (`RExp.fork`), a `split` over that very call selects its element statically, everything
  else is traversed);
* `filterR` goes through `split` nodes at the collection type (`SplitExp.filter`).

For the comparison with the compiler (`CallGraphStage.Forks`, the keys of `RefExp.Forks`) the
fork roots a node actually DEPENDS on are computed by `goForks` (`resolveForks` /
`findSplitCalls`: the calls whose `split` occurs in its inputs or in the inputs of a node it
refers to); the semantics (den, `instsT`) has one instance per fork of every enclosing mapped
call, and the per-run check lets one observed fork stand for all the forks it does not depend on.
-/
import Martian.ResolverStatic

namespace Martian.ResolverStatic
open Martian.Dataflow Martian.Resolver Martian.ResolverForks

/-! ## specialising an expression to one fork of a mapped call -/

def selectIx (ix : Idx) : RExp → Option RExp
  | .arr xs =>
    match ix with
    | .i k => some (xs.getD k (.lit .null))
    | _ => some (.lit .null)
  | .map kvs =>
    match ix with
    | .k s => some ((kvs.lookup s).getD (.lit .null))
    | _ => some (.lit .null)
  | _ => none

mutual
/-- `e.BindingPath("", {c: ix})` -/
def pushFork (c : String) (ix : Idx) : RExp → RExp
  | .lit j => .lit j
  | .arr xs => .arr (pushForkList c ix xs)
  | .map kvs => .map (pushForkFields c ix kvs)
  | .struct kvs => .struct (pushForkFields c ix kvs)
  | .ref n t p => .fork c ix (.ref n t p)
  | .split c' m e =>
    if c' == c then
      match selectIx ix (pushFork c ix e) with
      | some x => x
      | none => .fork c ix (.split c' m e)
    else .split c' m (pushFork c ix e)
  -- a merge of run-time size below the fork: its elements are enumerated in that fork
  -- (`forkedMergeSource`, `mergeMatchFork`: the known index bound in the source / the fork node)
  | .merge c' m e => .fork c ix (mkMerge c' m (pushFork c ix e))
  | .disabled d v => .disabled (pushFork c ix d) (pushFork c ix v)
  | .fork c' ix' e => if c' == c then .fork c' ix' e else .fork c' ix' (pushFork c ix e)
def pushForkList (c : String) (ix : Idx) : List RExp → List RExp
  | [] => []
  | e :: es => pushFork c ix e :: pushForkList c ix es
def pushForkFields (c : String) (ix : Idx) : List (String × RExp) → List (String × RExp)
  | [] => []
  | (k, e) :: es => (k, pushFork c ix e) :: pushForkFields c ix es
end

/-- the unrolled merge over a mapped call of known size (`MergeExp.BindingPath`, `KnownLength`) -/
def unrolledOutputsT (c : Call) (ixs : Bool × List Idx) (out : RExp) : RB :=
  if ixs.1 then ⟨.map (ixs.2.map fun ix => (ix.keyText, pushFork c.id ix out)), ⟨c.callee, 1, 0⟩⟩
  else ⟨.arr (ixs.2.map fun ix => pushFork c.id ix out), ⟨c.callee, 0, 1⟩⟩

mutual
/-- `Exp.filter` including `SplitExp.filter` (the value is filtered at the collection type) -/
def filterT (st : StructTable) : Ty → RExp → RExp
  | t, .arr xs =>
    if isStructBase st t && t.arrDim != 0 then .arr (filterTList st { t with arrDim := t.arrDim - 1 } xs)
    else .arr xs
  | t, .map kvs =>
    if t.arrDim == 0 && t.mapDim == 0 then
      match st.lookup t.base with
      | some ps => .struct (ps.filterMap fun p => ((filterTMembers st ps kvs).lookup p.name).map fun e => (p.name, e))
      | none => .map kvs
    else if isStructBase st t && t.arrDim == 0 then .map (filterTFields st ⟨t.base, 0, t.mapDim - 1⟩ kvs)
    else .map kvs
  | t, .struct kvs =>
    if t.arrDim == 0 && t.mapDim == 0 then
      match st.lookup t.base with
      | some ps => .struct (ps.filterMap fun p => ((filterTMembers st ps kvs).lookup p.name).map fun e => (p.name, e))
      | none => .struct kvs
    else if isStructBase st t && t.arrDim == 0 then .map (filterTFields st ⟨t.base, 0, t.mapDim - 1⟩ kvs)
    else .struct kvs
  | t, .disabled d v => .disabled d (filterT st t v)
  | t, .split c m e => if isStructBase st t then .split c m (filterT st (liftSplitTy m t) e) else .split c m e
  | _, e => e
def filterTList (st : StructTable) : Ty → List RExp → List RExp
  | _, [] => []
  | t, e :: es => filterT st t e :: filterTList st t es
def filterTFields (st : StructTable) : Ty → List (String × RExp) → List (String × RExp)
  | _, [] => []
  | t, (k, e) :: es => (k, filterT st t e) :: filterTFields st t es
def filterTMembers (st : StructTable) : List Param → List (String × RExp) → List (String × RExp)
  | _, [] => []
  | ps, (k, e) :: es => (k, filterT st (memberTy ps k) e) :: filterTMembers st ps es
end

mutual
def hasForkR : RExp → Bool
  | .lit _ => false
  | .arr xs => hasForkRList xs
  | .map kvs => hasForkRFields kvs
  | .struct kvs => hasForkRFields kvs
  | .ref _ _ _ => false
  | .split _ _ e => hasForkR e
  | .merge _ _ e => hasForkR e
  | .disabled d v => hasForkR d || hasForkR v
  | .fork _ _ _ => true
def hasForkRList : List RExp → Bool
  | [] => false
  | e :: es => hasForkR e || hasForkRList es
def hasForkRFields : List (String × RExp) → Bool
  | [] => false
  | (_, e) :: es => hasForkR e || hasForkRFields es
end

/-- the static type of a reference (`self.p.path` / `CALL.path`) in the scope of a pipeline -/
def refTyOf (st : StructTable) (self sib : RBMap) : Exp → Ty
  | .self p path => pathTy st (((self.lookup p).map (·.ty)).getD badTy) path
  | .ref c path => pathTy st (((sib.lookup c).map (·.ty)).getD badTy) path
  | _ => badTy

/-- the mode of a split source (`MapCallSource.CallMode`): of a literal its kind, otherwise the
static type of the reference decides (array / typed map) -/
def splitIsMap (st : StructTable) (self sib : RBMap) (e : Exp) : Bool :=
  match resolveRefs self sib e with
  | .arr _ => false
  | .map _ => true
  | .struct _ => false
  | .lit _ => false
  | _ => (refTyOf st self sib e).arrDim == 0 && (refTyOf st self sib e).mapDim != 0

/-- a split source whose length / key set is only known at run time (`!KnownLength()`): a
reference of collection type that did not resolve to a literal -/
def isRuntimeSrc (st : StructTable) (self sib : RBMap) (e : Exp) : Bool :=
  (match resolveRefs self sib e with
   | .arr _ => false
   | .map _ => false
   | .struct _ => false
   | .lit _ => false
   | _ => true) &&
  ((refTyOf st self sib e).arrDim != 0 || (refTyOf st self sib e).mapDim != 0)

/-- `some m`: every split source of the map call has run-time size, all in mode `m` -/
def runtimeMode (st : StructTable) (self sib : RBMap) (ins : List Param) (c : Call) : Option Bool :=
  match splitParam ins c with
  | none => none
  | some p0 =>
    match c.binds.find? (fun b => b.param == p0.name) with
    | none => none
    | some b0 =>
      if c.disabled.isNone &&
         (c.binds.all fun b => !b.split || ins.any fun p => p.name == b.param) &&
         ins.all (fun p =>
          match c.binds.find? (fun b => b.param == p.name) with
          | some b => !b.split ||
              (isRuntimeSrc st self sib b.exp && splitIsMap st self sib b.exp == splitIsMap st self sib b0.exp)
          | none => true)
      then some (splitIsMap st self sib b0.exp) else none

def resolveBindsT (st : StructTable) (self sib : RBMap) (ins : List Param) (c : Call) : RBMap :=
  ins.map fun p =>
    (p.name,
     match c.binds.find? (fun b => b.param == p.name) with
     | some b =>
       if b.split then
         ⟨.split c.id (splitIsMap st self sib b.exp)
            (filterT st (liftSplitTy (splitIsMap st self sib b.exp) p.ty) (resolveRefs self sib b.exp)), p.ty⟩
       else ⟨filterT st p.ty (resolveRefs self sib b.exp), p.ty⟩
     | none => ⟨.lit .null, p.ty⟩)

def callIndicesT (st : StructTable) (self sib : RBMap) (ins : List Param) (c : Call) :
    Option (Bool × List Idx) :=
  match splitParam ins c with
  | none => none
  | some p =>
    match c.binds.find? (fun b => b.param == p.name) with
    | some b =>
      staticIndices (filterT st (liftSplitTy (splitIsMap st self sib b.exp) p.ty)
        (resolveRefs self sib b.exp))
    | none => none

/-! ## the call graph as a tree -/

inductive STree where
  | node (n : SNode)
  /-- everything below mapped call `call` (with its index set; `ok` = the size is statically known,
  not zero, and all split inputs agree) -/
  | sub (call : String) (isMap : Bool) (ixs : List Idx) (ok : Bool) (children : List STree)
  /-- everything below a call with a run-time `disabled` control `d` (nothing below runs in the
  forks where `d` is true) -/
  | guard (d : RExp) (children : List STree)
  /-- everything below mapped call `call` whose size is only known at run time (`isMap`: typed-map
  mode); `path`, `cins`: the call's fully qualified path and resolved inputs (`CallGraphStage.Inputs`,
  which `findMergeForkNode` searches); `ok`: the callee's outputs contain neither the call's own split
  (the cancelling shape of `mkMerge`) nor a merge over the call -/
  | subR (call : String) (isMap : Bool) (path : List String) (cins : RBMap) (ok : Bool) (children : List STree)
deriving Inhabited

def splitsStaticT (st : StructTable) (self sib : RBMap) (ins : List Param) (c : Call)
    (ixs : Bool × List Idx) : Bool :=
  ins.all fun p =>
    match c.binds.find? (fun b => b.param == p.name) with
    | some b =>
      !b.split ||
        (staticIndices (filterT st (liftSplitTy (splitIsMap st self sib b.exp) p.ty)
          (resolveRefs self sib b.exp)) == some ixs &&
         -- a map call over the merged output of another map call iterates in lockstep with it
         -- (`dropLockstepRoots`): not covered
         !hasForkR (resolveRefs self sib b.exp))
    | none => true

def staticCallsT (st : StructTable) (insOf : String → List Param)
    (node : String → List String → RBMap → RB × List STree) (path : List String) (self : RBMap) :
    List Call → RBMap → List STree → RBMap × List STree
  | [], sib, acc => (sib, acc)
  | c :: cs, sib, acc =>
    if c.mapped then
      let cins := resolveBindsT st self sib (insOf c.callee) c
      let r := node c.callee (path ++ [c.id]) cins
      let ci := callIndicesT st self sib (insOf c.callee) c
      let ixs := ci.getD (false, [])
      -- a `disabled` modifier on a map call is not covered
      let ok := ci.isSome && !ixs.2.isEmpty && splitsStaticT st self sib (insOf c.callee) c ixs &&
        c.disabled.isNone && noMergeOf c.id r.1.exp
      if ci.isNone && (runtimeMode st self sib (insOf c.callee) c).isSome then
        -- run-time size: the outputs are a `merge` over the call (resolve_pipeline.go / resolve_stage.go)
        let m := (runtimeMode st self sib (insOf c.callee) c).getD false
        staticCallsT st insOf node path self cs
          (sib ++ [(c.id, ⟨.merge c.id m r.1.exp, if m then ⟨c.callee, 1, 0⟩ else ⟨c.callee, 0, 1⟩⟩)])
          (acc ++ [.subR c.id m (path ++ [c.id]) cins (noSplitOf c.id r.1.exp && noMergeOf c.id r.1.exp) r.2])
      else
      staticCallsT st insOf node path self cs (sib ++ [(c.id, unrolledOutputsT c ixs r.1.exp)])
        (acc ++ [.sub c.id ixs.1 ixs.2 ok r.2])
    else
      let cins := resolveBindsT st self sib (insOf c.callee) c
      let r := node c.callee (path ++ [c.id]) cins
      match c.disabled with
      | some (_, e) =>
        -- `resolveDisable` + `makeDisabled` / `makeDisabledExp`: a constant false control is dropped,
        -- any other control guards everything below and wraps the call's outputs
        match resolveRefs self sib e with
        | .lit (.atom "false") => staticCallsT st insOf node path self cs (sib ++ [(c.id, r.1)]) (acc ++ r.2)
        | d =>
          staticCallsT st insOf node path self cs (sib ++ [(c.id, ⟨mkDisabled d r.1.exp, r.1.ty⟩)])
            (acc ++ [.guard d r.2])
      | none => staticCallsT st insOf node path self cs (sib ++ [(c.id, r.1)]) (acc ++ r.2)

def staticCallableT (P : Program) (nm : List String → String) :
    Nat → String → List String → RBMap → RB × List STree
  | 0, _, _, _ => (⟨.lit .null, badTy⟩, [])
  | fuel+1, callee, path, ins =>
    match P.callables.lookup callee with
    | none => (⟨.lit .null, badTy⟩, [])
    | some (.stage _ _) => (⟨.ref (nm path) ⟨callee, 0, 0⟩ [], ⟨callee, 0, 0⟩⟩, [.node ⟨path, callee, ins, [], []⟩])
    | some (.pipeline _ outs calls ret) =>
      let r := staticCallsT P.table P.insOf (staticCallableT P nm fuel) path ins calls [] []
      (⟨.struct (outs.map fun p =>
          (p.name,
           match ret.lookup p.name with
           | some e => filterT P.table p.ty (resolveRefs ins r.1 e)
           | none => .lit .null)), ⟨callee, 0, 0⟩⟩,
       r.2)

def topInputsT (P : Program) : RBMap :=
  resolveBindsT P.table [] [] (P.insOf P.top.callee) P.top

def staticProgramT (P : Program) (nm : List String → String) : RB × List STree :=
  staticCallableT P nm P.fuel P.top.callee [P.top.id] (topInputsT P)

mutual
/-- the stage nodes with all their enclosing fork dimensions (outermost first) and controls -/
def flattenD (dims : List (String × List Idx)) (dis : List RExp) : STree → List SNode
  | .node n => [{ n with forks := dims, disable := dis }]
  | .sub c _ ixs _ ch => flattenDList (dims ++ [(c, ixs)]) dis ch
  | .guard d ch => flattenDList dims (dis ++ [d]) ch
  | .subR c _ _ _ _ ch => flattenDList (dims ++ [(c, [])]) dis ch
def flattenDList (dims : List (String × List Idx)) (dis : List RExp) : List STree → List SNode
  | [] => []
  | t :: ts => flattenD dims dis t ++ flattenDList dims dis ts
end

mutual
/-- the stage nodes with all their enclosing fork dimensions (outermost first) -/
def flattenT (dims : List (String × List Idx)) : STree → List SNode
  | .node n => [{ n with forks := dims }]
  | .sub c _ ixs _ ch => flattenTList (dims ++ [(c, ixs)]) ch
  | .guard _ ch => flattenTList dims ch
  | .subR c _ _ _ _ ch => flattenTList (dims ++ [(c, [])]) ch
def flattenTList (dims : List (String × List Idx)) : List STree → List SNode
  | [] => []
  | t :: ts => flattenT dims t ++ flattenTList dims ts
end

mutual
/-- every mapped call below has a statically known non-zero size, and no call id repeats
along a nesting chain -/
def treeOk (above : List String) : STree → Bool
  | .node _ => true
  | .sub c _ _ ok ch => ok && !above.contains c && treeOkList (above ++ [c]) ch
  | .guard _ ch => treeOkList above ch
  | .subR _ _ _ _ _ _ => false
def treeOkList (above : List String) : List STree → Bool
  | [] => true
  | t :: ts => treeOk above t && treeOkList above ts
end

mutual
/-- the stage instances in den's order: for a mapped call, for each index, everything below -/
def instsT (st : StructTable) (nf : Nat) (ρ : Store) : List (String × Idx) → ForkAssign → STree → List Inst
  | forks, f, .node n => [⟨⟨n.path, forks⟩, runtimeArgs st nf ρ f n, false, false⟩]
  | forks, f, .sub c _ ixs _ ch =>
    ixs.flatMap fun ix => instsTList st nf ρ (forks ++ [(c, ix)]) (fset f c ix) ch
  | forks, f, .guard d ch =>
    if isTrue (evalRT st nf ρ f ⟨"bool", 0, 0⟩ d) then [] else instsTList st nf ρ forks f ch
  | forks, f, .subR c _ _ _ _ ch =>
    -- one fork per recorded index / key of the call in this fork of the enclosing calls; over an
    -- empty / null collection nothing that forks over the call runs, the nodes below that do not
    -- depend on it run once: den's optional instances ("no element")
    if (ρ.idx c f).isEmpty then
      (instsTList st nf ρ (forks ++ [(c, .none)]) (fset f c .none) ch).map fun i => { i with optional := true }
    else (ρ.idx c f).flatMap fun ix => instsTList st nf ρ (forks ++ [(c, ix)]) (fset f c ix) ch
def instsTList (st : StructTable) (nf : Nat) (ρ : Store) : List (String × Idx) → ForkAssign → List STree → List Inst
  | _, _, [] => []
  | forks, f, t :: ts => instsT st nf ρ forks f t ++ instsTList st nf ρ forks f ts
end

mutual
/-- no run-time `disabled` control anywhere (the fragment of `resolver_refines_den_mappedpipes_*`) -/
def noGuard : STree → Bool
  | .node _ => true
  | .sub _ _ _ _ ch => noGuardList ch
  | .guard _ _ => false
  | .subR _ _ _ _ _ ch => noGuardList ch
def noGuardList : List STree → Bool
  | [] => true
  | t :: ts => noGuard t && noGuardList ts
end

/-- BOTH PHASES for call graphs with mapped pipelines and nested map calls of static size -/
def twoPhaseT (P : Program) (nm : List String → String) (ρ : Store) : J × List Inst :=
  ((evalRT P.table P.nfuel ρ [] ⟨P.top.callee, 0, 0⟩ (staticProgramT P nm).1.exp),
   instsTList P.table P.nfuel ρ [] [] (staticProgramT P nm).2)

mutual
/-- like `treeOk`, with map calls of run-time size: no call id repeats along a nesting chain, and
the source of a run-time sized call is not an element of a split over a STATICALLY sized enclosing
call (there the compiler knows the size per fork of the enclosing call and unrolls the merge per
fork: `sourceForFork` — not modelled) -/
def treeOkR (above aboveStatic : List String) : STree → Bool
  | .node _ => true
  | .sub c _ _ ok ch => ok && !above.contains c && treeOkRList (above ++ [c]) (aboveStatic ++ [c]) ch
  | .guard _ ch => treeOkRList above aboveStatic ch
  | .subR c _ _ cins _ ch =>
    !above.contains c && (cins.all fun kv => aboveStatic.all fun s => noSplitOf s kv.2.exp) &&
      treeOkRList (above ++ [c]) aboveStatic ch
def treeOkRList (above aboveStatic : List String) : List STree → Bool
  | [] => true
  | t :: ts => treeOkR above aboveStatic t && treeOkRList above aboveStatic ts
end

mutual
/-- the run-time sized map calls: id ↦ (fully qualified path, inputs, enclosing controls) -/
def subRInfo (dis : List RExp) : STree → List (String × List String × RBMap × List RExp)
  | .node _ => []
  | .sub _ _ _ _ ch => subRInfoList dis ch
  | .guard d ch => subRInfoList (dis ++ [d]) ch
  | .subR c _ path cins _ ch => (c, path, cins, dis) :: subRInfoList dis ch
def subRInfoList (dis : List RExp) : List STree → List (String × List String × RBMap × List RExp)
  | [] => []
  | t :: ts => subRInfo dis t ++ subRInfoList dis ts
end

/-! ### the node whose forks enumerate the elements of a run-time merge (`findMergeForkNode`) -/

/-- the entry with the least key (`sort.Strings(keys)` + first hit) -/
def leastKey : List (String × String) → Option String
  | [] => none
  | (k, v) :: xs =>
    match xs.foldl (fun (acc : String × String) x => if x.1 < acc.1 then x else acc) (k, v) with
    | (_, r) => some r

mutual
/-- `findMergeForkExpNode(v, call)`: the first reference, in the compiler's traversal order, to a
node that forks over `call` (`table`: node ↦ its fork roots) -/
def forkNodeExp (table : List (String × List String)) (c : String) : RExp → Option String
  | .lit _ => none
  | .arr xs => forkNodeList table c xs
  | .map kvs => leastKey (forkNodeFields table c kvs)
  | .struct kvs => leastKey (forkNodeFields table c kvs)
  | .ref n _ _ => if ((table.lookup n).getD []).contains c then some n else none
  | .split c' _ (.merge c2 _ e2) =>
    match forkNodeExp table c e2 with
    | some r => some r
    | none => if c' == c then forkNodeExp table c2 e2 else none
  | .split _ _ e => forkNodeExp table c e
  | .merge _ _ e => forkNodeExp table c e
  | .disabled d v =>
    match forkNodeExp table c v with
    | some r => some r
    | none => forkNodeExp table c d
  | .fork _ _ e => forkNodeExp table c e
def forkNodeList (table : List (String × List String)) (c : String) : List RExp → Option String
  | [] => none
  | e :: es =>
    match forkNodeExp table c e with
    | some r => some r
    | none => forkNodeList table c es
def forkNodeFields (table : List (String × List String)) (c : String) :
    List (String × RExp) → List (String × String)
  | [] => []
  | (k, e) :: es =>
    match forkNodeExp table c e with
    | some r => (k, r) :: forkNodeFields table c es
    | none => forkNodeFields table c es
end

/-- `findMergeForkNode(v, call)` followed by the check of its callers (`fn.Id == call.Fqid` → nil):
the value, then the call's controls, then the call's inputs in the order of their names -/
def mergeForkNode (table : List (String × List String)) (nm : List String → String)
    (info : List (String × List String × RBMap × List RExp)) (c : String) (v : RExp) : Option String :=
  match info.lookup c with
  | none => none
  | some (path, cins, dis) =>
    let r := match forkNodeExp table c v with
      | some r => some r
      | none =>
        match dis.findSome? (forkNodeExp table c) with
        | some r => some r
        | none => leastKey (forkNodeFields table c (cins.map fun kv => (kv.1, kv.2.exp)))
    if r == some (nm path) then none else r

/-! ### the store of a run with map calls of run-time size -/

/-- the collection a run-time sized map call iterates over: its first split input -/
def splitSourceOf (info : List (String × List String × RBMap × List RExp)) (c : String) : Option (Ty × RExp) :=
  match info.lookup c with
  | none => none
  | some (_, cins, _) =>
    cins.findSome? fun kv =>
      match kv.2.exp with
      | .split c' m e => if c' == c then some (liftSplitTy m kv.2.ty, e) else none
      | _ => none

/-- the store of a run: the recorded outs (`storeOfNodes`), and for every map call of run-time
size the indices / keys of the collection it was split over, in the fork of the enclosing calls
(`fuel`: nesting depth of run-time merges inside split sources) -/
def storeOfNodesR (st : StructTable) (nf : Nat) (nm : List String → String) (nodes : List SNode)
    (info : List (String × List String × RBMap × List RExp)) (O : Oracle) : Nat → Store
  | 0 => storeOfNodes nm nodes O
  | n+1 =>
    { outs := (storeOfNodes nm nodes O).outs
      idx := fun c f =>
        match splitSourceOf info c with
        | some (t, src) => indicesOf (evalRT st nf (storeOfNodesR st nf nm nodes info O n) f t src)
        | none => [] }

/-! ### the fragment of the refinement with map calls of run-time size -/

mutual
/-- `treeOk` + ARRAY-mode map calls of run-time size whose callee's outputs contain neither the
call's own split nor a merge over it -/
def treeOkP (above : List String) : STree → Bool
  | .node _ => true
  | .sub c _ _ ok ch => ok && !above.contains c && treeOkPList (above ++ [c]) ch
  | .guard _ ch => treeOkPList above ch
  | .subR c m _ _ ok ch => ok && !m && !above.contains c && treeOkPList (above ++ [c]) ch
def treeOkPList (above : List String) : List STree → Bool
  | [] => true
  | t :: ts => treeOkP above t && treeOkPList above ts
end

mutual
/-- the recorded index sets of the store are those of the collections the calls were split over,
and not empty — checked along the forks that exist (the enumeration of `instsT`) -/
def idxOkT (st : StructTable) (nf : Nat) (ρ : Store) : ForkAssign → STree → Bool
  | _, .node _ => true
  | f, .sub c _ ixs _ ch => ixs.all fun ix => idxOkTList st nf ρ (fset f c ix) ch
  | f, .guard _ ch => idxOkTList st nf ρ f ch
  | f, .subR c _ _ cins _ ch =>
    !(ρ.idx c f).isEmpty &&
    (cins.all fun kv =>
      match kv.2.exp with
      | .split c' _ src =>
        c' != c || decide (indicesOf (evalRT st nf ρ f (liftSplitTy false kv.2.ty) src) = ρ.idx c f)
      | _ => true) &&
    (ρ.idx c f).all fun ix => idxOkTList st nf ρ (fset f c ix) ch
def idxOkTList (st : StructTable) (nf : Nat) (ρ : Store) : ForkAssign → List STree → Bool
  | _, [] => true
  | f, t :: ts => idxOkT st nf ρ f t && idxOkTList st nf ρ f ts
end

mutual
/-- the map calls of run-time size: id ↦ (path, the mapped calls around it, outermost first) -/
def subROcc (dims : List String) : STree → List (String × List String × List String)
  | .node _ => []
  | .sub c _ _ _ ch => subROccList (dims ++ [c]) ch
  | .guard _ ch => subROccList dims ch
  | .subR c _ path _ _ ch => (c, path, dims) :: subROccList (dims ++ [c]) ch
def subROccList (dims : List String) : List STree → List (String × List String × List String)
  | [] => []
  | t :: ts => subROcc dims t ++ subROccList dims ts
end

/-- the index sets a run recorded: per instance of a map call (its path and the forks of the
mapped calls around it) the indices / keys it forked over (`ForkId`s of the nodes below it) -/
abbrev IdxRec := InstKey → List Idx

/-- the store of a run: the recorded outs and the recorded index sets -/
def storeOfRun (nm : List String → String) (nodes : List SNode)
    (occ : List (String × List String × List String)) (O : Oracle) (I : IdxRec) : Store :=
  { outs := (storeOfNodes nm nodes O).outs
    idx := fun c f =>
      match occ.lookup c with
      | some (path, dims) => I ⟨path, dims.map fun d => (d, (f.lookup d).getD .none)⟩
      | none => [] }

/-- a stage instance of den as the code delivers it: "no value" (`dnull`) rendered as JSON null -/
def eraseInst (i : Inst) : Inst := { i with args := J.erase i.args }

/-- den modulo the rendering of `dnull` as null -/
def eraseRun (d : J × List Inst) : J × List Inst := (J.erase d.1, d.2.map eraseInst)

/-! ## the fork roots a node depends on (`resolveForks`), for the comparison with the compiler -/

mutual
/-- the mapped calls an expression varies with: the calls of its `split` nodes and the fork
roots of the nodes it refers to, except those fixed by a `fork` annotation above -/
def depsOf (table : List (String × List String)) : RExp → List String
  | .lit _ => []
  | .arr xs => depsOfList table xs
  | .map kvs => depsOfFields table kvs
  | .struct kvs => depsOfFields table kvs
  | .ref n _ _ => (table.lookup n).getD []
  | .split c _ e => c :: depsOf table e
  | .merge c _ e => (depsOf table e).filter (· != c)
  | .disabled d v => depsOf table d ++ depsOf table v
  | .fork c _ e => (depsOf table e).filter (· != c)
def depsOfList (table : List (String × List String)) : List RExp → List String
  | [] => []
  | e :: es => depsOf table e ++ depsOfList table es
def depsOfFields (table : List (String × List String)) : List (String × RExp) → List String
  | [] => []
  | (_, e) :: es => depsOf table e ++ depsOfFields table es
end

/-- node name ↦ the fork roots it depends on, for the nodes in call order -/
def goForksTable (nm : List String → String) : List SNode → List (String × List String) → List (String × List String)
  | [], acc => acc
  | n :: ns, acc =>
    let deps := (n.inputs.flatMap fun kv => depsOf acc kv.2.exp) ++ n.disable.flatMap (depsOf acc)
    goForksTable nm ns (acc ++ [(nm n.path, (n.forks.map (·.1)).filter deps.contains)])

end Martian.ResolverStatic
