/-
C01 — the static phase for call graphs with MAPPED PIPELINES and NESTED map calls over
collections of statically known size (no `disabled`).  Same per-call steps as
Martian/ResolverStatic.lean; what is new:

* the result is a TREE (`STree`): a mapped call contributes a `sub` node holding its index set
  and the nodes below it, so that the stage instances can be enumerated in den's order (for each
  index of the call, everything below it) and a node below two mapped calls forks over both;
* the merge over a mapped call of known size is unrolled by specialising the callee's outputs
  to every fork (`pushFork` = `Exp.BindingPath("", {call: index})`: references get the fork
  index (`RExp.fork`), a `split` over that very call selects its element statically, everything
  else is traversed);
* `filterR` goes through `split` nodes at the collection type (`SplitExp.filter`).

For the comparison with the compiler (`CallGraphStage.Forks`, the keys of `RefExp.Forks`) the
fork roots a node actually DEPENDS on are computed by `goForks` (`resolveForks` /
`findSplitCalls`: the calls whose `split` occurs in its inputs or in the inputs of a node it
refers to); the semantics (den, `instsT`) has one instance per fork of every enclosing mapped
call, and the per-run check lets one observed fork stand for all the forks it does not depend on.
-/
import Martian.ResolverStatic

namespace Martian.ResolverStatic
open Martian.Dataflow Martian.Resolver Martian.ResolverForks

/-! ## specialising an expression to one fork of a mapped call -/

def selectIx (ix : Idx) : RExp → Option RExp
  | .arr xs =>
    match ix with
    | .i k => some (xs.getD k (.lit .null))
    | _ => some (.lit .null)
  | .map kvs =>
    match ix with
    | .k s => some ((kvs.lookup s).getD (.lit .null))
    | _ => some (.lit .null)
  | _ => none

mutual
/-- `e.BindingPath("", {c: ix})` -/
def pushFork (c : String) (ix : Idx) : RExp → RExp
  | .lit j => .lit j
  | .arr xs => .arr (pushForkList c ix xs)
  | .map kvs => .map (pushForkFields c ix kvs)
  | .struct kvs => .struct (pushForkFields c ix kvs)
  | .ref n t p => .fork c ix (.ref n t p)
  | .split c' m e =>
    if c' == c then
      match selectIx ix (pushFork c ix e) with
      | some x => x
      | none => .fork c ix (.split c' m e)
    else .split c' m (pushFork c ix e)
  | .merge c' m e => .merge c' m (pushFork c ix e)
  | .disabled d v => .disabled (pushFork c ix d) (pushFork c ix v)
  | .fork c' ix' e => if c' == c then .fork c' ix' e else .fork c' ix' (pushFork c ix e)
def pushForkList (c : String) (ix : Idx) : List RExp → List RExp
  | [] => []
  | e :: es => pushFork c ix e :: pushForkList c ix es
def pushForkFields (c : String) (ix : Idx) : List (String × RExp) → List (String × RExp)
  | [] => []
  | (k, e) :: es => (k, pushFork c ix e) :: pushForkFields c ix es
end

/-- the unrolled merge over a mapped call of known size (`MergeExp.BindingPath`, `KnownLength`) -/
def unrolledOutputsT (c : Call) (ixs : Bool × List Idx) (out : RExp) : RB :=
  if ixs.1 then ⟨.map (ixs.2.map fun ix => (ix.keyText, pushFork c.id ix out)), ⟨c.callee, 1, 0⟩⟩
  else ⟨.arr (ixs.2.map fun ix => pushFork c.id ix out), ⟨c.callee, 0, 1⟩⟩

mutual
/-- `Exp.filter` including `SplitExp.filter` (the value is filtered at the collection type) -/
def filterT (st : StructTable) : Ty → RExp → RExp
  | t, .arr xs =>
    if isStructBase st t && t.arrDim != 0 then .arr (filterTList st { t with arrDim := t.arrDim - 1 } xs)
    else .arr xs
  | t, .map kvs =>
    if t.arrDim == 0 && t.mapDim == 0 then
      match st.lookup t.base with
      | some ps => .struct (ps.filterMap fun p => ((filterTMembers st ps kvs).lookup p.name).map fun e => (p.name, e))
      | none => .map kvs
    else if isStructBase st t && t.arrDim == 0 then .map (filterTFields st ⟨t.base, 0, t.mapDim - 1⟩ kvs)
    else .map kvs
  | t, .struct kvs =>
    if t.arrDim == 0 && t.mapDim == 0 then
      match st.lookup t.base with
      | some ps => .struct (ps.filterMap fun p => ((filterTMembers st ps kvs).lookup p.name).map fun e => (p.name, e))
      | none => .struct kvs
    else if isStructBase st t && t.arrDim == 0 then .map (filterTFields st ⟨t.base, 0, t.mapDim - 1⟩ kvs)
    else .struct kvs
  | t, .disabled d v => .disabled d (filterT st t v)
  | t, .split c m e => if isStructBase st t then .split c m (filterT st (liftSplitTy m t) e) else .split c m e
  | _, e => e
def filterTList (st : StructTable) : Ty → List RExp → List RExp
  | _, [] => []
  | t, e :: es => filterT st t e :: filterTList st t es
def filterTFields (st : StructTable) : Ty → List (String × RExp) → List (String × RExp)
  | _, [] => []
  | t, (k, e) :: es => (k, filterT st t e) :: filterTFields st t es
def filterTMembers (st : StructTable) : List Param → List (String × RExp) → List (String × RExp)
  | _, [] => []
  | ps, (k, e) :: es => (k, filterT st (memberTy ps k) e) :: filterTMembers st ps es
end

mutual
def hasForkR : RExp → Bool
  | .lit _ => false
  | .arr xs => hasForkRList xs
  | .map kvs => hasForkRFields kvs
  | .struct kvs => hasForkRFields kvs
  | .ref _ _ _ => false
  | .split _ _ e => hasForkR e
  | .merge _ _ e => hasForkR e
  | .disabled d v => hasForkR d || hasForkR v
  | .fork _ _ _ => true
def hasForkRList : List RExp → Bool
  | [] => false
  | e :: es => hasForkR e || hasForkRList es
def hasForkRFields : List (String × RExp) → Bool
  | [] => false
  | (_, e) :: es => hasForkR e || hasForkRFields es
end

def resolveBindsT (st : StructTable) (self sib : RBMap) (ins : List Param) (c : Call) : RBMap :=
  ins.map fun p =>
    (p.name,
     match c.binds.find? (fun b => b.param == p.name) with
     | some b =>
       if b.split then
         ⟨.split c.id (isMapLit (resolveRefs self sib b.exp))
            (filterT st (liftSplitTy (isMapLit (resolveRefs self sib b.exp)) p.ty) (resolveRefs self sib b.exp)), p.ty⟩
       else ⟨filterT st p.ty (resolveRefs self sib b.exp), p.ty⟩
     | none => ⟨.lit .null, p.ty⟩)

def callIndicesT (st : StructTable) (self sib : RBMap) (ins : List Param) (c : Call) :
    Option (Bool × List Idx) :=
  match splitParam ins c with
  | none => none
  | some p =>
    match c.binds.find? (fun b => b.param == p.name) with
    | some b =>
      staticIndices (filterT st (liftSplitTy (isMapLit (resolveRefs self sib b.exp)) p.ty)
        (resolveRefs self sib b.exp))
    | none => none

/-! ## the call graph as a tree -/

inductive STree where
  | node (n : SNode)
  /-- everything below mapped call `call` (with its index set; `ok` = the size is statically known,
  not zero, and all split inputs agree) -/
  | sub (call : String) (isMap : Bool) (ixs : List Idx) (ok : Bool) (children : List STree)
  /-- everything below a call with a run-time `disabled` control `d` (nothing below runs in the
  forks where `d` is true) -/
  | guard (d : RExp) (children : List STree)
deriving Inhabited

def splitsStaticT (st : StructTable) (self sib : RBMap) (ins : List Param) (c : Call)
    (ixs : Bool × List Idx) : Bool :=
  ins.all fun p =>
    match c.binds.find? (fun b => b.param == p.name) with
    | some b =>
      !b.split ||
        (staticIndices (filterT st (liftSplitTy (isMapLit (resolveRefs self sib b.exp)) p.ty)
          (resolveRefs self sib b.exp)) == some ixs &&
         -- a map call over the merged output of another map call iterates in lockstep with it
         -- (`dropLockstepRoots`): not covered
         !hasForkR (resolveRefs self sib b.exp))
    | none => true

def staticCallsT (st : StructTable) (insOf : String → List Param)
    (node : String → List String → RBMap → RB × List STree) (path : List String) (self : RBMap) :
    List Call → RBMap → List STree → RBMap × List STree
  | [], sib, acc => (sib, acc)
  | c :: cs, sib, acc =>
    if c.mapped then
      let cins := resolveBindsT st self sib (insOf c.callee) c
      let r := node c.callee (path ++ [c.id]) cins
      let ci := callIndicesT st self sib (insOf c.callee) c
      let ixs := ci.getD (false, [])
      -- a `disabled` modifier on a map call is not covered
      let ok := ci.isSome && !ixs.2.isEmpty && splitsStaticT st self sib (insOf c.callee) c ixs &&
        c.disabled.isNone
      staticCallsT st insOf node path self cs (sib ++ [(c.id, unrolledOutputsT c ixs r.1.exp)])
        (acc ++ [.sub c.id ixs.1 ixs.2 ok r.2])
    else
      let cins := resolveBindsT st self sib (insOf c.callee) c
      let r := node c.callee (path ++ [c.id]) cins
      match c.disabled with
      | some (_, e) =>
        -- `resolveDisable` + `makeDisabled` / `makeDisabledExp`: a constant false control is dropped,
        -- any other control guards everything below and wraps the call's outputs
        match resolveRefs self sib e with
        | .lit (.atom "false") => staticCallsT st insOf node path self cs (sib ++ [(c.id, r.1)]) (acc ++ r.2)
        | d =>
          staticCallsT st insOf node path self cs (sib ++ [(c.id, ⟨mkDisabled d r.1.exp, r.1.ty⟩)])
            (acc ++ [.guard d r.2])
      | none => staticCallsT st insOf node path self cs (sib ++ [(c.id, r.1)]) (acc ++ r.2)

def staticCallableT (P : Program) (nm : List String → String) :
    Nat → String → List String → RBMap → RB × List STree
  | 0, _, _, _ => (⟨.lit .null, badTy⟩, [])
  | fuel+1, callee, path, ins =>
    match P.callables.lookup callee with
    | none => (⟨.lit .null, badTy⟩, [])
    | some (.stage _ _) => (⟨.ref (nm path) ⟨callee, 0, 0⟩ [], ⟨callee, 0, 0⟩⟩, [.node ⟨path, callee, ins, [], []⟩])
    | some (.pipeline _ outs calls ret) =>
      let r := staticCallsT P.table P.insOf (staticCallableT P nm fuel) path ins calls [] []
      (⟨.struct (outs.map fun p =>
          (p.name,
           match ret.lookup p.name with
           | some e => filterT P.table p.ty (resolveRefs ins r.1 e)
           | none => .lit .null)), ⟨callee, 0, 0⟩⟩,
       r.2)

def topInputsT (P : Program) : RBMap :=
  resolveBindsT P.table [] [] (P.insOf P.top.callee) P.top

def staticProgramT (P : Program) (nm : List String → String) : RB × List STree :=
  staticCallableT P nm P.fuel P.top.callee [P.top.id] (topInputsT P)

mutual
/-- the stage nodes with all their enclosing fork dimensions (outermost first) and controls -/
def flattenD (dims : List (String × List Idx)) (dis : List RExp) : STree → List SNode
  | .node n => [{ n with forks := dims, disable := dis }]
  | .sub c _ ixs _ ch => flattenDList (dims ++ [(c, ixs)]) dis ch
  | .guard d ch => flattenDList dims (dis ++ [d]) ch
def flattenDList (dims : List (String × List Idx)) (dis : List RExp) : List STree → List SNode
  | [] => []
  | t :: ts => flattenD dims dis t ++ flattenDList dims dis ts
end

mutual
/-- the stage nodes with all their enclosing fork dimensions (outermost first) -/
def flattenT (dims : List (String × List Idx)) : STree → List SNode
  | .node n => [{ n with forks := dims }]
  | .sub c _ ixs _ ch => flattenTList (dims ++ [(c, ixs)]) ch
  | .guard _ ch => flattenTList dims ch
def flattenTList (dims : List (String × List Idx)) : List STree → List SNode
  | [] => []
  | t :: ts => flattenT dims t ++ flattenTList dims ts
end

mutual
/-- every mapped call below has a statically known non-zero size, and no call id repeats
along a nesting chain -/
def treeOk (above : List String) : STree → Bool
  | .node _ => true
  | .sub c _ _ ok ch => ok && !above.contains c && treeOkList (above ++ [c]) ch
  | .guard _ ch => treeOkList above ch
def treeOkList (above : List String) : List STree → Bool
  | [] => true
  | t :: ts => treeOk above t && treeOkList above ts
end

mutual
/-- the stage instances in den's order: for a mapped call, for each index, everything below -/
def instsT (st : StructTable) (nf : Nat) (ρ : Store) : List (String × Idx) → ForkAssign → STree → List Inst
  | forks, f, .node n => [⟨⟨n.path, forks⟩, runtimeArgs st nf ρ f n, false, false⟩]
  | forks, f, .sub c _ ixs _ ch =>
    ixs.flatMap fun ix => instsTList st nf ρ (forks ++ [(c, ix)]) (fset f c ix) ch
  | forks, f, .guard d ch =>
    if isTrue (evalRT st nf ρ f ⟨"bool", 0, 0⟩ d) then [] else instsTList st nf ρ forks f ch
def instsTList (st : StructTable) (nf : Nat) (ρ : Store) : List (String × Idx) → ForkAssign → List STree → List Inst
  | _, _, [] => []
  | forks, f, t :: ts => instsT st nf ρ forks f t ++ instsTList st nf ρ forks f ts
end

mutual
/-- no run-time `disabled` control anywhere (the fragment of `resolver_refines_den_mappedpipes_*`) -/
def noGuard : STree → Bool
  | .node _ => true
  | .sub _ _ _ _ ch => noGuardList ch
  | .guard _ _ => false
def noGuardList : List STree → Bool
  | [] => true
  | t :: ts => noGuard t && noGuardList ts
end

/-- BOTH PHASES for call graphs with mapped pipelines and nested map calls of static size -/
def twoPhaseT (P : Program) (nm : List String → String) (ρ : Store) : J × List Inst :=
  ((evalRT P.table P.nfuel ρ [] ⟨P.top.callee, 0, 0⟩ (staticProgramT P nm).1.exp),
   instsTList P.table P.nfuel ρ [] [] (staticProgramT P nm).2)

/-! ## the fork roots a node depends on (`resolveForks`), for the comparison with the compiler -/

mutual
/-- the mapped calls an expression varies with: the calls of its `split` nodes and the fork
roots of the nodes it refers to, except those fixed by a `fork` annotation above -/
def depsOf (table : List (String × List String)) : RExp → List String
  | .lit _ => []
  | .arr xs => depsOfList table xs
  | .map kvs => depsOfFields table kvs
  | .struct kvs => depsOfFields table kvs
  | .ref n _ _ => (table.lookup n).getD []
  | .split c _ e => c :: depsOf table e
  | .merge c _ e => (depsOf table e).filter (· != c)
  | .disabled d v => depsOf table d ++ depsOf table v
  | .fork c _ e => (depsOf table e).filter (· != c)
def depsOfList (table : List (String × List String)) : List RExp → List String
  | [] => []
  | e :: es => depsOf table e ++ depsOfList table es
def depsOfFields (table : List (String × List String)) : List (String × RExp) → List String
  | [] => []
  | (_, e) :: es => depsOf table e ++ depsOfFields table es
end

/-- node name ↦ the fork roots it depends on, for the nodes in call order -/
def goForksTable (nm : List String → String) : List SNode → List (String × List String) → List (String × List String)
  | [], acc => acc
  | n :: ns, acc =>
    let deps := (n.inputs.flatMap fun kv => depsOf acc kv.2.exp) ++ n.disable.flatMap (depsOf acc)
    goForksTable nm ns (acc ++ [(nm n.path, (n.forks.map (·.1)).filter deps.contains)])

end Martian.ResolverStatic
