/-
C16, member order (audit pass 2, C16-M1).  `ParseValExp` / `json.Unmarshal` build a Go MAP from the
members of a JSON object: no order, a later duplicate replaces an earlier one; every printer
(`MapExp.format`, `MapExp.EncodeJSON`) writes the keys through `sort.Strings`.  The invocation model keeps
members as a list in SOURCE order (`ofJ`, `convert`); `sortE` / `sortJ` are the Go map read out in
printing order: at every depth the members sorted bytewise by key, the LAST of equal keys kept.
`sortedE` is the statement "already in that form" – the order component of C09's `wf` (`sortedKeys`).
Core Lean only.
-/
import Martian.InvocationText

namespace Martian.InvocationSort
open Martian.Invocation Martian.InvocationText
open Martian.FormatExp (bytesLt)

/-- put member `(k, e)` in front of the LATER members `r` (already sorted, duplicate-free): a later
member with the same key wins -/
def insE (k : Str) (e : Exp) : EKvs → EKvs
  | .nil => .cons k e .nil
  | .cons k' e' r =>
    if bytesLt k k' then .cons k e (.cons k' e' r)
    else if k = k' then .cons k' e' r
    else .cons k' e' (insE k e r)

mutual
def sortE : Exp → Exp
  | .lit l => .lit l
  | .arr xs => .arr (sortEL xs)
  | .map s kvs => .map s (sortEK kvs)
def sortEL : EList → EList
  | .nil => .nil
  | .cons e r => .cons (sortE e) (sortEL r)
def sortEK : EKvs → EKvs
  | .nil => .nil
  | .cons k e r => insE k (sortE e) (sortEK r)
end

def insJ (k : Str) (j : J) : JKvs → JKvs
  | .nil => .cons k j .nil
  | .cons k' j' r =>
    if bytesLt k k' then .cons k j (.cons k' j' r)
    else if k = k' then .cons k' j' r
    else .cons k' j' (insJ k j r)

mutual
def sortJ : J → J
  | .lit l => .lit l
  | .arr xs => .arr (sortJL xs)
  | .obj kvs => .obj (sortJK kvs)
def sortJL : JList → JList
  | .nil => .nil
  | .cons j r => .cons (sortJ j) (sortJL r)
def sortJK : JKvs → JKvs
  | .nil => .nil
  | .cons k j r => insJ k (sortJ j) (sortJK r)
end

/-- every key of `r` is above `a` -/
def allGt (a : Str) : EKvs → Bool
  | .nil => true
  | .cons k _ r => bytesLt a k && allGt a r

/-- keys strictly ascending -/
def ascK : EKvs → Bool
  | .nil => true
  | .cons k _ r => allGt k r && ascK r

mutual
/-- at every depth the members are in strictly ascending key order (so: no duplicate key) -/
def sortedE : Exp → Bool
  | .lit _ => true
  | .arr xs => sortedEL xs
  | .map _ kvs => ascK kvs && sortedEK kvs
def sortedEL : EList → Bool
  | .nil => true
  | .cons e r => sortedE e && sortedEL r
def sortedEK : EKvs → Bool
  | .nil => true
  | .cons _ e r => sortedE e && sortedEK r
end

def sortArg : Arg → Arg
  | .plain e => .plain (sortE e)
  | .split e => .split (sortE e)

def sortBinds (bs : List (Str × Arg)) : List (Str × Arg) := bs.map fun b => (b.1, sortArg b.2)

def sortData (d : Data) : Data := { args := d.args.map fun a => (a.1, sortJ a.2), splitargs := d.splitargs }

end Martian.InvocationSort
