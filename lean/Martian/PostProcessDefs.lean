/-
C13: the definitions the property theorems of Props/C13.lean are stated with
(leaf lists, shapes, hypotheses, oracles, example records).  They are part of
the MODEL; the lemmas about them live in Proofs/PostProcess*.lean.
Core Lean only.
-/
import Martian.PostProcess

namespace Martian.PostProcess

/-! ## (from Proofs/PostProcess.lean) -/

/-- An entry that is moved (not a symlink). -/
def Entry.isLink : Entry → Bool
  | .link _ => true
  | _ => false

/-- a small file system used by the non-vacuity examples of Props.C13 -/
def exFS : FS :=
  { get := fun q => if q = ["ps", "MK", "files", "f"] then some (.file 7)
      else if q = ["ps"] ∨ q = ["ps", "MK"] ∨ q = ["ps", "MK", "files"] then some .dir else none
    dom := [] }

/-! ## (from Proofs/PostProcessNames.lean) -/

def valRev : List Nat → Nat
  | [] => 0
  | d :: ds => d + 10 * valRev ds

/-! ## (from Proofs/PostProcessWriter.lean) -/

/-- tokens a value can start with -/
def goodHead : Tok → Bool
  | .null | .lit _ | .str _ | .lbrack | .lbrace => true
  | _ => false

/-! ## (from Proofs/PostProcessAlias.lean) -/

/-- a path component that `Clean` keeps as it is -/
def cleanComp (c : String) : Bool := c ≠ ".." && c ≠ "." && c ≠ ""

/-- the string of a JSON string value -/
def J.strVal : J → Option String
  | .str s => some s
  | _ => none

/-! ## (from Proofs/PostProcessShape.lean) -/

/-- a file leaf becomes null, stays, or becomes a path string -/
def LeafShape (v v' : J) : Prop := v' = .null ∨ v' = v ∨ ∃ s, v' = .str s

/-- pointwise relation between two lists (same length) -/
inductive All2 (R : J → J → Prop) : List J → List J → Prop
  | nil : All2 R [] []
  | cons {x y : J} {xs ys : List J} : R x y → All2 R xs ys → All2 R (x :: xs) (y :: ys)

/-- arrays of `k+1` dimensions over elements related by `R`: same lengths at
every level; anything that is not an array (null included) is unchanged -/
def ShapeArr (R : J → J → Prop) : Nat → J → J → Prop
  | 0, .arr xs, v' => ∃ ys, v' = .arr ys ∧ All2 R xs ys
  | k + 1, .arr xs, v' => ∃ ys, v' = .arr ys ∧ All2 (ShapeArr R k) xs ys
  | _, v, v' => v' = v

/-- typed maps: the keys of the result are the sorted legal keys of the input,
each value related to the input's value for that key -/
def ShapeMap (R : J → J → Prop) (v v' : J) : Prop :=
  match v with
  | .obj kvs => ∃ kvs', v' = .obj kvs' ∧
      kvs'.map Prod.fst = sortStrings (dedup ((kvs.map Prod.fst).filter legalName)) ∧
      ∀ kv ∈ kvs', R ((lookupLast kvs kv.1).getD .null) kv.2
  | _ => v' = v

/-- structs: the keys of the result are the sorted member ids (an absent key
reads as null), each value related by its member's relation -/
def ShapeStruct (RM : String → J → J → Prop) (ids : List String) (v v' : J) : Prop :=
  match v with
  | .obj [] => v' = .obj []
  | .obj kvs => ∃ kvs', v' = .obj kvs' ∧ kvs'.map Prod.fst = sortStrings ids ∧
      ∀ kv ∈ kvs', RM kv.1 ((lookupLast kvs kv.1).getD .null) kv.2
  | _ => v' = v

mutual
/-- `Shape ty v v'`: `v'` has the shape of `v` at type `ty` -/
def Shape : Ty → J → J → Prop
  | .scalar, v, v' => v' = v
  | .file _, v, v' => LeafShape v v'
  | .arr e k, v, v' => if hasFile e then ShapeArr (Shape e) k v v' else v' = v
  | .tmap e, v, v' => if hasFile e then ShapeMap (Shape e) v v' else v' = v
  | .struct ms, v, v' =>
    if hasFileMs ms then ShapeStruct (ShapeMs ms) (ms.map (·.1)) v v' else v' = v
def ShapeMs : List (String × String × Ty) → String → J → J → Prop
  | [], _, v, v' => v' = v
  | (id, _, t) :: ms, k, v, v' => if id = k then Shape t v v' else ShapeMs ms k v v'
end

/-- fields of a record value (`_outs` of one fork); anything else has none -/
def fieldsOf : J → List (String × J)
  | .obj kvs => kvs
  | _ => []

/-- `ShapeRec params outs r`: the rewritten record `r` has exactly the declared
parameters whose key is present in `outs`, in declaration order, each value
related to the input value by `Shape` at the parameter's type. -/
def ShapeRec (params : List (String × String × Ty)) (outs r : List (String × J)) : Prop :=
  r.map Prod.fst = (params.map (·.1)).filter (fun id => (lookupLast outs id).isSome) ∧
  ∀ kv ∈ r, ∃ on ty v, (kv.1, on, ty) ∈ params ∧ lookupLast outs kv.1 = some v ∧ Shape ty v kv.2

/-- one fork's record (`processStructOuts`) -/
def ShapeFork (params : List (String × String × Ty)) (x y : J) : Prop :=
  ∃ r, y = .obj r ∧ ShapeRec params (fieldsOf x) r

/-! ## (from Proofs/PostProcessLeaves.lean) -/

/-- one call `moveOutFile ps outs name v` -/
structure Leaf where
  v : J
  outs : Path
  name : String

/-- the destination path derived for the leaf -/
def Leaf.dest (l : Leaf) : Path := l.outs ++ [l.name]

def runLeaf (ps : Path) (fs : FS) (l : Leaf) : FS := (moveOutFile ps l.outs l.name l.v fs).2

def runLeaves (ps : Path) (ls : List Leaf) (fs : FS) : FS := ls.foldl (runLeaf ps) fs

abbrev LeafFn := String → String → J → Path → List Leaf

def leavesIdx (g : Nat → J → List Leaf) : Nat → List J → List Leaf
  | _, [] => []
  | i, x :: xs => g i x ++ leavesIdx g (i + 1) xs

def leavesKeys (g : String → List Leaf) : List String → List Leaf
  | [] => []
  | k :: ks => g k ++ leavesKeys g ks

/-- an inner array of a multi-dimensional array: its own sub-directory `o/<index>` -/
def arrElemLeaves (sub : J → Path → List Leaf) (o : Path) (w i : Nat) (x : J) : List Leaf :=
  match x with
  | .null => []
  | _ => sub x (o ++ [pad w i])

def arrLeaves (g : LeafFn) : Nat → J → Path → List Leaf
  | 0, .arr xs, o => leavesIdx (fun i x => g (pad (width xs.length) i) "" x o) 0 xs
  | k + 1, .arr xs, o => leavesIdx (arrElemLeaves (arrLeaves g k) o (width xs.length)) 0 xs
  | _, _, _ => []

def mapLeaves (g : LeafFn) (v : J) (o : Path) : List Leaf :=
  match v with
  | .obj kvs =>
    leavesKeys (fun k => g k "" ((lookupLast kvs k).getD .null) o)
      (sortStrings (dedup ((kvs.map Prod.fst).filter legalName)))
  | _ => []

abbrev MemberLeaves := List (String × (J → Path → List Leaf))

def memberLeaves (gs : MemberLeaves) (k : String) : J → Path → List Leaf :=
  match gs with
  | [] => fun _ _ => []
  | (k', g) :: r => if k' = k then g else memberLeaves r k

def structLeaves (gs : MemberLeaves) (v : J) (o : Path) : List Leaf :=
  match v with
  | .obj [] => []
  | .obj kvs =>
    leavesKeys (fun k => memberLeaves gs k ((lookupLast kvs k).getD .null) o)
      (sortStrings (gs.map Prod.fst))
  | _ => []

mutual
/-- the `moveOutFile` calls of `handler true ps ty`, in order -/
def leavesOf : Ty → LeafFn
  | .scalar => fun _ _ _ _ => []
  | .file ext => fun id on v outs =>
    match v with
    | .null => []
    | _ => [⟨v, outs, outFilename (.file ext) id on⟩]
  | .arr e k => fun id on v outs =>
    if !hasFile e then [] else
    match v with
    | .null => []
    | _ => arrLeaves (leavesOf e) k v (outs ++ [outFilename (.arr e k) id on])
  | .tmap e => fun id on v outs =>
    if !hasFile e then [] else
    match v with
    | .null => []
    | _ => mapLeaves (leavesOf e) v (outs ++ [outFilename (.tmap e) id on])
  | .struct ms => fun id on v outs =>
    if !hasFileMs ms then [] else
    match v with
    | .null => []
    | _ => structLeaves (leavesMs ms) v (outs ++ [outFilename (.struct ms) id on])
def leavesMs : List (String × String × Ty) → MemberLeaves
  | [] => []
  | (id, on, t) :: ms => (id, leavesOf t id on) :: leavesMs ms
end

/-- the leaves of a whole record (`handleOuts`) -/
def leavesRec (params : List (String × String × Ty)) (outs : List (String × J)) (outsPath : Path) :
    List Leaf :=
  match params with
  | [] => []
  | (id, on, ty) :: rest =>
    match lookupLast outs id with
    | none => leavesRec rest outs outsPath
    | some v => leavesOf ty id on v outsPath ++ leavesRec rest outs outsPath

/-! ## (from Proofs/PostProcessDests.lean) -/

/-- `d` lies at or below `b` -/
def Under (b d : Path) : Prop := ∃ suf, d = b ++ suf

/-- neither path is a prefix of the other -/
def Incomp (d1 d2 : Path) : Prop := isPrefix d1 d2 = false ∧ isPrefix d2 d1 = false

/-- the relation between two leaves: incomparable destinations -/
def LeafIncomp (l1 l2 : Leaf) : Prop := Incomp l1.dest l2.dest

mutual
/-- every struct in the type passed the compiler's duplicate checks: distinct
member ids and (`noDupNames`) distinct output file names -/
def wfTy : Ty → Bool
  | .scalar => true
  | .file _ => true
  | .arr e _ => wfTy e
  | .tmap e => wfTy e
  | .struct ms => noDupNames ms [] && decide ((ms.map (·.1)).Nodup) && wfMs ms
def wfMs : List (String × String × Ty) → Bool
  | [] => true
  | (_, _, t) :: ms => wfTy t && wfMs ms
end

/-- the out params of the top-level callable, as a member list -/
def wfParams (params : List (String × String × Ty)) : Bool :=
  noDupNames params [] && decide ((params.map (·.1)).Nodup) && wfMs params

/-- all leaves of the member lie below the member's own directory/file name,
and their destinations are pairwise incomparable -/
def GoodFn (ty : Ty) (g : LeafFn) : Prop :=
  ∀ id on v outs, (∀ l ∈ g id on v outs, Under (outs ++ [outFilename ty id on]) l.dest) ∧
    (g id on v outs).Pairwise LeafIncomp

/-- what is known about the leaves of the member with id `k` -/
def GoodMs (ms : List (String × String × Ty)) (gs : MemberLeaves) : Prop :=
  ∀ k v o, (memberLeaves gs k v o).Pairwise LeafIncomp ∧
    ∀ l ∈ memberLeaves gs k v o, ∃ on t, (k, on, t) ∈ ms ∧ hasFile t = true ∧
      Under (o ++ [outFilename t k on]) l.dest

/-! ## (from Proofs/PostProcessContent.lean) -/

/-- the source path a leaf names (a non-empty absolute path string), if any -/
def Leaf.src (l : Leaf) : Option Path :=
  match l.v with
  | .str s => if s = "" then none else parsePath s
  | _ => none

/-- The situation in which `content_preserved` is claimed, for a list of leaf
calls `ls` all working below the outs directory `top`, in file system `fs`:
* `dests`   destinations pairwise incomparable (this is `dest_injective`),
* `below`   every leaf's directory is at or below `top`,
* `apart`   no source is an ancestor of `top` or lies under it,
* `nonnest` sources of different leaves are not nested (in particular distinct),
* `status`  every source is missing, or a regular file/directory inside the pipestance,
* `free`    nothing occupies a destination yet. -/
structure Clean (ps top : Path) (fs : FS) (ls : List Leaf) : Prop where
  dests : ls.Pairwise LeafIncomp
  below : ∀ l ∈ ls, top <+: l.outs
  apart : ∀ l ∈ ls, ∀ p, l.src = some p → ¬ p <+: top ∧ ¬ top <+: p
  nonnest : ls.Pairwise (fun l1 l2 => ∀ p1 p2, l1.src = some p1 → l2.src = some p2 →
    ¬ p1 <+: p2 ∧ ¬ p2 <+: p1)
  status : ∀ l ∈ ls, ∀ p, l.src = some p →
    fs.get p = none ∨ ∃ e, fs.get p = some e ∧ e.isLink = false ∧ inside ps p = true
  free : ∀ l ∈ ls, fs.get l.dest = none

/-! ## (from Proofs/PostProcessChecked.lean) -/

/-- `apart` and `status` for one leaf -/
def leafOkB (ps top : Path) (fs : FS) (l : Leaf) : Bool :=
  (match l.src with
   | none => true
   | some p =>
     !isPrefix p top && !isPrefix top p &&
       (match fs.get p with
        | none => true
        | some e => !e.isLink && inside ps p)) &&
  (fs.get l.dest).isNone

/-- the sources of two leaves are not nested -/
def srcApartB (l1 l2 : Leaf) : Bool :=
  match l1.src, l2.src with
  | some p1, some p2 => !isPrefix p1 p2 && !isPrefix p2 p1
  | _, _ => true

def nonnestB : List Leaf → Bool
  | [] => true
  | l :: ls => ls.all (srcApartB l) && nonnestB ls

/-- the side conditions of `content_preserved` (`apart`, `nonnest`, `status`, `free`), decidable -/
def cleanB (ps top : Path) (fs : FS) (ls : List Leaf) : Bool :=
  ls.all (leafOkB ps top fs) && nonnestB ls

/-- a struct with two file members and a scalar, a 2-dimensional file array, a typed map of file arrays -/
def exSig3 : List (String × String × Ty) :=
  [("s", "", .struct [("f", "", .file "txt"), ("g", "out.bin", .file ""), ("n", "", .scalar)]),
   ("r", "", .arr (.file "") 1), ("m", "", .tmap (.arr (.file "bam") 0))]

/-- six file leaves: two struct members, a DIRECTORY and a missing file and (after a null) a file in
the 2-dimensional array, one file under a map key -/
def exOuts3 : List (String × J) :=
  [("s", .obj [("f", .str "/ps/MK/files/sf"), ("g", .str "/ps/MK/files/sg"), ("n", .lit "3")]),
   ("r", .arr [.arr [.str "/ps/MK/files/d", .str "/ps/MK/files/nope"], .arr [.null, .str "/ps/MK/files/r11"]]),
   ("m", .obj [("k1", .arr [.str "/ps/MK/files/m0"]), ("b", .arr [])])]

def exFS3 : FS :=
  { get := fun q =>
      if q = ["ps", "MK", "files", "sf"] then some (.file 1)
      else if q = ["ps", "MK", "files", "sg"] then some (.file 2)
      else if q = ["ps", "MK", "files", "d", "inner"] then some (.file 3)
      else if q = ["ps", "MK", "files", "r11"] then some (.file 4)
      else if q = ["ps", "MK", "files", "m0"] then some (.file 5)
      else if q = ["ps"] ∨ q = ["ps", "MK"] ∨ q = ["ps", "MK", "files"] ∨ q = ["ps", "MK", "files", "d"]
        then some .dir else none
    dom := [] }

/-! ## (from Proofs/PostProcessRecord.lean) -/

def pureIdx (f : Nat → J → J) : Nat → List J → List J
  | _, [] => []
  | i, x :: xs => f i x :: pureIdx f (i + 1) xs

abbrev PureH := String → String → J → Path → J

def pureArr (h : PureH) : Nat → J → Path → J
  | 0, v, o =>
    match v with
    | .arr xs => .arr (pureIdx (fun i x => h (pad (width xs.length) i) "" x o) 0 xs)
    | _ => v
  | k + 1, v, o =>
    match v with
    | .arr xs =>
      .arr (pureIdx (fun i x =>
        match x with
        | .null => .null
        | _ => pureArr h k x (o ++ [pad (width xs.length) i])) 0 xs)
    | _ => v

def pureKeys (f : String → J) : List String → List (String × J)
  | [] => []
  | k :: ks => (k, f k) :: pureKeys f ks

def pureMap (h : PureH) (v : J) (o : Path) : J :=
  match v with
  | .obj kvs =>
    .obj (pureKeys (fun k => h k "" ((lookupLast kvs k).getD .null) o)
      (sortStrings (dedup ((kvs.map Prod.fst).filter legalName))))
  | _ => v

abbrev PureMembers := List (String × (J → Path → J))

def pureMember (hs : PureMembers) (k : String) : J → Path → J :=
  match hs with
  | [] => fun v _ => v
  | (k', h) :: r => if k' = k then h else pureMember r k

def pureStruct (hs : PureMembers) (v : J) (o : Path) : J :=
  match v with
  | .obj [] => .obj []
  | .obj kvs =>
    .obj (pureKeys (fun k => pureMember hs k ((lookupLast kvs k).getD .null) o) (sortStrings (hs.map Prod.fst)))
  | _ => v

mutual
/-- `handler true ps ty` with the leaf calls answered by `E` -/
def pureHandler (E : Leaf → J) : Ty → PureH
  | .scalar => fun _ _ v _ => v
  | .file ext => fun id on v outs =>
    match v with
    | .null => .null
    | _ => E ⟨v, outs, outFilename (.file ext) id on⟩
  | .arr e k => fun id on v outs =>
    if !hasFile e then v else
    match v with
    | .null => .null
    | _ => pureArr (pureHandler E e) k v (outs ++ [outFilename (.arr e k) id on])
  | .tmap e => fun id on v outs =>
    if !hasFile e then v else
    match v with
    | .null => .null
    | _ => pureMap (pureHandler E e) v (outs ++ [outFilename (.tmap e) id on])
  | .struct ms => fun id on v outs =>
    if !hasFileMs ms then v else
    match v with
    | .null => .null
    | _ => pureStruct (pureMs E ms) v (outs ++ [outFilename (.struct ms) id on])
def pureMs (E : Leaf → J) : List (String × String × Ty) → PureMembers
  | [] => []
  | (id, on, t) :: ms => (id, pureHandler E t id on) :: pureMs E ms
end

/-- `handleOuts` with the leaf calls answered by `E` -/
def pureOuts (E : Leaf → J) (params : List (String × String × Ty)) (outs : List (String × J)) (top : Path) :
    List (String × J) :=
  match params with
  | [] => []
  | (id, on, ty) :: rest =>
    match lookupLast outs id with
    | none => pureOuts E rest outs top
    | some v => (id, pureHandler E ty id on v top) :: pureOuts E rest outs top

/-- every leaf call of the run `ls` from `fs` returns what `E` says -/
def Good (ps : Path) (E : Leaf → J) : List Leaf → FS → Prop
  | [], _ => True
  | l :: ls, fs => (moveOutFile ps l.outs l.name l.v fs).1 = E l ∧ Good ps E ls (runLeaf ps fs l)

/-- what a leaf's value becomes when nothing interferes: judged in `fs0` -/
def expectVal (fs0 : FS) (l : Leaf) : J :=
  match l.v with
  | .str s =>
    if s = "" then .null else
    match parsePath s with
    | none => .null
    | some p =>
      match fs0.get p with
      | none => .null
      | some _ => .str (renderPath l.dest)
  | v => v

/-! ## (from Proofs/PostProcessGate.lean) -/

def KeptArr (R : J → J → Prop) : Nat → J → J → Prop
  | 0, .arr xs, v' => ∃ ys, v' = .arr ys ∧ All2 R xs ys
  | k + 1, .arr xs, v' => ∃ ys, v' = .arr ys ∧ All2 (KeptArr R k) xs ys
  | _, _, _ => True

/-- the result is an object whose keys are ALL the (sorted, de-duplicated) keys of the input -/
def KeptMap (R : J → J → Prop) (v v' : J) : Prop :=
  match v with
  | .obj kvs => ∃ kvs', v' = .obj kvs' ∧
      kvs'.map Prod.fst = sortStrings (dedup (kvs.map Prod.fst)) ∧
      ∀ kv ∈ kvs', R ((lookupLast kvs kv.1).getD .null) kv.2
  | _ => True

def KeptStruct (RM : String → J → J → Prop) (v v' : J) : Prop :=
  match v with
  | .obj [] => True
  | .obj kvs => ∃ kvs', v' = .obj kvs' ∧ ∀ kv ∈ kvs', RM kv.1 ((lookupLast kvs kv.1).getD .null) kv.2
  | _ => True

mutual
/-- at every typed-map node of directory kind reached along `ty`, the rewritten value has all keys of the input -/
def AllKeysKept : Ty → J → J → Prop
  | .scalar, _, _ => True
  | .file _, _, _ => True
  | .arr e k, v, v' => if hasFile e then KeptArr (AllKeysKept e) k v v' else True
  | .tmap e, v, v' => if hasFile e then KeptMap (AllKeysKept e) v v' else True
  | .struct ms, v, v' => if hasFileMs ms then KeptStruct (AllKeysKeptMs ms) v v' else True
def AllKeysKeptMs : List (String × String × Ty) → String → J → J → Prop
  | [], _, _, _ => True
  | (id, _, t) :: ms, k, v, v' => if id = k then AllKeysKept t v v' else AllKeysKeptMs ms k v v'
end

/-! ## (from Proofs/PostProcessMapped.lean) -/

/-- propositional reading of `keysSeparable` -/
def KeysSeparable (outs : Path) (keys : List String) : Prop :=
  (∀ k ∈ keys, Under outs (joinKey outs k)) ∧
    keys.Pairwise (fun a b => Incomp (joinKey outs a) (joinKey outs b))

/-- the `moveOutFile` calls of `postMap`, fork after fork -/
def leavesMap (params : List (String × String × Ty)) (outs : Path) : List (String × J) → List Leaf
  | [] => []
  | (k, x) :: r => leavesRec params (fieldsOf x) (joinKey outs k) ++ leavesMap params outs r

/-- fork after fork: create the fork's directory (when the signature has a
file-typed output), then the fold of `moveOutFile` over the fork's leaves -/
def runForks (ps : Path) (params : List (String × String × Ty)) (outs : Path) : List (String × J) → FS → FS
  | [], fs => fs
  | (k, x) :: r, fs =>
    runForks ps params outs r
      (runLeaves ps (leavesRec params (fieldsOf x) (joinKey outs k))
        (if hasFileMs params then mkdirAll fs (joinKey outs k) else fs))

/-- the string recorded for field `k` of a fork's record -/
def recStr (j : J) (k : String) : Option String :=
  match j with
  | .obj kvs => (lookupLast kvs k).bind J.strVal
  | _ => none

/-- two forks, each with one file `f` in its own stage directory -/
def exFS2 : FS :=
  { get := fun q => if q = ["ps", "MK", "fork0", "files", "f"] then some (.file 1)
      else if q = ["ps", "MK", "fork1", "files", "f"] then some (.file 2)
      else if q = ["ps"] ∨ q = ["ps", "MK"] ∨ q = ["ps", "MK", "fork0"] ∨ q = ["ps", "MK", "fork1"] ∨
        q = ["ps", "MK", "fork0", "files"] ∨ q = ["ps", "MK", "fork1", "files"] then some .dir else none
    dom := [] }

/-! ## mapped top-level calls: what `content_preserved_mapped` promises -/

/-- the rewritten record of a top-level call mapped over a typed map, as promised when nothing
interferes: the entry of a legal key `k` is its record with every file leaf replaced by `expectVal`
(judged in the ORIGINAL file system `fs0`, destinations below `top/<k>`); the entry of a refused key
is unchanged -/
def expectedMapped (fs0 : FS) (params : List (String × String × Ty)) (top : Path) (kvs : List (String × J)) :
    List (String × J) :=
  kvs.map fun kv =>
    if legalName kv.1 then (kv.1, J.obj (pureOuts (expectVal fs0) params (fieldsOf kv.2) (top ++ [kv.1]))) else kv

/-- example of a mapped call: three fork keys (one refused), two file outputs per fork -/
def exKvsM : List (String × J) :=
  [("a", .obj [("r", .str "/ps/MK/fork0/files/f"), ("s", .str "/ps/MK/fork0/files/g")]),
   ("a/", .obj [("r", .str "/ps/MK/fork1/files/f"), ("s", .str "/ps/MK/fork1/files/g")]),
   ("b", .obj [("r", .str "/ps/MK/fork2/files/f"), ("s", .str "/ps/MK/fork2/files/g")])]

def exFSM : FS :=
  { get := fun q =>
      if q = ["ps", "MK", "fork0", "files", "f"] then some (.file 1)
      else if q = ["ps", "MK", "fork0", "files", "g"] then some (.file 2)
      else if q = ["ps", "MK", "fork1", "files", "f"] then some (.file 3)
      else if q = ["ps", "MK", "fork1", "files", "g"] then some (.file 4)
      else if q = ["ps", "MK", "fork2", "files", "f"] then some (.file 5)
      else if q = ["ps", "MK", "fork2", "files", "g"] then some (.file 6)
      else if q = ["ps"] ∨ q = ["ps", "MK"] then some .dir else none
    dom := [] }

end Martian.PostProcess
