/-
Compile-time typing of MRO bindings (C07), on top of the C17 type algebra
(Martian/Types.lean: `Ty`, `valid`, `filter`, `assignable`, `dims`, `isDirMap`).

Models, function by function, the Go code in martian/syntax:
  struct_type.go      `fieldType`                      → `fieldType`
  compile_params.go   `RefExp.resolveType`             → `refType`
                      `BindStm.compileParam`,
                      `rewriteToDefaultOutput`         → `validBind`
                      `BindStms.compile`               → `validCall`
  builtin_types.go / user_file_type.go / collection_types.go / struct_type.go
                      `IsValidExpression` of each type class → `validExp`
  types.go            `isValidSplit`                   → `validBind (.split …)`
  map_call_source.go  `MergeMapCallSources` (literal / typed sources) → `mergeShape`
and the run-time side in martian/core/resolve.go:
  `resolvePath` / `LazyArgumentMap.Path` (projection part) → `project`
  the value an expression denotes                           → `eval`

Core Lean only.  All recursive functions are structural (on the destination
type, or on the expression), so `decide` evaluates them.

Expressions are a plain mutual inductive (`Exp`/`Exps`/`KVs`, no nested `List`)
for the same reason.  A map / struct literal is an association list in source
order; the Go parser stores it in a Go map, so a duplicated key keeps its LAST
value (`KVs.get` is last-wins, like `Json.getKey`); the correspondence harness
only generates literals without duplicate keys.

Float literals are `float m e` = `m * 10^e` as written (Go: `float64`; the two
agree on literals that are exactly representable – the harness only generates
those).
-/
import Martian.Types

namespace Martian.Typing
open Martian.Json Martian.Types

/-! ## Expressions -/

mutual
  inductive Exp where
    | null
    | int (v : Int)
    /-- float literal `m * 10^e` -/
    | float (m e : Int)
    | str (s : Bytes)
    | bool (b : Bool)
    | arr (xs : Exps)
    /-- `{"k": e, …}` (`isStruct = false`, Go `KindMap`) or `{k: e, …}` (`KindStruct`) -/
    | map (isStruct : Bool) (kvs : KVs)
    /-- `self.id.path` -/
    | self (id : Bytes) (path : List Bytes)
    /-- `ID.path` (`path = []`: the whole call) -/
    | call (id : Bytes) (path : List Bytes)
  inductive Exps where
    | nil
    | cons (e : Exp) (r : Exps)
  inductive KVs where
    | nil
    | cons (k : Bytes) (e : Exp) (r : KVs)
end

instance : Inhabited Exp := ⟨.null⟩

namespace Exps
def toList : Exps → List Exp
  | .nil => []
  | .cons e r => e :: toList r
def ofList : List Exp → Exps
  | [] => .nil
  | e :: r => .cons e (ofList r)
end Exps

namespace KVs
def toList : KVs → List (Bytes × Exp)
  | .nil => []
  | .cons k e r => (k, e) :: toList r
def ofList : List (Bytes × Exp) → KVs
  | [] => .nil
  | (k, e) :: r => .cons k e (ofList r)
/-- last occurrence wins (Go map built by the parser) -/
def get (k : Bytes) : KVs → Option Exp
  | .nil => none
  | .cons k' e r =>
    match get k r with
    | some w => some w
    | none => if k' = k then some e else none
end KVs

mutual
  /-- `Exp.HasRef` -/
  def Exp.hasRef : Exp → Bool
    | .arr xs => xs.hasRef
    | .map _ kvs => kvs.hasRef
    | .self _ _ => true
    | .call _ _ => true
    | _ => false
  def Exps.hasRef : Exps → Bool
    | .nil => false
    | .cons e r => e.hasRef || r.hasRef
  def KVs.hasRef : KVs → Bool
    | .nil => false
    | .cons _ e r => e.hasRef || r.hasRef
end

mutual
  /-- what the parser guarantees about an expression tree: integer literals are
  `int64` values (`IntExp.Value`), and the keys of a map / struct literal are
  pairwise distinct (the literal is stored in a Go map) -/
  def Exp.wf : Exp → Bool
    | .int v => Num.inInt64 v
    | .arr xs => xs.wf
    | .map _ kvs => kvs.wf && decide ((kvs.toList.map Prod.fst).Nodup)
    | _ => true
  def Exps.wf : Exps → Bool
    | .nil => true
    | .cons e r => e.wf && r.wf
  def KVs.wf : KVs → Bool
    | .nil => true
    | .cons _ e r => e.wf && r.wf
end

/-- a binding: `id = e` or `id = split e` -/
inductive Bind where
  | plain (e : Exp)
  | split (e : Exp)

/-! ## Projection types (`fieldType`) -/

mutual
  /-- `fieldType(id, lookup, path)`: the type of `x.path` for `x : t`.
  Projection through an array lifts the result to an array, through a typed map
  to a typed map (which may not itself contain a map: "invalid projection
  through nested maps"). -/
  def fieldType : Ty → List Bytes → Option Ty
    | t, [] => some t
    | .arr e, k :: p => (fieldType e (k :: p)).map Ty.arr
    | .tmap e, k :: p =>
      match fieldType e (k :: p) with
      | some r => if (dims r).2 = 0 then some (.tmap r) else none
      | none => none
    | .struct _ fs, k :: p => fieldTypeF fs k p
    | .base _, _ :: _ => none
    | .user _, _ :: _ => none
  /-- member `k` of the struct, then the rest of the path -/
  def fieldTypeF : Fields → Bytes → List Bytes → Option Ty
    | .nil, _, _ => none
    | .cons k' t r, k, p => if k' = k then fieldType t p else fieldTypeF r k p
end

/-! ## Run-time projection (`resolvePath`) -/

/-- all present -/
def allSome {α : Type} : List (Option α) → Option (List α)
  | [] => some []
  | none :: _ => none
  | some x :: r =>
    match allSome r with
    | some xs => some (x :: xs)
    | none => none

mutual
  /-- the value of `v.path` for `v : t` (`null` projects to `null`; arrays and
  typed maps are projected element-wise; a missing struct member is an error) -/
  def project : Ty → J → List Bytes → Option J
    | _, v, [] => some v
    | .arr e, v, k :: p =>
      match v with
      | .null => some .null
      | .arr xs => (allSome (xs.map (fun x => project e x (k :: p)))).map J.arr
      | _ => none
    | .tmap e, v, k :: p =>
      match v with
      | .null => some .null
      | .obj kvs =>
        (allSome (kvs.map (fun kv => (project e kv.2 (k :: p)).map (fun w => (kv.1, w))))).map J.obj
      | _ => none
    | .struct _ fs, v, k :: p =>
      match v with
      | .null => some .null
      | .obj kvs =>
        match getKey k kvs with
        | none => none
        | some w => projectF fs k w p
      | _ => none
    | .base _, v, _ :: _ => match v with | .null => some .null | _ => none
    | .user _, v, _ :: _ => match v with | .null => some .null | _ => none
  def projectF : Fields → Bytes → J → List Bytes → Option J
    | .nil, _, _, _ => none
    | .cons k' t r, k, w, p => if k' = k then project t w p else projectF r k w p
end

/-! ## Type environment -/

/-- how a call is made -/
inductive Mode where
  | single | arr | map
  deriving DecidableEq, Repr, Inhabited

/-- what a `map call` is split over, as far as the compiler knows it -/
inductive SplitShape where
  /-- arrays (of the given length, when known statically) -/
  | arr (n : Option Nat)
  /-- typed maps (with the given keys, when known statically) -/
  | map (keys : Option (List Bytes))
  deriving DecidableEq, Repr, Inhabited

/-- a call already made in the pipeline: callable name, mode, (for mapped calls)
the shape it was split over, declared outputs -/
structure CallSig where
  name : Bytes
  mode : Mode
  src : Option SplitShape
  outs : Fields

/-- `self.x : T` for every pipeline input; the calls referable by `ID.out` -/
structure Env where
  self : List (Bytes × Ty)
  calls : List (Bytes × CallSig)

/-- the struct type of all outputs of the callable (`structFromCallable`) -/
def CallSig.struct (s : CallSig) : Ty := .struct s.name s.outs

/-- type of a reference to the whole call -/
def CallSig.whole (s : CallSig) : Ty :=
  match s.mode with
  | .single => s.struct
  | .arr => .arr s.struct
  | .map => .tmap s.struct

/-- the map-call dimension rule of `resolveType`: `t.ArrayDim++` for an array
call; for a map call `MappedMapError` if `t` already contains a map, else
`map<t>` -/
def liftMode : Mode → Ty → Option Ty
  | .single, t => some t
  | .arr, t => some (.arr t)
  | .map, t => if (dims t).2 = 0 then some (.tmap t) else none

/-- `RefExp.resolveType` (`none` = any resolution error) -/
def refType (Γ : Env) : Exp → Option Ty
  | .self id p =>
    match Γ.self.lookup id with
    | some t => fieldType t p
    | none => none
  | .call id p =>
    match Γ.calls.lookup id with
    | none => none
    | some sig =>
      match p with
      | [] =>
        match sig.outs with
        | .nil => none                 -- no struct type exists for a callable without outputs
        | _ => some sig.whole
      | o :: p' =>
        match sig.outs.get o with
        | none => none                 -- NoSuchOutputError
        | some t =>
          match fieldType t p' with
          | none => none
          | some r => liftMode sig.mode r
  | _ => none

/-! ## `IsValidExpression` -/

/-- the `(ArrayDim, MapDim)` pre-checks each type class makes on a reference
before asking `IsAssignableFrom` -/
def shapeOk : (dst src : Ty) → Bool
  | .arr t, s => decide (1 ≤ (dims s).1) && decide ((dims s).1 = (dims (Ty.arr t)).1)
  | .tmap _, s => decide ((dims s).2 ≠ 0)
  | _, s => decide ((dims s).1 = 0) && decide ((dims s).2 = 0)

/-- a reference bound to a parameter of type `t` -/
def refOk (Γ : Env) (t : Ty) (e : Exp) : Bool :=
  match refType Γ e with
  | none => false
  | some s => shapeOk t s && assignable t s

/-- `float64(int64(v)) == v`: the literal is integral and fits `int64` -/
def floatIsInt64 (m e : Int) : Bool :=
  match (Num.flt m e).intValue? with
  | some i => Num.inInt64 i
  | none => false

/-- `BuiltinType.IsValidExpression` -/
def validBase (Γ : Env) (b : Base) : Exp → Bool
  | .null => true
  | .str _ => b == .string || b == .file || b == .path
  | .int _ => b == .int || b == .float
  | .float m e => b == .float || (b == .int && floatIsInt64 m e)
  | .bool _ => b == .bool
  | .arr _ => false
  | .map isStruct kvs => b == .map && !isStruct && !kvs.hasRef
  | .self id p => refOk Γ (.base b) (.self id p)
  | .call id p => refOk Γ (.base b) (.call id p)

mutual
  /-- `t.IsValidExpression(e, pipeline, ast) == nil` -/
  def validExp (Γ : Env) : Ty → Exp → Bool
    | .base b, e => validBase Γ b e
    | .user n, e =>
      match e with
      | .null => true
      | .str _ => true
      | .self id p => refOk Γ (.user n) (.self id p)
      | .call id p => refOk Γ (.user n) (.call id p)
      | _ => false
    | .arr t, e =>
      match e with
      | .null => true
      | .arr xs => xs.toList.all (fun x => validExp Γ t x)
      | .self id p => refOk Γ (.arr t) (.self id p)
      | .call id p => refOk Γ (.arr t) (.call id p)
      | _ => false
    | .tmap t, e =>
      match e with
      | .null => true
      | .map false kvs =>
        kvs.toList.all (fun kv => validExp Γ t kv.2 && (!isDirMap t || legalName kv.1))
      | .self id p => refOk Γ (.tmap t) (.self id p)
      | .call id p => refOk Γ (.tmap t) (.call id p)
      | _ => false
    | .struct n fs, e =>
      match e with
      | .null => true
      | .map _ kvs =>
        validFields Γ fs kvs &&
          !(decide (kvs.toList.length > fs.toList.length) &&
            kvs.toList.any (fun kv => (fs.get kv.1).isNone))
      | .self id p => refOk Γ (.struct n fs) (.self id p)
      | .call id p => refOk Γ (.struct n fs) (.call id p)
      | _ => false
  /-- every declared member has a value of its type -/
  def validFields (Γ : Env) : Fields → KVs → Bool
    | .nil, _ => true
    | .cons k t r, kvs =>
      (match kvs.get k with
        | none => false
        | some e => validExp Γ t e) && validFields Γ r kvs
end

/-- `isBackwardsCompatibleType` -/
def backCompat : Ty → Bool
  | .struct _ _ => false
  | .tmap _ => false
  | .arr t => backCompat t
  | _ => true

/-- `default` -/
def defaultName : Bytes := [0x64, 0x65, 0x66, 0x61, 0x75, 0x6C, 0x74]

/-- `rewriteToDefaultOutput`: `x = CALL` may stand for `x = CALL.default` -/
def defaultRewrite (Γ : Env) (t : Ty) : Exp → Bool
  | .call id [] =>
    backCompat t &&
      match refType Γ (.call id [defaultName]) with
      | some s => decide ((dims s).2 = 0) && assignable t s
      | none => false
  | _ => false

/-- element type of the collection a `split` reference ranges over -/
def peel : Ty → Option Ty
  | .arr t => some t
  | .tmap t => some t
  | _ => none

/-- `BindStm.compileParam` / `isValidSplit` for a parameter of type `t`.
(`split` of anything but a non-empty array / map literal or a reference is
not expressible in the grammar.) -/
def validBind (Γ : Env) (t : Ty) : Bind → Bool
  | .plain e => validExp Γ t e || defaultRewrite Γ t e
  | .split (.arr xs) => !xs.toList.isEmpty && xs.toList.all (fun x => validExp Γ t x)
  | .split (.map false kvs) => !kvs.toList.isEmpty && kvs.toList.all (fun kv => validExp Γ t kv.2)
  | .split (.self id p) =>
    match refType Γ (.self id p) with
    | some s => match peel s with | some s' => assignable t s' | none => false
    | none => false
  | .split (.call id p) =>
    match refType Γ (.call id p) with
    | some s => match peel s with | some s' => assignable t s' | none => false
    | none => false
  | .split _ => false

/-! ## Split consistency (`checkMappings` / `MergeMapCallSources`) -/

def sameKeys (a b : List Bytes) : Bool :=
  decide (a.length = b.length) && a.all (fun k => b.contains k)

/-- two split sources of one call: both arrays or both maps; statically known
lengths / key sets must agree -/
def mergeShape : SplitShape → SplitShape → Option SplitShape
  | .arr none, .arr b => some (.arr b)
  | .arr (some a), .arr none => some (.arr (some a))
  | .arr (some a), .arr (some b) => if a = b then some (.arr (some a)) else none
  | .map none, .map b => some (.map b)
  | .map (some a), .map none => some (.map (some a))
  | .map (some a), .map (some b) => if sameKeys a b then some (.map (some a)) else none
  | _, _ => none

/-- what a split binding ranges over (`none`: not a split) -/
def bindShape (Γ : Env) : Bind → Option SplitShape
  | .plain _ => none
  | .split (.arr xs) => some (.arr (some xs.toList.length))
  | .split (.map _ kvs) => some (.map (some (kvs.toList.map Prod.fst)))
  | .split (.self id p) =>
    match refType Γ (.self id p) with
    | some (.arr _) => some (.arr none)
    | some (.tmap _) => some (.map none)
    | _ => none
  | .split (.call id p) =>
    match Γ.calls.lookup id with
    | some sig =>
      match sig.mode, sig.src with
      | .single, _ | _, none =>
        match refType Γ (.call id p) with
        | some (.arr _) => some (.arr none)
        | some (.tmap _) => some (.map none)
        | _ => none
      | _, some sh => some sh          -- a reference into a mapped call inherits its source
    | none => none
  | .split _ => none

def mergeAll : Option SplitShape → List SplitShape → Option (Option SplitShape)
  | acc, [] => some acc
  | none, s :: r => mergeAll (some s) r
  | some a, s :: r =>
    match mergeShape a s with
    | some m => mergeAll (some m) r
    | none => none

/-- `BindStms.compile` + `checkMappings` for one call: every binding names a
declared parameter, no parameter is bound twice, every parameter is bound,
every binding is valid for its parameter's type, the split sources agree.
Result: the shape the call is mapped over (`some none` = not mapped). -/
def checkCall (Γ : Env) (params : List (Bytes × Ty)) (binds : List (Bytes × Bind)) :
    Option (Option SplitShape) :=
  if binds.all (fun ib =>
        match params.lookup ib.1 with
        | some t => validBind Γ t ib.2
        | none => false) &&
      (binds.map Prod.fst).eraseDups.length == binds.length &&
      params.all (fun p => (binds.lookup p.1).isSome)
  then mergeAll none (binds.filterMap (fun ib => bindShape Γ ib.2))
  else none

def validCall (Γ : Env) (params : List (Bytes × Ty)) (binds : List (Bytes × Bind)) : Bool :=
  (checkCall Γ params binds).isSome

/-! ## What an expression denotes at run time -/

/-- the JSON number `FloatExp.EncodeJSON` writes: an integral value that fits
`int64` (`float64(int64(v)) == v`, the same test `IsValidExpression` uses to
accept the literal for an `int` parameter) is written in integer syntax
(`strconv.AppendInt`), everything else in float syntax
(`strconv.AppendFloat(v, 'g', -1, 64)`: fraction and/or exponent). -/
def litFloat (m e : Int) : Num :=
  match (Num.flt m e).intValue? with
  | some i => if Num.inInt64 i then .int i else .flt m e
  | none => .flt m e

/-- run-time values: of the pipeline's inputs and of the (merged) outputs of
each call already made -/
structure Store where
  self : List (Bytes × J)
  calls : List (Bytes × J)

mutual
  def eval (Γ : Env) (ρ : Store) : Exp → Option J
    | .null => some .null
    | .int v => some (.num (.int v))
    | .float m e => some (.num (litFloat m e))
    | .str s => some (.str s)
    | .bool b => some (.bool b)
    | .arr xs => (evalL Γ ρ xs).map J.arr
    | .map _ kvs => (evalKV Γ ρ kvs).map J.obj
    | .self id p =>
      match Γ.self.lookup id, ρ.self.lookup id with
      | some t, some v => project t v p
      | _, _ => none
    | .call id p =>
      match Γ.calls.lookup id, ρ.calls.lookup id with
      | some sig, some v => project sig.whole v p
      | _, _ => none
  def evalL (Γ : Env) (ρ : Store) : Exps → Option (List J)
    | .nil => some []
    | .cons e r =>
      match eval Γ ρ e, evalL Γ ρ r with
      | some v, some vs => some (v :: vs)
      | _, _ => none
  def evalKV (Γ : Env) (ρ : Store) : KVs → Option (List (Bytes × J))
    | .nil => some []
    | .cons k e r =>
      match eval Γ ρ e, evalKV Γ ρ r with
      | some v, some vs => some ((k, v) :: vs)
      | _, _ => none
end

/-- every value in the store conforms to its declared type (the hypothesis
"stages produce outputs conforming to their declared output types") -/
def StoreOk (Γ : Env) (ρ : Store) : Prop :=
  (∀ id t, Γ.self.lookup id = some t → ∃ v, ρ.self.lookup id = some v ∧ valid t v = true) ∧
  (∀ id sig, Γ.calls.lookup id = some sig →
    ∃ v, ρ.calls.lookup id = some v ∧ valid sig.whole v = true)

/-- every declared type in the environment is well-formed (distinct field names) -/
def EnvWf (Γ : Env) : Prop :=
  (∀ id t, Γ.self.lookup id = some t → t.wf = true) ∧
  (∀ id sig, Γ.calls.lookup id = some sig → sig.struct.wf = true)

/-- the elements a `split` binding hands to the forks -/
def elems : J → Option (List J)
  | .null => some []
  | .arr xs => some xs
  | .obj kvs => some (kvs.map Prod.snd)
  | _ => none

/-! ## Where the C17 holes (F9, F10) could be hit -/

/-- a reference bound at type `t` does not pass through one of the two
assignability holes of C17 (`noHole`) -/
def refHoleFree (Γ : Env) (t : Ty) (e : Exp) : Bool :=
  match refType Γ e with
  | some s => noHole t s
  | none => true

mutual
  /-- `noHole` at every reference inside `e`, following the same recursion as `validExp` -/
  def holeFree (Γ : Env) : Ty → Exp → Bool
    | .base b, e => refHoleFree Γ (.base b) e
    | .user n, e => refHoleFree Γ (.user n) e
    | .arr t, e =>
      match e with
      | .arr xs => xs.toList.all (fun x => holeFree Γ t x)
      | e => refHoleFree Γ (.arr t) e
    | .tmap t, e =>
      match e with
      | .map _ kvs => kvs.toList.all (fun kv => holeFree Γ t kv.2)
      | e => refHoleFree Γ (.tmap t) e
    | .struct n fs, e =>
      match e with
      | .map _ kvs => holeFreeFields Γ fs kvs
      | e => refHoleFree Γ (.struct n fs) e
  def holeFreeFields (Γ : Env) : Fields → KVs → Bool
    | .nil, _ => true
    | .cons k t r, kvs =>
      (match kvs.get k with
        | none => true
        | some e => holeFree Γ t e) && holeFreeFields Γ r kvs
end

end Martian.Typing
