/-
C18 model, job-script level.

* `Sh…`: a POSIX shell *line lexer* as a byte-at-a-time state machine (XCU 2.2,
  2.3, 2.10 restricted to what the shipped job templates and `formatArgs` can
  contain): blanks, newline, backslash (escape / line continuation), double
  quotes, single quotes, comments (`#` at word start), the operators `>`, `N>`
  and `&`, the special parameter `$!`, assignment prefixes (`NAME=`).  Anything
  else (`;` `|` `(` `<` globs, `~`, backtick, `$x`, …) makes the model refuse
  (`none`): it only speaks about text it understands completely.
* `replaceGo`: Go's `strings.NewReplacer(old1,new1,…).Replace` (non-empty olds:
  at every position the FIRST pair, in argument order, whose old string is a
  prefix of the remaining text is applied; replacement text is not rescanned).
* `jobScript`: `RemoteJobManager.jobScript` of martian/core/jobmanager_remote.go
  (resource arithmetic for whole-number requests, the parameter table, the
  removal of lines whose parameter is empty, the replacer) — on the raw
  template text.
* `renderScript`: the same substitution on a template that is already cut
  into lines and segments (literal text / variable), which is the form the
  theorems speak about; both are compared with the real `jobScript` byte for
  byte on every run.

Core Lean only.
-/
import Martian.ShellQuote

namespace Martian.JobTemplate
open Martian.ShellQuote

/-! ## Shell line lexer -/

inductive Mode
  | normal   -- outside quotes
  | bs       -- just after an unquoted backslash
  | dq       -- inside "…"
  | dqbs     -- just after a backslash inside "…"
  | sq       -- inside '…'
  | comment  -- after `#` at word start, until newline
  | dollar   -- just after an unquoted `$`
  | gt       -- just after the operator `>` / `N>` (to refuse `>>`, `>&`, `>|`)
  | amp      -- just after the operator `&` (to refuse `&&`, `&>`)
  deriving DecidableEq, Repr

/-- what has been seen of the current word -/
inductive WS
  | none    -- no word begun
  | bare    -- only unquoted characters so far
  | quoted  -- at least one quoted part (`""` alone is a word)
  deriving DecidableEq, Repr

structure St where
  mode : Mode
  cur : Bytes
  ws : WS
  asg : Bool   -- the word has an unquoted `NAME=` prefix (assignment word shape)
  exp : Bool   -- the word contains `$!` (its value is not literal)
  deriving DecidableEq, Repr

inductive Tok
  | word (v : Bytes) (asg : Bool)
  | special (v : Bytes)
  | op (o : Bytes)
  | nl
  deriving DecidableEq, Repr

def clean : St := ⟨.normal, [], .none, false, false⟩

def isAlpha (b : UInt8) : Bool := (0x41 ≤ b && b ≤ 0x5A) || (0x61 ≤ b && b ≤ 0x7A) || b == 0x5F
def isDigit (b : UInt8) : Bool := 0x30 ≤ b && b ≤ 0x39
def isNameCh (b : UInt8) : Bool := isAlpha b || isDigit b

/-- a shell / environment variable name -/
def isName : Bytes → Bool
  | [] => false
  | b :: r => isAlpha b && r.all isNameCh

/-- other characters that are ordinary inside an unquoted word: `/ . - + : , @ %` -/
def isBareExtra (b : UInt8) : Bool :=
  b == 0x2F || b == 0x2E || b == 0x2D || b == 0x2B || b == 0x3A || b == 0x2C || b == 0x40 || b == 0x25

def flush (s : St) : List Tok :=
  match s.ws with
  | .none => []
  | _ => if s.exp then [.special s.cur] else [.word s.cur s.asg]

def bareWS : WS → WS
  | .none => .bare
  | w => w

def stepNormal (s : St) (b : UInt8) : Option (List Tok × St) :=
  if b == 0x20 || b == 0x09 then some (flush s, clean)
  else if b == 0x0A then some (flush s ++ [.nl], clean)
  else if b == 0x5C then some ([], { s with mode := .bs })
  else if b == 0x22 then some ([], { s with mode := .dq, ws := .quoted })
  else if b == 0x27 then some ([], { s with mode := .sq, ws := .quoted })
  else if b == 0x23 then
    (if s.ws == .none then some ([], { s with mode := .comment })
     else some ([], { s with mode := .normal, cur := s.cur ++ [b] }))
  else if b == 0x3E then
    (if s.ws == .bare && !s.asg && !s.exp && !s.cur.isEmpty && s.cur.all isDigit
     then some ([.op (s.cur ++ [b])], { clean with mode := .gt })
     else some (flush s ++ [.op [b]], { clean with mode := .gt }))
  else if b == 0x26 then some (flush s ++ [.op [b]], { clean with mode := .amp })
  else if b == 0x24 then some ([], { s with mode := .dollar })
  else if b == 0x3D then
    (if s.ws == .bare && !s.asg && isName s.cur
     then some ([], { s with mode := .normal, cur := s.cur ++ [b], asg := true })
     else some ([], { s with mode := .normal, cur := s.cur ++ [b], ws := bareWS s.ws }))
  else if isNameCh b || isBareExtra b then
    some ([], { s with mode := .normal, cur := s.cur ++ [b], ws := bareWS s.ws })
  else none

def step (s : St) (b : UInt8) : Option (List Tok × St) :=
  match s.mode with
  | .normal => stepNormal s b
  | .gt => if b == 0x3E || b == 0x26 || b == 0x7C then none else stepNormal { s with mode := .normal } b
  | .amp => if b == 0x3E || b == 0x26 then none else stepNormal { s with mode := .normal } b
  | .bs =>
    if b == 0x0A then some ([], { s with mode := .normal })
    else some ([], { s with mode := .normal, cur := s.cur ++ [b], ws := .quoted })
  | .dq =>
    if b == 0x22 then some ([], { s with mode := .normal })
    else if b == 0x5C then some ([], { s with mode := .dqbs })
    else if b == 0x24 || b == 0x60 then none
    else some ([], { s with cur := s.cur ++ [b] })
  | .dqbs =>
    if dqSpecial b then some ([], { s with mode := .dq, cur := s.cur ++ [b] })
    else if b == 0x0A then some ([], { s with mode := .dq })
    else some ([], { s with mode := .dq, cur := s.cur ++ [0x5C, b] })
  | .sq =>
    if b == 0x27 then some ([], { s with mode := .normal })
    else some ([], { s with cur := s.cur ++ [b] })
  | .comment =>
    if b == 0x0A then some ([.nl], clean) else some ([], s)
  | .dollar =>
    if b == 0x21 then
      some ([], { s with mode := .normal, cur := s.cur ++ [0x24, b], ws := bareWS s.ws, exp := true })
    else none

/-- run the lexer over a text from a state: the tokens completed so far and the state reached -/
def run (s : St) : Bytes → Option (List Tok × St)
  | [] => some ([], s)
  | b :: r =>
    match step s b with
    | none => none
    | some (t1, s1) =>
      match run s1 r with
      | none => none
      | some (t2, s2) => some (t1 ++ t2, s2)

/-- end of input: a pending word is complete; an open quote / backslash is refused -/
def finish (s : St) : Option (List Tok) :=
  match s.mode with
  | .normal | .gt | .amp | .comment => some (flush s)
  | _ => none

/-- the tokens of a complete script text -/
def shToks (inp : Bytes) : Option (List Tok) :=
  match run clean inp with
  | none => none
  | some (t, s) =>
    match finish s with
    | none => none
    | some t' => some (t ++ t')

/-! ## `strings.NewReplacer` (generic algorithm, non-empty old strings) -/

def lookupOld (pairs : List (Bytes × Bytes)) (s : Bytes) : Option (Bytes × Bytes) :=
  pairs.find? fun p => p.1.isPrefixOf s

/-- `skip` = bytes of an already replaced old string still to be passed over -/
def replaceGo (pairs : List (Bytes × Bytes)) : Nat → Bytes → Bytes
  | _, [] => []
  | k + 1, _ :: r => replaceGo pairs k r
  | 0, b :: r =>
    match lookupOld pairs (b :: r) with
    | some (old, new) => new ++ replaceGo pairs (old.length - 1) r
    | none => b :: replaceGo pairs 0 r

/-- `strings.Contains` -/
def containsB : Bytes → Bytes → Bool
  | [], pat => pat.isEmpty
  | b :: r, pat => pat.isPrefixOf (b :: r) || containsB r pat

/-- `strings.Split(s, "\n")` -/
def splitNl : Bytes → List Bytes
  | [] => [[]]
  | b :: r =>
    if b == 0x0A then [] :: splitNl r
    else match splitNl r with
      | [] => [[b]]
      | l :: ls => (b :: l) :: ls

/-- `strings.Replace(s, old, new, 1)` for a non-empty `old` -/
def replaceFirst (old new : Bytes) : Bytes → Bytes
  | [] => []
  | b :: r =>
    if old.isPrefixOf (b :: r) then new ++ (b :: r).drop old.length
    else b :: replaceFirst old new r

/-! ## `jobScript` -/

def digitByte (n : Nat) : UInt8 := 0x30 + (n % 10).toUInt8

/-- `strconv.Itoa` of a non-negative number (fuel = n + 1 is always enough) -/
def natDigitsAux : Nat → Nat → Bytes → Bytes
  | 0, _, acc => acc
  | f + 1, n, acc =>
    if n / 10 == 0 then digitByte n :: acc else natDigitsAux f (n / 10) (digitByte n :: acc)

def natDigits (n : Nat) : Bytes := natDigitsAux (n + 1) n []

def ceilDiv (a b : Nat) : Nat := if b == 0 then 0 else (a + b - 1) / b

/-- inputs of `jobScript` -/
structure JobIn where
  tmpl : Bytes
  fqname : Bytes
  shellName : Bytes
  stdout : Bytes      -- metadata.MetadataFilePath("stdout")
  stderr : Bytes
  workdir : Bytes     -- metadata.curFilesPath
  threadEnvs : List Bytes
  envs : List (Bytes × Bytes)
  cmd : Bytes
  argv : List Bytes
  threads : Float     -- request (float64, as in JobResources); 0 = default, negative = its absolute value
  memGB : Float       -- request; 0 = default, negative = its absolute value
  vmemGB : Float      -- request; < 1 = mem + extra
  threadsPerJob : Nat
  memGBPerJob : Nat
  extraVmemGB : Nat
  memGBPerCore : Nat
  alwaysVmem : Bool
  account : Bytes     -- $MRO_ACCOUNT
  special : Bytes     -- res.Special
  mappings : List (Bytes × Bytes)  -- jobResourcesMappings
  resOpt : Bytes      -- config.jobResourcesOpt

def threadsKey : Bytes :=   -- `__MRO_THREADS__`
  [0x5F, 0x5F, 0x4D, 0x52, 0x4F, 0x5F, 0x54, 0x48, 0x52, 0x45, 0x41, 0x44, 0x53, 0x5F, 0x5F]

/-- the numbers `jobScript` substitutes -/
structure Res where
  threads : Nat
  memGB : Nat
  memMB : Nat
  memKB : Nat
  memB : Nat
  vmemGB : Nat
  vmemMB : Nat
  vmemKB : Nat
  vmemB : Nat
  memPerThread : Nat
  vmemPerThread : Nat

/-- Go's `int(math.Ceil(x))` for `0 ≤ x < 2^63` -/
def ceilNat (x : Float) : Nat := (Float.ceil x).toUInt64.toNat

/-- `GetSystemReqs` followed by the arithmetic at the head of `jobScript`, in float64 as the
code does it (Lean's `Float` is the same IEEE double) -/
def resources (j : JobIn) : Res :=
  let thr0 : Float :=
    if j.threads == 0 then j.threadsPerJob.toFloat else if j.threads < 0 then -j.threads else j.threads
  let m0 : Float := if j.memGB < 0 then -j.memGB else j.memGB
  let m1 : Float := if m0 == 0 then j.memGBPerJob.toFloat else m0
  let v : Float := if j.vmemGB < 1 then m1 + j.extraVmemGB.toFloat else j.vmemGB
  let thr1 : Float :=
    if j.memGBPerCore > 0 then
      (let tfm := m1 / j.memGBPerCore.toFloat
       if tfm > thr0 then tfm else thr0)
    else thr0
  -- verifyJobManager: threading is enabled iff the template mentions __MRO_THREADS__
  let thr : Float := if containsB j.tmpl threadsKey then Float.ceil thr1 else 1
  let vpt := max j.memGBPerCore (ceilNat (v / thr))
  let useV := j.alwaysVmem && v > m1
  let m : Float := if useV then v else m1
  let mpt := if useV then vpt else max j.memGBPerCore (ceilNat (m1 / thr))
  { threads := ceilNat thr,
    memGB := ceilNat m, memMB := ceilNat (m * 1024), memKB := ceilNat (m * 1024 * 1024),
    memB := ceilNat (m * 1024 * 1024 * 1024),
    vmemGB := ceilNat v, vmemMB := ceilNat (v * 1024), vmemKB := ceilNat (v * 1024 * 1024),
    vmemB := ceilNat (v * 1024 * 1024 * 1024),
    memPerThread := mpt, vmemPerThread := vpt }

/-- `threadEnvs`: every thread variable gets the thread count, the job's own
environment overrides it (a Go map: keys distinct) -/
def mergeEnvs (names : List Bytes) (thr : Bytes) (envs : List (Bytes × Bytes)) : List (Bytes × Bytes) :=
  ((names.eraseDups.filter fun n => !(envs.any fun kv => kv.1 == n)).map fun n => (n, thr)) ++ envs

def resKey : Bytes := [0x5F, 0x5F, 0x52, 0x45, 0x53, 0x4F, 0x55, 0x52, 0x43, 0x45, 0x53, 0x5F, 0x5F]   -- `__RESOURCES__`

def mappedResources (j : JobIn) : Bytes :=
  if j.special.isEmpty then [] else
  match j.mappings.lookup j.special with
  | some r => replaceFirst resKey r j.resOpt
  | none => []

inductive Kind | raw | int | quoted | cmd
  deriving DecidableEq, Repr

def Kind.name : Kind → String
  | .raw => "raw" | .int => "int" | .quoted => "quoted" | .cmd => "cmd"

/-- bytes of an ASCII string (parameter names are ASCII constants of the source); written
with `toList` so that the kernel can evaluate it -/
def bytesOf (s : String) : Bytes := s.toList.map fun c => c.toNat.toUInt8

/-- the parameter table of `jobScript`, in source order: name, kind, value -/
def params (tbl : EscTable) (j : JobIn) : List (String × Kind × Bytes) :=
  let r := resources j
  let n (x : Nat) := natDigits x
  [ ("JOB_NAME", .raw, j.fqname ++ [0x2E] ++ j.shellName),
    ("THREADS", .int, n r.threads),
    ("STDOUT", .quoted, quote tbl j.stdout),
    ("STDERR", .quoted, quote tbl j.stderr),
    ("JOB_WORKDIR", .quoted, quote tbl j.workdir),
    ("CMD", .cmd, formatArgs tbl (mergeEnvs j.threadEnvs (n r.threads) j.envs) j.cmd j.argv),
    ("MEM_GB", .int, n r.memGB),
    ("MEM_MB", .int, n r.memMB),
    ("MEM_KB", .int, n r.memKB),
    ("MEM_B", .int, n r.memB),
    ("MEM_GB_PER_THREAD", .int, n r.memPerThread),
    ("MEM_MB_PER_THREAD", .int, n (r.memPerThread * 1024)),
    ("MEM_KB_PER_THREAD", .int, n (r.memPerThread * 1024 * 1024)),
    ("MEM_B_PER_THREAD", .int, n (r.memPerThread * 1024 * 1024 * 1024)),
    ("VMEM_GB", .int, n r.vmemGB),
    ("VMEM_MB", .int, n r.vmemMB),
    ("VMEM_KB", .int, n r.vmemKB),
    ("VMEM_B", .int, n r.vmemB),
    ("VMEM_GB_PER_THREAD", .int, n r.vmemPerThread),
    ("VMEM_MB_PER_THREAD", .int, n (r.vmemPerThread * 1024)),
    ("VMEM_KB_PER_THREAD", .int, n (r.vmemPerThread * 1024 * 1024)),
    ("VMEM_B_PER_THREAD", .int, n (r.vmemPerThread * 1024 * 1024 * 1024)),
    ("ACCOUNT", .raw, j.account),
    ("RESOURCES", .raw, mappedResources j) ]

/-- names and kinds only (compared with the regenerated `Gen.jobScriptParams`) -/
def paramSpec : List (String × String) :=
  (params [] { tmpl := [], fqname := [], shellName := [], stdout := [], stderr := [], workdir := [],
               threadEnvs := [], envs := [], cmd := [], argv := [], threads := 1, memGB := 1, vmemGB := 1,
               threadsPerJob := 1, memGBPerJob := 1, extraVmemGB := 0, memGBPerCore := 0,
               alwaysVmem := false, account := [], special := [], mappings := [], resOpt := [] }).map
    fun p => (p.1, p.2.1.name)

def varKey (name : String) : Bytes := bytesOf ("__MRO_" ++ name ++ "__")

/-- the old/new argument list handed to `strings.NewReplacer` (Go guards the line loop with
`strings.Contains(template, rkey)`; when no line holds the key the loop adds nothing, so the
guard is not modelled) -/
def replArgs (tmpl : Bytes) (ps : List (Bytes × Bytes)) : List (Bytes × Bytes) :=
  ps.flatMap fun kv =>
    if !kv.2.isEmpty then [(kv.1, kv.2)]
    else ((splitNl tmpl).filter fun l => containsB l kv.1).map fun l => (l, [])

def jobScript (tbl : EscTable) (j : JobIn) : Bytes :=
  replaceGo (replArgs j.tmpl ((params tbl j).map fun p => (varKey p.1, p.2.2))) 0 j.tmpl

/-! ## Templates cut into lines and segments -/

/-- a segment: `("", text)` = literal text, `(name, _)` = the variable `__MRO_name__` -/
abbrev Seg := String × Bytes
abbrev SegLine := List Seg

def segIsVar (s : Seg) : Bool := s.1 != ""

/-- the template text a segment list stands for -/
def segText (l : SegLine) : Bytes :=
  (l.map fun s => if segIsVar s then varKey s.1 else s.2).flatten

def joinNl : List Bytes → Bytes
  | [] => []
  | [l] => l
  | l :: ls => l ++ 0x0A :: joinNl ls

def templateText (ls : List SegLine) : Bytes := joinNl (ls.map segText)

/-- one line after substitution: a line holding a variable whose value is empty
is removed (its text becomes empty, the newline stays) -/
def renderLine (vals : String → Bytes) (l : SegLine) : Bytes :=
  if l.any (fun s => segIsVar s && (vals s.1).isEmpty) then []
  else (l.map fun s => if segIsVar s then vals s.1 else s.2).flatten

def renderScript (vals : String → Bytes) (ls : List SegLine) : Bytes :=
  joinNl (ls.map (renderLine vals))

def valsOf (ps : List (String × Kind × Bytes)) (name : String) : Bytes :=
  match ps.find? fun p => p.1 == name with
  | some p => p.2.2
  | none => varKey name   -- not a parameter: the text stays


/-! ## What a shell must see (the right-hand side of the theorems) -/

/-- shapes of template lines; `other` = a line the theorems do not cover -/
inductive Shape
  | inert       -- empty line, or a line whose first byte is `#` and which does not hold __MRO_CMD__:
                -- a comment whatever the values are, as long as they contain no newline
  | cmdAlone    -- `__MRO_CMD__`
  | resources   -- `__MRO_RESOURCES__` (a scheduler directive, i.e. a comment, or nothing)
  | cdWorkdir   -- `cd __MRO_JOB_WORKDIR__`
  | envCmdBg    -- `/usr/bin/env __MRO_CMD__ > __MRO_STDOUT__ 2> __MRO_STDERR__ & echo $!`
  | other
  deriving DecidableEq, Repr


def bEnv : Bytes := [0x2F, 0x75, 0x73, 0x72, 0x2F, 0x62, 0x69, 0x6E, 0x2F, 0x65, 0x6E, 0x76]   -- `/usr/bin/env`
def bEcho : Bytes := [0x65, 0x63, 0x68, 0x6F]   -- `echo`
def bCd : Bytes := [0x63, 0x64]   -- `cd`

def shapeCd : SegLine := [("", [0x63, 0x64, 0x20]), ("JOB_WORKDIR", [])]   -- `cd `
def shapeEnv : SegLine :=
  [("", bEnv ++ [0x20]), ("CMD", []), ("", [0x20, 0x3E, 0x20]), ("STDOUT", []), ("", [0x20, 0x32, 0x3E, 0x20]),
   ("STDERR", []), ("", [0x20, 0x26, 0x20] ++ bEcho ++ [0x20, 0x24, 0x21])]

def shapeOf (l : SegLine) : Shape :=
  match l with
  | [] => .inert
  | ("", 0x23 :: _) :: _ => if l.any (fun s => s.1 == "CMD") then .other else .inert
  | _ =>
    if l = [("CMD", [])] then .cmdAlone
    else if l = [("RESOURCES", [])] then .resources
    else if l = shapeCd then .cdWorkdir
    else if l = shapeEnv then .envCmdBg
    else .other

/-- a template line the theorems cover: known shape, literal text without newline, variables
that are parameters of `jobScript` -/
def lineOK (l : SegLine) : Bool :=
  shapeOf l != .other &&
    l.all fun s => if segIsVar s then paramSpec.any (fun p => p.1 == s.1) else !s.2.contains 0x0A

/-- the strings mrp was given -/
structure Given where
  envs : List (Bytes × Bytes)   -- in the order of the rendered assignments (`sortEnvs`)
  cmd : Bytes
  argv : List Bytes
  stdout : Bytes
  stderr : Bytes
  workdir : Bytes

def w (s : Bytes) : Tok := .word s false

def cmdWords (g : Given) : List Tok :=
  g.envs.map (fun kv => Tok.word (assignWord kv) true) ++ w g.cmd :: g.argv.map w

def lineToks (g : Given) : Shape → List Tok
  | .inert | .resources | .other => []
  | .cmdAlone => cmdWords g
  | .cdWorkdir => [w bCd, w g.workdir]
  | .envCmdBg =>
    w bEnv :: cmdWords g ++
      [.op [0x3E], w g.stdout, .op [0x32, 0x3E], w g.stderr, .op [0x26], w bEcho, .special [0x24, 0x21]]

/-- token lists of lines, separated by newline tokens -/
def joinToks : List (List Tok) → List Tok
  | [] => []
  | [t] => t
  | t :: ts => t ++ Tok.nl :: joinToks ts

/-- tokens of the whole script: the lines' tokens separated by newline tokens -/
def expectedToks (g : Given) (ls : List SegLine) : List Tok :=
  joinToks (ls.map fun l => lineToks g (shapeOf l))

def givenOf (tbl : EscTable) (j : JobIn) : Given :=
  { envs := sortEnvs tbl (mergeEnvs j.threadEnvs (natDigits (resources j).threads) j.envs),
    cmd := j.cmd, argv := j.argv, stdout := j.stdout, stderr := j.stderr, workdir := j.workdir }

/-! ## Well-formed segmentation: when `renderScript` IS the replacer

`wfTemplate names maybeEmpty ls`: a decidable check on a template cut into lines and segments
under which, for ALL values (only the parameters in `maybeEmpty` may be empty), Go's replacer
on the template text gives exactly `renderScript` (theorem `replace_eq_render`).  At every
position of the text that the replacer can examine:
* inside literal text no parameter key starts, and no removable line text starts;
* at a variable exactly that parameter's key starts (no other key is a prefix there);
* a removable line text (the text of a line holding a `maybeEmpty` variable) starts only at the
  start of a line with exactly that text;
* a line holding a `maybeEmpty` variable starts with literal text or is that variable alone;
* a line contains the key of a `maybeEmpty` parameter textually iff it has that variable. -/

/-- key table: parameter name ↦ key bytes (`__MRO_name__`), in parameter order -/
abbrev Keys := List (String × Bytes)

def keyOf (keys : Keys) (n : String) : Bytes :=
  match keys.find? fun nk => nk.1 == n with
  | some nk => nk.2
  | none => []

def segTextK (keys : Keys) (l : SegLine) : Bytes :=
  (l.map fun s => if segIsVar s then keyOf keys s.1 else s.2).flatten

def templateTextK (keys : Keys) (ls : List SegLine) : Bytes := joinNl (ls.map (segTextK keys))

def keysAt (keys : Keys) (s : Bytes) : List String :=
  (keys.filter fun nk => nk.2.isPrefixOf s).map (·.1)

def noLineAt (R : List Bytes) (s : Bytes) : Bool := R.all fun L => !L.isPrefixOf s

def heads (xs : List Bytes) : List UInt8 := (xs.filterMap List.head?).eraseDups

/-- a position inside literal text (`first`: the first position of a line, where removable line
texts are judged by the line check instead).  `kh`, `rh`: the first bytes of the keys and of
the removable line texts — a key can only start where its first byte stands (this only makes
the check cheap). -/
def posOK (keys : Keys) (R : List Bytes) (first : Bool) (s : Bytes) : Bool :=
  match s with
  | [] => true
  | b :: _ =>
    (!(heads (keys.map (·.2))).contains b || (keysAt keys s).isEmpty)
      && (first || !(heads R).contains b || noLineAt R s)

def wfLit (keys : Keys) (R : List Bytes) : Bool → Bytes → Bytes → Bool
  | _, [], _ => true
  | first, b :: l, k => posOK keys R first (b :: l ++ k) && wfLit keys R false l k

def wfSegs (keys : Keys) (R : List Bytes) : Bool → SegLine → Bytes → Bool
  | _, [], _ => true
  | first, s :: ss, k =>
    if segIsVar s then
      (keysAt keys (keyOf keys s.1 ++ (segTextK keys ss ++ k)) == [s.1])
        && (first || noLineAt R (keyOf keys s.1 ++ (segTextK keys ss ++ k)))
        && wfSegs keys R false ss k
    else
      wfLit keys R first s.2 (segTextK keys ss ++ k)
        && wfSegs keys R (first && s.2.isEmpty) ss k

def hasMaybeEmpty (maybeEmpty : List String) (l : SegLine) : Bool :=
  l.any fun s => segIsVar s && maybeEmpty.contains s.1

def startOK (maybeEmpty : List String) : SegLine → Bool
  | ("", _ :: _) :: _ => true
  | [(n, _)] => maybeEmpty.contains n
  | _ => false

def wfLine (keys : Keys) (maybeEmpty : List String) (R : List Bytes) (l : SegLine) (k : Bytes) : Bool :=
  (R.all fun L => !L.isPrefixOf (segTextK keys l ++ k) || L == segTextK keys l)
    && wfSegs keys R true l k
    && (maybeEmpty.all fun X =>
          containsB (segTextK keys l) (keyOf keys X) == l.any fun s => s.1 == X)
    && (!hasMaybeEmpty maybeEmpty l || startOK maybeEmpty l)
    && !(segTextK keys l).contains 0x0A
    && l.all fun s => !segIsVar s || keys.any fun nk => nk.1 == s.1

def afterLine (keys : Keys) (rest : List SegLine) : Bytes :=
  match rest with
  | [] => []
  | _ => 0x0A :: templateTextK keys rest

def wfLines (keys : Keys) (maybeEmpty : List String) (R : List Bytes) : List SegLine → Bool
  | [] => true
  | l :: rest =>
    wfLine keys maybeEmpty R l (afterLine keys rest)
      && (rest.isEmpty || posOK keys R false (afterLine keys rest))
      && wfLines keys maybeEmpty R rest

def removable (keys : Keys) (maybeEmpty : List String) (ls : List SegLine) : List Bytes :=
  (ls.filter (hasMaybeEmpty maybeEmpty)).map (segTextK keys)

def wfTemplate (keys : Keys) (maybeEmpty : List String) (ls : List SegLine) : Bool :=
  !ls.isEmpty
    && keys.all (fun nk => nk.1 != "" && !nk.2.isEmpty && keyOf keys nk.1 == nk.2)
    && (removable keys maybeEmpty ls).all (fun L => !L.isEmpty)
    && wfLines keys maybeEmpty (removable keys maybeEmpty ls) ls

/-! ### cutting a template text into segments (the rule of verif-extract, for arbitrary texts) -/

def flushLit (lit : Bytes) : SegLine := if lit.isEmpty then [] else [("", lit)]

/-- at every position the first key, in table order, that is a prefix of the text starts a
variable; `skip` = bytes of a key still to be passed over -/
def segLineAux (keys : Keys) : Nat → Bytes → Bytes → SegLine
  | _, [], lit => flushLit lit
  | k + 1, _ :: r, lit => segLineAux keys k r lit
  | 0, b :: r, lit =>
    match keys.find? fun nk => !nk.2.isEmpty && nk.2.isPrefixOf (b :: r) with
    | some nk => flushLit lit ++ (nk.1, []) :: segLineAux keys (nk.2.length - 1) r []
    | none => segLineAux keys 0 r (lit ++ [b])

def segmentText (keys : Keys) (text : Bytes) : List SegLine :=
  (splitNl text).map fun l => segLineAux keys 0 l []

/-- the key table of `jobScript` (compared with the regenerated `Gen.jobScriptKeys`) -/
def paramKeys : Keys := paramSpec.map fun p => (p.1, varKey p.1)

/-- the parameters whose value can be empty: the raw ones (the job name never is, but that is
not needed) -/
def maybeEmptyParams : List String := ["JOB_NAME", "ACCOUNT", "RESOURCES"]

end Martian.JobTemplate
