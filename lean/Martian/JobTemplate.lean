/-
C18 model, job-script level.

* `Sh…`: a POSIX shell *line lexer* as a byte-at-a-time state machine (XCU 2.2,
  2.3, 2.10 restricted to what the shipped job templates and `formatArgs` can
  contain): blanks, newline, backslash (escape / line continuation), double
  quotes, single quotes, comments (`#` at word start), the operators `>`, `N>`
  and `&`, the special parameter `$!`, assignment prefixes (`NAME=`).  Anything
  else (`;` `|` `(` `<` globs, `~`, backtick, `$x`, …) makes the model refuse
  (`none`): it only speaks about text it understands completely.
* `replaceGo`: Go's `strings.NewReplacer(old1,new1,…).Replace` (non-empty olds:
  at every position the FIRST pair, in argument order, whose old string is a
  prefix of the remaining text is applied; replacement text is not rescanned).
* `jobScript`: `RemoteJobManager.jobScript` of martian/core/jobmanager_remote.go
  (resource arithmetic for whole-number requests, the parameter table, the
  removal of lines whose parameter is empty, the replacer) — on the raw
  template text.
* `renderScript`: the same substitution on a template that is already cut
  into lines and segments (literal text / variable), which is the form the
  theorems speak about; both are compared with the real `jobScript` byte for
  byte on every run.

Core Lean only.
-/
import Martian.ShellQuote

namespace Martian.JobTemplate
open Martian.ShellQuote

/-! ## Shell line lexer -/

inductive Mode
  | normal   -- outside quotes
  | bs       -- just after an unquoted backslash
  | dq       -- inside "…"
  | dqbs     -- just after a backslash inside "…"
  | sq       -- inside '…'
  | comment  -- after `#` at word start, until newline
  | dollar   -- just after an unquoted `$`
  | gt       -- just after the operator `>` / `N>` (to refuse `>>`, `>&`, `>|`)
  | amp      -- just after the operator `&` (to refuse `&&`, `&>`)
  deriving DecidableEq, Repr

/-- what has been seen of the current word -/
inductive WS
  | none    -- no word begun
  | bare    -- only unquoted characters so far
  | quoted  -- at least one quoted part (`""` alone is a word)
  deriving DecidableEq, Repr

structure St where
  mode : Mode
  cur : Bytes
  ws : WS
  asg : Bool   -- the word has an unquoted `NAME=` prefix (assignment word shape)
  exp : Bool   -- the word contains `$!` (its value is not literal)
  deriving DecidableEq, Repr

inductive Tok
  | word (v : Bytes) (asg : Bool)
  | special (v : Bytes)
  | op (o : Bytes)
  | nl
  deriving DecidableEq, Repr

def clean : St := ⟨.normal, [], .none, false, false⟩

def isAlpha (b : UInt8) : Bool := (0x41 ≤ b && b ≤ 0x5A) || (0x61 ≤ b && b ≤ 0x7A) || b == 0x5F
def isDigit (b : UInt8) : Bool := 0x30 ≤ b && b ≤ 0x39
def isNameCh (b : UInt8) : Bool := isAlpha b || isDigit b

/-- a shell / environment variable name -/
def isName : Bytes → Bool
  | [] => false
  | b :: r => isAlpha b && r.all isNameCh

/-- other characters that are ordinary inside an unquoted word: `/ . - + : , @ %` -/
def isBareExtra (b : UInt8) : Bool :=
  b == 0x2F || b == 0x2E || b == 0x2D || b == 0x2B || b == 0x3A || b == 0x2C || b == 0x40 || b == 0x25

def flush (s : St) : List Tok :=
  match s.ws with
  | .none => []
  | _ => if s.exp then [.special s.cur] else [.word s.cur s.asg]

def bareWS : WS → WS
  | .none => .bare
  | w => w

def stepNormal (s : St) (b : UInt8) : Option (List Tok × St) :=
  if b == 0x20 || b == 0x09 then some (flush s, clean)
  else if b == 0x0A then some (flush s ++ [.nl], clean)
  else if b == 0x5C then some ([], { s with mode := .bs })
  else if b == 0x22 then some ([], { s with mode := .dq, ws := .quoted })
  else if b == 0x27 then some ([], { s with mode := .sq, ws := .quoted })
  else if b == 0x23 then
    (if s.ws == .none then some ([], { s with mode := .comment })
     else some ([], { s with mode := .normal, cur := s.cur ++ [b] }))
  else if b == 0x3E then
    (if s.ws == .bare && !s.asg && !s.exp && !s.cur.isEmpty && s.cur.all isDigit
     then some ([.op (s.cur ++ [b])], { clean with mode := .gt })
     else some (flush s ++ [.op [b]], { clean with mode := .gt }))
  else if b == 0x26 then some (flush s ++ [.op [b]], { clean with mode := .amp })
  else if b == 0x24 then some ([], { s with mode := .dollar })
  else if b == 0x3D then
    (if s.ws == .bare && !s.asg && isName s.cur
     then some ([], { s with mode := .normal, cur := s.cur ++ [b], asg := true })
     else some ([], { s with mode := .normal, cur := s.cur ++ [b], ws := bareWS s.ws }))
  else if isNameCh b || isBareExtra b then
    some ([], { s with mode := .normal, cur := s.cur ++ [b], ws := bareWS s.ws })
  else none

def step (s : St) (b : UInt8) : Option (List Tok × St) :=
  match s.mode with
  | .normal => stepNormal s b
  | .gt => if b == 0x3E || b == 0x26 || b == 0x7C then none else stepNormal { s with mode := .normal } b
  | .amp => if b == 0x3E || b == 0x26 then none else stepNormal { s with mode := .normal } b
  | .bs =>
    if b == 0x0A then some ([], { s with mode := .normal })
    else some ([], { s with mode := .normal, cur := s.cur ++ [b], ws := .quoted })
  | .dq =>
    if b == 0x22 then some ([], { s with mode := .normal })
    else if b == 0x5C then some ([], { s with mode := .dqbs })
    else if b == 0x24 || b == 0x60 then none
    else some ([], { s with cur := s.cur ++ [b] })
  | .dqbs =>
    if dqSpecial b then some ([], { s with mode := .dq, cur := s.cur ++ [b] })
    else if b == 0x0A then some ([], { s with mode := .dq })
    else some ([], { s with mode := .dq, cur := s.cur ++ [0x5C, b] })
  | .sq =>
    if b == 0x27 then some ([], { s with mode := .normal })
    else some ([], { s with cur := s.cur ++ [b] })
  | .comment =>
    if b == 0x0A then some ([.nl], clean) else some ([], s)
  | .dollar =>
    if b == 0x21 then
      some ([], { s with mode := .normal, cur := s.cur ++ [0x24, b], ws := bareWS s.ws, exp := true })
    else none

/-- run the lexer over a text from a state: the tokens completed so far and the state reached -/
def run (s : St) : Bytes → Option (List Tok × St)
  | [] => some ([], s)
  | b :: r =>
    match step s b with
    | none => none
    | some (t1, s1) =>
      match run s1 r with
      | none => none
      | some (t2, s2) => some (t1 ++ t2, s2)

/-- end of input: a pending word is complete; an open quote / backslash is refused -/
def finish (s : St) : Option (List Tok) :=
  match s.mode with
  | .normal | .gt | .amp | .comment => some (flush s)
  | _ => none

/-- the tokens of a complete script text -/
def shToks (inp : Bytes) : Option (List Tok) :=
  match run clean inp with
  | none => none
  | some (t, s) =>
    match finish s with
    | none => none
    | some t' => some (t ++ t')

/-! ## `strings.NewReplacer` (generic algorithm, non-empty old strings) -/

def lookupOld (pairs : List (Bytes × Bytes)) (s : Bytes) : Option (Bytes × Bytes) :=
  pairs.find? fun p => p.1.isPrefixOf s

/-- `skip` = bytes of an already replaced old string still to be passed over -/
def replaceGo (pairs : List (Bytes × Bytes)) : Nat → Bytes → Bytes
  | _, [] => []
  | k + 1, _ :: r => replaceGo pairs k r
  | 0, b :: r =>
    match lookupOld pairs (b :: r) with
    | some (old, new) => new ++ replaceGo pairs (old.length - 1) r
    | none => b :: replaceGo pairs 0 r

/-- `strings.Contains` -/
def containsB : Bytes → Bytes → Bool
  | [], pat => pat.isEmpty
  | b :: r, pat => pat.isPrefixOf (b :: r) || containsB r pat

/-- `strings.Split(s, "\n")` -/
def splitNl : Bytes → List Bytes
  | [] => [[]]
  | b :: r =>
    if b == 0x0A then [] :: splitNl r
    else match splitNl r with
      | [] => [[b]]
      | l :: ls => (b :: l) :: ls

/-- `strings.Replace(s, old, new, 1)` for a non-empty `old` -/
def replaceFirst (old new : Bytes) : Bytes → Bytes
  | [] => []
  | b :: r =>
    if old.isPrefixOf (b :: r) then new ++ (b :: r).drop old.length
    else b :: replaceFirst old new r

/-! ## `jobScript` -/

def digitByte (n : Nat) : UInt8 := 0x30 + (n % 10).toUInt8

/-- `strconv.Itoa` of a non-negative number (fuel = n + 1 is always enough) -/
def natDigitsAux : Nat → Nat → Bytes → Bytes
  | 0, _, acc => acc
  | f + 1, n, acc =>
    if n / 10 == 0 then digitByte n :: acc else natDigitsAux f (n / 10) (digitByte n :: acc)

def natDigits (n : Nat) : Bytes := natDigitsAux (n + 1) n []

def ceilDiv (a b : Nat) : Nat := if b == 0 then 0 else (a + b - 1) / b

/-- inputs of `jobScript`, resources as whole numbers -/
structure JobIn where
  tmpl : Bytes
  fqname : Bytes
  shellName : Bytes
  stdout : Bytes      -- metadata.MetadataFilePath("stdout")
  stderr : Bytes
  workdir : Bytes     -- metadata.curFilesPath
  threadEnvs : List Bytes
  envs : List (Bytes × Bytes)
  cmd : Bytes
  argv : List Bytes
  threads : Nat       -- request; 0 = default
  memGB : Nat         -- request; 0 = default
  vmemGB : Nat        -- request; 0 = mem + extra
  threadsPerJob : Nat
  memGBPerJob : Nat
  extraVmemGB : Nat
  memGBPerCore : Nat
  alwaysVmem : Bool
  account : Bytes     -- $MRO_ACCOUNT
  special : Bytes     -- res.Special
  mappings : List (Bytes × Bytes)  -- jobResourcesMappings
  resOpt : Bytes      -- config.jobResourcesOpt

def threadsKey : Bytes :=   -- `__MRO_THREADS__`
  [0x5F, 0x5F, 0x4D, 0x52, 0x4F, 0x5F, 0x54, 0x48, 0x52, 0x45, 0x41, 0x44, 0x53, 0x5F, 0x5F]

/-- `GetSystemReqs` followed by the arithmetic at the head
of `jobScript`: (threads, memGB, vmemGB, memGBPerThread, vmemGBPerThread) -/
def resources (j : JobIn) : Nat × Nat × Nat × Nat × Nat :=
  let t0 := if j.threads == 0 then j.threadsPerJob else j.threads
  let m := if j.memGB == 0 then j.memGBPerJob else j.memGB
  let v := if j.vmemGB < 1 then m + j.extraVmemGB else j.vmemGB
  let t1 := if j.memGBPerCore > 0 && m > t0 * j.memGBPerCore then ceilDiv m j.memGBPerCore else t0
  -- verifyJobManager: threading is enabled iff the template mentions __MRO_THREADS__
  let t := if containsB j.tmpl threadsKey then t1 else 1
  let vpt := max j.memGBPerCore (ceilDiv v t)
  if j.alwaysVmem && v > m then (t, v, v, vpt, vpt)
  else (t, m, v, max j.memGBPerCore (ceilDiv m t), vpt)

/-- `threadEnvs`: every thread variable gets the thread count, the job's own
environment overrides it (a Go map: keys distinct) -/
def mergeEnvs (names : List Bytes) (thr : Bytes) (envs : List (Bytes × Bytes)) : List (Bytes × Bytes) :=
  ((names.eraseDups.filter fun n => !(envs.any fun kv => kv.1 == n)).map fun n => (n, thr)) ++ envs

def resKey : Bytes := [0x5F, 0x5F, 0x52, 0x45, 0x53, 0x4F, 0x55, 0x52, 0x43, 0x45, 0x53, 0x5F, 0x5F]   -- `__RESOURCES__`

def mappedResources (j : JobIn) : Bytes :=
  if j.special.isEmpty then [] else
  match j.mappings.lookup j.special with
  | some r => replaceFirst resKey r j.resOpt
  | none => []

inductive Kind | raw | int | quoted | cmd
  deriving DecidableEq, Repr

def Kind.name : Kind → String
  | .raw => "raw" | .int => "int" | .quoted => "quoted" | .cmd => "cmd"

def bytesOf (s : String) : Bytes := s.toUTF8.toList

/-- the parameter table of `jobScript`, in source order: name, kind, value -/
def params (tbl : EscTable) (j : JobIn) : List (String × Kind × Bytes) :=
  let t := (resources j).1
  let m := (resources j).2.1
  let v := (resources j).2.2.1
  let mpt := (resources j).2.2.2.1
  let vpt := (resources j).2.2.2.2
  let n (x : Nat) := natDigits x
  [ ("JOB_NAME", .raw, j.fqname ++ [0x2E] ++ j.shellName),
    ("THREADS", .int, n t),
    ("STDOUT", .quoted, quote tbl j.stdout),
    ("STDERR", .quoted, quote tbl j.stderr),
    ("JOB_WORKDIR", .quoted, quote tbl j.workdir),
    ("CMD", .cmd, formatArgs tbl (mergeEnvs j.threadEnvs (n t) j.envs) j.cmd j.argv),
    ("MEM_GB", .int, n m),
    ("MEM_MB", .int, n (m * 1024)),
    ("MEM_KB", .int, n (m * 1024 * 1024)),
    ("MEM_B", .int, n (m * 1024 * 1024 * 1024)),
    ("MEM_GB_PER_THREAD", .int, n mpt),
    ("MEM_MB_PER_THREAD", .int, n (mpt * 1024)),
    ("MEM_KB_PER_THREAD", .int, n (mpt * 1024 * 1024)),
    ("MEM_B_PER_THREAD", .int, n (mpt * 1024 * 1024 * 1024)),
    ("VMEM_GB", .int, n v),
    ("VMEM_MB", .int, n (v * 1024)),
    ("VMEM_KB", .int, n (v * 1024 * 1024)),
    ("VMEM_B", .int, n (v * 1024 * 1024 * 1024)),
    ("VMEM_GB_PER_THREAD", .int, n vpt),
    ("VMEM_MB_PER_THREAD", .int, n (vpt * 1024)),
    ("VMEM_KB_PER_THREAD", .int, n (vpt * 1024 * 1024)),
    ("VMEM_B_PER_THREAD", .int, n (vpt * 1024 * 1024 * 1024)),
    ("ACCOUNT", .raw, j.account),
    ("RESOURCES", .raw, mappedResources j) ]

/-- names and kinds only (compared with the regenerated `Gen.jobScriptParams`) -/
def paramSpec : List (String × String) :=
  (params [] { tmpl := [], fqname := [], shellName := [], stdout := [], stderr := [], workdir := [],
               threadEnvs := [], envs := [], cmd := [], argv := [], threads := 1, memGB := 1, vmemGB := 1,
               threadsPerJob := 1, memGBPerJob := 1, extraVmemGB := 0, memGBPerCore := 0,
               alwaysVmem := false, account := [], special := [], mappings := [], resOpt := [] }).map
    fun p => (p.1, p.2.1.name)

def varKey (name : String) : Bytes := bytesOf ("__MRO_" ++ name ++ "__")

/-- the old/new argument list handed to `strings.NewReplacer` -/
def replArgs (tmpl : Bytes) (ps : List (Bytes × Bytes)) : List (Bytes × Bytes) :=
  ps.flatMap fun (k, v) =>
    if !v.isEmpty then [(k, v)]
    else if containsB tmpl k then ((splitNl tmpl).filter fun l => containsB l k).map fun l => (l, [])
    else []

def jobScript (tbl : EscTable) (j : JobIn) : Bytes :=
  replaceGo (replArgs j.tmpl ((params tbl j).map fun p => (varKey p.1, p.2.2))) 0 j.tmpl

/-! ## Templates cut into lines and segments -/

/-- a segment: `("", text)` = literal text, `(name, _)` = the variable `__MRO_name__` -/
abbrev Seg := String × Bytes
abbrev SegLine := List Seg

def segIsVar (s : Seg) : Bool := s.1 != ""

/-- the template text a segment list stands for -/
def segText (l : SegLine) : Bytes :=
  (l.map fun s => if segIsVar s then varKey s.1 else s.2).flatten

def joinNl : List Bytes → Bytes
  | [] => []
  | [l] => l
  | l :: ls => l ++ 0x0A :: joinNl ls

def templateText (ls : List SegLine) : Bytes := joinNl (ls.map segText)

/-- one line after substitution: a line holding a variable whose value is empty
is removed (its text becomes empty, the newline stays) -/
def renderLine (vals : String → Bytes) (l : SegLine) : Bytes :=
  if l.any (fun s => segIsVar s && (vals s.1).isEmpty) then []
  else (l.map fun s => if segIsVar s then vals s.1 else s.2).flatten

def renderScript (vals : String → Bytes) (ls : List SegLine) : Bytes :=
  joinNl (ls.map (renderLine vals))

def valsOf (ps : List (String × Kind × Bytes)) (name : String) : Bytes :=
  match ps.find? fun p => p.1 == name with
  | some p => p.2.2
  | none => varKey name   -- not a parameter: the text stays


/-! ## What a shell must see (the right-hand side of the theorems) -/

/-- shapes of template lines; `other` = a line the theorems do not cover -/
inductive Shape
  | inert       -- empty line, or a line whose first byte is `#` and which does not hold __MRO_CMD__:
                -- a comment whatever the values are, as long as they contain no newline
  | cmdAlone    -- `__MRO_CMD__`
  | resources   -- `__MRO_RESOURCES__` (a scheduler directive, i.e. a comment, or nothing)
  | cdWorkdir   -- `cd __MRO_JOB_WORKDIR__`
  | envCmdBg    -- `/usr/bin/env __MRO_CMD__ > __MRO_STDOUT__ 2> __MRO_STDERR__ & echo $!`
  | other
  deriving DecidableEq, Repr


def bEnv : Bytes := [0x2F, 0x75, 0x73, 0x72, 0x2F, 0x62, 0x69, 0x6E, 0x2F, 0x65, 0x6E, 0x76]   -- `/usr/bin/env`
def bEcho : Bytes := [0x65, 0x63, 0x68, 0x6F]   -- `echo`
def bCd : Bytes := [0x63, 0x64]   -- `cd`

def shapeCd : SegLine := [("", [0x63, 0x64, 0x20]), ("JOB_WORKDIR", [])]   -- `cd `
def shapeEnv : SegLine :=
  [("", bEnv ++ [0x20]), ("CMD", []), ("", [0x20, 0x3E, 0x20]), ("STDOUT", []), ("", [0x20, 0x32, 0x3E, 0x20]),
   ("STDERR", []), ("", [0x20, 0x26, 0x20] ++ bEcho ++ [0x20, 0x24, 0x21])]

def shapeOf (l : SegLine) : Shape :=
  match l with
  | [] => .inert
  | ("", 0x23 :: _) :: _ => if l.any (fun s => s.1 == "CMD") then .other else .inert
  | _ =>
    if l = [("CMD", [])] then .cmdAlone
    else if l = [("RESOURCES", [])] then .resources
    else if l = shapeCd then .cdWorkdir
    else if l = shapeEnv then .envCmdBg
    else .other

/-- a template line the theorems cover: known shape, literal text without newline, variables
that are parameters of `jobScript` -/
def lineOK (l : SegLine) : Bool :=
  shapeOf l != .other &&
    l.all fun s => if segIsVar s then paramSpec.any (fun p => p.1 == s.1) else !s.2.contains 0x0A

/-- the strings mrp was given -/
structure Given where
  envs : List (Bytes × Bytes)   -- in the order of the rendered assignments (`sortEnvs`)
  cmd : Bytes
  argv : List Bytes
  stdout : Bytes
  stderr : Bytes
  workdir : Bytes

def w (s : Bytes) : Tok := .word s false

def cmdWords (g : Given) : List Tok :=
  g.envs.map (fun kv => Tok.word (assignWord kv) true) ++ w g.cmd :: g.argv.map w

def lineToks (g : Given) : Shape → List Tok
  | .inert | .resources | .other => []
  | .cmdAlone => cmdWords g
  | .cdWorkdir => [w bCd, w g.workdir]
  | .envCmdBg =>
    w bEnv :: cmdWords g ++
      [.op [0x3E], w g.stdout, .op [0x32, 0x3E], w g.stderr, .op [0x26], w bEcho, .special [0x24, 0x21]]

/-- token lists of lines, separated by newline tokens -/
def joinToks : List (List Tok) → List Tok
  | [] => []
  | [t] => t
  | t :: ts => t ++ Tok.nl :: joinToks ts

/-- tokens of the whole script: the lines' tokens separated by newline tokens -/
def expectedToks (g : Given) (ls : List SegLine) : List Tok :=
  joinToks (ls.map fun l => lineToks g (shapeOf l))

def givenOf (tbl : EscTable) (j : JobIn) : Given :=
  { envs := sortEnvs tbl (mergeEnvs j.threadEnvs (natDigits (resources j).1) j.envs),
    cmd := j.cmd, argv := j.argv, stdout := j.stdout, stderr := j.stderr, workdir := j.workdir }

end Martian.JobTemplate
