/-
Model of Martian's volatile data removal (martian/core/storage.go, the
fileArgs / filePostNodes bookkeeping of node.go / stage.go).

One producer fork is modelled: the arguments (outputs) that may name files,
who still holds each of them (`none` = the top-level pipeline or a retain
declaration, `some n` = consumer node `n`), the file -> arguments cache, the
entries on disk below the fork's files/ and tmp/ directories, and the kill
report.  Events are the things the runtime does to that state, in any order:
a consumer node completes, `removeEmptyFileArgs`, `cacheParamFileMap`, an
early `partialVdrKill` (temp directories only) and a `partialVdrKill` in state
complete (which is also what the final `Pipestance.VDRKill` runs).

Core Lean only; everything is executable (the driver runs it).
-/
namespace Martian.Vdr

abbrev Path := List Char

/-! ### pure path logic -/

/-- `pathIsInside` on clean paths (the Go code cleans both first). -/
def pathIsInside (test parent : Path) : Bool :=
  test == parent || (parent.length < test.length && (parent ++ ['/']).isPrefixOf test)

/-- the directory-prefix test of `anyOverlap` for one (name, file) pair,
with the length guards of the Go code -/
def overlapDir (name file : Path) : Bool :=
  if name.length > file.length + 1 then (file ++ ['/']).isPrefixOf name
  else if name.length + 1 < file.length then (name ++ ['/']).isPrefixOf file
  else false

/-- `anyOverlap`: exact match first, then directory prefixes either way. -/
def anyOverlap (names files : List Path) : Bool :=
  if files.isEmpty || names.isEmpty then false
  else if names.any (fun n => files.contains n) then true
  else names.any (fun n => files.any (fun f => overlapDir n f))

/-- what `anyOverlap` is meant to detect: equal, ancestor or descendant -/
def Related (n f : Path) : Prop := n = f ∨ (f ++ ['/']) <+: n ∨ (n ++ ['/']) <+: f

/-- a path that does not end in a separator -/
def NoTrailingSlash (p : Path) : Prop := ∀ q, p ≠ q ++ ['/']

/-! ### bookkeeping -/

abbrev Arg := String
abbrev Node := String
abbrev Holder := Option Node

inductive Kind
  | tmp (phase : Nat)   -- below a job's tmp/ directory: 0 split, 1 chunks, 2 join
  | out                 -- below a files/ directory, not chunk-level
  | chunk               -- below a chunk's files/ directory of a splitting stage
  deriving DecidableEq, Repr

structure DiskEnt where
  path : Path
  size : Nat
  kind : Kind
  /-- for a symbolic link: its other logical names (`getLogicalFileNames`: where it points) -/
  alts : List Path := []
  /-- the content of a regular file (a hash of it); nothing in the event language changes it -/
  hash : Nat := 0
  deriving DecidableEq, Repr

/-- one entry of `fileParamMap` (with its key) -/
structure Entry where
  path : Path
  args : List Arg
  size : Nat
  count : Nat
  /-- the logical names the arguments were matched against (ghost: not stored by the code) -/
  names : List Path := []
  deriving DecidableEq, Repr

structure Report where
  paths : List Path := []
  count : Nat := 0
  size : Nat := 0
  deltas : List Int := []
  deriving DecidableEq, Repr

/-- static facts about the fork -/
structure Cfg where
  volatile : Bool            -- Fork.isVolatile
  strict : Bool              -- Fork.isStrictVolatile
  splits : Bool              -- Fork.Split
  argNames : List (Arg × List Path)   -- getMaybeFileNames of the argument's value
  argFiles : List (Arg × List Path)   -- the logical names of those that exist
  /-- the tables the construction gives every fork of the node (what a restarted mrp rebuilds) -/
  initArgs : List (Arg × List Holder) := []
  initPost : List (Node × List Arg) := []

def Cfg.namesOf (c : Cfg) (a : Arg) : List Path := (c.argNames.lookup a).getD []
def Cfg.filesOf (c : Cfg) (a : Arg) : List Path := (c.argFiles.lookup a).getD []

/-- the argument references the path (equal, ancestor or descendant) -/
def refs (c : Cfg) (a : Arg) (p : Path) : Bool := anyOverlap [p] (c.filesOf a)

/-- the argument references one of the logical names of a walked entry -/
def refsN (c : Cfg) (a : Arg) (names : List Path) : Bool := anyOverlap names (c.filesOf a)

structure St where
  fileArgs : List (Arg × List Holder)
  postNodes : List (Node × List Arg)
  cache : Option (List Entry) := none
  disk : List DiskEnt
  removed : List DiskEnt := []
  report : Report := {}
  ran : List Nat := []          -- temp phases already cleaned (ran_split / ran_chunks / ran_join)
  final : Bool := false         -- _vdrkill written
  doneNodes : List Node := []   -- consumer nodes that are complete or disabled
  deriving Repr

def St.dom (s : St) : List Arg := s.fileArgs.map (·.1)

/-- `Fork.removeFileArg` -/
def removeFileArg (s : St) (a : Arg) : St :=
  match s.fileArgs.lookup a with
  | none => s
  | some hs =>
    { s with
      fileArgs := s.fileArgs.filter (fun p => p.1 != a)
      postNodes := s.postNodes.filterMap fun p =>
        if hs.contains (some p.1) then
          (let as' := p.2.filter (· != a); if as'.isEmpty then none else some (p.1, as'))
        else some p }

/-- `Fork.removeFilePostNodes` for one node -/
def removePostNode (s : St) (n : Node) : St :=
  match s.postNodes.lookup n with
  | none => s
  | some as =>
    { s with
      postNodes := s.postNodes.filter (fun p => p.1 != n)
      fileArgs := s.fileArgs.filterMap fun p =>
        if as.contains p.1 then
          (let hs' := p.2.filter (· != some n); if hs'.isEmpty then none else some (p.1, hs'))
        else some p }

def removePostNodes (s : St) (ns : List Node) : St := ns.foldl removePostNode s

/-- `Fork.removeEmptyFileArgs` -/
def removeEmpty (c : Cfg) (s : St) : St :=
  s.dom.foldl (fun s a => if (c.namesOf a).isEmpty then removeFileArg s a else s) s

def isTmp : Kind → Bool
  | .tmp _ => true
  | _ => false

/-- `cacheParamFileMap`, first loop: arguments whose names refer to no existing file are dropped -/
def dropNoFiles (c : Cfg) (s : St) : St :=
  s.dom.foldl (fun s a => if (c.filesOf a).isEmpty then removeFileArg s a else s) s

/-- `cacheParamFileMap`, the walk: one entry per file or directory below the
files/ directories, with the arguments (that have files) referring to it -/
def cacheEntries (c : Cfg) (s : St) : List Entry :=
  (s.disk.filter (fun d => !isTmp d.kind)).map fun d =>
    { path := d.path
      args := (s.dom.filter fun a => !(c.filesOf a).isEmpty).filter (fun a => refsN c a (d.path :: d.alts))
      size := d.size, count := 1, names := d.path :: d.alts }

/-- `cacheParamFileMap`, last loop: arguments no entry refers to are dropped -/
def dropUnused (es : List Entry) (s : St) : St :=
  s.dom.foldl (fun s a => if !(es.any (fun e => e.args.contains a)) then removeFileArg s a else s) s

/-- `Fork.cacheParamFileMap` -/
def cacheMap (c : Cfg) (s : St) : St :=
  { dropUnused (cacheEntries c s) (dropNoFiles c s) with cache := some (cacheEntries c s) }

/-- `Fork.updateParamFileCache` -/
def updateCache (s : St) (es : List Entry) : List Entry :=
  es.map fun e => { e with args := e.args.filter (fun a => s.dom.contains a) }

def pathLe (a b : Path) : Bool := !(decide (b < a))

/-- collapse a sorted list of kill paths: drop those inside the previously kept one -/
def collapse : List Path → List Path → List Path
  | acc, [] => acc.reverse
  | [], p :: r => collapse [p] r
  | k :: acc, p :: r => if pathIsInside p k then collapse (k :: acc) r else collapse (p :: k :: acc) r

def sumSize (l : List DiskEnt) : Nat := (l.map (·.size)).sum
def sumESize (l : List Entry) : Nat := (l.map (·.size)).sum
def sumECount (l : List Entry) : Nat := (l.map (·.count)).sum

/-- the paths of `l` that are not inside another path of `l` (the directory
entries the Go code enumerates before walking below them) -/
def topLevel (l : List Path) : List Path :=
  l.filter fun p => !(l.any fun q => q != p && pathIsInside p q)

/-- the first lines of `vdrKillSome`: build the cache or bring it up to date -/
def normCache (c : Cfg) (s : St) : St :=
  match s.cache with
  | none => cacheMap c s
  | some es => { s with cache := some (updateCache s es) }

/-- the removal itself: every cache entry that no argument keeps alive -/
def killCore (s : St) (es : List Entry) : St :=
  let kill := es.filter (fun e => e.args.isEmpty)
  let killPaths := kill.map (·.path)
  { s with
    disk := s.disk.filter fun d => !(killPaths.any (fun k => pathIsInside d.path k))
    removed := s.removed ++ s.disk.filter fun d => killPaths.any (fun k => pathIsInside d.path k)
    cache := some (es.filter (fun e => !e.args.isEmpty))
    report := { paths := s.report.paths ++ collapse [] (killPaths.mergeSort pathLe)
                count := s.report.count + sumECount kill
                size := s.report.size + sumESize kill
                deltas := s.report.deltas ++ [-(Int.ofNat (sumESize kill))] } }

/-- `Fork.vdrKillSome` -/
def vdrKillSome (c : Cfg) (s : St) (done : Bool) : St :=
  let s := normCache c s
  let es := s.cache.getD []
  if (es.filter (fun e => e.args.isEmpty)).isEmpty then
    (if done then { s with final := true } else s)
  else
    let s' := killCore s es
    if (es.filter (fun e => !e.args.isEmpty)).isEmpty || done || s.postNodes.isEmpty
    then { s' with final := true } else s'

/-- `cleanSplitTemp` / `cleanChunkTemp` / `cleanJoinTemp` for the phases below `upto` -/
def cleanTmp (c : Cfg) (s : St) (upto : Nat) : St :=
  (List.range upto).foldl (fun s ph =>
    if s.ran.contains ph || (ph == 0 && !c.splits) then s else
    let gone := s.disk.filter (fun d => d.kind == .tmp ph)
    { s with
      disk := s.disk.filter (fun d => !(d.kind == .tmp ph))
      removed := s.removed ++ gone
      ran := ph :: s.ran
      report := { paths := if sumSize gone = 0 then s.report.paths
                           else s.report.paths ++ topLevel (gone.map (·.path))
                  count := s.report.count + gone.length
                  size := s.report.size + sumSize gone
                  deltas := if sumSize gone = 0 then s.report.deltas
                            else s.report.deltas ++ [-(Int.ofNat (sumSize gone))] } }) s

/-- `Fork.vdrKill` -/
def vdrKill (c : Cfg) (s : St) : St :=
  if s.final then s
  else if c.volatile then vdrKillSome c s true
  else
    let gone := if c.splits then s.disk.filter (fun d => d.kind == .chunk) else []
    { s with
      disk := s.disk.filter (fun d => !(c.splits && d.kind == .chunk))
      removed := s.removed ++ gone
      final := true
      report := { paths := s.report.paths ++ topLevel (gone.map (·.path))
                  count := s.report.count + gone.length
                  size := s.report.size + sumSize gone
                  deltas := if sumSize gone = 0 then s.report.deltas
                            else s.report.deltas ++ [-(Int.ofNat (sumSize gone))] } }

/-- `Fork.partialVdrKill` with the fork in state complete -/
def kill (c : Cfg) (s : St) : St :=
  if s.final then s else
  let s := cleanTmp c s 3
  let s := removePostNodes s ((s.postNodes.map (·.1)).filter (fun n => s.doneNodes.contains n))
  if s.postNodes.isEmpty then
    (if c.strict then vdrKillSome c s true else vdrKill c s)
  else if c.strict then vdrKillSome c s false
  else s

inductive Ev
  | nodeDone (n : Node)     -- a consumer node completes or is found disabled
  | nodeFailed (n : Node)   -- a consumer node fails: it is NOT done (it may be reset and run again)
  | nodeReset (n : Node)    -- a failed consumer node is reset for a retry (automatic retry, restart)
  | restart                 -- mrp dies / is stopped and is started again: the pipestance is rebuilt
                            -- (NewPipestance: fileArgs / filePostNodes as constructed), the file -> arguments
                            -- cache is gone; what is on disk stays: files, _vdrkill(.partial) (report,
                            -- ran_* flags, final), the completion of the nodes
  | removeEmpty
  | cacheMap
  | early (upto : Nat)   -- partialVdrKill before the fork is complete: temp directories only (split; chunks;
                         -- in state join_complete — post mode — the join's too)
  | kill
  deriving Repr

def step (c : Cfg) (s : St) : Ev → St
  | .nodeDone n => { s with doneNodes := n :: s.doneNodes }
  | .nodeFailed _ => s
  | .nodeReset _ => s
  | .restart => { s with fileArgs := c.initArgs, postNodes := c.initPost, cache := none }
  | .removeEmpty => removeEmpty c s
  | .cacheMap => cacheMap c s
  | .early upto => if s.final then s else cleanTmp c s (min upto 3)
  | .kill => kill c s

def run (c : Cfg) (s : St) (evs : List Ev) : St := evs.foldl (step c) s

/-! ### report accounting -/

structure VEvent where
  ts : Nat        -- nanoseconds
  delta : Int
  deriving DecidableEq, Repr

def insertEv (e : VEvent) : List VEvent → List VEvent
  | [] => [e]
  | x :: r => if e.ts < x.ts then e :: x :: r else x :: insertEv e r

def sortEvs (l : List VEvent) : List VEvent := l.foldr insertEv []

def second (ts : Nat) : Nat := ts / 1000000000

/-- the fold of `VDRKillReport.mergeEvents` (result kept reversed) -/
def mergeStep (acc : List VEvent) (e : VEvent) : List VEvent :=
  match acc with
  | [] => [e]
  | l :: r =>
    if second l.ts != second e.ts || (decide (e.delta < 0)) != (decide (l.delta < 0)) then e :: l :: r
    else { l with delta := l.delta + e.delta } :: r

/-- `VDRKillReport.mergeEvents` -/
def mergeEvents (l : List VEvent) : List VEvent := ((sortEvs l).foldl mergeStep []).reverse

structure KReport where
  stamp : Nat := 0
  paths : List Path := []
  errors : List String := []
  events : List VEvent := []
  count : Nat := 0
  size : Nat := 0
  deriving DecidableEq, Repr

/-- one step of the loop of `mergeVDRKillReports` (`none` = a nil entry) -/
def mergeAcc (acc : KReport) (r : Option KReport) : KReport :=
  match r with
  | none => acc
  | some r => { stamp := if acc.stamp == 0 || acc.stamp < r.stamp then r.stamp else acc.stamp
                paths := acc.paths ++ r.paths
                errors := acc.errors ++ r.errors
                events := acc.events ++ r.events
                count := acc.count + r.count
                size := acc.size + r.size }

/-- `mergeVDRKillReports` -/
def mergeReports (rs : List (Option KReport)) : KReport :=
  let all := rs.foldl mergeAcc {}
  { all with events := mergeEvents all.events }

end Martian.Vdr
