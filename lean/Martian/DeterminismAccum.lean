/-
C10 model, second part: loops that walk a Go map and accumulate one contribution
per entry WITHOUT first collecting and sorting only keys - the shape of
`invertSplit`, `wrapDisabled`, the static map branch of `MergeExp.BindingPath`,
`CallGraphStage.unsplit`, `CallGraphPipeline.unsplit` (martian/syntax) and
`Node.resolveInputs`, `TopNode.resolveMap`, `convertToExp` (martian/core):

    done := true; change := false; var errs ErrorList; m := make(map…)
    for k, v := range theMap {            // since the fixes: range sortedKeys
        d, e, err := perEntry(k, v)
        if err != nil { errs = append(errs, err) }
        done = done && d
        m[k] = e
        change = change || (e != v)
    }
    return done, change, m, errs.If()

A Go map is an association list with distinct keys in ARBITRARY order.  What an
entry contributes (`EntryRes`) is computed from that entry alone; the loop body
is `step`.  `accumulateIn` is the loop run over the entries in the order given
(the code before the fixes); `accumulate` is the loop as the code is now (over
the sorted keys).  The general building blocks are
  * `insertKV` / `buildMap` - "insert g(k,v) per entry into a fresh map";
  * a fold with a right-commutative step (`&&`, `||`, counts, set inserts);
  * `firstFailure`           - "return at the first failing entry" (`convertToExp`).

Core Lean only.
-/
import Martian.Determinism

namespace Martian.Determinism
open Martian.SortKeys

/-- Go `m[k] = v` on the association-list model: overwrite in place or append -/
def insertKV {V : Type} : List (Key × V) → Key → V → List (Key × V)
  | [], k, v => [(k, v)]
  | (k', v') :: r, k, v => if k == k' then (k, v) :: r else (k', v') :: insertKV r k v

/-- `res := make(map…); for k, v := range m { res[k] = g(k, v) }`, in the order given -/
def buildMap {V W : Type} (g : Key → V → W) (l : List (Key × V)) : List (Key × W) :=
  l.foldl (fun m p => insertKV m p.1 (g p.1 p.2)) []

/-- what one entry contributes to the accumulating loops (computed from the entry alone) -/
structure EntryRes where
  /-- folded with `&&` (`done`, `allReady`) -/
  done : Bool
  /-- folded with `||` (`change`) -/
  changed : Bool
  /-- the error appended for this entry, if any -/
  err : Option Bytes
  /-- the value stored under the entry's key in the result map -/
  val : Bytes
  deriving DecidableEq, Repr

/-- the state of the accumulating loop -/
structure Accum where
  done : Bool
  changed : Bool
  /-- the `ErrorList`, in append order (this is the order of the reported text) -/
  errs : List Bytes
  /-- the result map -/
  vals : List (Key × Bytes)
  deriving DecidableEq, Repr

def Accum.init : Accum := { done := true, changed := false, errs := [], vals := [] }

/-- the loop body -/
def Accum.step (a : Accum) (p : Key × EntryRes) : Accum :=
  { done := a.done && p.2.done
    changed := a.changed || p.2.changed
    errs := match p.2.err with
      | some e => a.errs ++ [e]
      | none => a.errs
    vals := insertKV a.vals p.1 p.2.val }

/-- the loop over the entries in the order given (a `range` over the Go map itself) -/
def accumulateIn (l : List (Key × EntryRes)) : Accum := l.foldl Accum.step Accum.init

/-- the loop as the code is since the fixes: over the sorted keys -/
def accumulate (l : List (Key × EntryRes)) : Accum := foldSorted Accum.step Accum.init l

/-- `ErrorList.Error()` (errors.go): every message is preceded by `\n\t` when
there are two or more; `ErrorList.If()` returns a single error unwrapped. -/
def errorListText : List Bytes → Bytes
  | [] => []
  | [e] => e
  | es => es.flatMap fun e => [10, 9] ++ e

/-- "return at the first entry that fails" over the sorted keys (`convertToExp`
since its fix): the entries converted before the failure, and the failure -/
def firstFailureIn {W E : Type} (conv : Key → W → Except E Bytes) :
    List (Key × W) → List (Key × Bytes) × Option E
  | [] => ([], none)
  | (k, w) :: r =>
    match conv k w with
    | .error e => ([], some e)
    | .ok b => let (vs, e) := firstFailureIn conv r; ((k, b) :: vs, e)

def firstFailure {W E : Type} (conv : Key → W → Except E Bytes) (l : List (Key × W)) :
    List (Key × Bytes) × Option E :=
  firstFailureIn conv (sortK l)

end Martian.Determinism
