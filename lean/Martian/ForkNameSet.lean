/-
C11 model, part 3: the fork set of ONE node as `ForkIdSet.MakeForkIds` builds
it for statically sized sources (martian/core/fork.go: makeForkIdParts + the
cartesian product loop of MakeForkIds; the first source varies fastest).

  static array source of length n     -> parts  arr 0 n … arr (n-1) n   (none when n = 0: the node has no fork)
  static map source with keys ks      -> parts  key k ks, k in sorted order (the caller passes ks sorted)
  source of unknown length            -> the single part `undet`

Run-time sized sources are expanded later by `expandStaticForks` (dependent
shapes); they are outside this function — `forkName_distinct_after_divergence`
covers those.  Core Lean only.
-/
import Martian.ForkName

namespace Martian.ForkName

inductive Src where
  | arr (len : Nat)
  | keys (ks : List Bytes)
  | undet
  deriving Repr, DecidableEq

/-- `makeForkIdParts` -/
def srcParts : Src → List Part
  | .arr len => (List.range len).map fun i => .arr i len true
  | .keys ks => ks.map fun k => .key k ks true
  | .undet => [.undet]

/-- `ForkIdSet.MakeForkIds`: the cartesian product, first source fastest. -/
def makeForkIds : List Src → List (List Part)
  | [] => [[]]
  | s :: rest => (makeForkIds rest).flatMap fun tail => (srcParts s).map (· :: tail)

end Martian.ForkName
