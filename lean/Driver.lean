import Driver.Main
