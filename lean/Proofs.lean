import Proofs.ShellQuote
