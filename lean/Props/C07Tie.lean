/-
C07 / C17 tie: `syntax.IsLegalUnixFilename` TRANSLATED from
martian/syntax/compile_params.go on every run (`Gen.tr_IsLegalUnixFilename`,
error ↦ `Option String`, the `for _, c := range name` loop as a left fold with
early return, read byte-wise) accepts exactly the names the type model's
`legalName` accepts – the rule for the keys of directory-like typed maps.
-/
import Martian.Types
import Gen.Facts
import Proofs.TieDefs

namespace Props.C07
open Martian.Types Proofs.Tie

/-- for ALL byte strings: the translated Go function returns `nil` exactly when
the model's `legalName` holds -/
theorem tr_IsLegalUnixFilename_eq_model (name : List UInt8) :
    (Gen.tr_IsLegalUnixFilename name).isNone = legalName name := by
  simp only [Gen.tr_IsLegalUnixFilename, legalName]
  by_cases h1 : name.length ≤ 255
  · have hc1 : decide ((Int.ofNat name.length) > (255 : Int)) = false := by
      simp only [decide_eq_false_iff_not, Int.ofNat_eq_natCast]; omega
    by_cases h2 : name = []
    · simp [h2]
    by_cases h3 : name = [0x2E]
    · simp [h3]
    by_cases h4 : name = [0x2E, 0x2E]
    · simp [h4]
    have hc2 : (name == ([] : List UInt8)) = false := by simpa using h2
    have hc3 : ((name == ([0x2E] : List UInt8)) || (name == ([0x2E, 0x2E] : List UInt8))) = false := by
      simp [h3, h4]
    have hr : (decide (name.length ≤ 255) && !name.isEmpty && name != [0x2E] && name != [0x2E, 0x2E]) = true := by
      simp [h1, h2, h3, h4]
    simp only [hc1, hc2, hc3, Bool.false_eq_true, if_false]
    rw [Bool.and_assoc, hr, Bool.true_and, scan_getD_isNone, all_no_slash_nul]
    intro x r h
    split at h
    · cases h; rfl
    · split at h
      · cases h; rfl
      · cases h
  · have hc1 : decide ((Int.ofNat name.length) > (255 : Int)) = true := by
      simp only [decide_eq_true_eq, Int.ofNat_eq_natCast]; omega
    simp only [hc1, if_true]
    simp [h1]

example : Gen.tr_IsLegalUnixFilename [0x61, 0x2F, 0x62] = some "'/' is not allowed in filenames" ∧
    Gen.tr_IsLegalUnixFilename [0x2E, 0x2E] = some "reserved name" ∧
    Gen.tr_IsLegalUnixFilename [0x61, 0x2E, 0x62] = none := by decide

/-- FAIL CLOSED (second audit pass, X2/X3): the tie theorems of this file are about the
definition(s) TRANSLATED FROM THE TREE UNDER TEST, not about the committed default the
extractor falls back to when the source leaves the translated subset – in that
case this obligation breaks and `./check` reports it (besides the note). -/
theorem translated_from_tree_under_test : Gen.tr_IsLegalUnixFilename_extracted = true := by decide

end Props.C07
