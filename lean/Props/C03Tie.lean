/-
C03 tie: `Chunk.step` TRANSLATED from martian/core/stage.go on every run
(`Gen.tr_ChunkStep`, extract/translate*.go, "effects" extension): the guard of a
chunk's job submission.  The term is a function of what `self.getState()`
returns (the name of the MetadataState) and of the field `self.hasBeenRun` to the
pair (trace of the modelled effects: `Write` of _args, `Write` of _outs,
`runChunk` = the submission; the new value of `hasBeenRun`).  Resolving the
bindings and computing the resources are ignored (they do not decide whether the
job is submitted).
-/
import Martian.Sched
import Proofs.Sched
import Gen.Facts
import Proofs.TieDefs

namespace Props.C03
open Martian.Sched Proofs.Tie

/-- what `Chunk.step` does, completely -/
theorem tr_ChunkStep_spec (state : String) (run : Bool) :
    Gen.tr_ChunkStep state run =
      if state = "Ready" ∧ run = false then (["Write", "Write", "runChunk"], true) else ([], run) := by
  cases run <;> by_cases h : state = "Ready" <;> simp [Gen.tr_ChunkStep, h]

/-- any number of calls of `step`, whatever state each of them sees -/
def steps (run : Bool) : List String → List String × Bool
  | [] => ([], run)
  | st :: r => ((Gen.tr_ChunkStep st run).1 ++ (steps (Gen.tr_ChunkStep st run).2 r).1, (steps (Gen.tr_ChunkStep st run).2 r).2)

theorem steps_after_run : ∀ (states : List String), steps true states = ([], true)
  | [] => rfl
  | st :: r => by simp [steps, tr_ChunkStep_spec, steps_after_run r]

/-- AT MOST ONCE, for the code itself ("belt and suspenders for not
double-submitting a job"): however often `step` is called and whatever state the
metadata cache shows each time – also `Ready` again, e.g. before the `_jobinfo`
of the submitted job is seen –, the job is submitted at most once until
`hasBeenRun` is reset (`Chunk.reset`, a new incarnation) -/
theorem tr_ChunkStep_at_most_once : ∀ (run : Bool) (states : List String),
    (steps run states).1.count "runChunk" ≤ 1
  | true, states => by simp [steps_after_run]
  | false, [] => by simp [steps]
  | false, st :: r => by
    by_cases h : st = "Ready"
    · simp [steps, tr_ChunkStep_spec, h, steps_after_run]
    · have := tr_ChunkStep_at_most_once false r
      simpa [steps, tr_ChunkStep_spec, h] using this

/-- `Chunk.getState`: `if state, ok := self.metadata.getState(); ok { return state } else { return Ready }`
(hand-written, three lines; `goState` is tied to `_getStateNoLock` in Props/C02Tie) -/
def goChunkState (m : Option MState) : String := if (goState m).2 then (goState m).1 else "Ready"

/-- THE TIE to the scheduler model: whenever the model allows the submission of a
chunk (`launchOk`, the guard of the event `launch`), the translated code submits it,
under the abstraction `hasBeenRun` = "submitted in this incarnation"
(`s.launches.contains (o, s.inc)`, the model's ghost history): the two conjuncts
of `launchOk` that `Chunk.step` itself checks are exactly its guard -/
theorem launchOk_chunk_code_submits {s : State} {o : Obj} {i : Nat} (h : launchOk s o = true)
    (hr : o.r = .chunk i) :
    Gen.tr_ChunkStep (goChunkState (s.st o)) (s.launches.contains (o, s.inc)) =
      (["Write", "Write", "runChunk"], true) := by
  have hst := (launchOk_facts h).2.2
  have hl : s.launches.contains (o, s.inc) = false := by
    unfold launchOk at h
    simp only [Bool.and_eq_true] at h
    simpa using h.1.1.2
  rw [hst, hl, tr_ChunkStep_spec]
  simp [goChunkState, goState]

/-- … and conversely the code never submits a chunk that the model's history
already contains in this incarnation, or whose metadata shows any state
(`at_most_once` / `no_double_submission` of Props/C03 on the code side) -/
theorem code_submits_only_unsubmitted (s : State) (o : Obj)
    (h : (Gen.tr_ChunkStep (goChunkState (s.st o)) (s.launches.contains (o, s.inc))).1.contains "runChunk" = true) :
    s.st o = none ∧ (o, s.inc) ∉ s.launches := by
  rw [tr_ChunkStep_spec] at h
  by_cases hc : goChunkState (s.st o) = "Ready" ∧ s.launches.contains (o, s.inc) = false
  · refine ⟨?_, by simpa using hc.2⟩
    cases hs : s.st o with
    | none => rfl
    | some m => cases m <;> simp [goChunkState, goState, hs] at hc
  · rw [if_neg hc] at h
    simp at h

example : steps false ["Ready", "Ready", "Running", "Ready"] = (["Write", "Write", "runChunk"], true) ∧
    Gen.tr_ChunkStep "Running" false = ([], false) := by decide

/-- FAIL CLOSED (second audit pass, X2/X3): the tie theorems of this file are about the
definition(s) TRANSLATED FROM THE TREE UNDER TEST, not about the committed default the
extractor falls back to when the source leaves the translated subset – in that
case this obligation breaks and `./check` reports it (besides the note). -/
theorem translated_from_tree_under_test : Gen.tr_ChunkStep_extracted = true := by decide

end Props.C03
