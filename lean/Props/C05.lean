/-
C05 — an interrupted pipestance resumes, not redoing finished work.
PROPERTY THEOREMS ONLY (model: Martian/Sched.lean, lemmas: Proofs/Sched.lean).
Scope: the default restart path (`Pipestance.Reset` with partial reset +
`RestartLocalJobs`, local job mode) — `Reach g s`.  `FullStageReset` mode is
modelled too (`ReachFull g s`, section at the end): there every node that was
Running or Failed after re-attaching is wiped with everything in it, finished
chunks and forks included, so `complete_not_reset` is FALSE in that mode by
design of the code (negative witness `fullreset_wipes_finished_work`); what
still holds is stated there.
Job objects = every chunk, and split/join of splitting stages (`jobObj`).
-/
import Martian.Sched
import Proofs.Sched
import Proofs.SchedTrans

namespace Props.C05
open Martian.Sched

/-- `complete_not_reset`: the restart-time reset is never enabled on a job
object whose directory says complete (only failed, queued, running-with-dead-pid
or never-started `_queued_locally` objects are reset). Relies on the invariant
that the job manager removes `_queued_locally` when the job starts. -/
theorem complete_not_reset {g : List NodeInfo} {s : State} {o : Obj} (hr : Reach g s)
    (hj : jobObj (s.kind o.n) o.r = true) (hen : enabled s (.reset o) = true) :
    s.dst o ≠ some .complete := by
  intro hc
  have hro := en_reset hen
  unfold resetOk at hro
  simp only [reach_full hr, Bool.false_eq_true, if_false, Bool.and_eq_true, Bool.or_eq_true,
    beq_iff_eq] at hro
  rcases hro.2.2 with ((h | h) | h) | h
  · rw [hc] at h; cases h
  · rw [hc] at h; cases h
  · rw [hc] at h; cases h
  · have := ((reach_objsInv hr o).jj hj h).2.1
    have hc' := (metaState_complete hc).2.2
    rw [this] at hc'; cases hc'

/-- finished work stays on disk: whatever event happens next, a job object whose
directory state is complete keeps its `_complete` file -/
theorem complete_kept_on_disk {g : List NodeInfo} {s : State} {e : Ev} {o : Obj} (hr : Reach g s)
    (hj : jobObj (s.kind o.n) o.r = true) (hen : enabled s e = true)
    (hc : s.dst o = some .complete) : ((apply s e).m o).disk.has .complete = true := by
  apply disk_mono _ (by simp) (metaState_complete hc).2.2
  intro he; subst he
  exact complete_not_reset hr hj hen hc

/-- `restart_preserves_done`: after `crash; restart` mrp's view of every object
is exactly the state of its directory — in particular everything complete on
disk is seen complete (and is therefore not submitted again, C03). -/
theorem restart_preserves_done {s : State} (o : Obj) :
    (apply (apply s .crash) .restart).st o = s.dst o := by
  simp [State.st, State.dst, apply_m, reload]

/-- a crash itself changes nothing on disk -/
theorem crash_keeps_disk {s : State} (o : Obj) : ((apply s .crash).m o).disk = (s.m o).disk := by
  simp [apply_m]

/-- `restart_relaunch_only_reset`: a job submitted by an earlier incarnation is
submitted again only if a restart reset it in between (i.e. its directory state
was failed, queued or running-dead) -/
theorem restart_relaunch_only_reset {g : List NodeInfo} {s : State} (hr : Reach g s)
    {o : Obj} {i j : Nat} (hi : (o, i) ∈ s.launches) (hj : (o, j) ∈ s.launches) (hlt : i < j) :
    ∃ k, i < k ∧ k ≤ j ∧ (o, k) ∈ s.resets :=
  (reach_launchInv hr).relaunch o i j hi hj hlt

/-- a job object that is complete on disk cannot be submitted (in any incarnation) -/
theorem complete_not_relaunched {g : List NodeInfo} {s : State} {o : Obj} (hr : Reach g s)
    (hc : (s.m o).disk.has .complete = true) (hj : jobObj (s.kind o.n) o.r = true) :
    enabled s (.launch o) = false := by
  cases he : enabled s (.launch o)
  · rfl
  · have hst := (launchOk_facts (en_launch he)).2.2
    have hji := (reach_objsInv hr o).kk hj (Or.inr (Or.inl hc))
    have := (reach_objsInv hr o).ji hji
    have := (metaState_none hst).2.2.2.2.2
    simp_all

/-! ### `FullStageReset` mode (`Config.FullStageReset`, local job mode) -/

/-- in FullStageReset mode only objects of nodes that were Running or Failed right
after the re-attach are reset … -/
theorem fullreset_only_wiped_nodes {g : List NodeInfo} {s : State} {o : Obj}
    (hr : ReachFull g s) (hen : enabled s (.reset o) = true) :
    s.phase = .loading ∧ o.n ∈ s.wipedAtLoad := by
  have h := en_reset hen
  unfold resetOk at h
  simp only [reachFull_full hr, if_true, Bool.and_eq_true, beq_iff_eq,
    List.contains_eq_mem, decide_eq_true_eq] at h
  exact h

/-- … where that set is computed by `restart` from the directory contents -/
theorem wipedAtLoad_spec (s : State) (n : Nat) :
    n ∈ (apply s .restart).wipedAtLoad ↔
      n < s.nodes.length ∧
      (nodeState (apply s .restart) n = .failed ∨ nodeState (apply s .restart) n = .running) := by
  simp only [apply, List.mem_filter, List.mem_range, Bool.or_eq_true, beq_iff_eq]
  rfl

/-- the submission bookkeeping is mode independent: no double submission within
an incarnation, and a resubmission only after a reset -/
theorem fullreset_at_most_once {g : List NodeInfo} {s : State} (hr : ReachFull g s) :
    s.launches.Nodup ∧
    ∀ o i j, (o, i) ∈ s.launches → (o, j) ∈ s.launches → i < j →
      ∃ k, i < k ∧ k ≤ j ∧ (o, k) ∈ s.resets :=
  ⟨(reachFull_launchInv hr).nodup, (reachFull_launchInv hr).relaunch⟩

/-- Negative witness: in FullStageReset mode a finished chunk of a node that was
still running when mrp died IS wiped at restart and submitted again. -/
theorem fullreset_wipes_finished_work :
    (match replay (initFull [{ kind := .stage, pre := [] }])
      [.fork 0 0, .nodestate 0 .running, .refresh, .W ⟨0, 0, .split⟩ .complete, .mkchunks 0 0 1,
       .launch ⟨0, 0, .chunk 0⟩, .joblog ⟨0, 0, .chunk 0⟩, .jobend ⟨0, 0, .chunk 0⟩ .complete,
       .crash, .restart] with
    | .ok s => s.dst ⟨0, 0, .chunk 0⟩ == some .complete && enabled s (.reset ⟨0, 0, .chunk 0⟩)
    | .error _ => false) = true := by decide

/-! ### non-vacuity -/

def g1 : List NodeInfo := [{ kind := .splitstage, pre := [] }]

/-- the split finished but mrp was killed before it read the journal; one chunk is
queued.  After the restart the split is seen complete, reset is refused for it and
accepted for nothing else; the split cannot be submitted again. -/
def h1 : List Ev :=
  [.fork 0 0, .nodestate 0 .running, .refresh, .launch ⟨0, 0, .split⟩,
   .joblog ⟨0, 0, .split⟩, .jobend ⟨0, 0, .split⟩ .complete, .crash, .restart]

example : (match replay (init g1) h1 with
    | .ok s => s.st ⟨0, 0, .split⟩ == some .complete && !enabled s (.reset ⟨0, 0, .split⟩) &&
               !enabled (apply s .refresh) (.launch ⟨0, 0, .split⟩) &&
               jobObj (s.kind 0) .split
    | .error _ => false) = true := by decide

/-- a queued job IS reset at restart (the reset event is not vacuously disabled) -/
example : (match replay (init g1)
      [.fork 0 0, .nodestate 0 .running, .refresh, .launch ⟨0, 0, .split⟩, .crash, .restart] with
    | .ok s => enabled s (.reset ⟨0, 0, .split⟩)
    | .error _ => false) = true := by decide

end Props.C05
