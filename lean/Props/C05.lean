/-
C05 — an interrupted pipestance resumes, not redoing finished work.
PROPERTY THEOREMS ONLY (model: Martian/Sched.lean, lemmas: Proofs/Sched.lean).
Scope: the default restart path (`Pipestance.Reset` with partial reset +
`RestartLocalJobs`, local job mode) — `Reach g s`.  `FullStageReset` mode is
modelled too (`ReachFull g s`, section at the end): there every node that was
Running or Failed after re-attaching is wiped with everything in it, finished
chunks and forks included, so `complete_not_reset` is FALSE in that mode by
design of the code (negative witness `fullreset_wipes_finished_work`); what
still holds is stated there.
Job objects = every chunk, and split/join of splitting stages (`jobObj`).
-/
import Martian.Sched
import Proofs.Sched
import Proofs.SchedTrans
import Martian.SchedProgress
import Proofs.SchedProgress
import Proofs.SchedRestart

/-! ### definitional unfoldings (documentation of the model, not guarantees)
The theorems whose docstring starts with DEFINITIONAL UNFOLDING (restart_preserves_done, crash_keeps_disk, wipedAtLoad_spec) restate a guard
or a definition of the model; they stay where later theorems use them and are not cited as guarantees. -/
namespace Props.C05
open Martian.Sched

/-- DEFINITIONAL UNFOLDING (documentation of the guard `resetOk`, not an inductive guarantee).
`complete_not_reset`: the restart-time reset is never enabled on a job object whose directory
says complete (only failed, queued, running-with-dead-pid or not-yet-complete `_queued_locally`
objects are reset).  Since `joblog` no longer removes `_queued_locally` in the model, the state
"complete and `_queued_locally` still there" IS reachable (witness `hQ` below); the theorem then
rests on the conjunct `dst ≠ complete` of the `restartQueuedLocal` disjunct, i.e. on the branch
added by the repair 23063ab, and on nothing proved by induction (`hr` is only used to select the
partial-reset mode). -/
theorem complete_not_reset {g : List NodeInfo} {s : State} {o : Obj} (hr : Reach g s)
    (hj : jobObj (s.kind o.n) o.r = true) (hen : enabled s (.reset o) = true) :
    s.dst o ≠ some .complete := by
  intro hc
  have hro := en_reset hen
  unfold resetOk at hro
  simp only [reach_full hr, Bool.false_eq_true, if_false, Bool.and_eq_true, Bool.or_eq_true,
    beq_iff_eq] at hro
  rcases hro.2.2 with ((h | h) | ⟨h, _⟩) | h
  · rw [hc] at h; cases h
  · rw [hc] at h; cases h
  · rw [hc] at h; cases h
  · -- `restartQueuedLocal` (as repaired by 23063ab): a complete job only loses `_queued_locally`
    rw [hc] at h; simp at h

/-- finished work stays on disk: whatever event happens next, a job object whose
directory state is complete keeps its `_complete` file -/
theorem complete_kept_on_disk {g : List NodeInfo} {s : State} {e : Ev} {o : Obj} (hr : Reach g s)
    (hj : jobObj (s.kind o.n) o.r = true) (hen : enabled s e = true)
    (hc : s.dst o = some .complete) : ((apply s e).m o).disk.has .complete = true := by
  apply disk_mono _ (by simp) (metaState_complete hc).2.2
  intro he; subst he
  exact complete_not_reset hr hj hen hc

/-- DEFINITIONAL UNFOLDING (documentation of the model / of a guard, not a guarantee). `restart_preserves_done`: after `crash; restart` mrp's view of every object
is exactly the state of its directory — in particular everything complete on
disk is seen complete (and is therefore not submitted again, C03). -/
theorem restart_preserves_done {s : State} (o : Obj) :
    (apply (apply s .crash) .restart).st o = s.dst o := by
  simp [State.st, State.dst, apply_m, reload]

/-- DEFINITIONAL UNFOLDING (documentation of the model / of a guard, not a guarantee). a crash itself changes nothing on disk -/
theorem crash_keeps_disk {s : State} (o : Obj) : ((apply s .crash).m o).disk = (s.m o).disk := by
  simp [apply_m]

/-- `restart_relaunch_only_reset`: a job submitted by an earlier incarnation is
submitted again only if a restart reset it in between (i.e. its directory state
was failed, queued or running-dead) -/
theorem restart_relaunch_only_reset {g : List NodeInfo} {s : State} (hr : Reach g s)
    {o : Obj} {i j : Nat} (hi : (o, i) ∈ s.launches) (hj : (o, j) ∈ s.launches) (hlt : i < j) :
    ∃ k, i < k ∧ k ≤ j ∧ (o, k) ∈ s.resets :=
  (reach_launchInv hr).relaunch o i j hi hj hlt

/-- a job object that is complete on disk cannot be submitted (in any incarnation) -/
theorem complete_not_relaunched {g : List NodeInfo} {s : State} {o : Obj} (hr : Reach g s)
    (hc : (s.m o).disk.has .complete = true) (hj : jobObj (s.kind o.n) o.r = true) :
    enabled s (.launch o) = false := by
  cases he : enabled s (.launch o)
  · rfl
  · have hst := (launchOk_facts (en_launch he)).2.2
    have hji := (reach_objsInv hr o).kk hj (Or.inr (Or.inl hc))
    have := (reach_objsInv hr o).ji hji
    have := (metaState_none hst).2.2.2.2.2
    simp_all

/-! ### `FullStageReset` mode (`Config.FullStageReset`, local job mode) -/

/-- in FullStageReset mode only objects of nodes that were Running or Failed right
after the re-attach are reset … -/
theorem fullreset_only_wiped_nodes {g : List NodeInfo} {s : State} {o : Obj}
    (hr : ReachFull g s) (hen : enabled s (.reset o) = true) :
    s.phase = .loading ∧ o.n ∈ s.wipedAtLoad := by
  have h := en_reset hen
  unfold resetOk at h
  simp only [reachFull_full hr, if_true, Bool.and_eq_true, beq_iff_eq,
    List.contains_eq_mem, decide_eq_true_eq] at h
  exact h

/-- DEFINITIONAL UNFOLDING (documentation of the model / of a guard, not a guarantee). … where that set is computed by `restart` from the directory contents -/
theorem wipedAtLoad_spec (s : State) (n : Nat) :
    n ∈ (apply s .restart).wipedAtLoad ↔
      n < s.nodes.length ∧
      (nodeState (apply s .restart) n = .failed ∨ nodeState (apply s .restart) n = .running) := by
  simp only [apply, List.mem_filter, List.mem_range, Bool.or_eq_true, beq_iff_eq]
  rfl

/-- the submission bookkeeping is mode independent: no double submission within
an incarnation, and a resubmission only after a reset -/
theorem fullreset_at_most_once {g : List NodeInfo} {s : State} (hr : ReachFull g s) :
    s.launches.Nodup ∧
    ∀ o i j, (o, i) ∈ s.launches → (o, j) ∈ s.launches → i < j →
      ∃ k, i < k ∧ k ≤ j ∧ (o, k) ∈ s.resets :=
  ⟨(reachFull_launchInv hr).nodup, (reachFull_launchInv hr).relaunch⟩

/-- Negative witness: in FullStageReset mode a finished chunk of a node that was
still running when mrp died IS wiped at restart and submitted again. -/
theorem fullreset_wipes_finished_work :
    (match replay (initFull [{ kind := .stage, pre := [] }])
      [.fork 0 0, .nodestate 0 .running, .refresh, .W ⟨0, 0, .split⟩ .complete, .mkchunks 0 0 1,
       .launch ⟨0, 0, .chunk 0⟩, .joblog ⟨0, 0, .chunk 0⟩, .jobend ⟨0, 0, .chunk 0⟩ .complete,
       .crash, .restart] with
    | .ok s => s.dst ⟨0, 0, .chunk 0⟩ == some .complete && enabled s (.reset ⟨0, 0, .chunk 0⟩)
    | .error _ => false) = true := by decide

/-! ### the continuation after a restart completes (both reset modes)

`s.alive` (ghost) = the job objects whose submitted job has neither ended nor died: `launch` adds,
`jobend` / `silentfail` / `killed` / `reset` remove; `joblog` and `jobend` need it.  `killed o` is
the death of a job without a trace (it dies with mrp, or the scheduler loses it); a `reset` of a
job whose directory says running is only permitted when the job is dead (`restartLocal`'s pid
test).  `AliveInv s` = every job that is submitted and has no `_complete` on disk is alive — i.e.
EVERY JOB THAT DIED HAS BEEN RESET.  That is exactly what `RestartLocalJobs` is for; a restart
that leaves a dead job un-reset wedges the pipestance (`dead_unreset_job_wedges`). -/

/-- `restart_completes` (default reset mode): take ANY reachable state `s0` without failure
markers on disk — in particular the state right after any accepted history followed by
`crash; restart`, whatever was in flight — and ANY continuation from it that contains no
failure event, finitely many interruptions (`crash`/`restart`/`reset`/`killed`) and
fork-structure events, after the last of which mrp is up and every job that died has been
reset (`AliveInv`: the resets performed may be ANY subset of the permitted ones that contains
the dead running/queued jobs), and that is fair: it reaches a finished pipestance and stays
there.  (Vocabulary: Props/C03 header.) -/
theorem restart_completes {g : List NodeInfo} {s0 : State} {σ : Nat → State} {es : Nat → Ev}
    (hr : Reach g s0) (hclean : CleanInv s0) (hac : Acyclic g) (hrun : Run s0 σ es)
    (hnf : ∀ i, (es i).failing = false) {K : Nat}
    (hK : ∀ i, K ≤ i → (es i).structural (σ i) = false) (hup : (σ K).phase ≠ .crashed)
    (halive : AliveInv (σ K)) (hfair : Fair σ) : ∃ M, K ≤ M ∧ ∀ j, M ≤ j → Finished (σ j) :=
  interrupted_run_finishes hrun (reach_liveInv hr hclean) (by rw [reach_nodes hr]; exact hac)
    hnf hK hup halive hfair

/-- the same in `FullStageReset` mode: wiping whole Running/Failed nodes at restart (any
subset of their objects, in any order, as long as no dead job is left behind) never wedges
the pipestance -/
theorem fullreset_restart_completes {g : List NodeInfo} {s0 : State} {σ : Nat → State}
    {es : Nat → Ev} (hr : ReachFull g s0) (hclean : CleanInv s0) (hac : Acyclic g)
    (hrun : Run s0 σ es) (hnf : ∀ i, (es i).failing = false) {K : Nat}
    (hK : ∀ i, K ≤ i → (es i).structural (σ i) = false) (hup : (σ K).phase ≠ .crashed)
    (halive : AliveInv (σ K)) (hfair : Fair σ) : ∃ M, K ≤ M ∧ ∀ j, M ≤ j → Finished (σ j) :=
  interrupted_run_finishes hrun (reachFull_liveInv hr hclean)
    (by rw [reachFull_nodes hr]; exact hac) hnf hK hup halive hfair

/-- the hypothesis `CleanInv` is kept by every event that is not a failure event
(interruptions and resets included), in either mode: a history without failure events
ends in a state `restart_completes` applies to -/
theorem no_failure_keeps_clean {s : State} {e : Ev} (hen : enabled s e = true)
    (hnf : e.failing = false) (h : CleanInv s) : CleanInv (apply s e) :=
  cleanInv_step hen hnf h

/-- `AliveInv` is kept by every event of a run without failures and interruptions, and
re-established for an object by its reset -/
theorem no_interruption_keeps_alive {s : State} {e : Ev} (hen : enabled s e = true)
    (hff : e.failureFree = true) (h : AliveInv s) : AliveInv (apply s e) :=
  aliveInv_step hen hff h

/-- Negative witness: the split was running when mrp was killed and died with it; the restart
does NOT reset it.  The pipestance is not finished and no event of the scheduler/job/journal
alphabet can ever happen again: resetting dead jobs is necessary. -/
def hDead : List Ev :=
  [.fork 0 0, .nodestate 0 .running, .refresh, .launch ⟨0, 0, .split⟩, .joblog ⟨0, 0, .split⟩,
   .crash, .killed ⟨0, 0, .split⟩, .restart, .refresh]
def sDead : State := prefixState (init [{ kind := .splitstage, pre := [] }]) hDead 9

theorem dead_unreset_job_wedges :
    ¬ Finished sDead ∧ (∀ e, ¬ Progress sDead e) ∧ enabled sDead (.jobend ⟨0, 0, .split⟩ .complete) = false ∧
    ¬ AliveInv sDead := by
  refine ⟨fun h => ?_, no_progress_of_quiescent ?_ (by decide), by decide, fun h => ?_⟩
  · exact absurd (h.2 0 (by decide)).1 (by decide)
  · exact reach_objsInv (run_reach (run_of_list _ hDead (by decide)) 9)
  · have := h 0 0 .split (by simp) (by decide) (by decide)
    exact absurd this (by decide)

/-- `restart_completes_same_completion_set_partial` (default reset mode; formerly `restart_completes_same`;
PARTIAL — exact gap: only for histories whose events are all `Ev.benign`, about six real restart
histories in seven; sentinel states only, not output values; `SameChoices` assumed):
take two runs of the same acyclic graph from its initial state, both fair, both without
failure events, both with finitely many interruptions and fork-structure events, with mrp up
and every dead job reset after the last one — say, one in which mrp is killed after arbitrary
prefixes and an uninterrupted one.  Both finish, and from then on, whenever the two agree on
what the ENVIRONMENT chose (fork sets, chunk counts, which forks were disabled), the DIRECTORY
STATE (which sentinels: complete / nothing) of every object of every stage fork is the same
in both: the interrupted run ends with the same set of completed job directories.
What this does NOT say: the model has no output values, `_outs` or files; that equal choices
and equal completion sets give equal output VALUES is C01's schedule-freedom (`den_schedule_free`:
the value of every call is a function of the resolved arguments) together with the harness's
comparison of the real top-level outputs, not a consequence of this theorem; and the premise
`SameChoices` is assumed, not derived (the data determines the choices).  (`Ev.benign`: no
failure event, and chunk counts are not redefined while re-attaching.)
HOW LITTLE THE PROOF USES: it is `interrupted_run_finishes` for each run followed by
`finished_outcome` applied to both finished states — every finished state reached by benign events
has the directory state `expectedOutcome`, a function of the graph and of the choices; nothing
relates the two runs beyond that.  The premise `Ev.benign` is evaluated by the driver on every
replayed history (reply field `benign=`); about one real restart history in seven (chunks
redefined at re-attach, or a fault) does not satisfy it and is outside this theorem. -/
theorem restart_completes_same_completion_set_partial {g : List NodeInfo} (hac : Acyclic g)
    {σ : Nat → State} {es : Nat → Ev} (hrun : Run (init g) σ es)
    (hb : ∀ i, (es i).benign (σ i) = true) {K : Nat}
    (hK : ∀ i, K ≤ i → (es i).structural (σ i) = false) (hup : (σ K).phase ≠ .crashed)
    (halive : AliveInv (σ K)) (hfair : Fair σ)
    {σ' : Nat → State} {es' : Nat → Ev} (hrun' : Run (init g) σ' es')
    (hb' : ∀ i, (es' i).benign (σ' i) = true) {K' : Nat}
    (hK' : ∀ i, K' ≤ i → (es' i).structural (σ' i) = false) (hup' : (σ' K').phase ≠ .crashed)
    (halive' : AliveInv (σ' K')) (hfair' : Fair σ') :
    ∃ M, ∀ j, M ≤ j → Finished (σ j) ∧ Finished (σ' j) ∧
      (SameChoices (σ j) (σ' j) →
        ∀ n f r, n < g.length → f ∈ (σ j).forksOf n → (σ j).kind n ≠ .pipeline →
          (σ j).dst ⟨n, f, r⟩ = (σ' j).dst ⟨n, f, r⟩) := by
  have hnf := fun i => benign_nf (hb i)
  have hnf' := fun i => benign_nf (hb' i)
  obtain ⟨M, _, hM⟩ := interrupted_run_finishes hrun (liveInv_init g) hac hnf hK hup halive hfair
  obtain ⟨M', _, hM'⟩ := interrupted_run_finishes hrun' (liveInv_init g) hac hnf' hK' hup' halive' hfair'
  have hl := run_liveInv hrun (liveInv_init g) hnf
  have hl' := run_liveInv hrun' (liveInv_init g) hnf'
  refine ⟨max M M', fun j hj => ⟨hM j (by omega), hM' j (by omega), ?_⟩⟩
  intro hsame n f r hn hf hk
  have hnodes : (σ j).nodes = g := run_nodes hrun j
  have hnodes' : (σ' j).nodes = g := run_nodes hrun' j
  exact same_outcomes (hnodes.trans hnodes'.symm) (hl j).obj (hl j).role (hl j).clean
    (run_chainInv hrun hb j) (hl' j).obj (hl' j).role (hl' j).clean (run_chainInv hrun' hb' j)
    (hM j (by omega)) (hM' j (by omega)) hsame n f r (by rw [hnodes]; exact hn) hf hk

/-- what that common outcome is: in a finished state reached without failure events, every
stage fork that ran has split, each defined chunk and join complete on disk and nothing
beyond; a disabled fork has empty job directories (`expectedOutcome`) -/
theorem finished_outcome {g : List NodeInfo} {σ : Nat → State} {es : Nat → Ev}
    (hrun : Run (init g) σ es) (hb : ∀ i, (es i).benign (σ i) = true) (j : Nat)
    (hfin : Finished (σ j)) (n f : Nat) (r : Role) (hn : n < g.length)
    (hf : f ∈ (σ j).forksOf n) (hk : (σ j).kind n ≠ .pipeline) (hr : r ≠ .fork) :
    (σ j).dst ⟨n, f, r⟩ =
      expectedOutcome (((σ j).m ⟨n, f, .fork⟩).disk.has .complete) ((σ j).nch n f) r := by
  have hl := run_liveInv hrun (liveInv_init g) (fun i => benign_nf (hb i)) j
  have hd := nodeDone_iff.mp (hfin.2 n (by rw [run_nodes hrun j]; exact hn)).1 f hf
  exact finished_fork_outcome hl.obj hl.role hl.clean (run_chainInv hrun hb j) hk hd r hr

/-! ### non-vacuity -/

def g1 : List NodeInfo := [{ kind := .splitstage, pre := [] }]

/-- the split finished but mrp was killed before it read the journal; one chunk is
queued.  After the restart the split is seen complete, reset is refused for it and
accepted for nothing else; the split cannot be submitted again. -/
def h1 : List Ev :=
  [.fork 0 0, .nodestate 0 .running, .refresh, .launch ⟨0, 0, .split⟩,
   .joblog ⟨0, 0, .split⟩, .jobend ⟨0, 0, .split⟩ .complete, .crash, .restart]

example : (match replay (init g1) h1 with
    | .ok s => s.st ⟨0, 0, .split⟩ == some .complete && !enabled s (.reset ⟨0, 0, .split⟩) &&
               !enabled (apply s .refresh) (.launch ⟨0, 0, .split⟩) &&
               jobObj (s.kind 0) .split
    | .error _ => false) = true := by decide

/-- the state the repair 23063ab is about is reachable: the split job records its completion while
its `_queued_locally` file is still there (the job manager has not removed it yet), mrp dies and
re-attaches.  The guard as it was BEFORE the repair (`restartQueuedLocal` = "`_queued_locally`
exists") is true of this job — it would have been reset and run again — the present guard
refuses. -/
def hQ : List Ev :=
  [.fork 0 0, .nodestate 0 .running, .refresh, .launch ⟨0, 0, .split⟩,
   .joblog ⟨0, 0, .split⟩, .jobend ⟨0, 0, .split⟩ .complete, .crash, .restart]

example : (match replay (init g1) hQ with
    | .ok s => (s.m ⟨0, 0, .split⟩).disk.queued && s.dst ⟨0, 0, .split⟩ == some .complete &&
               !enabled s (.reset ⟨0, 0, .split⟩)
    | .error _ => false) = true := by decide

/-- a queued job IS reset at restart (the reset event is not vacuously disabled) -/
example : (match replay (init g1)
      [.fork 0 0, .nodestate 0 .running, .refresh, .launch ⟨0, 0, .split⟩, .crash, .restart] with
    | .ok s => enabled s (.reset ⟨0, 0, .split⟩)
    | .error _ => false) = true := by decide

/-! ### non-vacuity of the completion theorems -/

/-- the split is submitted, mrp is killed while it is queued, the restart resets it, the new
incarnation submits it again and the stage runs to completion (no chunks) … -/
def hI : List Ev :=
  [.fork 0 0, .nodestate 0 .running, .refresh, .launch ⟨0, 0, .split⟩,
   .crash, .restart, .reset ⟨0, 0, .split⟩, .refresh, .launch ⟨0, 0, .split⟩,
   .joblog ⟨0, 0, .split⟩, .jobend ⟨0, 0, .split⟩ .complete, .R ⟨0, 0, .split⟩ .complete,
   .launch ⟨0, 0, .join⟩, .joblog ⟨0, 0, .join⟩, .jobend ⟨0, 0, .join⟩ .complete,
   .R ⟨0, 0, .join⟩ .complete, .W ⟨0, 0, .fork⟩ .complete, .nodestate 0 .complete]

/-- … and the uninterrupted reference run -/
def hU : List Ev :=
  [.fork 0 0, .nodestate 0 .running, .refresh, .launch ⟨0, 0, .split⟩,
   .joblog ⟨0, 0, .split⟩, .jobend ⟨0, 0, .split⟩ .complete, .R ⟨0, 0, .split⟩ .complete,
   .launch ⟨0, 0, .join⟩, .joblog ⟨0, 0, .join⟩, .jobend ⟨0, 0, .join⟩ .complete,
   .R ⟨0, 0, .join⟩ .complete, .W ⟨0, 0, .fork⟩ .complete, .nodestate 0 .complete]

def σI : Nat → State := prefixState (init g1) hI
def esI : Nat → Ev := fun i => hI.getD i .stepend
def σU : Nat → State := prefixState (init g1) hU
def esU : Nat → Ev := fun i => hU.getD i .stepend

example : Acyclic g1 := topoSorted_acyclic (by decide)
example : Run (init g1) σI esI := run_of_list _ _ (by decide)
example : Run (init g1) σU esU := run_of_list _ _ (by decide)

example : ∀ i, (esI i).benign (σI i) = true := by
  intro i
  by_cases h : i < hI.length
  · revert i; decide
  · have : hI[i]? = none := by simp; omega
    simp [esI, List.getD, this, Ev.benign, Ev.failing]

example : ∀ i, (esI i).failing = false := by
  intro i
  by_cases h : i < hI.length
  · revert i; decide
  · have : hI[i]? = none := by simp; omega
    simp [esI, List.getD, this, Ev.failing]

/-- the last interruption (`reset`) is event 6; from 7 on no structural event; mrp is up -/
example : ∀ i, 7 ≤ i → (esI i).structural (σI i) = false := by
  intro i h1
  by_cases h : i < hI.length
  · have : ∀ i, i < hI.length → 7 ≤ i → (esI i).structural (σI i) = false := by decide
    exact this i h h1
  · have : hI[i]? = none := by simp; omega
    simp [esI, List.getD, this, Ev.structural]

example : (σI 7).phase ≠ .crashed := by decide

/-- every job that died was reset: the split was only queued when mrp died, and the restart reset it -/
example : AliveInv (σI 7) := aliveInv_of_check (by decide)

theorem σI_finished (i : Nat) (h : hI.length ≤ i) : Finished (σI i) := by
  have : σI i = σI hI.length := by simp [σI, prefixState, List.take_of_length_le h]
  rw [this]
  refine ⟨by decide, fun n hn => ?_⟩
  have hn' : n < 1 := hn
  have : n = 0 := by omega
  subst this
  decide

example : Fair σI := by
  intro i hnf _
  have hi : i < hI.length := by
    apply Classical.byContradiction
    intro h
    exact hnf (σI_finished i (by omega))
  exact ⟨17, by have : hI.length = 18 := rfl; omega, by decide⟩

/-- the interrupted run is a run from a reachable clean state after `crash; restart`
(hypotheses of `restart_completes` at `s0 = σI 6`) -/
example : CleanInv (σI 6) := by
  intro n f r
  have : ∀ o, (σI 6).m o = (σI 6).m o := fun _ => rfl
  simp only [σI, prefixState, hI, List.take, List.foldl, apply, init, State.updMeta, State.m,
    aset, aget, amap, List.map, reload, put, SSet.add, SSet.has]
  split <;> simp

/-- both end finished, agree on the environment's choices, and indeed on every directory -/
example : SameChoices (σI 18) (σU 13) := by decide
example : (σI 18).dst ⟨0, 0, .split⟩ = (σU 13).dst ⟨0, 0, .split⟩ ∧
    (σI 18).dst ⟨0, 0, .join⟩ = some .complete ∧ (σI 18).dst ⟨0, 0, .chunk 0⟩ = none ∧
    launchCount (σI 18) ⟨0, 0, .split⟩ = 2 ∧ launchCount (σU 13) ⟨0, 0, .split⟩ = 1 := by decide

/-! A larger pair: a stage, then a splitting stage with two forks (one disabled at run time) and two
chunks; mrp is killed while chunk 1 is running and chunk 0 has finished unnoticed; chunk 1 dies
with mrp, the restart resets it (and only it), the new incarnation reads chunk 0's `_complete`
from the directory and re-runs chunk 1. -/
def g2c : List NodeInfo := [{ kind := .stage, pre := [] }, { kind := .splitstage, pre := [0] }]

def hPre : List Ev :=
  [.fork 0 0, .fork 1 0, .fork 1 1, .nodestate 0 .running, .refresh,
   .W ⟨0, 0, .split⟩ .complete, .mkchunks 0 0 1, .launch ⟨0, 0, .chunk 0⟩,
   .joblog ⟨0, 0, .chunk 0⟩, .jobend ⟨0, 0, .chunk 0⟩ .complete, .R ⟨0, 0, .chunk 0⟩ .complete,
   .W ⟨0, 0, .join⟩ .complete, .W ⟨0, 0, .fork⟩ .complete, .nodestate 0 .complete,
   .nodestate 1 .running, .W ⟨1, 1, .fork⟩ .disabled,
   .launch ⟨1, 0, .split⟩, .joblog ⟨1, 0, .split⟩, .jobend ⟨1, 0, .split⟩ .complete,
   .R ⟨1, 0, .split⟩ .complete, .mkchunks 1 0 2, .launch ⟨1, 0, .chunk 0⟩, .launch ⟨1, 0, .chunk 1⟩,
   .joblog ⟨1, 0, .chunk 0⟩, .joblog ⟨1, 0, .chunk 1⟩, .jobend ⟨1, 0, .chunk 0⟩ .complete]

def hTail : List Ev :=
  [.launch ⟨1, 0, .join⟩, .joblog ⟨1, 0, .join⟩, .jobend ⟨1, 0, .join⟩ .complete,
   .R ⟨1, 0, .join⟩ .complete, .W ⟨1, 0, .fork⟩ .complete, .nodestate 1 .complete]

def hI2 : List Ev :=
  hPre ++ [.crash, .killed ⟨1, 0, .chunk 1⟩, .restart, .reset ⟨1, 0, .chunk 1⟩, .refresh,
    .launch ⟨1, 0, .chunk 1⟩, .joblog ⟨1, 0, .chunk 1⟩, .jobend ⟨1, 0, .chunk 1⟩ .complete,
    .R ⟨1, 0, .chunk 1⟩ .complete] ++ hTail

def hU2 : List Ev :=
  hPre ++ [.R ⟨1, 0, .chunk 0⟩ .complete, .jobend ⟨1, 0, .chunk 1⟩ .complete,
    .R ⟨1, 0, .chunk 1⟩ .complete] ++ hTail

def σI2 : Nat → State := prefixState (init g2c) hI2
def esI2 : Nat → Ev := fun i => hI2.getD i .stepend
def σU2 : Nat → State := prefixState (init g2c) hU2

example : hI2.length = 41 ∧ hU2.length = 35 := by decide
example : Acyclic g2c := topoSorted_acyclic (by decide)
example : Run (init g2c) σI2 esI2 := run_of_list _ _ (by decide)
example : Run (init g2c) σU2 (fun i => hU2.getD i .stepend) := run_of_list _ _ (by decide)
example : ∀ i, (esI2 i).benign (σI2 i) = true := by
  intro i
  by_cases h : i < hI2.length
  · revert i; decide
  · have : hI2[i]? = none := by simp; omega
    simp [esI2, List.getD, this, Ev.benign, Ev.failing]
/-- the last interruption is the reset (index 29) -/
example : ∀ i, 30 ≤ i → (esI2 i).structural (σI2 i) = false := by
  intro i h1
  by_cases h : i < hI2.length
  · have : ∀ i, i < hI2.length → 30 ≤ i → (esI2 i).structural (σI2 i) = false := by decide
    exact this i h h1
  · have : hI2[i]? = none := by simp; omega
    simp [esI2, List.getD, this, Ev.structural]
example : (σI2 30).phase ≠ .crashed ∧ AliveInv (σI2 30) := ⟨by decide, aliveInv_of_check (by decide)⟩
/-- without the reset the dead chunk would be left behind: `AliveInv` fails right after the restart -/
example : ¬ AliveInv (σI2 29) := fun h =>
  absurd (h 1 0 (.chunk 1) (by simp) (by decide) (by decide)) (by decide)
/-- both end finished with the same choices and the same directory states; the interrupted run
submitted chunk 1 twice and everything else once -/
example : SameChoices (σI2 41) (σU2 35) := by decide
example : (σI2 41).dst ⟨1, 0, .chunk 1⟩ = (σU2 35).dst ⟨1, 0, .chunk 1⟩ ∧
    (σI2 41).dst ⟨1, 0, .join⟩ = some .complete ∧ (σI2 41).dst ⟨1, 1, .split⟩ = none ∧
    launchCount (σI2 41) ⟨1, 0, .chunk 1⟩ = 2 ∧ launchCount (σI2 41) ⟨1, 0, .chunk 0⟩ = 1 ∧
    (σI2 41).resets = [(⟨1, 0, .chunk 1⟩, 1)] := by decide

/-! `FullStageReset` mode: the same stage graph; mrp is killed while node 1 is Running; every object
of node 1 may be wiped (here: the finished chunk 0, the dead chunk 1 and the split), node 0's
finished work may not. -/
def hF2 : List Ev :=
  hPre ++ [.crash, .killed ⟨1, 0, .chunk 1⟩, .restart, .reset ⟨1, 0, .chunk 0⟩, .reset ⟨1, 0, .chunk 1⟩,
    .reset ⟨1, 0, .split⟩, .mkchunks 1 0 0]
def sF2 : State := prefixState (initFull g2c) hF2 hF2.length

example : (match replay (initFull g2c) hF2 with | .ok _ => true | .error _ => false) = true := by decide
/-- hypotheses and conclusions of `fullreset_only_wiped_nodes` / `fullreset_restart_completes` at
this reachable `ReachFull` state: node 1 is to be wiped, node 0 is not; no failure marker; no
dead job left; mrp is up; and the wiped fork is `ready` again -/
example : sF2.wipedAtLoad = [1] ∧ enabled sF2 (.reset ⟨0, 0, .chunk 0⟩) = false ∧
    enabled sF2 (.reset ⟨1, 0, .join⟩) = true ∧ sF2.phase ≠ .crashed ∧
    forkState sF2 1 0 = .ready := by decide
example : AliveInv sF2 := aliveInv_of_check (by decide)

end Props.C05
