/-
C12 tie: the integer logic of `LocalJobManager.GetSystemReqs` (everything after
the float → int conversions) TRANSLATED from martian/core/jobmanager_local.go on
every run – three fragments, `Gen.tr_GSR_centi`, `Gen.tr_GSR_mem`,
`Gen.tr_GSR_vmem` – composes to the model's `normalize`.  Receiver fields and
`CurrentSize()` of the semaphores are parameters of the translated terms;
`self.vmemMBSem != nil` is the model's `maxVmemMB > 0`.
-/
import Martian.Semaphore
import Gen.Facts

namespace Props.C12
open Martian.Semaphore

/-- `if centiCores == 0 {…} else if centiCores < 0 {…}`, then the cap -/
theorem tr_GSR_centi_eq_model (c : LocalCfg) (centi : Int) :
    capTo (c.maxCores * 100) (Gen.tr_GSR_centi c.threadsPerJob c.maxCores centi) = normCenti c centi := by
  simp only [Gen.tr_GSR_centi, normCenti, capTo, beq_iff_eq, decide_eq_true_eq]
  repeat' split
  all_goals first | rfl | omega

/-- `if memMb == 0 {…} else if memMb < 0 {adaptive}` -/
theorem tr_GSR_mem_eq_model (c : LocalCfg) (memCur m : Int) :
    Gen.tr_GSR_mem c.memGBPerJob memCur m = reqMem0 c memCur m := by
  simp only [Gen.tr_GSR_mem, reqMem0, adaptive, beq_iff_eq, decide_eq_true_eq, Bool.or_eq_true]
  repeat' split
  all_goals first | rfl | omega

/-- vmem default, adaptive vmem, the memory cap, the vmem cap, vmem ≥ mem –
five statements in source order -/
theorem tr_GSR_vmem_eq_model (c : LocalCfg) (vmemCur mem0 v : Int) :
    Gen.tr_GSR_vmem c.extraVmemGB (decide (c.maxVmemMB > 0)) vmemCur c.maxMemGB c.maxVmemMB mem0 v =
      (capTo (c.maxMemGB * 1024) mem0,
       reqV3 (capTo (c.maxMemGB * 1024) mem0) (reqV2 c (reqV1 c vmemCur (reqV0 c mem0 v)))) := by
  simp only [Gen.tr_GSR_vmem, capTo, reqV0, reqV1, reqV2, reqV3, adaptive, beq_iff_eq, decide_eq_true_eq,
    Bool.or_eq_true, Bool.and_eq_true]
  repeat' split
  all_goals first | rfl | (simp_all; done) | (simp_all; omega) | omega

/-- the three translated fragments, composed, ARE `normalize` -/
theorem tr_GSR_normalize (c : LocalCfg) (memCur vmemCur : Int) (r : Req) :
    normalize c memCur vmemCur r =
      let mv := Gen.tr_GSR_vmem c.extraVmemGB (decide (c.maxVmemMB > 0)) vmemCur c.maxMemGB c.maxVmemMB
        (Gen.tr_GSR_mem c.memGBPerJob memCur r.memMb) r.vmemMb
      ⟨capTo (c.maxCores * 100) (Gen.tr_GSR_centi c.threadsPerJob c.maxCores r.centi), mv.1, mv.2⟩ := by
  simp only [tr_GSR_vmem_eq_model, tr_GSR_mem_eq_model, tr_GSR_centi_eq_model, normalize]

example :
    let c : LocalCfg := { maxCores := 4, maxMemGB := 8, maxVmemMB := 0, threadsPerJob := 1, memGBPerJob := 2, extraVmemGB := 3 }
    Gen.tr_GSR_centi c.threadsPerJob c.maxCores 0 = 100 ∧ Gen.tr_GSR_centi c.threadsPerJob c.maxCores (-1) = 400 ∧
    Gen.tr_GSR_mem c.memGBPerJob 5000 (-1024) = 5000 ∧ Gen.tr_GSR_mem c.memGBPerJob 500 (-1024) = 1024 ∧
    Gen.tr_GSR_vmem c.extraVmemGB false 0 c.maxMemGB c.maxVmemMB 9000 0 = (8192, 12072) := by decide

/-- FAIL CLOSED (second audit pass, X2/X3): the tie theorems of this file are about the
definition(s) TRANSLATED FROM THE TREE UNDER TEST, not about the committed default the
extractor falls back to when the source leaves the translated subset – in that
case this obligation breaks and `./check` reports it (besides the note). -/
theorem translated_from_tree_under_test : Gen.tr_GSR_centi_extracted = true ∧ Gen.tr_GSR_mem_extracted = true ∧ Gen.tr_GSR_vmem_extracted = true := by decide

end Props.C12
