/-
C13 — final outputs are materialised faithfully under outs/.
PROPERTY THEOREMS ONLY (helper lemmas live in Proofs/PostProcess*.lean).
The model is `Martian.PostProcess` (post_process.go); `Gen.postProcessDimAware`
is regenerated from `moveOutArrayDir` in the working tree on every run.
-/
import Martian.PostProcess
import Proofs.PostProcess
import Proofs.PostProcessWriter
import Proofs.PostProcessShape
import Proofs.PostProcessNames
import Proofs.PostProcessLeaves
import Proofs.PostProcessDests
import Proofs.PostProcessContent
import Proofs.PostProcessAlias
import Proofs.PostProcessMapped
import Proofs.PostProcessChecked
import Proofs.PostProcessAtomic
import Proofs.PostProcessRecord
import Proofs.PostProcessGate
import Proofs.PostProcessMappedContent
import Gen.Facts

namespace Props.C13
open Martian.PostProcess

/-- Regenerated obligation: `moveOutArrayDir` in the current source hands the
elements of a multi-dimensional array down as arrays of one dimension less
(not as values of the base element type).  Fails on a tree with defect F5. -/
theorem dim_aware : Gen.postProcessDimAware = true := by decide

/-- Every regenerated fact this file is stated against WAS extracted from the
working tree (the extractor falls back to a committed default when its source
pattern is not found; a defeated pattern must show up as a broken obligation,
not as a note).  `dim_aware` and `restart_recovers_moved_outputs` are also
covered behaviourally (multi-dimensional arrays in every stream; the crash
streams); the writer / ordering / fork-directory facts restate this in their
own statements because they are the only tie for what they say. -/
theorem regenerated_facts_extracted :
    Gen.postProcessDimAware_extracted = true ∧ Gen.postProcessRecoversMoved_extracted = true ∧
    Gen.postProcessOutsWriters_extracted = true ∧ Gen.writeAtomicSteps_extracted = true ∧
    Gen.postProcessForkDirs_extracted = true ∧ Gen.allOutsWriters_extracted = true ∧
    Gen.postProcessMappedKeyCheck_extracted = true ∧ Gen.postProcessIllegalKeyIsError_extracted = true := by decide

/-- The TRANSLATED source terms the ties of Props/C13Tie.lean are stated against
(`Gen.tr_GetOutFilename`; `Gen.tr_IsLegalUnixFilename` for `legalName`) were
really translated from the working tree on this run, not taken from a
committed fall-back.  (Behavioural tie, independent of the translator: the
names stream calls the real `GetOutFilename` on ~500 run-time keys per run and
compares with `outFilename`.) -/
theorem translated_ties_extracted :
    Gen.tr_GetOutFilename_extracted = true ∧ Gen.tr_IsLegalUnixFilename_extracted = true := by decide

/-! ### result_wellformed -/

/-- The hand-built writer (`[` … `,` … `]`, `[]`, `{"k":` … `,` … `}`, `{}`
around atomic fragments) emits, for EVERY result tree — any nesting, any
emptiness — a token stream that a JSON parser reads back as exactly that tree. -/
theorem result_wellformed (t : J) : parse (emit t) = some t := parse_emit t

/-- non-vacuity: nested empties and one-element containers -/
example : parse (emit (.obj [("a", .arr []), ("b", .obj []), ("c", .arr [.arr [], .null, .obj [("k", .str "p")]])]))
    = some (.obj [("a", .arr []), ("b", .obj []), ("c", .arr [.arr [], .null, .obj [("k", .str "p")]])]) :=
  result_wellformed _

/-! ### content_preserved (one leaf: full; whole traversal: see the comment) -/

/-- One file leaf.  A regular file or directory `p` inside the pipestance whose
destination `outs/name` is free: the recorded value becomes the destination
path; the destination holds exactly what the source held (`∀ suf`: the whole
tree below it, for directories); the source becomes a relative symlink to the
destination; and nothing else changes (paths not under the source, not under
the destination, not ancestors of the outs directory).

This is the statement for ONE leaf operation in the file system state in which
it runs; `content_preserved` below is the statement for the whole traversal. -/
theorem content_preserved_leaf (ps outs : Path) (name s : String) (p : Path) (e : Entry) (fs : FS)
    (hs : s ≠ "") (hp : parsePath s = some p) (he : fs.get p = some e) (hl : e.isLink = false)
    (hin : inside ps p = true) (hfree : statExists fs statFuel (outs ++ [name]) = false)
    (hsrc : isPrefix p outs = false) (hdst : isPrefix (outs ++ [name]) p = false) :
    (moveOutFile ps outs name (.str s) fs).1 = .str (renderPath (outs ++ [name])) ∧
    (∀ suf, (moveOutFile ps outs name (.str s) fs).2.get ((outs ++ [name]) ++ suf) = fs.get (p ++ suf)) ∧
    (moveOutFile ps outs name (.str s) fs).2.get p =
      some (.link (.rel (relPath p.dropLast (outs ++ [name])))) ∧
    (∀ q, isPrefix p q = false → isPrefix (outs ++ [name]) q = false → isPrefix q outs = false →
      (moveOutFile ps outs name (.str s) fs).2.get q = fs.get q) := by
  obtain ⟨h1, h2, h3⟩ := moveOutFile_moved ps outs name s p e fs hs hp he hl hin hfree hsrc hdst
  exact ⟨h1, h2, h3, fun q a b c =>
    moveOutFile_moved_frame ps outs name s p e fs hs hp he hl hin hfree q a b c⟩

/-- non-vacuity: the hypotheses are satisfiable (a file under the pipestance, outs/ empty) -/
example : ("/ps/MK/files/f" : String) ≠ "" ∧ parsePath "/ps/MK/files/f" = some ["ps", "MK", "files", "f"] ∧
    exFS.get ["ps", "MK", "files", "f"] = some (.file 7) ∧ (Entry.file 7).isLink = false ∧
    inside ["ps"] ["ps", "MK", "files", "f"] = true ∧
    statExists exFS statFuel (["ps", "outs"] ++ ["f.txt"]) = false ∧
    isPrefix ["ps", "MK", "files", "f"] ["ps", "outs"] = false ∧
    isPrefix (["ps", "outs"] ++ ["f.txt"]) ["ps", "MK", "files", "f"] = false := by decide

/-- A file that does not exist (the stage did not create it), and whose
destination under outs/ holds nothing, is recorded as null and the file system
is untouched. -/
theorem missing_is_null (ps outs : Path) (name s : String) (p : Path) (fs : FS)
    (hs : s ≠ "") (hp : parsePath s = some p) (hnone : fs.get p = none)
    (hfree : fs.get (outs ++ [name]) = none) :
    moveOutFile ps outs name (.str s) fs = (.null, fs) :=
  moveOutFile_missing ps outs name s p fs hs hp hnone hfree

/-- Regenerated obligation: in the current source the "recorded path does not
exist" branch of `moveOutFile` first tries to recover a file that an
interrupted earlier post-process had already moved to outs/ (defect F22,
repaired); on a tree where it only reports null this fails. -/
theorem restart_recovers_moved_outputs : Gen.postProcessRecoversMoved = true := by decide

/-- Restart after a kill between the rename into outs/ and leaving the symlink
behind (F22, repaired): the recorded path holds nothing, but it lies inside the
pipestance and its destination already holds a file or directory.  The output
is NOT reported as null: the recorded value becomes the destination and the
link back is put in place now; the destination itself is untouched. -/
theorem missing_but_moved_is_recovered (ps outs : Path) (name s : String) (p : Path) (e : Entry) (fs : FS)
    (hs : s ≠ "") (hp : parsePath s = some p) (hnone : fs.get p = none) (hin : inside ps p = true)
    (hd : fs.get (outs ++ [name]) = some e) (hl : e.isLink = false) :
    moveOutFile ps outs name (.str s) fs =
      (.str (renderPath (outs ++ [name])),
        symlinkAt fs p (.rel (relPath p.dropLast (outs ++ [name])))) :=
  moveOutFile_recovered ps outs name s p e fs hs hp hnone hin hd hl

example : parsePath "/ps/MK/files/nope" = some ["ps", "MK", "files", "nope"] ∧
    exFS.get ["ps", "MK", "files", "nope"] = none ∧ exFS.get (["ps", "outs"] ++ ["nope"]) = none := by decide

/-- A regular file or directory outside the pipestance stays where it is, its
recorded value is unchanged, and outs/name becomes a symlink to it. -/
theorem outside_unchanged (ps outs : Path) (name s : String) (p : Path) (e : Entry) (fs : FS)
    (hs : s ≠ "") (hp : parsePath s = some p) (he : fs.get p = some e) (hl : e.isLink = false)
    (hout : inside ps p = false) :
    (moveOutFile ps outs name (.str s) fs).1 = .str s ∧
    (moveOutFile ps outs name (.str s) fs).2.get p = some e ∧
    ((mkdirAll fs outs).get (outs ++ [name]) = none →
      (moveOutFile ps outs name (.str s) fs).2.get (outs ++ [name]) = some (.link (.abs p))) :=
  moveOutFile_outside ps outs name s p e fs hs hp he hl hout

example : inside ["ps"] ["etc", "hostname"] = false := by decide

/-! ### shape_preserved -/

/-- Null stays null and a value whose type contains no file type is copied
verbatim, at every type, and neither touches the file system. -/
theorem shape_null_and_nonfile (ps : Path) (ty : Ty) (id on : String) (v : J) (outs : Path) (fs : FS) :
    moveOut Gen.postProcessDimAware ps ty id on .null outs fs = (.null, fs) ∧
    (hasFile ty = false → moveOut Gen.postProcessDimAware ps ty id on v outs fs = (v, fs)) :=
  ⟨handler_null _ ps ty id on outs fs, handler_nofile _ ps ty id on v outs fs⟩

example : hasFile (.struct [("n", "", .scalar), ("xs", "", .arr .scalar 1)]) = false := by decide

/-- A file leaf becomes null, stays as it is, or becomes a path string —
never anything else. -/
theorem shape_leaf (ps outs : Path) (name : String) (v : J) (fs : FS) :
    (moveOutFile ps outs name v fs).1 = .null ∨ (moveOutFile ps outs name v fs).1 = v ∨
      ∃ s, (moveOutFile ps outs name v fs).1 = .str s :=
  moveOutFile_shape ps outs name v fs

/-- `shape_preserved`, full recursive statement.  For every type, member,
value, outs directory and file system, the rewritten value has the shape of
the input at that type (`Martian.PostProcess.Shape`, by recursion on the type):
non-file values are equal; a file leaf is null, unchanged or a path string; an
array (any number of dimensions) stays an array of the same length with
elements related pointwise; a typed map becomes an object whose keys are the
sorted legal keys of the input (illegal file names are dropped), values related
key by key; a struct becomes an object whose keys are exactly the sorted member
ids (an absent key reads as null, undeclared keys are dropped), values related
member by member; null and ill-typed values are returned unchanged.
Stated for the code as regenerated (`Gen.postProcessDimAware`, see `dim_aware`). -/
theorem shape_preserved (ps : Path) (ty : Ty) (id on : String) (v : J) (outs : Path) (fs : FS) :
    Shape ty v (moveOut Gen.postProcessDimAware ps ty id on v outs fs).1 := by
  rw [dim_aware]
  exact handler_shape ps ty id on v outs fs

/-- what `Shape` says for `file[][]`: same lengths at both levels, leaves as in `shape_leaf` -/
example : Shape (.arr (.file "") 1) (.arr [.arr [.str "/ps/a", .str "/ps/b"], .null])
    (.arr [.arr [.str "/ps/outs/r/0/0", .null], .null]) := by
  simp only [Shape, hasFile, if_true, ShapeArr]
  refine ⟨_, rfl, .cons ⟨_, rfl, .cons (Or.inr (Or.inr ⟨_, rfl⟩)) (.cons (Or.inl rfl) .nil)⟩ (.cons ?_ .nil)⟩
  rfl

/-- One level of the recursion keeps the container's shape whatever the
handlers below do (also true for the code before the F5 repair): an array stays
an array of the same length; a typed map becomes an object whose keys are the
sorted legal keys of the input; a non-empty struct value becomes an object
whose keys are the sorted member ids. -/
theorem shape_level (da : Bool) (h : Handler) (k : Nat) (xs : List J) (kvs : List (String × J))
    (kv : String × J) (hs : MemberHandlers) (o : Path) (fs : FS) :
    (∃ ys, (arrLevel da h k (.arr xs) o fs).1 = .arr ys ∧ ys.length = xs.length) ∧
    (∃ kvs', (mapLevel h (.obj kvs) o fs).1 = .obj kvs' ∧
      kvs'.map Prod.fst = sortStrings (dedup ((kvs.map Prod.fst).filter legalName))) ∧
    (∃ kvs', (structLevel hs (.obj (kv :: kvs)) o fs).1 = .obj kvs' ∧
      kvs'.map Prod.fst = sortStrings (hs.map Prod.fst)) :=
  ⟨arrLevel_shape da h k xs o fs, mapLevel_keys h kvs o fs, structLevel_keys hs kv kvs o fs⟩

/-! ### dest_injective (sibling level) -/

/-- The children of one directory under outs/ get pairwise distinct names, and
distinct names give disjoint sub-trees:
(1) the zero-padded names of the elements of an array of length `n` are
    distinct for distinct indices;
(2) if the compile-time check `noDupNames` (the decidable mirror of
    `StructType.compile`'s DuplicateNameError, compared with the real compiler
    by the harness) accepts a member list, the output file names of its
    file-typed members are pairwise distinct;
(3) paths below `outs/n1` and `outs/n2` coincide only if `n1 = n2`.

These are the sibling-level facts; `dest_injective` below composes them along the type. -/
theorem dest_injective_siblings :
    (∀ n i j, i < n → j < n → pad (width n) i = pad (width n) j → i = j) ∧
    (∀ ms, noDupNames ms [] = true → (memberNames ms).Nodup) ∧
    (∀ (outs : Path) n1 n2 (s1 s2 : Path), (outs ++ [n1]) ++ s1 = (outs ++ [n2]) ++ s2 → n1 = n2) :=
  ⟨array_names_distinct, fun ms h => (noDupNames_sound ms [] h).1, sibling_subtrees_disjoint⟩

/-- non-vacuity / the check at work: `txt a` and `file b "help" "a.txt"` collide, `txt a` and `file a2` do not -/
example : noDupNames [("a", "", .file "txt"), ("b", "a.txt", .file "")] [] = false ∧
    noDupNames [("a", "", .file "txt"), ("a2", "", .file ""), ("n", "", .scalar)] [] = true := by decide

example : pad (width 12) 3 = "03" ∧ pad (width 12) 11 = "11" := by decide

/-- The name derived for an entry of a typed map (or an element of an array:
no explicit out name) is an INJECTIVE function of the key, for every element
type and all strings — keys are run-time data, the compile-time duplicate
check cannot see them: distinct keys of one map never share a file or directory
under outs/.  (A naming function that is not injective on keys makes
`moveOutFile` take its "already moved" exit for the second key.)  The harness
calls the real `GetOutFilename` on generated run-time keys (`k`, `k.<ext>`,
`k.`, `.<ext>`, several dots, case variants, element-like names), compares it
with `outFilename` and checks this injectivity on the real function. -/
theorem map_entry_names_injective (e : Ty) (k1 k2 : String)
    (h : outFilename e k1 "" = outFilename e k2 "") : k1 = k2 := outFilename_inj e k1 k2 h

example : outFilename (.file "txt") "report" "" = "report.txt" ∧
    outFilename (.file "txt") "report.txt" "" = "report.txt.txt" ∧
    outFilename (.file "") "report.txt" "" = "report.txt" ∧
    outFilename (.arr (.file "txt") 0) "report.txt" "" = "report.txt" := by decide

/-! ### dest_injective and content_preserved for a whole output record -/

/-- GLOBAL `dest_injective`.  For a signature that passed the compiler's checks
(`wfParams`: distinct ids and distinct output file names among the out params
and in every struct reachable from them), take ANY `_outs` record and outs
directory.  The `moveOutFile` calls of the traversal are exactly the list
`leavesRec params outs top` (third conjunct: the file-system effect of
`handleOuts` is the left fold of `moveOutFile` over that list), and their
destinations are pairwise INCOMPARABLE — no destination is a prefix of another,
in particular they are pairwise distinct.  Composed along the type: array
indices via `pad`/`width`, sorted de-duplicated legal map keys, struct member
file names under `noDupNames`. -/
theorem dest_injective (params : List (String × String × Ty)) (outs : List (String × J)) (top : Path)
    (h : wfParams params = true) :
    (leavesRec params outs top).Pairwise LeafIncomp ∧
    ((leavesRec params outs top).map Leaf.dest).Nodup ∧
    (∀ ps fs, (handleOuts Gen.postProcessDimAware ps params outs top fs).2 =
      runLeaves ps (leavesRec params outs top) fs) := by
  refine ⟨leavesRec_pairwise params outs top h,
    pairwise_incomp_nodup (leavesRec_pairwise params outs top h), fun ps fs => ?_⟩
  rw [dim_aware]
  exact handleOuts_run ps params outs top fs

/-- non-vacuity: a signature with a nested struct, a 2-dimensional array and a typed map is well formed;
one with two members writing `a.txt` is not -/
example : wfParams [("s", "", .struct [("f", "", .file "txt"), ("g", "out.bin", .file ""), ("n", "", .scalar)]),
      ("r", "", .arr (.file "") 1), ("m", "", .tmap (.arr (.file "bam") 0))] = true ∧
    wfParams [("a", "", .file "txt"), ("b", "a.txt", .file "")] = false := by decide

/-- GLOBAL `content_preserved`.  Whole record, well-formed signature, any
`_outs`.  If the sources named by the file leaves are pairwise non-nested
(`nonnest`), none of them is an ancestor of the outs directory or lies under it
(`apart`), each is missing or a regular file/directory inside the pipestance
(`status`), and nothing occupies a destination yet (`free`), then after
`processStructOuts` the destination of EVERY leaf whose source existed holds
exactly the tree that was at its source (`∀ suf`).
The destinations' incomparability and their position below outs/ are not
assumed: they are `dest_injective` and `leavesRec_under`.
Without `nonnest` the statement is false (`overlapping_outputs_not_preserved`). -/
theorem content_preserved (ps top : Path) (fs : FS) (params : List (String × String × Ty))
    (outs : List (String × J)) (hwf : wfParams params = true)
    (apart : ∀ l ∈ leavesRec params outs top, ∀ p, l.src = some p → ¬ p <+: top ∧ ¬ top <+: p)
    (nonnest : (leavesRec params outs top).Pairwise (fun l1 l2 => ∀ p1 p2, l1.src = some p1 →
      l2.src = some p2 → ¬ p1 <+: p2 ∧ ¬ p2 <+: p1))
    (status : ∀ l ∈ leavesRec params outs top, ∀ p, l.src = some p →
      fs.get p = none ∨ ∃ e, fs.get p = some e ∧ e.isLink = false ∧ inside ps p = true)
    (free : ∀ l ∈ leavesRec params outs top, fs.get l.dest = none)
    (l : Leaf) (hl : l ∈ leavesRec params outs top) (p : Path) (e : Entry)
    (hsrc : l.src = some p) (he : fs.get p = some e) (suf : Path) :
    (processStructOuts Gen.postProcessDimAware ps params (.obj outs) top fs).2.get (l.dest ++ suf)
      = fs.get (p ++ suf) := by
  rw [dim_aware]
  exact content_preserved_record ps top fs params outs
    (clean_record ps top fs params outs hwf apart nonnest status free) l hl p e hsrc he suf

/-- non-vacuity: the hypotheses hold for `out txt a` bound to an existing file under the pipestance -/
example : Clean ["ps"] ["ps", "outs"] exFS
    (leavesRec [("a", "", .file "txt")] [("a", .str "/ps/MK/files/f")] ["ps", "outs"]) := by
  have hl : leavesRec [("a", "", .file "txt")] [("a", .str "/ps/MK/files/f")] ["ps", "outs"]
      = [⟨.str "/ps/MK/files/f", ["ps", "outs"], "a.txt"⟩] := by rfl
  have hs : Leaf.src ⟨.str "/ps/MK/files/f", ["ps", "outs"], "a.txt"⟩ = some ["ps", "MK", "files", "f"] := by
    decide
  apply clean_record _ _ _ _ _ (by decide) <;> rw [hl]
  · intro l hm p hp
    rw [List.mem_singleton.mp hm, hs] at hp
    cases hp
    decide
  · exact List.pairwise_singleton _ _
  · intro l hm p hp
    rw [List.mem_singleton.mp hm, hs] at hp
    cases hp
    exact Or.inr ⟨.file 7, by decide, by decide, by decide⟩
  · intro l hm
    rw [List.mem_singleton.mp hm]
    decide

/-- The side conditions of `content_preserved` (`apart`, `nonnest`, `status`,
`free`) as ONE decidable check: `cleanB` is sound for `Clean`.  The driver
evaluates `wfParams` and `cleanB` on every real input of the direct stream; the
harness counts how often they held and raises a correspondence violation when
they fail on a run whose leaves are all missing or regular files/directories
inside the pipestance (the runs the manifest says the global theorem covers). -/
theorem clean_check_sound (ps top : Path) (fs : FS) (params : List (String × String × Ty))
    (outs : List (String × J)) (hwf : wfParams params = true)
    (h : cleanB ps top fs (leavesRec params outs top) = true) :
    Clean ps top fs (leavesRec params outs top) := cleanB_sound ps top fs params outs hwf h

/-- non-vacuity of GLOBAL `content_preserved` on a record with struct + multi-dimensional array +
typed map, six leaves, a directory output and a missing file: the signature is well formed and
ALL side conditions (`Clean`: pairwise non-nested sources, apart from outs/, status, free
destinations) hold, by evaluation of the decidable check. -/
example : wfParams exSig3 = true ∧
    cleanB ["ps"] ["ps", "outs"] exFS3 (leavesRec exSig3 exOuts3 ["ps", "outs"]) = true ∧
    (leavesRec exSig3 exOuts3 ["ps", "outs"]).length = 6 := by decide

example : Clean ["ps"] ["ps", "outs"] exFS3 (leavesRec exSig3 exOuts3 ["ps", "outs"]) :=
  clean_check_sound _ _ _ _ _ (by decide) (by decide)

/-- … and the theorem instantiated on it: after `processStructOuts` of the whole record the file
INSIDE the directory output `r[0][0]` is at `outs/r/0/0/inner`, and the map entry `m.k1[0]` is at
`outs/m/k1/0.bam`, with the contents the stage wrote. -/
example :
    (processStructOuts Gen.postProcessDimAware ["ps"] exSig3 (.obj exOuts3) ["ps", "outs"] exFS3).2.get
      ["ps", "outs", "r", "0", "0", "inner"] = some (.file 3) ∧
    (processStructOuts Gen.postProcessDimAware ["ps"] exSig3 (.obj exOuts3) ["ps", "outs"] exFS3).2.get
      ["ps", "outs", "m", "k1", "0.bam"] = some (.file 5) := by
  have hc := clean_check_sound ["ps"] ["ps", "outs"] exFS3 exSig3 exOuts3 (by decide) (by decide)
  have hl : leavesRec exSig3 exOuts3 ["ps", "outs"] =
      [⟨.str "/ps/MK/files/sf", ["ps", "outs", "s"], "f.txt"⟩, ⟨.str "/ps/MK/files/sg", ["ps", "outs", "s"], "out.bin"⟩,
       ⟨.str "/ps/MK/files/d", ["ps", "outs", "r", "0"], "0"⟩, ⟨.str "/ps/MK/files/nope", ["ps", "outs", "r", "0"], "1"⟩,
       ⟨.str "/ps/MK/files/r11", ["ps", "outs", "r", "1"], "1"⟩,
       ⟨.str "/ps/MK/files/m0", ["ps", "outs", "m", "k1"], "0.bam"⟩] := by rfl
  constructor
  · have := content_preserved ["ps"] ["ps", "outs"] exFS3 exSig3 exOuts3 (by decide) hc.apart hc.nonnest
      hc.status hc.free ⟨.str "/ps/MK/files/d", ["ps", "outs", "r", "0"], "0"⟩ (by rw [hl]; simp)
      ["ps", "MK", "files", "d"] .dir (by decide) (by decide) ["inner"]
    have h3 : exFS3.get ["ps", "MK", "files", "d", "inner"] = some (.file 3) := by decide
    rw [← h3]
    simpa [Leaf.dest] using this
  · have := content_preserved ["ps"] ["ps", "outs"] exFS3 exSig3 exOuts3 (by decide) hc.apart hc.nonnest
      hc.status hc.free ⟨.str "/ps/MK/files/m0", ["ps", "outs", "m", "k1"], "0.bam"⟩ (by rw [hl]; simp)
      ["ps", "MK", "files", "m0"] (.file 5) (by decide) (by decide) []
    have h5 : exFS3.get ["ps", "MK", "files", "m0"] = some (.file 5) := by decide
    rw [← h5]
    simpa [Leaf.dest] using this

/-- GLOBAL `content_preserved`, the RECORD half ("those values point at the
materialised locations").  Same hypotheses as `content_preserved`.  The
rewritten record is EXACTLY the input record with every file leaf replaced by
`expectVal fs leaf` (`pureOuts`: the traversal with the leaf calls answered by
that function, no file system involved): the path string of the leaf's
destination when its source existed, null when the source is missing (or the
value is the empty string / not an absolute path), the value itself when it is
not a string; everything that is not a file leaf as `shape_preserved` says.
Together with `content_preserved`: every recorded path names the destination
that holds the leaf's content. -/
theorem content_preserved_record (ps top : Path) (fs : FS) (params : List (String × String × Ty))
    (outs : List (String × J)) (hwf : wfParams params = true)
    (apart : ∀ l ∈ leavesRec params outs top, ∀ p, l.src = some p → ¬ p <+: top ∧ ¬ top <+: p)
    (nonnest : (leavesRec params outs top).Pairwise (fun l1 l2 => ∀ p1 p2, l1.src = some p1 →
      l2.src = some p2 → ¬ p1 <+: p2 ∧ ¬ p2 <+: p1))
    (status : ∀ l ∈ leavesRec params outs top, ∀ p, l.src = some p →
      fs.get p = none ∨ ∃ e, fs.get p = some e ∧ e.isLink = false ∧ inside ps p = true)
    (free : ∀ l ∈ leavesRec params outs top, fs.get l.dest = none) :
    (processStructOuts Gen.postProcessDimAware ps params (.obj outs) top fs).1 =
      .obj (pureOuts (expectVal fs) params outs top) := by
  rw [dim_aware]
  exact record_values ps top fs params outs (clean_record ps top fs params outs hwf apart nonnest status free)

/-- what `expectVal` says, leaf by leaf -/
example :
    expectVal exFS3 ⟨.str "/ps/MK/files/d", ["ps", "outs", "r", "0"], "0"⟩ = .str "/ps/outs/r/0/0" ∧
    expectVal exFS3 ⟨.str "/ps/MK/files/nope", ["ps", "outs", "r", "0"], "1"⟩ = .null ∧
    expectVal exFS3 ⟨.str "", ["ps", "outs"], "x"⟩ = .null ∧
    expectVal exFS3 ⟨.lit "17", ["ps", "outs"], "x"⟩ = .lit "17" := by
  refine ⟨?_, ?_, ?_, ?_⟩ <;> rfl

/-- … and the whole rewritten record of the six-leaf example (as the writer's token stream):
struct members, the directory and the missing file in the 2-dimensional array, the map entry. -/
example :
    emit (processStructOuts Gen.postProcessDimAware ["ps"] exSig3 (.obj exOuts3) ["ps", "outs"] exFS3).1 =
    emit (.obj [("s", .obj [("f", .str "/ps/outs/s/f.txt"), ("g", .str "/ps/outs/s/out.bin"), ("n", .lit "3")]),
      ("r", .arr [.arr [.str "/ps/outs/r/0/0", .null], .arr [.null, .str "/ps/outs/r/1/1"]]),
      ("m", .obj [("b", .arr []), ("k1", .arr [.str "/ps/outs/m/k1/0.bam"])])]) := by
  have hc := clean_check_sound ["ps"] ["ps", "outs"] exFS3 exSig3 exOuts3 (by decide) (by decide)
  rw [content_preserved_record ["ps"] ["ps", "outs"] exFS3 exSig3 exOuts3 (by decide) hc.apart hc.nonnest
    hc.status hc.free]
  decide

/-- Negative witness (known finding `C13:overlapping-outputs`, in the model):
a directory output `d` and a file output `f` naming `d/inner`.  The sources are
nested, and after the traversal `outs/f` does NOT hold the content of
`d/inner` (in the model the inner file has moved away with its directory; the
real code reaches it through the symlink it left behind and breaks `outs/d`
instead — the harness replays that on the real code). -/
theorem overlapping_outputs_not_preserved :
    let fs : FS := { get := fun q => if q = ["ps", "MK", "files", "d", "inner"] then some (.file 12)
                       else if q = ["ps", "MK", "files", "d"] then some .dir else none, dom := [] }
    (processStructOuts true ["ps"] [("d", "", .file ""), ("f", "", .file "")]
        (.obj [("d", .str "/ps/MK/files/d"), ("f", .str "/ps/MK/files/d/inner")]) ["ps", "outs"] fs).2.get
        ["ps", "outs", "f"] ≠ fs.get ["ps", "MK", "files", "d", "inner"] := by decide

/-! ### one file bound to two outputs -/

/-- The second occurrence of a file that has already been moved to `d1`
(so the path is now the relative link back): its recorded value is `d1`, the
location of the FIRST output, and its own derived path `outs2/name2` becomes a
relative symlink to `d1`.  Guaranteed: the value points at a materialised
location holding the producer's content, and the content is reachable at the
output's own derived path.  NOT guaranteed: recorded value = own derived path
(known finding `C13:alias-record-points-at-first`). -/
theorem alias_second_output (ps outs2 : Path) (name2 s : String) (p d1 : Path) (e : Entry) (fs1 : FS)
    (hs : s ≠ "") (hp : parsePath s = some p)
    (hlink : fs1.get p = some (.link (.rel (relPath p.dropLast d1))))
    (hd1 : fs1.get d1 = some e) (hl : e.isLink = false)
    (hclean : ∀ c ∈ d1, cleanComp c = true)
    (hin : inside ps p = true)
    (hfree : statExists (mkdirAll fs1 outs2) statFuel (outs2 ++ [name2]) = false) :
    moveOutFile ps outs2 name2 (.str s) fs1 =
      (.str (renderPath d1),
        symlinkAt (mkdirAll fs1 outs2) (outs2 ++ [name2])
          (.rel (relPath (outs2 ++ [name2]).dropLast d1))) :=
  moveOutFile_alias ps outs2 name2 s p d1 e fs1 hs hp hlink hd1 hl hclean hin hfree

/-- the whole scenario, concretely: `r0 = f, r1 = f` -/
example :
    let r := handleOuts true ["ps"] [("r0", "", .file ""), ("r1", "", .file "")]
      [("r0", .str "/ps/MK/files/f"), ("r1", .str "/ps/MK/files/f")] ["ps", "outs"] exFS
    r.1.map (fun kv => (kv.1, kv.2.strVal)) = [("r0", some "/ps/outs/r0"), ("r1", some "/ps/outs/r0")] ∧
    r.2.get ["ps", "outs", "r0"] = some (.file 7) ∧
    r.2.get ["ps", "outs", "r1"] = some (.link (.rel ["r0"])) ∧
    r.2.get ["ps", "MK", "files", "f"] = some (.link (.rel ["..", "..", "outs", "r0"])) := by decide

/-! ### whole records and mapped top-level calls -/

/-- `shape_preserved` for a whole record: the rewritten record has exactly the
declared parameters present in `_outs`, in declaration order, each value of the
shape of the input value at the parameter's type. -/
theorem shape_preserved_record (ps : Path) (params : List (String × String × Ty)) (x : J) (top : Path)
    (fs : FS) : ShapeFork params x (processStructOuts Gen.postProcessDimAware ps params x top fs).1 := by
  rw [dim_aware]
  exact processStructOuts_shape ps params x top fs

/-- `shape_preserved` for a top-level call mapped over an array (`postArray`:
one record per fork, as many forks as before, fork `i` under `outs/<i>`) and
over a typed map (`postMap`: the same fork keys in the same order). -/
theorem shape_preserved_mapped (ps : Path) (params : List (String × String × Ty)) (top : Path) (fs : FS) :
    (∀ xs, All2 (ShapeFork params) xs (postArray Gen.postProcessDimAware ps params top 0 xs fs).1) ∧
    (∀ kvs, (postMap Gen.postProcessDimAware ps params top kvs fs).1.map Prod.fst = kvs.map Prod.fst ∧
      All2 (ShapeFork params) (kvs.map Prod.snd)
        ((postMap Gen.postProcessDimAware ps params top kvs fs).1.map Prod.snd)) := by
  rw [dim_aware]
  exact ⟨fun xs => postArray_shape ps params top 0 xs fs, fun kvs => postMap_shape ps params top kvs fs⟩

example (xs ys : List J) (R : J → J → Prop) (h : All2 R xs ys) : ys.length = xs.length := h.length_eq

/-! ### the verification gate makes the legal-key filter dead code -/

/-- A fork completes only when its outputs pass output verification; for typed
maps `TypedMapType.IsValidJson` demands legal file names as keys exactly when
the map is a directory kind (`keysVerified`, compared with the real
`ValidateOutputs` on every input of the direct stream).  For a value that
passed the gate, `moveOutDir`'s filter "skip keys that are not legal file
names" drops NOTHING: at every typed-map node of directory kind, at every
depth (through arrays of any dimension, structs, maps of maps), the rewritten
value has ALL the (sorted, de-duplicated) keys of the input (`AllKeysKept`;
`shape_preserved` alone only promises the LEGAL keys).  So a completed
pipestance never loses an entry — provided the gate really checks what
`keysVerified` says; weakening the gate breaks the correspondence and the
monitor's "same keys" check on the real code. -/
theorem verified_outputs_keep_all_keys (ps : Path) (ty : Ty) (id on : String) (v : J) (outs : Path) (fs : FS)
    (hv : keysVerified ty v = true) :
    AllKeysKept ty v (moveOut Gen.postProcessDimAware ps ty id on v outs fs).1 :=
  allKeysKept_of_shape ty v _ hv (shape_preserved ps ty id on v outs fs)

/-- non-vacuity: a map of structs with files under legal keys passes the gate; with a key `a/b`,
`..` or the empty string it does not; a map of plain numbers may have any keys -/
example :
    keysVerified (.tmap (.struct [("n", "", .scalar), ("report", "", .file "txt")]))
      (.obj [("s1", .obj [("n", .lit "1"), ("report", .str "/ps/f")]), ("report.txt", .null)]) = true ∧
    keysVerified (.tmap (.struct [("n", "", .scalar), ("report", "", .file "txt")]))
      (.obj [("a/b", .obj [("n", .lit "1"), ("report", .str "/ps/f")])]) = false ∧
    keysVerified (.tmap (.arr (.file "") 0)) (.obj [("..", .arr [])]) = false ∧
    keysVerified (.arr (.tmap (.file "bam")) 1) (.arr [.arr [.obj [("", .null)]]]) = false ∧
    keysVerified (.tmap .scalar) (.obj [("a/b", .lit "1"), ("", .lit "2")]) = true := by decide

/-- Negative witness (why the gate matters): an UNVERIFIED value — `map<STRUCT>` with the keys
`a/b` and `ok` — loses the entry `a/b` in the rewritten value, whatever the file system: its
non-file member `n` is gone from the record and its file is never looked at. -/
theorem unverified_key_is_dropped (fs : FS) :
    (match (moveOut true ["ps"] (.tmap (.struct [("n", "", .scalar), ("report", "", .file "txt")])) "m" ""
        (.obj [("a/b", .obj [("n", .lit "1"), ("report", .null)]), ("ok", .obj [("n", .lit "2"), ("report", .null)])])
        ["ps", "outs"] fs).1 with
     | .obj kvs => kvs.map Prod.fst
     | _ => []) = ["ok"] := by rfl

/-! ### mapped top-level calls: from the fork key to its directory under outs/ -/

/-- Regenerated obligation: in `Fork.postProcess` of the current source the
directory handed to `processStructOuts` is `path.Join(outsPath, strconv.Itoa(i))`
for fork `i` of a call mapped over an array, `path.Join(outsPath, k)` for fork
key `k` of a call mapped over a typed map (the key itself, nothing in between —
modelled by `joinKey`), and `outsPath` otherwise.  A change that routes the key
through a sanitiser / encoder / different join breaks this. -/
theorem mapped_fork_dir_is_joined_key :
    Gen.postProcessForkDirs_extracted = true ∧
    Gen.postProcessForkDirs =
      [("ArrayType", "path.Join(outsPath, strconv.Itoa(<rangekey>))"),
       ("TypedMapType", "path.Join(outsPath, <rangekey>)"),
       ("default", "outsPath")] := by decide

/-- A fork key that is a legal file name (`IsLegalUnixFilename`: 1–255 bytes,
not `.`/`..`, no `/`, no NUL) is used verbatim as ONE directory below outs/. -/
theorem mapped_key_dir_legal (outs : Path) (k : String) (h : legalName k = true) :
    joinKey outs k = outs ++ [k] := joinKey_legal outs k h

example : legalName "lib_A" = true ∧ legalName "é x" = true ∧ legalName "a." = true ∧ legalName "..a" = true ∧
    legalName "lib/A" = false ∧ legalName "" = false ∧ legalName ".." = false := by decide

/-- Distinct fork keys that are all legal file names get directories that are
pairwise incomparable and lie below outs/ (`keysSeparable`).  `keysSeparable`
is decidable and weaker than legality: `{"lib/A", "lib_A"}` is separable too. -/
theorem mapped_legal_keys_separable (outs : Path) (keys : List String) (hnd : keys.Nodup)
    (hl : ∀ k ∈ keys, legalName k = true) : keysSeparable outs keys = true :=
  legal_keys_separable outs keys hnd hl

example : keysSeparable ["ps", "outs"] ["lib/A", "lib_A", "plain"] = true ∧
    keysSeparable ["ps", "outs"] ["a", "A", "a.", ".a", "a_b", "é"] = true := by decide

/-- `dest_injective` ACROSS the forks of a top-level call mapped over a typed
map.  Well-formed signature, any per-key records, fork keys whose directories
are separable: the `moveOutFile` calls of ALL forks (`leavesMap`; third
conjunct: the file-system effect of `postMap` is fork after fork "create the
fork's directory, then the left fold of `moveOutFile` over the fork's leaves")
have pairwise INCOMPARABLE destinations — no (key, leaf) shares a destination
with, or is nested in, another (key', leaf') — and every destination lies below
outs/.  Without separability the statement is false
(`mapped_key_dirs_not_injective`, `mapped_colliding_keys_second_skipped`). -/
theorem dest_injective_mapped (params : List (String × String × Ty)) (top : Path) (kvs : List (String × J))
    (h : wfParams params = true) (hs : keysSeparable top (kvs.map Prod.fst) = true) :
    (leavesMap params top kvs).Pairwise LeafIncomp ∧
    ((leavesMap params top kvs).map Leaf.dest).Nodup ∧
    (∀ l ∈ leavesMap params top kvs, Under top l.dest) ∧
    (∀ ps fs, (postMap Gen.postProcessDimAware ps params top kvs fs).2 = runForks ps params top kvs fs) := by
  refine ⟨leavesMap_pairwise params top kvs h hs, pairwise_incomp_nodup (leavesMap_pairwise params top kvs h hs),
    leavesMap_under params top kvs h hs, fun ps fs => ?_⟩
  rw [dim_aware]
  exact postMap_run ps params top kvs fs

/-- non-vacuity: the seeded scenario's keys with a file, an array of files and a scalar -/
example : wfParams [("report", "", .file "txt"), ("parts", "", .arr (.file "") 0), ("count", "", .scalar)] = true ∧
    keysSeparable ["ps", "outs"]
      ([("lib/A", J.obj []), ("lib_A", J.obj []), ("plain", J.obj [])].map Prod.fst) = true := by decide

/-- Regenerated obligation (F24, repaired by a `fix:` commit): in the current
source the loop over the fork keys of a top-level call mapped over a typed map
starts with `if err := syntax.IsLegalUnixFilename(k); err != nil { errs =
append(errs, …); …; continue }` — a key that is not a legal file name is
refused with an error, its fork is not moved and its record entry is kept
(model: `postMapChecked`); and (F25) `moveOutDir`'s branch for such a key of a
typed-map VALUE appends to `errs` as well, so the dropped entry is a reported
post-processing failure, not a silent one. -/
theorem mapped_keys_checked :
    Gen.postProcessMappedKeyCheck_extracted = true ∧ Gen.postProcessMappedKeyCheck = true ∧
    Gen.postProcessIllegalKeyIsError_extracted = true ∧ Gen.postProcessIllegalKeyIsError = true := by decide

/-- What the repaired branch does with ANY key set: the rewritten record has
the same fork keys in the same order; the entry of every refused key (not a
legal file name) is in it UNCHANGED; and the file-system effect is exactly the
effect of processing the legal forks alone (`legalForks`), each in `outs/<key>`.
When all keys are legal the repaired branch is the old one. -/
theorem mapped_illegal_key_is_refused (ps : Path) (params : List (String × String × Ty)) (top : Path)
    (kvs : List (String × J)) (fs : FS) :
    (postMapChecked Gen.postProcessDimAware ps params top kvs fs).1.map Prod.fst = kvs.map Prod.fst ∧
    (∀ kv ∈ kvs, legalName kv.1 = false →
      kv ∈ (postMapChecked Gen.postProcessDimAware ps params top kvs fs).1) ∧
    (postMapChecked Gen.postProcessDimAware ps params top kvs fs).2 =
      (postMap Gen.postProcessDimAware ps params top (legalForks kvs) fs).2 ∧
    ((∀ kv ∈ kvs, legalName kv.1 = true) →
      postMapChecked Gen.postProcessDimAware ps params top kvs fs =
        postMap Gen.postProcessDimAware ps params top kvs fs) :=
  ⟨postMapChecked_keys _ ps params top kvs fs, fun kv hm hk => postMapChecked_refused _ ps params top kvs fs kv hm hk,
    postMapChecked_fs _ ps params top kvs fs, postMapChecked_eq_of_legal _ ps params top kvs fs⟩

/-- `dest_injective` for the repaired branch, for EVERY key set (the keys of a
JSON object are distinct; no separability hypothesis): the `moveOutFile` calls
of all processed forks have pairwise incomparable, hence distinct,
destinations, and the file-system effect is fork after fork over the legal
forks. -/
theorem dest_injective_mapped_checked (params : List (String × String × Ty)) (top : Path) (kvs : List (String × J))
    (h : wfParams params = true) (hnd : (kvs.map Prod.fst).Nodup) :
    (leavesMap params top (legalForks kvs)).Pairwise LeafIncomp ∧
    ((leavesMap params top (legalForks kvs)).map Leaf.dest).Nodup ∧
    (∀ ps fs, (postMapChecked Gen.postProcessDimAware ps params top kvs fs).2 =
      runForks ps params top (legalForks kvs) fs) := by
  have hs : keysSeparable top ((legalForks kvs).map Prod.fst) = true :=
    legal_keys_separable top _ (legalForks_keys_nodup kvs hnd) (legalForks_keys_legal kvs)
  obtain ⟨a, b, _, d⟩ := dest_injective_mapped params top (legalForks kvs) h hs
  exact ⟨a, b, fun ps fs => by rw [postMapChecked_fs, d]⟩

/-- With the repair NOTHING is materialised outside outs/, whatever the keys:
every destination of every processed fork lies below `outs/<k>` for a legal
file name `k` (so not in outs/ itself, not in the pipestance directory, not in
another fork's directory). -/
theorem mapped_nothing_outside_outs (params : List (String × String × Ty)) (top : Path) (kvs : List (String × J))
    (h : wfParams params = true) :
    ∀ l ∈ leavesMap params top (legalForks kvs), ∃ k, legalName k = true ∧ Under (top ++ [k]) l.dest :=
  leavesMap_legal_under params top kvs h

/-- `content_preserved` LIFTED TO MAPPED TOP-LEVEL CALLS (repaired branch,
`postMapChecked`), both halves, for every key set with distinct keys.
Well-formed signature; the leaves of ALL legal forks together
(`leavesMap params top (legalForks kvs)`: fork `k` works below `top/<k>`) have
sources that are pairwise non-nested ACROSS forks too, apart from outs/, each
missing or a regular file/directory inside the pipestance, and free
destinations — in the ORIGINAL file system `fs`.  Then after the whole call:
(a) the destination of every leaf of every legal fork holds exactly the tree
    that was at its source in the original `fs` (`∀ suf`);
(b) the rewritten record is `expectedMapped fs …`: the entry of every legal key
    `k` is `.obj (pureOuts (expectVal fs) params (fields of its record) (top/<k>))`
    with `expectVal` judged in the ORIGINAL `fs`, the entry of every refused
    key (not a legal file name) is unchanged, same keys in the same order;
(c) every path that is not an ancestor of a fork directory and is unrelated to
    the sources and destinations of the legal forks' leaves is untouched — in
    particular the files of the refused forks stay where they are.
The incomparability of the destinations and their position below `top/<k>` are
not assumed (`dest_injective_mapped_checked`, `mapped_nothing_outside_outs`);
the forks may be visited in any order of the list (the code visits them in
sorted key order). -/
theorem content_preserved_mapped (ps top : Path) (fs : FS) (params : List (String × String × Ty))
    (kvs : List (String × J)) (hwf : wfParams params = true) (hnd : (kvs.map Prod.fst).Nodup)
    (apart : ∀ l ∈ leavesMap params top (legalForks kvs), ∀ p, l.src = some p → ¬ p <+: top ∧ ¬ top <+: p)
    (nonnest : (leavesMap params top (legalForks kvs)).Pairwise (fun l1 l2 => ∀ p1 p2, l1.src = some p1 →
      l2.src = some p2 → ¬ p1 <+: p2 ∧ ¬ p2 <+: p1))
    (status : ∀ l ∈ leavesMap params top (legalForks kvs), ∀ p, l.src = some p →
      fs.get p = none ∨ ∃ e, fs.get p = some e ∧ e.isLink = false ∧ inside ps p = true)
    (free : ∀ l ∈ leavesMap params top (legalForks kvs), fs.get l.dest = none) :
    (∀ l ∈ leavesMap params top (legalForks kvs), ∀ p e, l.src = some p → fs.get p = some e → ∀ suf,
      (postMapChecked Gen.postProcessDimAware ps params top kvs fs).2.get (l.dest ++ suf) = fs.get (p ++ suf)) ∧
    (postMapChecked Gen.postProcessDimAware ps params top kvs fs).1 = expectedMapped fs params top kvs ∧
    (∀ q, (∀ k, ¬ q <+: top ++ [k]) →
      (∀ l ∈ leavesMap params top (legalForks kvs),
        (∀ p, l.src = some p → ¬ p <+: q) ∧ ¬ l.dest <+: q ∧ ¬ q <+: l.outs) →
      (postMapChecked Gen.postProcessDimAware ps params top kvs fs).2.get q = fs.get q) := by
  rw [dim_aware]
  have hc := clean_mapped ps top fs params kvs hwf hnd apart nonnest status free
  have hlen := fun l hl => (LM_below params top kvs hwf l hl).2
  obtain ⟨ha, hb⟩ := content_mapped ps top params fs kvs fs hc hlen (fun _ _ _ _ _ => rfl)
  exact ⟨ha, hb, fun q hq h =>
    postMapChecked_frame ps top params kvs fs hc hlen q (fun k => isPrefix_false_iff.mpr (hq k)) h⟩

/-- non-vacuity: three fork keys, one of them refused (`a/`), two file leaves per fork; the
signature is well formed, the keys distinct, and ALL side conditions hold (decidable check over the
leaves of the legal forks together) -/
example :
    wfParams [("r", "", .file ""), ("s", "", .file "txt")] = true ∧
    (([("a", J.null), ("a/", J.null), ("b", J.null)] : List (String × J)).map Prod.fst).Nodup ∧
    cleanB ["ps"] ["ps", "outs"] exFSM
      (leavesMap [("r", "", .file ""), ("s", "", .file "txt")] ["ps", "outs"] (legalForks exKvsM)) = true ∧
    (leavesMap [("r", "", .file ""), ("s", "", .file "txt")] ["ps", "outs"] (legalForks exKvsM)).length = 4 := by
  decide

/-- … and the theorem instantiated on it: the rewritten record (the refused fork `a/` unchanged, the
others pointing below `outs/a`, `outs/b`), and fork `b`'s second file at `outs/b/s.txt` -/
example :
    (postMapChecked Gen.postProcessDimAware ["ps"] [("r", "", .file ""), ("s", "", .file "txt")] ["ps", "outs"]
        exKvsM exFSM).1.map (fun kv => (kv.1, emit kv.2)) =
      [("a", emit (.obj [("r", .str "/ps/outs/a/r"), ("s", .str "/ps/outs/a/s.txt")])),
       ("a/", emit (.obj [("r", .str "/ps/MK/fork1/files/f"), ("s", .str "/ps/MK/fork1/files/g")])),
       ("b", emit (.obj [("r", .str "/ps/outs/b/r"), ("s", .str "/ps/outs/b/s.txt")]))] ∧
    (postMapChecked Gen.postProcessDimAware ["ps"] [("r", "", .file ""), ("s", "", .file "txt")] ["ps", "outs"]
        exKvsM exFSM).2.get ["ps", "outs", "b", "s.txt"] = some (.file 6) := by
  have hf := cleanB_fields ["ps"] ["ps", "outs"] exFSM
    (leavesMap [("r", "", .file ""), ("s", "", .file "txt")] ["ps", "outs"] (legalForks exKvsM)) (by decide)
  obtain ⟨ha, hb, _⟩ := content_preserved_mapped ["ps"] ["ps", "outs"] exFSM
    [("r", "", .file ""), ("s", "", .file "txt")] exKvsM (by decide) (by decide) hf.1 hf.2.1 hf.2.2.1 hf.2.2.2
  have hl : leavesMap [("r", "", .file ""), ("s", "", .file "txt")] ["ps", "outs"] (legalForks exKvsM) =
      [⟨.str "/ps/MK/fork0/files/f", ["ps", "outs", "a"], "r"⟩, ⟨.str "/ps/MK/fork0/files/g", ["ps", "outs", "a"], "s.txt"⟩,
       ⟨.str "/ps/MK/fork2/files/f", ["ps", "outs", "b"], "r"⟩,
       ⟨.str "/ps/MK/fork2/files/g", ["ps", "outs", "b"], "s.txt"⟩] := by rfl
  constructor
  · rw [hb]; decide
  · have := ha ⟨.str "/ps/MK/fork2/files/g", ["ps", "outs", "b"], "s.txt"⟩
      (by rw [hl]; simp)
      ["ps", "MK", "fork2", "files", "g"] (.file 6) (by decide) (by decide) []
    have h6 : exFSM.get ["ps", "MK", "fork2", "files", "g"] = some (.file 6) := by decide
    rw [← h6]
    simpa [Leaf.dest] using this

/-- the keys of F24 under the repaired branch: `..` and `a/` are refused (entries unchanged, their
files stay where they are, nothing appears in the pipestance directory), `a` is materialised -/
example :
    let r := postMapChecked true ["ps"] [("r", "", .file "")] ["ps", "outs"]
      [("..", .obj [("r", .str "/ps/MK/fork0/files/f")]), ("a", .obj [("r", .str "/ps/MK/fork1/files/f")]),
       ("a/", .obj [("r", .str "/ps/MK/fork0/files/f")])] exFS2
    r.1.map (fun kv => (kv.1, recStr kv.2 "r")) =
      [("..", some "/ps/MK/fork0/files/f"), ("a", some "/ps/outs/a/r"), ("a/", some "/ps/MK/fork0/files/f")] ∧
    r.2.get ["ps", "r"] = none ∧ r.2.get ["ps", "outs", "a", "r"] = some (.file 2) ∧
    r.2.get ["ps", "MK", "fork0", "files", "f"] = some (.file 1) ∧
    refusedKeys [("..", J.null), ("a", J.null), ("a/", J.null)] = ["..", "a/"] := by decide

/-- Negative witness FOR THE CODE BEFORE THE F24 REPAIR (`postMap`; like
`multidim_not_moved_before_fix` for F5), key → directory (what `path.Join` does with keys that are
not legal file names; the harness replays each line on the real code): the
keys `a`, `a/`, `./a`, `a/.`, `x/../a` share ONE directory; `""` and `"."`
are outs/ itself; `".."` is the pipestance directory (outside outs/);
`"../x"` lies outside outs/; `"a/b"` is nested inside the directory of `"a"`;
`"a//b"` and `"a/./b"` are the directory of `"a/b"`. -/
theorem mapped_key_dirs_not_injective :
    joinKey ["ps", "outs"] "a" = ["ps", "outs", "a"] ∧ joinKey ["ps", "outs"] "a/" = ["ps", "outs", "a"] ∧
    joinKey ["ps", "outs"] "./a" = ["ps", "outs", "a"] ∧ joinKey ["ps", "outs"] "a/." = ["ps", "outs", "a"] ∧
    joinKey ["ps", "outs"] "x/../a" = ["ps", "outs", "a"] ∧
    joinKey ["ps", "outs"] "" = ["ps", "outs"] ∧ joinKey ["ps", "outs"] "." = ["ps", "outs"] ∧
    joinKey ["ps", "outs"] ".." = ["ps"] ∧ joinKey ["ps", "outs"] "../x" = ["ps", "x"] ∧
    joinKey ["ps", "outs"] "a/b" = ["ps", "outs", "a", "b"] ∧
    joinKey ["ps", "outs"] "a//b" = ["ps", "outs", "a", "b"] ∧ joinKey ["ps", "outs"] "a/./b" = ["ps", "outs", "a", "b"] ∧
    keysSeparable ["ps", "outs"] ["a", "a/"] = false ∧ keysSeparable ["ps", "outs"] ["a", "a/b"] = false ∧
    keysSeparable ["ps", "outs"] ["", "x"] = false ∧ keysSeparable ["ps", "outs"] [".."] = false := by decide

/-- Negative witness for the code BEFORE the F24 repair (`postMap`), whole run:
`map call … split {"a": …, "a/": …}`, one `file r` output per fork, fork `a`
processed first.  Both keys use the directory outs/a.  Fork `a/` finds its
destination outs/a/r occupied, so `moveOutFile` takes its "already moved"
exit: the record of `a/` still names the stage's file, that file is NOT moved,
outs/a/r holds the content of fork `a`, and nothing is reported.  The harness
replays this on the real code. -/
theorem mapped_colliding_keys_second_skipped :
    let r := postMap true ["ps"] [("r", "", .file "")] ["ps", "outs"]
      [("a", .obj [("r", .str "/ps/MK/fork0/files/f")]), ("a/", .obj [("r", .str "/ps/MK/fork1/files/f")])] exFS2
    r.1.map (fun kv => (kv.1, recStr kv.2 "r")) =
      [("a", some "/ps/outs/a/r"), ("a/", some "/ps/MK/fork1/files/f")] ∧
    r.2.get ["ps", "outs", "a", "r"] = some (.file 1) ∧
    r.2.get ["ps", "MK", "fork1", "files", "f"] = some (.file 2) := by decide

/-- Negative witness for the code BEFORE the F24 repair (`postMap`), a key that leaves outs/: with the single fork key `..`
the output is materialised in the pipestance directory itself, not under outs/. -/
theorem mapped_dotdot_key_escapes_outs :
    let r := postMap true ["ps"] [("r", "", .file "")] ["ps", "outs"]
      [("..", .obj [("r", .str "/ps/MK/fork0/files/f")])] exFS2
    r.1.map (fun kv => (kv.1, recStr kv.2 "r")) = [("..", some "/ps/r")] ∧
    r.2.get ["ps", "r"] = some (.file 1) ∧ r.2.get ["ps", "outs", "r"] = none := by decide

/-! ### the record stays valid under a crash or an I/O fault -/

/-- Regenerated obligations: on the post-processing path the `_outs` record is
written exactly once, with `Metadata.WriteAtomic`, and `writeAtomicAt` writes a
temp file and then renames it over the target.  Replacing the call by an
in-place writer (`Write`, `WriteRaw`, …) or re-ordering the steps breaks this. -/
theorem outs_rewrite_is_atomic :
    Gen.postProcessOutsWriters_extracted = true ∧ Gen.writeAtomicSteps_extracted = true ∧
    Gen.postProcessOutsWriters.map writerOfName = [some .atomic] ∧ Gen.writeAtomicSteps = atomicSteps := by
  decide

/-- The record PATH under a cut write, on the file system of byte files
(`BFS`; the steps of `writeAtomicAt` are `writeAtomicCut`: open `<target>.tmp`,
its bytes, then `rename` — the regenerated `Gen.writeAtomicSteps` pins that
order; the ONLY assumption is the atomicity of `rename(2)`, which is the
semantics of `BFS.rename`).  For every writer the post-processing path uses
(`Gen.postProcessOutsWriters`), every file system in which the record path
holds `old`, every new record and EVERY cut point `k`:
* the record path holds exactly `old` or exactly `new` — never a fragment;
* it holds `old` as long as the rename has not happened (`k ≤ |new| + 1`) and
  then the `.tmp` sibling holds the `k-1`-byte prefix of `new` (a torn temp
  file is possible, a torn record is not); once the rename has happened it
  holds `new` and the temp name is gone;
* no other path changes.
The fault streams observe exactly these pairs (record, temp sibling) on the
real tree, and `writeAtomic` itself is run under RLIMIT_FSIZE against this
function on every run. -/
theorem record_path_old_or_new (fs : BFS) (target : Path) (old new : List UInt8) (k : Nat)
    (h : fs target = some old) :
    ∀ w ∈ Gen.postProcessOutsWriters.filterMap writerOfName,
      (writeCut w fs target new k target = some old ∨ writeCut w fs target new k target = some new) ∧
      (0 < k → k ≤ new.length + 1 →
        writeCut w fs target new k target = some old ∧
        writeCut w fs target new k (tmpPath target) = some (new.take (k - 1))) ∧
      (new.length + 1 < k →
        writeCut w fs target new k target = some new ∧ writeCut w fs target new k (tmpPath target) = none) ∧
      (∀ q, q ≠ target → q ≠ tmpPath target → writeCut w fs target new k q = fs q) := by
  intro w hw
  have hws : Gen.postProcessOutsWriters.filterMap writerOfName = [.atomic] := by decide
  rw [hws] at hw
  rw [List.mem_singleton.mp hw]
  obtain ⟨_, s1, s2, s3⟩ := writeAtomicCut_spec fs target new k
  refine ⟨(writeAtomicCut_record fs target old new k h).1, fun h0 h1 => ?_, s2, s3⟩
  exact ⟨(writeAtomicCut_record fs target old new k h).2.1 h1, (s1 h0 h1).2⟩

/-- non-vacuity: `{}` replaced by `{"a":1}`, cut after the open and 3 bytes: record still `{}`, temp file `{"a` -/
example :
    let fs : BFS := fun q => if q = ["ps", "TOP", "fork0", "_outs"] then some [0x7B, 0x7D] else none
    writeCut .atomic fs ["ps", "TOP", "fork0", "_outs"] [0x7B, 0x22, 0x61, 0x22, 0x3A, 0x31, 0x7D] 4
        ["ps", "TOP", "fork0", "_outs"] = some [0x7B, 0x7D] ∧
    writeCut .atomic fs ["ps", "TOP", "fork0", "_outs"] [0x7B, 0x22, 0x61, 0x22, 0x3A, 0x31, 0x7D] 4
        ["ps", "TOP", "fork0", "_outs.tmp"] = some [0x7B, 0x22, 0x61] ∧
    tmpPath ["ps", "TOP", "fork0", "_outs"] = ["ps", "TOP", "fork0", "_outs.tmp"] := by decide

/-- Negative witness on the file system: the in-place writer (`os.WriteFile`)
cut after the open and 3 bytes leaves the record PATH holding a fragment that
is neither the old nor the new record; for every cut after the open the path
holds the prefix written so far. -/
theorem inplace_writer_tears_record_path :
    (let fs : BFS := fun q => if q = ["ps", "TOP", "fork0", "_outs"] then some [0x7B, 0x7D] else none
     writeCut .inplace fs ["ps", "TOP", "fork0", "_outs"] [0x7B, 0x22, 0x61, 0x22, 0x3A, 0x31, 0x7D] 4
        ["ps", "TOP", "fork0", "_outs"] = some [0x7B, 0x22, 0x61]) ∧
    (∀ (fs : BFS) target new k, 0 < k →
      writeCut .inplace fs target new k target = some (new.take (k - 1))) :=
  ⟨by decide, fun fs target new k h0 => writeInplaceCut_record fs target new k h0⟩

/-- Negative witness: an in-place writer cut after 3 bytes leaves a fragment
that is neither the old nor the new record. -/
theorem inplace_writer_tears_record :
    recordAfterFault .inplace [0x7B, 0x7D] [0x7B, 0x22, 0x61, 0x22, 0x3A, 0x31, 0x7D] 4 = [0x7B, 0x22, 0x61] ∧
    recordAfterFault .inplace [0x7B, 0x7D] [0x7B, 0x22, 0x61, 0x22, 0x3A, 0x31, 0x7D] 4 ≠ [0x7B, 0x7D] ∧
    recordAfterFault .inplace [0x7B, 0x7D] [0x7B, 0x22, 0x61, 0x22, 0x3A, 0x31, 0x7D] 4 ≠
      [0x7B, 0x22, 0x61, 0x22, 0x3A, 0x31, 0x7D] := by decide

/-! ### every writer of `_outs` -/

/-- Regenerated obligation: the complete list of call sites in martian/ and
cmd/ (tests and verif hooks excluded) that write the `_outs` metadata file —
(site, Metadata method, atomic?, next publishing call in the same function,
last publishing call that definitely precedes the write).
`atomic` is derived from the BODY of the method (least fixpoint over the call
graph of metadata.go / write_atomic_linux.go: it reaches `writeAtomicAt` and no
`os.WriteFile`/`OpenFile`/`Create`), not from its name.  A new writer, a
writer changed from atomic to in-place (or the reverse), or a write moved
behind its completion marker changes this list. -/
theorem outs_writers_enumerated :
    Gen.allOutsWriters_extracted = true ∧
    Gen.allOutsWriters =
      [("martian/adapter/adapter.go:runMain", "Write", false, "UpdateJournal(OutsFile)", ""),
       ("martian/core/post_process.go:Fork.postProcess", "WriteAtomic", true, "", ""),
       ("martian/core/stage.go:Chunk.step", "Write", false, "runChunk", ""),
       ("martian/core/stage.go:Fork.writeDisable", "Write", false, "skip", ""),
       ("martian/core/stage.go:Fork.doJoin", "Write", false, "runJoin", ""),
       ("martian/core/stage.go:Fork.doJoin", "WriteRawBytes", false, "WriteTime(CompleteFile)", ""),
       ("martian/core/stage.go:Fork.doComplete", "WriteRaw", false, "WriteTime(CompleteFile)", ""),
       ("martian/core/stage.go:Fork.doComplete", "Write", false, "WriteTime(CompleteFile)", ""),
       ("martian/core/stage.go:Fork.doComplete", "WriteRaw", false, "WriteTime(CompleteFile)", ""),
       ("martian/core/stage.go:Fork.stepPipeline", "Write", false, "WriteTime(CompleteFile)", "")] := by decide

/-- What the list says, as checkable consequences: (1) the only atomic writer
is the post-processing rewrite, and it is the only writer that REPLACES the
record of an already completed fork (no publishing call follows it);
(2) every in-place writer is followed, in the same function, by the call that
publishes the record or starts the job that overwrites it (`WriteTime` of the
completion marker, `skip` = `WriteTime(DisabledFile)`, `UpdateJournal(OutsFile)`
in the job's adapter, `runChunk`/`runJoin`), and NO writer is preceded by such a
call on its own control path: the in-place write of a record strictly precedes
its completion marker, so a reader that waits for the marker never sees it half
written; (3) the derived atomicity agrees with the classification by name used
by `outs_rewrite_is_atomic`. -/
theorem outs_writers_atomic_or_before_marker :
    Gen.allOutsWriters_extracted = true ∧
    (Gen.allOutsWriters.filter (fun w => w.2.2.1)).map (fun w => (w.1, w.2.1)) =
      [("martian/core/post_process.go:Fork.postProcess", "WriteAtomic")] ∧
    (∀ w ∈ Gen.allOutsWriters, w.2.2.1 = false → w.2.2.2.1 ≠ "") ∧
    (∀ w ∈ Gen.allOutsWriters, w.2.2.2.1 = "" → w.2.2.1 = true) ∧
    (∀ w ∈ Gen.allOutsWriters, w.2.2.2.2 = "") ∧
    (∀ w ∈ Gen.allOutsWriters,
      writerOfName w.2.1 = some (if w.2.2.1 then RecordWriter.atomic else RecordWriter.inplace)) := by decide

/-! ### F5: multi-dimensional arrays (negative witness for the code before the repair) -/

/-- With the element type the old `moveOutArrayDir` used (`dimAware = false`),
a `file[][]` value `[["/ps/f"]]` is returned unchanged and the file is not
moved, whatever the file system: nothing of it reaches outs/. -/
theorem multidim_not_moved_before_fix (fs : FS) :
    moveOut false ["ps"] (.arr (.file "") 1) "r" "" (.arr [.arr [.str "/ps/f"]]) ["ps", "outs"] fs
      = (.arr [.arr [.str "/ps/f"]], fs) := by rfl

/-! ### definitional unfoldings (documentation of the model, not guarantees) -/

/-- `recordAfterFault` is the byte-level SUMMARY of what the record path holds:
for the atomic writer it is DEFINED as "old until the rename, then new", so
"old ∨ new" holds by definition.  The statement with content is
`record_path_old_or_new` (file-system model, two steps, cut anywhere);
`recordAfterFault_agrees` says the summary is what that model yields. -/
theorem record_old_or_new (old new : List UInt8) (k : Nat) :
    ∀ w ∈ Gen.postProcessOutsWriters.filterMap writerOfName,
      recordAfterFault w old new k = old ∨ recordAfterFault w old new k = new := by
  intro w hw
  have h : Gen.postProcessOutsWriters.filterMap writerOfName = [.atomic] := by decide
  rw [h] at hw
  rw [List.mem_singleton.mp hw]
  simp only [recordAfterFault]
  split
  · exact Or.inr rfl
  · exact Or.inl rfl

/-- the summary agrees with the file-system model, for both writers -/
theorem recordAfterFault_agrees (w : RecordWriter) (fs : BFS) (target : Path) (old new : List UInt8) (k : Nat)
    (h : fs target = some old) :
    writeCut w fs target new k target = some (recordAfterFault w old new k) :=
  recordAfterFault_eq w fs target old new k h

end Props.C13
