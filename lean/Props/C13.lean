/-
C13 — final outputs are materialised faithfully under outs/.
PROPERTY THEOREMS ONLY (helper lemmas live in Proofs/PostProcess*.lean).
The model is `Martian.PostProcess` (post_process.go); `Gen.postProcessDimAware`
is regenerated from `moveOutArrayDir` in the working tree on every run.
-/
import Martian.PostProcess
import Proofs.PostProcess
import Proofs.PostProcessWriter
import Proofs.PostProcessShape
import Proofs.PostProcessNames
import Gen.Facts

namespace Props.C13
open Martian.PostProcess

/-- Regenerated obligation: `moveOutArrayDir` in the current source hands the
elements of a multi-dimensional array down as arrays of one dimension less
(not as values of the base element type).  Fails on a tree with defect F5. -/
theorem dim_aware : Gen.postProcessDimAware = true := by decide

/-! ### result_wellformed -/

/-- The hand-built writer (`[` … `,` … `]`, `[]`, `{"k":` … `,` … `}`, `{}`
around atomic fragments) emits, for EVERY result tree — any nesting, any
emptiness — a token stream that a JSON parser reads back as exactly that tree. -/
theorem result_wellformed (t : J) : parse (emit t) = some t := parse_emit t

/-- non-vacuity: nested empties and one-element containers -/
example : parse (emit (.obj [("a", .arr []), ("b", .obj []), ("c", .arr [.arr [], .null, .obj [("k", .str "p")]])]))
    = some (.obj [("a", .arr []), ("b", .obj []), ("c", .arr [.arr [], .null, .obj [("k", .str "p")]])]) :=
  result_wellformed _

/-! ### content_preserved (one leaf: full; whole traversal: see the comment) -/

/-- One file leaf.  A regular file or directory `p` inside the pipestance whose
destination `outs/name` is free: the recorded value becomes the destination
path; the destination holds exactly what the source held (`∀ suf`: the whole
tree below it, for directories); the source becomes a relative symlink to the
destination; and nothing else changes (paths not under the source, not under
the destination, not ancestors of the outs directory).

PARTIAL: this is `content_preserved` for each leaf operation in the file
system state in which it runs.  The full statement — "after the WHOLE
traversal every leaf's destination still holds its source's content" — needs
in addition that later leaves touch neither an earlier destination
(`dest_injective`) nor an earlier source (sources pairwise not nested, none of
them under outs/); that composition over the traversal is not proved here.  It
is false without the nesting hypothesis: see the known finding
`C13:overlapping-outputs` (an output file inside an output directory), which
the harness replays on the real code. -/
theorem content_preserved_partial (ps outs : Path) (name s : String) (p : Path) (e : Entry) (fs : FS)
    (hs : s ≠ "") (hp : parsePath s = some p) (he : fs.get p = some e) (hl : e.isLink = false)
    (hin : inside ps p = true) (hfree : statExists fs statFuel (outs ++ [name]) = false)
    (hsrc : isPrefix p outs = false) (hdst : isPrefix (outs ++ [name]) p = false) :
    (moveOutFile ps outs name (.str s) fs).1 = .str (renderPath (outs ++ [name])) ∧
    (∀ suf, (moveOutFile ps outs name (.str s) fs).2.get ((outs ++ [name]) ++ suf) = fs.get (p ++ suf)) ∧
    (moveOutFile ps outs name (.str s) fs).2.get p =
      some (.link (.rel (relPath p.dropLast (outs ++ [name])))) ∧
    (∀ q, isPrefix p q = false → isPrefix (outs ++ [name]) q = false → isPrefix q outs = false →
      (moveOutFile ps outs name (.str s) fs).2.get q = fs.get q) := by
  obtain ⟨h1, h2, h3⟩ := moveOutFile_moved ps outs name s p e fs hs hp he hl hin hfree hsrc hdst
  exact ⟨h1, h2, h3, fun q a b c =>
    moveOutFile_moved_frame ps outs name s p e fs hs hp he hl hin hfree q a b c⟩

/-- non-vacuity: the hypotheses are satisfiable (a file under the pipestance, outs/ empty) -/
example : ("/ps/MK/files/f" : String) ≠ "" ∧ parsePath "/ps/MK/files/f" = some ["ps", "MK", "files", "f"] ∧
    exFS.get ["ps", "MK", "files", "f"] = some (.file 7) ∧ (Entry.file 7).isLink = false ∧
    inside ["ps"] ["ps", "MK", "files", "f"] = true ∧
    statExists exFS statFuel (["ps", "outs"] ++ ["f.txt"]) = false ∧
    isPrefix ["ps", "MK", "files", "f"] ["ps", "outs"] = false ∧
    isPrefix (["ps", "outs"] ++ ["f.txt"]) ["ps", "MK", "files", "f"] = false := by decide

/-- A file that does not exist (the stage did not create it) is recorded as
null and the file system is untouched. -/
theorem missing_is_null (ps outs : Path) (name s : String) (p : Path) (fs : FS)
    (hs : s ≠ "") (hp : parsePath s = some p) (hnone : fs.get p = none) :
    moveOutFile ps outs name (.str s) fs = (.null, fs) :=
  moveOutFile_missing ps outs name s p fs hs hp hnone

example : parsePath "/ps/MK/files/nope" = some ["ps", "MK", "files", "nope"] ∧
    exFS.get ["ps", "MK", "files", "nope"] = none := by decide

/-- A regular file or directory outside the pipestance stays where it is, its
recorded value is unchanged, and outs/name becomes a symlink to it. -/
theorem outside_unchanged (ps outs : Path) (name s : String) (p : Path) (e : Entry) (fs : FS)
    (hs : s ≠ "") (hp : parsePath s = some p) (he : fs.get p = some e) (hl : e.isLink = false)
    (hout : inside ps p = false) :
    (moveOutFile ps outs name (.str s) fs).1 = .str s ∧
    (moveOutFile ps outs name (.str s) fs).2.get p = some e ∧
    ((mkdirAll fs outs).get (outs ++ [name]) = none →
      (moveOutFile ps outs name (.str s) fs).2.get (outs ++ [name]) = some (.link (.abs p))) :=
  moveOutFile_outside ps outs name s p e fs hs hp he hl hout

example : inside ["ps"] ["etc", "hostname"] = false := by decide

/-! ### shape_preserved -/

/-- Null stays null and a value whose type contains no file type is copied
verbatim, at every type, and neither touches the file system. -/
theorem shape_null_and_nonfile (ps : Path) (ty : Ty) (id on : String) (v : J) (outs : Path) (fs : FS) :
    moveOut Gen.postProcessDimAware ps ty id on .null outs fs = (.null, fs) ∧
    (hasFile ty = false → moveOut Gen.postProcessDimAware ps ty id on v outs fs = (v, fs)) :=
  ⟨handler_null _ ps ty id on outs fs, handler_nofile _ ps ty id on v outs fs⟩

example : hasFile (.struct [("n", "", .scalar), ("xs", "", .arr .scalar 1)]) = false := by decide

/-- A file leaf becomes null, stays as it is, or becomes a path string —
never anything else. -/
theorem shape_leaf (ps outs : Path) (name : String) (v : J) (fs : FS) :
    (moveOutFile ps outs name v fs).1 = .null ∨ (moveOutFile ps outs name v fs).1 = v ∨
      ∃ s, (moveOutFile ps outs name v fs).1 = .str s :=
  moveOutFile_shape ps outs name v fs

/-- `shape_preserved`, full recursive statement.  For every type, member,
value, outs directory and file system, the rewritten value has the shape of
the input at that type (`Martian.PostProcess.Shape`, by recursion on the type):
non-file values are equal; a file leaf is null, unchanged or a path string; an
array (any number of dimensions) stays an array of the same length with
elements related pointwise; a typed map becomes an object whose keys are the
sorted legal keys of the input (illegal file names are dropped), values related
key by key; a struct becomes an object whose keys are exactly the sorted member
ids (an absent key reads as null, undeclared keys are dropped), values related
member by member; null and ill-typed values are returned unchanged.
Stated for the code as regenerated (`Gen.postProcessDimAware`, see `dim_aware`). -/
theorem shape_preserved (ps : Path) (ty : Ty) (id on : String) (v : J) (outs : Path) (fs : FS) :
    Shape ty v (moveOut Gen.postProcessDimAware ps ty id on v outs fs).1 := by
  rw [dim_aware]
  exact handler_shape ps ty id on v outs fs

/-- what `Shape` says for `file[][]`: same lengths at both levels, leaves as in `shape_leaf` -/
example : Shape (.arr (.file "") 1) (.arr [.arr [.str "/ps/a", .str "/ps/b"], .null])
    (.arr [.arr [.str "/ps/outs/r/0/0", .null], .null]) := by
  simp only [Shape, hasFile, if_true, ShapeArr]
  refine ⟨_, rfl, .cons ⟨_, rfl, .cons (Or.inr (Or.inr ⟨_, rfl⟩)) (.cons (Or.inl rfl) .nil)⟩ (.cons ?_ .nil)⟩
  rfl

/-- One level of the recursion keeps the container's shape whatever the
handlers below do (also true for the code before the F5 repair): an array stays
an array of the same length; a typed map becomes an object whose keys are the
sorted legal keys of the input; a non-empty struct value becomes an object
whose keys are the sorted member ids. -/
theorem shape_level (da : Bool) (h : Handler) (k : Nat) (xs : List J) (kvs : List (String × J))
    (kv : String × J) (hs : MemberHandlers) (o : Path) (fs : FS) :
    (∃ ys, (arrLevel da h k (.arr xs) o fs).1 = .arr ys ∧ ys.length = xs.length) ∧
    (∃ kvs', (mapLevel h (.obj kvs) o fs).1 = .obj kvs' ∧
      kvs'.map Prod.fst = sortStrings (dedup ((kvs.map Prod.fst).filter legalName))) ∧
    (∃ kvs', (structLevel hs (.obj (kv :: kvs)) o fs).1 = .obj kvs' ∧
      kvs'.map Prod.fst = sortStrings (hs.map Prod.fst)) :=
  ⟨arrLevel_shape da h k xs o fs, mapLevel_keys h kvs o fs, structLevel_keys hs kv kvs o fs⟩

/-! ### dest_injective (sibling level) -/

/-- The children of one directory under outs/ get pairwise distinct names, and
distinct names give disjoint sub-trees:
(1) the zero-padded names of the elements of an array of length `n` are
    distinct for distinct indices;
(2) if the compile-time check `noDupNames` (the decidable mirror of
    `StructType.compile`'s DuplicateNameError, compared with the real compiler
    by the harness) accepts a member list, the output file names of its
    file-typed members are pairwise distinct;
(3) paths below `outs/n1` and `outs/n2` coincide only if `n1 = n2`.

PARTIAL: the full `dest_injective` — "the destinations of all file leaves of
one traversal are pairwise distinct" — is the induction of (1)–(3) along the
type together with distinctness of the (sorted, de-duplicated) keys of a typed
map and injectivity of `key ↦ key.ext`; that composition is not proved here. -/
theorem dest_injective_partial :
    (∀ n i j, i < n → j < n → pad (width n) i = pad (width n) j → i = j) ∧
    (∀ ms, noDupNames ms [] = true → (memberNames ms).Nodup) ∧
    (∀ (outs : Path) n1 n2 (s1 s2 : Path), (outs ++ [n1]) ++ s1 = (outs ++ [n2]) ++ s2 → n1 = n2) :=
  ⟨array_names_distinct, fun ms h => (noDupNames_sound ms [] h).1, sibling_subtrees_disjoint⟩

/-- non-vacuity / the check at work: `txt a` and `file b "help" "a.txt"` collide, `txt a` and `file a2` do not -/
example : noDupNames [("a", "", .file "txt"), ("b", "a.txt", .file "")] [] = false ∧
    noDupNames [("a", "", .file "txt"), ("a2", "", .file ""), ("n", "", .scalar)] [] = true := by decide

example : pad (width 12) 3 = "03" ∧ pad (width 12) 11 = "11" := by decide

/-! ### F5: multi-dimensional arrays (negative witness for the code before the repair) -/

/-- With the element type the old `moveOutArrayDir` used (`dimAware = false`),
a `file[][]` value `[["/ps/f"]]` is returned unchanged and the file is not
moved, whatever the file system: nothing of it reaches outs/. -/
theorem multidim_not_moved_before_fix (fs : FS) :
    moveOut false ["ps"] (.arr (.file "") 1) "r" "" (.arr [.arr [.str "/ps/f"]]) ["ps", "outs"] fs
      = (.arr [.arr [.str "/ps/f"]], fs) := by rfl

end Props.C13
