/-
C13 — final outputs are materialised faithfully under outs/.
PROPERTY THEOREMS ONLY (helper lemmas live in Proofs/PostProcess*.lean).
-/
import Martian.PostProcess
import Gen.Facts

namespace Props.C13
open Martian.PostProcess

/-- Regenerated obligation: `moveOutArrayDir` in the current source hands the
elements of a multi-dimensional array down as arrays of one dimension less
(not as values of the base element type).  Fails on a tree with defect F5. -/
theorem dim_aware : Gen.postProcessDimAware = true := by decide

end Props.C13
