/-
C17 — JSON validation and filtering agree with the type system.
PROPERTY THEOREMS ONLY (model: Martian/Json.lean, Martian/Types.lean; helper
lemmas: Proofs/Types.lean).

Quantification: ALL model types (`Ty`: builtins, user file types, arrays of any
dimension, typed maps, structs of structs …) and ALL JSON trees (`J`).  The
only side condition on types is `Ty.wf` (field names of a struct are distinct),
which the MRO compiler enforces (`DuplicateNameError`).

`valid t v` = clean validation (no error, no alarm).  `(filter t v).1` is the
filtered value, `(filter t v).2 ∈ {ok, soft, fatal}` the error class.
-/
import Martian.Types
import Proofs.Types
import Proofs.TypesRound
import Proofs.JsonRound
import Proofs.TypesAgree
import Martian.JsonBytes
import Proofs.JsonBytes
import Proofs.JsonBytesFilter
import Proofs.JsonBytesLocal
import Proofs.JsonBytesParseA
import Proofs.JsonBytesErr
import Gen.Facts

namespace Props.C17
open Martian.Json Martian.Types

/-! ### sample types / values used by the non-vacuity examples and witnesses -/

/-- field / key names: `a`, `b`, `x`, `m`; and the illegal file name `a/b` -/
private abbrev ka : Bytes := [0x61]
private abbrev kb : Bytes := [0x62]
private abbrev kx : Bytes := [0x78]
private abbrev km : Bytes := [0x6D]
private abbrev kslash : Bytes := [0x61, 0x2F, 0x62]

/-- `struct A(int a)` -/
private abbrev tA : Ty := .struct [0x41] (.cons ka (.base .int) .nil)
/-- `struct N(A a, map<int[]> b, file[][] x)` – struct of struct, typed map of arrays, 2-dim array -/
private abbrev tN : Ty :=
  .struct [0x4E] (.cons ka tA (.cons kb (.tmap (.arr (.base .int)))
    (.cons kx (.arr (.arr (.base .file))) .nil)))

/-! ### 0. regenerated obligations: the model's builtin tables are the ones in
martian/syntax/builtin_types.go of the current tree (`Gen.*` is re-extracted on every run) -/

/-- the builtin kinds are exactly `builtinTypes`, in order -/
theorem builtin_kinds_ok : Gen.builtinKinds = Base.all.map Base.name := by decide

/-- builtin ← builtin assignability is the `case *BuiltinType:` condition of
`BuiltinType.IsAssignableFrom`, evaluated for all 49 pairs -/
theorem builtin_assign_table_ok :
    ∀ d ∈ Base.all, ∀ s ∈ Base.all,
      assignableBase d s = Gen.builtinAssign.contains (d.name, s.name) := by decide

/-- `BuiltinType.IsFile` -/
theorem builtin_fileKind_table_ok :
    Base.all.map (fun b => (b.name, (fileKind (.base b)).rank)) = Gen.builtinFileKinds := by decide

/-- `BuiltinType.CanFilter` -/
theorem builtin_canFilter_table_ok :
    (Base.all.filter (fun b => canFilter (.base b))).map Base.name = Gen.builtinCanFilter := by decide

/-! ### 1. filtering is idempotent -/

/-- Filtering twice gives the same value as filtering once – for every type and
every JSON value, including values that do not validate and fatal cases. -/
theorem filter_idem (t : Ty) (hwf : t.wf = true) (v : J) :
    (filter t (filter t v).1).1 = (filter t v).1 :=
  Martian.Types.filter_idem t hwf v

/-- non-vacuity: a nested type is well-formed, and filtering really changes a value of it -/
example : tN.wf = true ∧
    (filter tA (.obj [(kx, .null), (ka, .num (.flt 10 (-1)))])).1 = .obj [(ka, .num (.int 1))] := by
  constructor
  · decide
  · rfl

/-! ### 2. filtering changes nothing except dropping members / int rewriting -/

/-- UPPER BOUND only (audit C17-M1): whenever filtering does not fail fatally, every member of the
result stems from a member of the input with that key, up to integral floats rewritten as `int64`
literals (`Drops` is type-agnostic: it does not say which members are kept – emptying every object
would satisfy it).  The exact statement is `filter_exactly_drops_partial` below.
`_partial` (audit C17-M2): for fatal results the statement is false – a missing declared member is
written as `null` (`filter_fatal_adds_null`). -/
theorem filter_only_drops_partial (t : Ty) (v : J) (h : (filter t v).2 ≠ .fatal) :
    Drops (filter t v).1 v :=
  Martian.Types.filter_drops t v h

/-- non-vacuity: a soft (non-fatal) filtering that drops a member and rewrites `1.0` -/
example : (filter tA (.obj [(kx, .null), (ka, .num (.flt 10 (-1)))])).2 = .soft := by decide

/-- `_partial`: restricted to a non-fatal result (a fatal one has `null` written for a missing member:
`filter_fatal_adds_null` – the statement without the hypothesis is false).
EXACTLY WHAT IS DROPPED (audit C17-M1): a non-fatal result of filtering `v` to `t` is `v` with
nothing changed where the type cannot filter; at `int` an `int64` literal kept and any other numeral
rewritten only to the integer its value is (within `int64`); arrays of the same length and typed
maps with the same keys in the same order, members filtered pointwise at the element type; and a
struct turned into EXACTLY its declared members in declaration order, each taken from the input (last
wins) and filtered at the member's type (copied where that type cannot filter).  So the only thing
ever removed is an undeclared struct member (`DropsT`, Martian/Types.lean: a typed relation; a filter
that empties objects, duplicates members, keeps a shadowed duplicate or rewrites a float-typed number
does NOT satisfy it). -/
theorem filter_exactly_drops_partial (t : Ty) (v : J) (h : (filter t v).2 ≠ .fatal) :
    DropsT exactRewrite t (filter t v).1 v :=
  Martian.Types.filter_dropsT t v h

/-- the typed relation really is tight: emptying a typed map, or rewriting a number at `float`, is
not allowed -/
example : ¬ DropsT exactRewrite (.tmap (.base .int)) (.obj []) (.obj [(ka, .num (.int 1))]) := by
  intro h
  cases h with
  | tmap _ _ _ _ hm => cases hm
example : ¬ DropsT exactRewrite (.base .float) (.num (.int 1)) (.num (.flt 10 (-1))) := by
  intro h; cases h

/-- negative witness for the `≠ fatal` hypothesis (audit C17-M2): filtering `{}` to `struct A(int a)`
is fatal and ADDS a member `"a": null`, which is no `Drops` of the input -/
theorem filter_fatal_adds_null :
    (filter tA (.obj [])).2 = .fatal ∧ ¬ Drops (filter tA (.obj [])).1 (.obj []) := by
  refine ⟨by decide, ?_⟩
  have : (filter tA (.obj [])).1 = .obj [(ka, .null)] := by rfl
  rw [this]
  intro h
  cases h with
  | obj ho =>
    cases ho with
    | cons hm _ _ => cases hm

/-- A type that cannot filter (`CanFilter() == false`) returns its input unchanged. -/
theorem filter_unchanged_of_not_canFilter (t : Ty) (v : J) (h : canFilter t = false) :
    (filter t v).1 = v :=
  Martian.Types.filter_fst_of_not_canFilter t v h

example : canFilter (.arr (.arr (.base .file))) = false := by decide

/-- Filtering an object to a struct type yields exactly the declared members,
in declaration order (undeclared members are dropped, nothing else is). -/
theorem filter_struct_members (n : Bytes) (fs : Fields) (kvs : List (Bytes × J)) :
    ∃ out, (filter (.struct n fs) (.obj kvs)).1 = .obj out ∧
      out.map Prod.fst = fs.toList.map Prod.fst :=
  ⟨_, filter_struct_fst n fs kvs, keys_fields_out fs _⟩

/-! ### 3. validation: null everywhere, otherwise exactly the declared shape -/

theorem valid_null (t : Ty) : valid t .null = true :=
  Martian.Types.valid_null t

/-- Clean validation accepts exactly the values of the declared shape
(`Shape` is the separately written declarative description (it shares the helper functions `isDirMap`, `legalName`, `getKey`, `Num.inInt64` with `check`: independence is of the recursion, not of those helpers) in Martian/Types.lean). -/
theorem valid_iff_shape (t : Ty) (v : J) : valid t v = true ↔ Shape t v :=
  ⟨shape_of_valid t v, valid_of_shape t v⟩

/-- non-vacuity + near misses: a value of the nested type is valid; wrong
nesting depth, a number as a string, a float for an int and a missing member are not. -/
example :
    valid tN (.obj [(ka, .obj [(ka, .num (.int 7))]),
                    (kb, .obj [(kx, .arr [.num (.int 1), .null])]),
                    (kx, .arr [.arr [.str [0x66]], .null])]) = true
    ∧ valid (.arr (.arr (.base .int))) (.arr [.num (.int 1)]) = false
    ∧ valid (.base .int) (.str [0x31]) = false
    ∧ valid (.base .int) (.num (.flt 10 (-1))) = false
    ∧ valid tA (.obj [(kx, .num (.int 1))]) = false := by decide

/-! ### 4. assignability -/

theorem assignable_refl (t : Ty) (hwf : t.wf = true) : assignable t t = true :=
  Martian.Types.assignable_refl t hwf

/-- arrays in Go's `ArrayType{Elem, Dim}` form: equal dimension and assignable elements -/
theorem assignable_array_dim_iff (a b : Ty) (ha : notArr a = true) (hb : notArr b = true)
    (n m : Nat) :
    assignable (arrN n a) (arrN m b) = true ↔ n = m ∧ assignable a b = true :=
  assignable_arrN a b ha hb n m

example : notArr (.tmap (.arr (.base .int))) = true ∧ notArr tA = true := by decide

/-- structs, direction "only if": every member of the destination exists in
the source with an assignable type. -/
theorem assignable_struct_components (n n' : Bytes) (fs fs' : Fields)
    (h : assignable (.struct n fs) (.struct n' fs') = true) :
    ∀ k t, (k, t) ∈ fs.toList → ∃ t', fs'.get k = some t' ∧ assignable t t' = true := by
  simp only [assignable, assignableFields_iff] at h
  intro k t hkt
  obtain ⟨t', hg, _, ha⟩ := h k t hkt
  exact ⟨t', hg, ha⟩

/-- structs: PARTIAL.  The full statement
  `assignable (struct fs) (struct fs') ↔ ∀ member (k,t) of fs, ∃ t', fs'.get k = some t' ∧ assignable t t'`
is false for the code: `StructType.IsAssignableFrom` additionally demands that
the two member types have the same `(ArrayDim, MapDim)` shape, which
assignability of the member types does not imply (`map ← map<int>`,
`map<T> ← struct`).  With that conjunct the equivalence holds. -/
theorem assignable_struct_iff_partial (n n' : Bytes) (fs fs' : Fields) :
    assignable (.struct n fs) (.struct n' fs') = true ↔
      ∀ k t, (k, t) ∈ fs.toList →
        ∃ t', fs'.get k = some t' ∧ dims t = dims t' ∧ assignable t t' = true := by
  simp only [assignable, assignableFields_iff]

/-- Negative witness for the full struct statement: `struct B(map m)` is not
assignable from `struct C(map<int> m)` although `map` is assignable from
`map<int>`.  (Replayed on the real code by the harness; conservative.) -/
theorem assignable_struct_components_not_sufficient :
    assignable (.base .map) (.tmap (.base .int)) = true ∧
    assignable (.struct [0x42] (.cons km (.base .map) .nil))
               (.struct [0x43] (.cons km (.tmap (.base .int)) .nil)) = false := by decide

/-! ### definitional unfoldings (documentation of the model, not guarantees) -/

/-- arrays (one dimension): by definition of the model; the rule itself is tied to
`ArrayType.IsAssignableFrom` by the differential harness, the substantive statement is
`assignable_array_dim_iff` -/
theorem assignable_array_iff (a b : Ty) :
    assignable (.arr a) (.arr b) = assignable a b := by
  simp [assignable]

/-- typed maps: by definition of the model (tied to `TypedMapType.IsAssignableFrom` by correspondence) -/
theorem assignable_map_iff (a b : Ty) :
    assignable (.tmap a) (.tmap b) = assignable a b := by
  simp [assignable]

/-! ### 5. the central statement -/

/-- Same type: a value that validates cleanly still validates cleanly after
filtering (full strength). -/
theorem filter_valid_self (t : Ty) (hwf : t.wf = true) (v : J) (h : valid t v = true) :
    valid t (filter t v).1 = true :=
  valid_of_shape _ _ (shape_filter_of_assignable t hwf t v (shape_of_valid t v h)
    (Martian.Types.assignable_refl t hwf) (noHole_refl t hwf))

/-- PARTIAL.  Full statement (false, see the two witnesses below):
  `valid s v → assignable d s → valid d (filter d v).1`.
Proved under the extra hypothesis `noHole d s`: nowhere along the assignment
is a directory-like typed map assigned from a typed map that is not
directory-like (F9), nor a typed map from a struct (F10). -/
theorem filter_valid_of_assignable_partial (d s : Ty) (v : J) (hwf : d.wf = true)
    (hs : valid s v = true) (ha : assignable d s = true) (hn : noHole d s = true) :
    valid d (filter d v).1 = true :=
  valid_of_shape _ _ (shape_filter_of_assignable d hwf s v (shape_of_valid s v hs) ha hn)

/-- non-vacuity: a struct narrowed to a struct with coercions (`float ← int`,
`file[] ← string[]`), hypotheses satisfied by a value with an extra member -/
example :
    let d : Ty := .struct [0x44] (.cons ka (.base .float) (.cons kb (.arr (.base .file)) .nil))
    let s : Ty := .struct [0x53] (.cons kb (.arr (.base .string)) (.cons ka (.base .int)
                    (.cons kx (.base .bool) .nil)))
    let v : J := .obj [(kx, .bool true), (kb, .arr [.str [0x70]]), (ka, .num (.int 3))]
    d.wf = true ∧ valid s v = true ∧ assignable d s = true ∧ noHole d s = true := by decide

/-- F9 (negative witness): `map<file>` is assignable from `map<string>`, the
value `{"a/b": "x"}` is a clean `map<string>`, and after filtering to
`map<file>` it does not validate (key is not a legal file name). -/
theorem f9_map_file_from_map_string :
    assignable (.tmap (.base .file)) (.tmap (.base .string)) = true ∧
    valid (.tmap (.base .string)) (.obj [(kslash, .str kx)]) = true ∧
    valid (.tmap (.base .file))
      (filter (.tmap (.base .file)) (.obj [(kslash, .str kx)])).1 = false := by decide

/-- F10 (negative witness): `map<int>` is assignable from `struct A(int a)`,
`{"a": 1, "x": "s"}` is a clean `A` (undeclared members are tolerated), and
after filtering to `map<int>` it does not validate. -/
theorem f10_map_from_struct_extra_member :
    assignable (.tmap (.base .int)) tA = true ∧
    valid tA (.obj [(ka, .num (.int 1)), (kx, .str kx)]) = true ∧
    valid (.tmap (.base .int))
      (filter (.tmap (.base .int)) (.obj [(ka, .num (.int 1)), (kx, .str kx)])).1 = false := by
  decide

/-! ### 6. the side hypotheses, discharged or shown exact -/

/-- `noHole` is EXACT: for well-formed assignable types, filtering every clean
`s`-value to `d` yields a clean `d`-value if and only if `noHole d s`.  So
`filter_valid_of_assignable_partial` cannot be improved, and whenever
`noHole d s` fails a concrete counterexample value exists (for the two
base shapes: the witnesses `f9_…`, `f10_…`). -/
theorem filter_valid_of_assignable_iff (d s : Ty) (hd : d.wf = true) (hs : s.wf = true)
    (ha : assignable d s = true) :
    (∀ v, valid s v = true → valid d (filter d v).1 = true) ↔ noHole d s = true := by
  constructor
  · intro h
    cases hn : noHole d s with
    | true => rfl
    | false =>
      obtain ⟨v, hv1, hv2⟩ := noHole_exact d hd s hs ha hn
      exact absurd (shape_of_valid _ _ (h v (valid_of_shape _ _ hv1))) hv2
  · intro hn v hv
    exact filter_valid_of_assignable_partial d s v hd hv ha hn

/-- `noHole` is a decidable syntactic predicate; these equations characterise it. -/
theorem noHole_scalar_dst (b : Base) (n : Bytes) (s : Ty) :
    noHole (.base b) s = true ∧ noHole (.user n) s = true := by simp [noHole]

theorem noHole_array_iff (d s : Ty) : noHole (.arr d) (.arr s) = noHole d s := by simp [noHole]

theorem noHole_map_iff (d s : Ty) :
    noHole (.tmap d) (.tmap s) = true ↔ (isDirMap d = true → isDirMap s = true) ∧ noHole d s = true := by
  cases hd : isDirMap d <;> simp [noHole, hd]

theorem noHole_map_from_struct (d : Ty) (n : Bytes) (fs : Fields) :
    noHole (.tmap d) (.struct n fs) = false := by simp [noHole]

theorem noHole_struct_iff (n n' : Bytes) (fs fs' : Fields) :
    noHole (.struct n fs) (.struct n' fs') = true ↔
      ∀ k t t', (k, t) ∈ fs.toList → fs'.get k = some t' → noHole t t' = true := by
  simp only [noHole, noHoleFields_iff]

/-- every well-formed type is hole-free with respect to itself -/
theorem noHole_refl (t : Ty) (hwf : t.wf = true) : noHole t t = true :=
  Martian.Types.noHole_refl t hwf

/-- non-vacuity on nested types: `struct D(N[] a, map<N> b)` from
`struct S(map<N> b, N[] a, int x)` with `N` the nested struct above; `map<txt[]>`
from `map<file[]>`…  all satisfy the hypotheses of the theorems of §5–§7. -/
example :
    let d : Ty := .struct [0x44] (.cons ka (.arr tN) (.cons kb (.tmap tN) .nil))
    let s : Ty := .struct [0x53] (.cons kb (.tmap tN) (.cons ka (.arr tN) (.cons kx (.base .int) .nil)))
    d.wf = true ∧ s.wf = true ∧ assignable d s = true ∧ noHole d s = true ∧ pureNarrow d s = true := by
  decide

example :
    assignable (.tmap (.arr (.user [0x74]))) (.tmap (.arr (.base .file))) = true ∧
    noHole (.tmap (.arr (.user [0x74]))) (.tmap (.arr (.base .file))) = true ∧
    noHole (.arr (.tmap (.base .float))) (.arr (.tmap (.base .int))) = true := by decide

/-- Assignability preserves the `(ArrayDim, MapDim)` shape except for the two
map coercions (`map ← map<T>`, `map<T> ← struct`, below equal array depth). -/
theorem dims_eq_of_assignable (d s : Ty) (ha : assignable d s = true)
    (hm : mapCoercion d s = false) : dims d = dims s :=
  Martian.Types.dims_eq_of_assignable d s ha hm

/-- structs: the component-wise equivalence at FULL strength whenever no member
pair is one of the two map coercions – this discharges the `dims` conjunct of
`assignable_struct_iff_partial`. -/
theorem assignable_struct_iff_of_no_mapCoercion (n n' : Bytes) (fs fs' : Fields)
    (hm : ∀ k t t', (k, t) ∈ fs.toList → fs'.get k = some t' → mapCoercion t t' = false) :
    assignable (.struct n fs) (.struct n' fs') = true ↔
      ∀ k t, (k, t) ∈ fs.toList → ∃ t', fs'.get k = some t' ∧ assignable t t' = true := by
  rw [assignable_struct_iff_partial]
  constructor
  · intro h k t hkt
    obtain ⟨t', hg, _, ha⟩ := h k t hkt
    exact ⟨t', hg, ha⟩
  · intro h k t hkt
    obtain ⟨t', hg, ha⟩ := h k t hkt
    exact ⟨t', hg, Martian.Types.dims_eq_of_assignable t t' ha (hm k t t' hkt hg), ha⟩

example : mapCoercion (.arr tN) (.arr tN) = false ∧ mapCoercion (.base .float) (.base .int) = false ∧
    mapCoercion (.base .map) (.tmap (.base .int)) = true := by decide

/-! ### 7. composition (what C01 / C07 rely on) -/

/-- A value that validates cleanly is filtered (to the same type) without any
error – not even a soft one. -/
theorem filter_ok_of_valid (t : Ty) (v : J) (h : valid t v = true) : (filter t v).2 = .ok :=
  Martian.Types.filter_ok_of_valid t v h

/-- Narrowing chain: for a value that is clean at the wider type `s`,
filtering to `s` and then to the narrower `d` equals filtering to `d`
directly.  Hypothesis `pureNarrow d s`: no `map`/`map<T>` destination takes
the place of a struct/typed map (those destinations filter less than `s`
did).  Both it and `valid s v` are needed: see the two witnesses below. -/
theorem filter_narrow_chain (d s : Ty) (v : J) (hd : d.wf = true) (hs : s.wf = true)
    (hv : valid s v = true) (ha : assignable d s = true) (hp : pureNarrow d s = true) :
    (filter d (filter s v).1).1 = (filter d v).1 :=
  filter_chain d hd s v hs hv ha hp

/-- non-vacuity: struct narrowing through nested types with a coercion -/
example :
    let d : Ty := .struct [0x44] (.cons ka (.arr tA) (.cons kb (.tmap (.base .float)) .nil))
    let s : Ty := .struct [0x53] (.cons kb (.tmap (.base .int)) (.cons ka (.arr tA) (.cons kx (.base .int) .nil)))
    let v : J := .obj [(kx, .num (.int 1)), (ka, .arr [.obj [(ka, .num (.int 2)), (kx, .null)]]),
                       (kb, .obj [(ka, .num (.int 3)), (kb, .null)])]
    d.wf = true ∧ s.wf = true ∧ valid s v = true ∧
      assignable d s = true ∧ pureNarrow d s = true := by decide

/-- witness: without `pureNarrow` (`map ← struct A`) the chain equation fails:
the struct filter drops `x`, the direct filter to `map` keeps it. -/
theorem chain_fails_map_from_struct :
    assignable (.base .map) tA = true ∧ pureNarrow (.base .map) tA = false ∧
    valid tA (.obj [(ka, .num (.int 1)), (kx, .null)]) = true ∧
    (filter (.base .map) (filter tA (.obj [(ka, .num (.int 1)), (kx, .null)])).1).1
      = .obj [(ka, .num (.int 1))] ∧
    (filter (.base .map) (.obj [(ka, .num (.int 1)), (kx, .null)])).1
      = .obj [(ka, .num (.int 1)), (kx, .null)] :=
  ⟨by decide, by decide, by decide, rfl, rfl⟩

/-- witness: without `valid s v` (`float ← int`, value `1.0`) the int filter
rewrites the literal, the float filter does not. -/
theorem chain_fails_invalid_source :
    valid (.base .int) (.num (.flt 10 (-1))) = false ∧
    (filter (.base .float) (filter (.base .int) (.num (.flt 10 (-1)))).1).1 = .num (.int 1) ∧
    (filter (.base .float) (.num (.flt 10 (-1)))).1 = .num (.flt 10 (-1)) :=
  ⟨by decide, rfl, rfl⟩

/-! ### 8. duplicate keys: objects are association LISTS

Every theorem above holds for arbitrary association lists, duplicates
included.  The real code decodes an object into a Go map before it looks at
it, i.e. it sees `dedupLast kvs` (for every key its LAST member).
* At struct-typed positions the model does exactly that (`getKey` is
  last-wins): `valid_struct_last_wins`, `filter_struct_last_wins`.
* At typed-map positions the model looks at every member of the list; the
  real code at the members of `dedupLast kvs`.  The two agree on objects
  without duplicated keys (`dedupLast_of_nodup`), and the correspondence is
  run as  real(v) ≃ model(v with every object in last-wins normal form),
  outputs compared up to that normal form.  `tmap_shadowed_member` is the
  negative witness for the raw list (replayed on the real code). -/

theorem valid_struct_last_wins (n : Bytes) (fs : Fields) (kvs : List (Bytes × J)) :
    valid (.struct n fs) (.obj kvs) = valid (.struct n fs) (.obj (dedupLast kvs)) := by
  simp [valid, check, checkFields_dedupLast]

theorem filter_struct_last_wins (n : Bytes) (fs : Fields) (kvs : List (Bytes × J)) :
    filter (.struct n fs) (.obj kvs) = filter (.struct n fs) (.obj (dedupLast kvs)) := by
  simp [filter, filterFields_dedupLast]

/-- the normal form has no duplicated key, keeps exactly the last members, and
is a fixed point -/
theorem dedupLast_spec (kvs : List (Bytes × J)) :
    ((dedupLast kvs).map Prod.fst).Nodup ∧
    (∀ k v, (k, v) ∈ dedupLast kvs ↔ getKey k kvs = some v) ∧
    dedupLast (dedupLast kvs) = dedupLast kvs :=
  ⟨keys_dedupLast_nodup kvs, fun _ _ => mem_dedupLast_iff,
    dedupLast_of_nodup (keys_dedupLast_nodup kvs)⟩

/-- struct positions: a shadowed (earlier) duplicate is never looked at –
`{"a":"x","a":1}` is a clean `struct A(int a)`, and filtering keeps the last member. -/
theorem struct_shadowed_member_ignored :
    valid tA (.obj [(ka, .str kx), (ka, .num (.int 1))]) = true ∧
    filter tA (.obj [(ka, .str kx), (ka, .num (.flt 10 (-1)))]) = (.obj [(ka, .num (.int 1))], .soft) :=
  ⟨by decide, rfl⟩

/-- typed-map positions, negative witness for the RAW list: the model rejects
`{"a":"x","a":1}` as `map<int>` (it looks at the shadowed member) but accepts
its last-wins normal form `{"a":1}` – which is what the real code validates
(it answers ok; replayed from corpus/C17). -/
theorem tmap_shadowed_member :
    valid (.tmap (.base .int)) (.obj [(ka, .str kx), (ka, .num (.int 1))]) = false ∧
    dedupLast [(ka, J.str kx), (ka, .num (.int 1))] = [(ka, .num (.int 1))] ∧
    valid (.tmap (.base .int)) (.obj (dedupLast [(ka, .str kx), (ka, .num (.int 1))])) = true :=
  ⟨by decide, rfl, by decide⟩


/-! ### 9. numerals as Go reads them (float64 rounding) – the extended model

Everything above decides "integral float" on the exact decimal value of a
literal.  The code rounds first: `BuiltinType.FilterJson` for `int` parses the
literal with `strconv.ParseFloat` when `int64` parsing fails and tests/writes
the ROUNDED value; `float` validation rejects literals beyond the largest
finite float64.  `Martian.TypesR` (Martian/Types.lean) is the same type model
over `Num.round64` / `Num.goInt?` / `Num.finite64` (Martian/Json.lean: the
literal is kept as exact integers mantissa·10^exp, only the rounding the code
performs is modelled), and the property theorems hold for it verbatim, for ALL
types and ALL JSON values, with no numeral excluded.  `R.` names below refer to
`Martian.TypesR`. -/
section Rounded

/-- filtering is idempotent (rounded numerals): the integer written for a
numeral is an `int64` literal, which filtering leaves alone -/
theorem filter_idem_round (t : Ty) (hwf : t.wf = true) (v : J) :
    (Martian.TypesR.filter t (Martian.TypesR.filter t v).1).1 = (Martian.TypesR.filter t v).1 :=
  Martian.TypesR.filter_idem t hwf v

/-- filtering changes nothing except dropping undeclared members and rewriting
a numeral that is no `int64` literal as the integer its float64 rounding is
(`Drops.int n i : n.goInt? = some i`) -/
theorem filter_only_drops_round_partial (t : Ty) (v : J) (h : (Martian.TypesR.filter t v).2 ≠ .fatal) :
    Martian.TypesR.Drops (Martian.TypesR.filter t v).1 v :=
  Martian.TypesR.filter_drops t v h

/-- `_partial` (non-fatal results only, as `filter_exactly_drops_partial`).
EXACTLY what is dropped, rounded numerals: as `filter_exactly_drops_partial`, the `int` rewrite being the
code's (`n.goInt? = some i`: the ROUNDED value) -/
theorem filter_exactly_drops_round_partial (t : Ty) (v : J) (h : (Martian.TypesR.filter t v).2 ≠ .fatal) :
    DropsT (fun n i => n.goInt? = some i) t (Martian.TypesR.filter t v).1 v :=
  Martian.TypesR.filter_dropsT t v h

/-- struct positions: exactly the declared members in declaration order (rounded model) -/
theorem filter_struct_members_round (n : Bytes) (fs : Fields) (kvs : List (Bytes × J)) :
    ∃ out, (Martian.TypesR.filter (.struct n fs) (.obj kvs)).1 = .obj out ∧
      out.map Prod.fst = fs.toList.map Prod.fst :=
  ⟨_, Martian.TypesR.filter_struct_fst n fs kvs, by simp [List.map_map, Function.comp_def]⟩

/-- same type: a clean value stays clean after filtering (rounded model) -/
theorem filter_valid_self_round (t : Ty) (hwf : t.wf = true) (v : J) (h : Martian.TypesR.valid t v = true) :
    Martian.TypesR.valid t (Martian.TypesR.filter t v).1 = true :=
  Martian.TypesR.valid_of_shape _ _ (Martian.TypesR.shape_filter_of_assignable t hwf t v
    (Martian.TypesR.shape_of_valid t v h) (Martian.Types.assignable_refl t hwf) (Martian.Types.noHole_refl t hwf))

/-- narrowing chain (rounded model) -/
theorem filter_narrow_chain_round (d s : Ty) (v : J) (hd : d.wf = true) (hs : s.wf = true)
    (hv : Martian.TypesR.valid s v = true) (ha : assignable d s = true) (hp : pureNarrow d s = true) :
    (Martian.TypesR.filter d (Martian.TypesR.filter s v).1).1 = (Martian.TypesR.filter d v).1 :=
  Martian.TypesR.filter_chain d hd s v hs hv ha hp

/-- struct positions are last-wins (rounded model) -/
theorem struct_last_wins_round (n : Bytes) (fs : Fields) (kvs : List (Bytes × J)) :
    Martian.TypesR.valid (.struct n fs) (.obj kvs) = Martian.TypesR.valid (.struct n fs) (.obj (dedupLast kvs))
    ∧ Martian.TypesR.filter (.struct n fs) (.obj kvs) = Martian.TypesR.filter (.struct n fs) (.obj (dedupLast kvs)) := by
  constructor
  · simp [Martian.TypesR.valid, Martian.TypesR.check, Martian.TypesR.checkFields_dedupLast]
  · simp [Martian.TypesR.filter, Martian.TypesR.filterFields_dedupLast]

/-- clean validation accepts exactly the declared shape, floats being finite in binary64 -/
theorem valid_iff_shape_round (t : Ty) (v : J) : Martian.TypesR.valid t v = true ↔ Martian.TypesR.Shape t v :=
  ⟨Martian.TypesR.shape_of_valid t v, Martian.TypesR.valid_of_shape t v⟩

/-- `noHole` is exact for the rounded model as well -/
theorem filter_valid_of_assignable_iff_round (d s : Ty) (hd : d.wf = true) (hs : s.wf = true)
    (ha : assignable d s = true) :
    (∀ v, Martian.TypesR.valid s v = true → Martian.TypesR.valid d (Martian.TypesR.filter d v).1 = true)
      ↔ noHole d s = true := by
  constructor
  · intro h
    cases hn : noHole d s with
    | true => rfl
    | false =>
      obtain ⟨v, hv1, hv2⟩ := Martian.TypesR.noHole_exact d hd s hs ha hn
      exact absurd (Martian.TypesR.shape_of_valid _ _ (h v (Martian.TypesR.valid_of_shape _ _ hv1))) hv2
  · intro hn v hv
    exact Martian.TypesR.valid_of_shape _ _
      (Martian.TypesR.shape_filter_of_assignable d hd s v (Martian.TypesR.shape_of_valid _ _ hv) ha hn)

/-- a clean value filters without any error (rounded model) -/
theorem filter_ok_of_valid_round (t : Ty) (v : J) (h : Martian.TypesR.valid t v = true) :
    (Martian.TypesR.filter t v).2 = .ok :=
  Martian.TypesR.filter_ok_of_valid t v h

/-- the integer `FilterJson` writes always fits `int64` -/
theorem goInt_in_int64 (n : Num) (i : Int) (h : n.goInt? = some i) : Num.inInt64 i = true :=
  Num.goInt?_inInt64 h

/-- Known finding C17-N3 as theorems about the code's rule (each replayed on the
real code every run): the value written is the ROUNDED value.
`9007199254740993.0` (2^53+1) is written as `9007199254740992`;
`1.0000000000000001` (not an integer) as `1`; `1e-400` as `0`; the integer
literal `-9223372036854775809` (outside `int64`) as `-9223372036854775808`;
while `9223372036854775808` and `1.5` are rejected, and `1.0`, `1e3` are exact. -/
theorem rounding_decides_witnesses :
    Num.goInt? (.flt 90071992547409930 (-1)) = some 9007199254740992
    ∧ Num.goInt? (.flt 10000000000000001 (-16)) = some 1
    ∧ Num.goInt? (.flt 1 (-400)) = some 0
    ∧ Num.goInt? (.int (-9223372036854775809)) = some (-9223372036854775808)
    ∧ Num.goInt? (.int 9223372036854775808) = none
    ∧ Num.goInt? (.flt 15 (-1)) = none
    ∧ Num.goInt? (.flt 10 (-1)) = some 1
    ∧ Num.goInt? (.flt 1 3) = some 1000 := by
  decide +kernel

/-- … and this is what `filter` at `int` does with them (error classes) -/
theorem rounding_filter_classes :
    (Martian.TypesR.filter (.base .int) (.num (.flt 90071992547409930 (-1)))).2 = .soft
    ∧ (Martian.TypesR.filter (.base .int) (.num (.int (-9223372036854775809)))).2 = .soft
    ∧ (Martian.TypesR.filter (.base .int) (.num (.int 9223372036854775808))).2 = .fatal
    ∧ (Martian.TypesR.filter (.base .int) (.num (.flt 15 (-1)))).2 = .fatal
    ∧ (Martian.TypesR.filter (.base .int) (.num (.int 7))).2 = .ok := by
  decide +kernel

/-- … where the exact-decimal model above says otherwise (the two models
differ only on numerals that are not `Num.exact64`) -/
theorem exact_model_differs_on_rounding :
    (Num.flt 90071992547409930 (-1)).intValue? = some 9007199254740993
    ∧ (Num.flt 10000000000000001 (-16)).intValue? = none
    ∧ Num.exact64 (.flt 90071992547409930 (-1)) = false
    ∧ Num.exact64 (.flt 10000000000000001 (-16)) = false
    ∧ Num.exact64 (.flt 10 (-1)) = true := by decide +kernel

/-- float range: `1e309` is no float (`ParseFloat`: `ErrRange`), the largest
finite float64 and a subnormal are; an `int64` integer is a float -/
theorem float_range_witnesses :
    Martian.TypesR.valid (.base .float) (.num (.flt 1 309)) = false
    ∧ Martian.TypesR.valid (.base .float) (.num (.flt 17976931348623157 292)) = true
    ∧ Martian.TypesR.valid (.base .float) (.num (.flt 17976931348623159 292)) = false
    ∧ Martian.TypesR.valid (.base .float) (.num (.flt 49 (-325))) = true
    ∧ Martian.TypesR.valid (.base .float) (.num (.int 9223372036854775807)) = true := by decide +kernel

/-- non-vacuity: a soft filtering in the rounded model that drops a member and rewrites a numeral -/
example : (Martian.TypesR.filter tA (.obj [(kx, .null), (ka, .num (.flt 90071992547409930 (-1)))])).2
    = .soft := by decide +kernel

/-- The two models differ ONLY through rounding: on a float-syntax literal that
is exactly a float64 value (`Num.exact64`, a decidable predicate on the exact
mantissa/exponent) the decision the code makes on the rounded value is the
decision of exact decimal arithmetic (`intValue?` + `int64` range) … -/
theorem goInt_exact_of_exact64 (m e : Int) (h : Num.exact64 (.flt m e) = true) :
    Num.goInt? (.flt m e) = match (Num.flt m e).intValue? with
      | some i => if Num.inInt64 i then some i else none
      | none => none :=
  Num.goInt?_of_exact_flt m e h

/-- … and therefore validation and filtering in the two models coincide – verdict,
filtered value, error class, for every type – on every JSON value all of whose
numerals are float64 values.  So every theorem of sections 1–8 is a theorem
about the code's behaviour on such values, and section 9 covers the rest. -/
theorem models_agree_on_exact_numerals (t : Ty) (v : J) (h : Martian.TypesR.NumsExact v) :
    Martian.TypesR.filter t v = filter t v ∧ Martian.TypesR.check t v = check t v :=
  ⟨Martian.TypesR.filter_agree t v h, Martian.TypesR.check_agree t v h⟩

/-- non-vacuity: `{"a": 1.0, "x": [0.5, 1e22, 9007199254740992]}` has exact numerals only -/
example : Martian.TypesR.NumsExact (.obj [(ka, .num (.flt 10 (-1))),
    (kx, .arr [.num (.flt 5 (-1)), .num (.flt 1 22), .num (.int 9007199254740992)])]) := by
  refine .obj _ ?_
  intro kv hkv
  simp only [List.mem_cons, List.not_mem_nil, or_false] at hkv
  rcases hkv with rfl | rfl
  · exact .num _ (by decide +kernel)
  · refine .arr _ ?_
    intro x hx
    simp only [List.mem_cons, List.not_mem_nil, or_false] at hx
    rcases hx with rfl | rfl | rfl <;> exact .num _ (by decide +kernel)

end Rounded


/-! ### 10. bytes: the JSON value grammar, and the splicing the filters really do

`FilterJson` never builds a tree: it asks `encoding/json` for the raw slices of the members,
filters each slice and either returns its input slice (when every member came back as the same
slice) or concatenates brackets, member slices, commas, colons and re-encoded keys.
Martian/JsonBytes.lean models the value grammar `encoding/json` accepts as a total byte parser
(`parseV` / `parseTop`, tree = `J`), a canonical printer (`printJ`), and the filters as functions
on raw messages (`filterA` on the annotated parse tree `A`; `filterBytes` on bytes).  `Den p j`
(Proofs/JsonBytes.lean) = "the bytes `p`, followed by anything that may follow a value, are read
as the tree `j` and nothing more is consumed". -/
section Bytes
open Martian.JsonBytes

/-- the parser reads the canonical text of every tree back (strings and keys valid UTF-8) -/
theorem json_parse_print (j : J) (h : wfJ j = true) : parseTop (printJ j) = some j :=
  parseTop_printJ j h

/-- … so the canonical printer is injective: equal bytes, equal trees -/
theorem json_print_injective (j1 j2 : J) (h1 : wfJ j1 = true) (h2 : wfJ j2 = true)
    (h : printJ j1 = printJ j2) : j1 = j2 :=
  printJ_injective j1 j2 h1 h2 h

/-- numbers are kept as written: `parseNum (printNum n ++ rest) = (n, rest)` before any delimiter -/
theorem json_number_roundtrip (n : Num) (rest : Bytes) (hr : delim rest = true) :
    parseNum (printNum n ++ rest) = some (n, rest) :=
  parseNum_printNum n rest hr

/-- THE SPLICE LEMMAS.  An array written as `[` pieces separated by `,` `]` denotes the array of
the trees the pieces denote – whatever the pieces are (re-encoded or untouched input slices with
their own white space) … -/
theorem splice_array_denotes (ps : List Bytes) (js : List J) (h : All2 Den ps js) :
    Den (spliceArr ps) (.arr js) :=
  den_spliceArr ps js h

/-- … and an object written as `{` keyToken `:` piece `,` … `}` denotes the object of the decoded
keys and the trees of the pieces. -/
theorem splice_object_denotes (ms : List (Bytes × Bytes)) (kvs : List (Bytes × J)) (h : All2 DenM ms kvs) :
    Den (spliceObj ms) (.obj kvs) :=
  den_spliceObj ms kvs h

/-- SPLICE CORRECTNESS OF `FilterJson` (all types, all raw messages): if the input message is
sound (every node's raw bytes denote that node's tree – what `encoding/json` hands out), then so is
the returned message, on the fast path (input slice returned) and on every re-encoding path
(array, typed map with `sort.Strings` keys and last-wins duplicates, struct with declared members
in declaration order, `int` rewritten by `json.Marshal`). -/
theorem filter_bytes_sound (t : Ty) (hk : tyKeysOk t = true) (a : A) (h : ASound a) :
    ASound (filterA t a).out :=
  sound_filterA t hk a h

/-- … in particular the bytes returned parse, as a whole document, to the tree returned -/
theorem filter_bytes_parse (t : Ty) (hk : tyKeysOk t = true) (a : A) (h : ASound a) :
    parseTop (filterA t a).out.raw = some (filterA t a).out.toJ :=
  parseTop_of_den (sound_filterA t hk a h).den

/-- LOCALITY (why `json.RawMessage` slices mean anything): the bytes the parser consumed for a
value – whatever white space, escapes, duplicate keys or nesting they contain – denote that value
on their own: followed by anything that may follow a value, they are read as the same tree.  So
the slice `encoding/json` hands out for a member re-parses to the member's tree. -/
theorem json_slices_denote (f : Nat) (b : Bytes) (j : J) (r : Bytes) (h : parseV f b = some (j, r)) :
    Den (consumed (skipWs b) r) j :=
  parseV_local f b j r h

/-- strings and keys the JSON decoder returns are always valid UTF-8 (invalid input is coerced to
U+FFFD), so re-encoding a decoded key and reading it back gives the same key -/
theorem json_decoded_strings_valid (t k r : Bytes) (h : parseStr t = some (k, r)) :
    Martian.ShellQuote.validUtf8 k = true :=
  parseStr_valid t k r h

/-- every document the grammar accepts is annotated soundly (no side condition): at every node
of `parseTopA data` the recorded raw slice denotes the node's tree -/
theorem json_annotation_sound (data : Bytes) (a : A) (h : parseTopA data = some a) : ASound a :=
  sound_of_parseTopA data a h

/-- FILTER BYTES, for ALL types (member names valid UTF-8) and ALL inputs the grammar accepts: the
bytes `FilterJson` returns – input slice or re-encoded containers, at any depth – are a JSON
document, namely the document of the tree the model returns.  (This turns the former
"the output must parse and be tree-equal to the model's" correspondence into a theorem about the
byte-level model `filterBytes`, which is itself compared byte for byte with the real `FilterJson`
on every case of every run.) -/
theorem filter_bytes_document (t : Ty) (hk : tyKeysOk t = true) (data out : Bytes) (e : FErr)
    (h : filterBytes t data = some (out, e)) :
    ∃ a, parseTopA data = some a ∧ out = (filterA t a).out.raw
      ∧ parseTop out = some (filterA t a).out.toJ :=
  filterBytes_parses t hk data out e h

/-- FILTER BYTES = FILTER TREE, the VALUES (the link to sections 1–9; audit pass 2, C17-M1: this
statement links the trees only – for the error class see `filter_bytes_error_class` next): for every
well-formed type and every input the grammar accepts, if `FilterJson` does not fail fatally, the
bytes it returns parse to a tree that is – as a decode into Go maps / a Python dict sees it (`EqL`:
per key the last member wins; member ORDER and shadowed duplicates are invisible, so the
"declaration order" / "same key order" clauses of `DropsT` do not pass through this link) – the
rounded-numeral tree model's `filter` of the tree the input parses to.
`_partial`: restricted to `e ≠ fatal` (on a fatal error the code returns bytes with
`null` written for a missing member: `filter_fatal_adds_null`). -/
theorem filter_bytes_tree_partial (t : Ty) (hwf : t.wf = true) (hk : tyKeysOk t = true) (data out : Bytes) (e : FErr)
    (h : filterBytes t data = some (out, e)) (hne : e ≠ .fatal) :
    ∃ j0 j, parseTop data = some j0 ∧ parseTop out = some j ∧ EqL j (Martian.TypesR.filter t j0).1 :=
  filterBytes_tree t hwf hk data out e h hne

/-- FILTER BYTES = FILTER TREE, the ERROR CLASS (audit pass 2, C17-M1): on a document no object of
which has two members with the same key (`noDupA`, decidable; it also says the annotated leaves are
scalars, which is true of everything `parseTopA` returns) the error class `FilterJson` reports on
the bytes IS the error class of the tree-level model on the parsed tree.  Without the hypothesis the
two can differ – the tree-level model filters a shadowed duplicate under `map<T>`, the code only the
members of the decoded Go map (`tmap_shadowed_member`); the byte-level model follows the code and is
compared with it byte for byte AND error class for error class on every case. -/
theorem filter_bytes_error_class (t : Ty) (hwf : t.wf = true) (data out : Bytes) (e : FErr)
    (h : filterBytes t data = some (out, e)) :
    ∃ a, parseTopA data = some a ∧ parseTop data = some a.toJ ∧
      (noDupA a = true → e = (Martian.TypesR.filter t a.toJ).2) := by
  unfold filterBytes at h
  cases ha : parseTopA data with
  | none => simp [ha] at h
  | some a =>
    simp only [ha, Option.map_some, Option.some.injEq, Prod.mk.injEq] at h
    exact ⟨a, rfl, parseTopA_toJ data a ha, fun hn => h.2 ▸ filterA_err_agrees t hwf a hn⟩

/-- … so the error-class hypotheses of sections 1–9 CAN be discharged from the bytes: e.g. "exactly
what is dropped" (`filter_exactly_drops_round_partial`) for the tree the returned bytes denote.  `_partial`:
duplicate-free input, no fatal error. -/
theorem filter_bytes_exactly_drops_partial (t : Ty) (hwf : t.wf = true) (hk : tyKeysOk t = true)
    (data out : Bytes) (e : FErr) (h : filterBytes t data = some (out, e)) (hne : e ≠ .fatal) :
    ∃ a j, parseTopA data = some a ∧ parseTop out = some j ∧ (noDupA a = true →
      EqL j (Martian.TypesR.filter t a.toJ).1 ∧
      DropsT (fun n i => n.goInt? = some i) t (Martian.TypesR.filter t a.toJ).1 a.toJ) := by
  obtain ⟨a, ha, _, hcls⟩ := filter_bytes_error_class t hwf data out e h
  obtain ⟨a', ha', hout, hp⟩ := filterBytes_parses t hk data out e h
  rw [ha] at ha'; cases ha'
  have he : (filterA t a).err = e := by
    unfold filterBytes at h
    simp only [ha, Option.map_some, Option.some.injEq, Prod.mk.injEq] at h
    exact h.2
  refine ⟨a, _, ha, hp, fun hn => ⟨filterA_agrees t hwf a (by rw [he]; exact hne), ?_⟩⟩
  exact Martian.TypesR.filter_dropsT t a.toJ (by rw [← hcls hn]; exact hne)

/-- non-vacuity: `{"a":"x","a":1}` has a duplicated key (`noDupA` false) and there the classes do
differ at `map<int>` (bytes: ok – the Go map holds `a ↦ 1`; tree model: fatal on the shadowed `"x"`);
`{"a":1,"b":2}` has none -/
example : (parseTopA [0x7B, 0x22, 0x61, 0x22, 0x3A, 0x22, 0x78, 0x22, 0x2C, 0x22, 0x61, 0x22, 0x3A, 0x31, 0x7D]).map noDupA = some false
    ∧ (filterBytes (.tmap (.base .int)) [0x7B, 0x22, 0x61, 0x22, 0x3A, 0x22, 0x78, 0x22, 0x2C, 0x22, 0x61, 0x22, 0x3A, 0x31, 0x7D]).map (·.2) = some .ok
    ∧ (Martian.TypesR.filter (.tmap (.base .int)) (.obj [(ka, .str kx), (ka, .num (.int 1))])).2 = .fatal
    ∧ (parseTopA [0x7B, 0x22, 0x61, 0x22, 0x3A, 0x31, 0x2C, 0x22, 0x62, 0x22, 0x3A, 0x32, 0x7D]).map noDupA = some true := by
  decide +kernel

/-- `EqL` is reflexive, and it really forgets order: `{"a":1,"b":2}` and `{"b":2,"a":0,"a":1}` -/
example : EqL (.obj [(ka, .num (.int 1)), (kb, .num (.int 2))])
    (.obj [(kb, .num (.int 2)), (ka, .num (.int 0)), (ka, .num (.int 1))]) := by
  refine .obj (by intro k; simp only [getKey]; split <;> split <;> simp_all) ?_
  intro k v1 v2 h1 h2
  simp only [getKey] at h1 h2
  by_cases hb : kb = k
  · subst hb
    simp at h1 h2
    obtain rfl := h1; obtain rfl := h2; exact EqL.refl _
  · by_cases ha : ka = k
    · subst ha
      simp at h1 h2
      obtain rfl := h1; obtain rfl := h2; exact EqL.refl _
    · simp [ha, hb] at h1

/-- non-vacuity / witnesses, on bytes: `struct A(int a)` filters `{ "x":null, "a" : 1.0 }` to
`{"a":1}` (re-encoded: member dropped, number rewritten) and returns `{ "a" : 1 }` untouched,
white space included (fast path) -/
example : (filterBytes tA [0x7B, 0x20, 0x22, 0x78, 0x22, 0x3A, 0x6E, 0x75, 0x6C, 0x6C, 0x2C, 0x20, 0x22, 0x61,
      0x22, 0x20, 0x3A, 0x20, 0x31, 0x2E, 0x30, 0x20, 0x7D])
    = some ([0x7B, 0x22, 0x61, 0x22, 0x3A, 0x31, 0x7D], .soft) := by decide +kernel
example : (filterBytes tA [0x7B, 0x20, 0x22, 0x61, 0x22, 0x20, 0x3A, 0x20, 0x31, 0x20, 0x7D])
    = some ([0x7B, 0x20, 0x22, 0x61, 0x22, 0x20, 0x3A, 0x20, 0x31, 0x20, 0x7D], .ok) := by decide +kernel
/-- a sound message: the literal `1.0` with its tree -/
example : ASound (.lit (printNum (.flt 10 (-1))) (.num (.flt 10 (-1)))) := .lit _ _ (den_num _)
/-- the grammar is `encoding/json`'s: leading zeros, trailing commas, raw control bytes, garbage
after the value are rejected; white space and duplicate keys are accepted -/
example : parseTop [0x5B, 0x30, 0x31, 0x5D] = none ∧ parseTop [0x5B, 0x31, 0x2C, 0x5D] = none
    ∧ parseTop [0x22, 0x01, 0x22] = none ∧ parseTop [0x31, 0x20, 0x32] = none
    ∧ (parseTop [0x20, 0x5B, 0x0A, 0x31, 0x09, 0x5D, 0x0D]).map printJ = some [0x5B, 0x31, 0x5D] := by
  decide +kernel

end Bytes

end Props.C17
