/-
C17 — JSON validation and filtering agree with the type system.
PROPERTY THEOREMS ONLY (model: Martian/Json.lean, Martian/Types.lean; helper
lemmas: Proofs/Types.lean).

Quantification: ALL model types (`Ty`: builtins, user file types, arrays of any
dimension, typed maps, structs of structs …) and ALL JSON trees (`J`).  The
only side condition on types is `Ty.wf` (field names of a struct are distinct),
which the MRO compiler enforces (`DuplicateNameError`).

`valid t v` = clean validation (no error, no alarm).  `(filter t v).1` is the
filtered value, `(filter t v).2 ∈ {ok, soft, fatal}` the error class.
-/
import Martian.Types
import Proofs.Types
import Proofs.TypesRound
import Proofs.JsonRound
import Proofs.TypesAgree
import Gen.Facts

namespace Props.C17
open Martian.Json Martian.Types

/-! ### sample types / values used by the non-vacuity examples and witnesses -/

/-- field / key names: `a`, `b`, `x`, `m`; and the illegal file name `a/b` -/
private abbrev ka : Bytes := [0x61]
private abbrev kb : Bytes := [0x62]
private abbrev kx : Bytes := [0x78]
private abbrev km : Bytes := [0x6D]
private abbrev kslash : Bytes := [0x61, 0x2F, 0x62]

/-- `struct A(int a)` -/
private abbrev tA : Ty := .struct [0x41] (.cons ka (.base .int) .nil)
/-- `struct N(A a, map<int[]> b, file[][] x)` – struct of struct, typed map of arrays, 2-dim array -/
private abbrev tN : Ty :=
  .struct [0x4E] (.cons ka tA (.cons kb (.tmap (.arr (.base .int)))
    (.cons kx (.arr (.arr (.base .file))) .nil)))

/-! ### 0. regenerated obligations: the model's builtin tables are the ones in
martian/syntax/builtin_types.go of the current tree (`Gen.*` is re-extracted on every run) -/

/-- the builtin kinds are exactly `builtinTypes`, in order -/
theorem builtin_kinds_ok : Gen.builtinKinds = Base.all.map Base.name := by decide

/-- builtin ← builtin assignability is the `case *BuiltinType:` condition of
`BuiltinType.IsAssignableFrom`, evaluated for all 49 pairs -/
theorem builtin_assign_table_ok :
    ∀ d ∈ Base.all, ∀ s ∈ Base.all,
      assignableBase d s = Gen.builtinAssign.contains (d.name, s.name) := by decide

/-- `BuiltinType.IsFile` -/
theorem builtin_fileKind_table_ok :
    Base.all.map (fun b => (b.name, (fileKind (.base b)).rank)) = Gen.builtinFileKinds := by decide

/-- `BuiltinType.CanFilter` -/
theorem builtin_canFilter_table_ok :
    (Base.all.filter (fun b => canFilter (.base b))).map Base.name = Gen.builtinCanFilter := by decide

/-! ### 1. filtering is idempotent -/

/-- Filtering twice gives the same value as filtering once – for every type and
every JSON value, including values that do not validate and fatal cases. -/
theorem filter_idem (t : Ty) (hwf : t.wf = true) (v : J) :
    (filter t (filter t v).1).1 = (filter t v).1 :=
  Martian.Types.filter_idem t hwf v

/-- non-vacuity: a nested type is well-formed, and filtering really changes a value of it -/
example : tN.wf = true ∧
    (filter tA (.obj [(kx, .null), (ka, .num (.flt 10 (-1)))])).1 = .obj [(ka, .num (.int 1))] := by
  constructor
  · decide
  · rfl

/-! ### 2. filtering changes nothing except dropping members / int rewriting -/

/-- Whenever filtering does not fail fatally, the result is the input up to
dropped (and reordered) object members and integral floats rewritten as
`int64` literals (`Drops`).  (A fatal result may contain `null` for a missing
declared member, hence the hypothesis.) -/
theorem filter_only_drops (t : Ty) (v : J) (h : (filter t v).2 ≠ .fatal) :
    Drops (filter t v).1 v :=
  Martian.Types.filter_drops t v h

/-- non-vacuity: a soft (non-fatal) filtering that drops a member and rewrites `1.0` -/
example : (filter tA (.obj [(kx, .null), (ka, .num (.flt 10 (-1)))])).2 = .soft := by decide

/-- A type that cannot filter (`CanFilter() == false`) returns its input unchanged. -/
theorem filter_unchanged_of_not_canFilter (t : Ty) (v : J) (h : canFilter t = false) :
    (filter t v).1 = v :=
  Martian.Types.filter_fst_of_not_canFilter t v h

example : canFilter (.arr (.arr (.base .file))) = false := by decide

/-- Filtering an object to a struct type yields exactly the declared members,
in declaration order (undeclared members are dropped, nothing else is). -/
theorem filter_struct_members (n : Bytes) (fs : Fields) (kvs : List (Bytes × J)) :
    ∃ out, (filter (.struct n fs) (.obj kvs)).1 = .obj out ∧
      out.map Prod.fst = fs.toList.map Prod.fst :=
  ⟨_, filter_struct_fst n fs kvs, keys_fields_out fs _⟩

/-! ### 3. validation: null everywhere, otherwise exactly the declared shape -/

theorem valid_null (t : Ty) : valid t .null = true :=
  Martian.Types.valid_null t

/-- Clean validation accepts exactly the values of the declared shape
(`Shape` is the independent declarative description in Martian/Types.lean). -/
theorem valid_iff_shape (t : Ty) (v : J) : valid t v = true ↔ Shape t v :=
  ⟨shape_of_valid t v, valid_of_shape t v⟩

/-- non-vacuity + near misses: a value of the nested type is valid; wrong
nesting depth, a number as a string, a float for an int and a missing member are not. -/
example :
    valid tN (.obj [(ka, .obj [(ka, .num (.int 7))]),
                    (kb, .obj [(kx, .arr [.num (.int 1), .null])]),
                    (kx, .arr [.arr [.str [0x66]], .null])]) = true
    ∧ valid (.arr (.arr (.base .int))) (.arr [.num (.int 1)]) = false
    ∧ valid (.base .int) (.str [0x31]) = false
    ∧ valid (.base .int) (.num (.flt 10 (-1))) = false
    ∧ valid tA (.obj [(kx, .num (.int 1))]) = false := by decide

/-! ### 4. assignability -/

theorem assignable_refl (t : Ty) (hwf : t.wf = true) : assignable t t = true :=
  Martian.Types.assignable_refl t hwf

/-- arrays: exactly when it holds for the elements (one dimension) -/
theorem assignable_array_iff (a b : Ty) :
    assignable (.arr a) (.arr b) = assignable a b := by
  simp [assignable]

/-- arrays in Go's `ArrayType{Elem, Dim}` form: equal dimension and assignable elements -/
theorem assignable_array_dim_iff (a b : Ty) (ha : notArr a = true) (hb : notArr b = true)
    (n m : Nat) :
    assignable (arrN n a) (arrN m b) = true ↔ n = m ∧ assignable a b = true :=
  assignable_arrN a b ha hb n m

example : notArr (.tmap (.arr (.base .int))) = true ∧ notArr tA = true := by decide

/-- typed maps: exactly when it holds for the element types -/
theorem assignable_map_iff (a b : Ty) :
    assignable (.tmap a) (.tmap b) = assignable a b := by
  simp [assignable]

/-- structs, direction "only if": every member of the destination exists in
the source with an assignable type. -/
theorem assignable_struct_components (n n' : Bytes) (fs fs' : Fields)
    (h : assignable (.struct n fs) (.struct n' fs') = true) :
    ∀ k t, (k, t) ∈ fs.toList → ∃ t', fs'.get k = some t' ∧ assignable t t' = true := by
  simp only [assignable, assignableFields_iff] at h
  intro k t hkt
  obtain ⟨t', hg, _, ha⟩ := h k t hkt
  exact ⟨t', hg, ha⟩

/-- structs: PARTIAL.  The full statement
  `assignable (struct fs) (struct fs') ↔ ∀ member (k,t) of fs, ∃ t', fs'.get k = some t' ∧ assignable t t'`
is false for the code: `StructType.IsAssignableFrom` additionally demands that
the two member types have the same `(ArrayDim, MapDim)` shape, which
assignability of the member types does not imply (`map ← map<int>`,
`map<T> ← struct`).  With that conjunct the equivalence holds. -/
theorem assignable_struct_iff_partial (n n' : Bytes) (fs fs' : Fields) :
    assignable (.struct n fs) (.struct n' fs') = true ↔
      ∀ k t, (k, t) ∈ fs.toList →
        ∃ t', fs'.get k = some t' ∧ dims t = dims t' ∧ assignable t t' = true := by
  simp only [assignable, assignableFields_iff]

/-- Negative witness for the full struct statement: `struct B(map m)` is not
assignable from `struct C(map<int> m)` although `map` is assignable from
`map<int>`.  (Replayed on the real code by the harness; conservative.) -/
theorem assignable_struct_components_not_sufficient :
    assignable (.base .map) (.tmap (.base .int)) = true ∧
    assignable (.struct [0x42] (.cons km (.base .map) .nil))
               (.struct [0x43] (.cons km (.tmap (.base .int)) .nil)) = false := by decide

/-! ### 5. the central statement -/

/-- Same type: a value that validates cleanly still validates cleanly after
filtering (full strength). -/
theorem filter_valid_self (t : Ty) (hwf : t.wf = true) (v : J) (h : valid t v = true) :
    valid t (filter t v).1 = true :=
  valid_of_shape _ _ (shape_filter_of_assignable t hwf t v (shape_of_valid t v h)
    (Martian.Types.assignable_refl t hwf) (noHole_refl t hwf))

/-- PARTIAL.  Full statement (false, see the two witnesses below):
  `valid s v → assignable d s → valid d (filter d v).1`.
Proved under the extra hypothesis `noHole d s`: nowhere along the assignment
is a directory-like typed map assigned from a typed map that is not
directory-like (F9), nor a typed map from a struct (F10). -/
theorem filter_valid_of_assignable_partial (d s : Ty) (v : J) (hwf : d.wf = true)
    (hs : valid s v = true) (ha : assignable d s = true) (hn : noHole d s = true) :
    valid d (filter d v).1 = true :=
  valid_of_shape _ _ (shape_filter_of_assignable d hwf s v (shape_of_valid s v hs) ha hn)

/-- non-vacuity: a struct narrowed to a struct with coercions (`float ← int`,
`file[] ← string[]`), hypotheses satisfied by a value with an extra member -/
example :
    let d : Ty := .struct [0x44] (.cons ka (.base .float) (.cons kb (.arr (.base .file)) .nil))
    let s : Ty := .struct [0x53] (.cons kb (.arr (.base .string)) (.cons ka (.base .int)
                    (.cons kx (.base .bool) .nil)))
    let v : J := .obj [(kx, .bool true), (kb, .arr [.str [0x70]]), (ka, .num (.int 3))]
    d.wf = true ∧ valid s v = true ∧ assignable d s = true ∧ noHole d s = true := by decide

/-- F9 (negative witness): `map<file>` is assignable from `map<string>`, the
value `{"a/b": "x"}` is a clean `map<string>`, and after filtering to
`map<file>` it does not validate (key is not a legal file name). -/
theorem f9_map_file_from_map_string :
    assignable (.tmap (.base .file)) (.tmap (.base .string)) = true ∧
    valid (.tmap (.base .string)) (.obj [(kslash, .str kx)]) = true ∧
    valid (.tmap (.base .file))
      (filter (.tmap (.base .file)) (.obj [(kslash, .str kx)])).1 = false := by decide

/-- F10 (negative witness): `map<int>` is assignable from `struct A(int a)`,
`{"a": 1, "x": "s"}` is a clean `A` (undeclared members are tolerated), and
after filtering to `map<int>` it does not validate. -/
theorem f10_map_from_struct_extra_member :
    assignable (.tmap (.base .int)) tA = true ∧
    valid tA (.obj [(ka, .num (.int 1)), (kx, .str kx)]) = true ∧
    valid (.tmap (.base .int))
      (filter (.tmap (.base .int)) (.obj [(ka, .num (.int 1)), (kx, .str kx)])).1 = false := by
  decide

/-! ### 6. the side hypotheses, discharged or shown exact -/

/-- `noHole` is EXACT: for well-formed assignable types, filtering every clean
`s`-value to `d` yields a clean `d`-value if and only if `noHole d s`.  So
`filter_valid_of_assignable_partial` cannot be improved, and whenever
`noHole d s` fails a concrete counterexample value exists (for the two
base shapes: the witnesses `f9_…`, `f10_…`). -/
theorem filter_valid_of_assignable_iff (d s : Ty) (hd : d.wf = true) (hs : s.wf = true)
    (ha : assignable d s = true) :
    (∀ v, valid s v = true → valid d (filter d v).1 = true) ↔ noHole d s = true := by
  constructor
  · intro h
    cases hn : noHole d s with
    | true => rfl
    | false =>
      obtain ⟨v, hv1, hv2⟩ := noHole_exact d hd s hs ha hn
      exact absurd (shape_of_valid _ _ (h v (valid_of_shape _ _ hv1))) hv2
  · intro hn v hv
    exact filter_valid_of_assignable_partial d s v hd hv ha hn

/-- `noHole` is a decidable syntactic predicate; these equations characterise it. -/
theorem noHole_scalar_dst (b : Base) (n : Bytes) (s : Ty) :
    noHole (.base b) s = true ∧ noHole (.user n) s = true := by simp [noHole]

theorem noHole_array_iff (d s : Ty) : noHole (.arr d) (.arr s) = noHole d s := by simp [noHole]

theorem noHole_map_iff (d s : Ty) :
    noHole (.tmap d) (.tmap s) = true ↔ (isDirMap d = true → isDirMap s = true) ∧ noHole d s = true := by
  cases hd : isDirMap d <;> simp [noHole, hd]

theorem noHole_map_from_struct (d : Ty) (n : Bytes) (fs : Fields) :
    noHole (.tmap d) (.struct n fs) = false := by simp [noHole]

theorem noHole_struct_iff (n n' : Bytes) (fs fs' : Fields) :
    noHole (.struct n fs) (.struct n' fs') = true ↔
      ∀ k t t', (k, t) ∈ fs.toList → fs'.get k = some t' → noHole t t' = true := by
  simp only [noHole, noHoleFields_iff]

/-- every well-formed type is hole-free with respect to itself -/
theorem noHole_refl (t : Ty) (hwf : t.wf = true) : noHole t t = true :=
  Martian.Types.noHole_refl t hwf

/-- non-vacuity on nested types: `struct D(N[] a, map<N> b)` from
`struct S(map<N> b, N[] a, int x)` with `N` the nested struct above; `map<txt[]>`
from `map<file[]>`…  all satisfy the hypotheses of the theorems of §5–§7. -/
example :
    let d : Ty := .struct [0x44] (.cons ka (.arr tN) (.cons kb (.tmap tN) .nil))
    let s : Ty := .struct [0x53] (.cons kb (.tmap tN) (.cons ka (.arr tN) (.cons kx (.base .int) .nil)))
    d.wf = true ∧ s.wf = true ∧ assignable d s = true ∧ noHole d s = true ∧ pureNarrow d s = true := by
  decide

example :
    assignable (.tmap (.arr (.user [0x74]))) (.tmap (.arr (.base .file))) = true ∧
    noHole (.tmap (.arr (.user [0x74]))) (.tmap (.arr (.base .file))) = true ∧
    noHole (.arr (.tmap (.base .float))) (.arr (.tmap (.base .int))) = true := by decide

/-- Assignability preserves the `(ArrayDim, MapDim)` shape except for the two
map coercions (`map ← map<T>`, `map<T> ← struct`, below equal array depth). -/
theorem dims_eq_of_assignable (d s : Ty) (ha : assignable d s = true)
    (hm : mapCoercion d s = false) : dims d = dims s :=
  Martian.Types.dims_eq_of_assignable d s ha hm

/-- structs: the component-wise equivalence at FULL strength whenever no member
pair is one of the two map coercions – this discharges the `dims` conjunct of
`assignable_struct_iff_partial`. -/
theorem assignable_struct_iff_of_no_mapCoercion (n n' : Bytes) (fs fs' : Fields)
    (hm : ∀ k t t', (k, t) ∈ fs.toList → fs'.get k = some t' → mapCoercion t t' = false) :
    assignable (.struct n fs) (.struct n' fs') = true ↔
      ∀ k t, (k, t) ∈ fs.toList → ∃ t', fs'.get k = some t' ∧ assignable t t' = true := by
  rw [assignable_struct_iff_partial]
  constructor
  · intro h k t hkt
    obtain ⟨t', hg, _, ha⟩ := h k t hkt
    exact ⟨t', hg, ha⟩
  · intro h k t hkt
    obtain ⟨t', hg, ha⟩ := h k t hkt
    exact ⟨t', hg, Martian.Types.dims_eq_of_assignable t t' ha (hm k t t' hkt hg), ha⟩

example : mapCoercion (.arr tN) (.arr tN) = false ∧ mapCoercion (.base .float) (.base .int) = false ∧
    mapCoercion (.base .map) (.tmap (.base .int)) = true := by decide

/-! ### 7. composition (what C01 / C07 rely on) -/

/-- A value that validates cleanly is filtered (to the same type) without any
error – not even a soft one. -/
theorem filter_ok_of_valid (t : Ty) (v : J) (h : valid t v = true) : (filter t v).2 = .ok :=
  Martian.Types.filter_ok_of_valid t v h

/-- Narrowing chain: for a value that is clean at the wider type `s`,
filtering to `s` and then to the narrower `d` equals filtering to `d`
directly.  Hypothesis `pureNarrow d s`: no `map`/`map<T>` destination takes
the place of a struct/typed map (those destinations filter less than `s`
did).  Both it and `valid s v` are needed: see the two witnesses below. -/
theorem filter_narrow_chain (d s : Ty) (v : J) (hd : d.wf = true) (hs : s.wf = true)
    (hv : valid s v = true) (ha : assignable d s = true) (hp : pureNarrow d s = true) :
    (filter d (filter s v).1).1 = (filter d v).1 :=
  filter_chain d hd s v hs hv ha hp

/-- non-vacuity: struct narrowing through nested types with a coercion -/
example :
    let d : Ty := .struct [0x44] (.cons ka (.arr tA) (.cons kb (.tmap (.base .float)) .nil))
    let s : Ty := .struct [0x53] (.cons kb (.tmap (.base .int)) (.cons ka (.arr tA) (.cons kx (.base .int) .nil)))
    let v : J := .obj [(kx, .num (.int 1)), (ka, .arr [.obj [(ka, .num (.int 2)), (kx, .null)]]),
                       (kb, .obj [(ka, .num (.int 3)), (kb, .null)])]
    d.wf = true ∧ s.wf = true ∧ valid s v = true ∧
      assignable d s = true ∧ pureNarrow d s = true := by decide

/-- witness: without `pureNarrow` (`map ← struct A`) the chain equation fails:
the struct filter drops `x`, the direct filter to `map` keeps it. -/
theorem chain_fails_map_from_struct :
    assignable (.base .map) tA = true ∧ pureNarrow (.base .map) tA = false ∧
    valid tA (.obj [(ka, .num (.int 1)), (kx, .null)]) = true ∧
    (filter (.base .map) (filter tA (.obj [(ka, .num (.int 1)), (kx, .null)])).1).1
      = .obj [(ka, .num (.int 1))] ∧
    (filter (.base .map) (.obj [(ka, .num (.int 1)), (kx, .null)])).1
      = .obj [(ka, .num (.int 1)), (kx, .null)] :=
  ⟨by decide, by decide, by decide, rfl, rfl⟩

/-- witness: without `valid s v` (`float ← int`, value `1.0`) the int filter
rewrites the literal, the float filter does not. -/
theorem chain_fails_invalid_source :
    valid (.base .int) (.num (.flt 10 (-1))) = false ∧
    (filter (.base .float) (filter (.base .int) (.num (.flt 10 (-1)))).1).1 = .num (.int 1) ∧
    (filter (.base .float) (.num (.flt 10 (-1)))).1 = .num (.flt 10 (-1)) :=
  ⟨by decide, rfl, rfl⟩

/-! ### 8. duplicate keys: objects are association LISTS

Every theorem above holds for arbitrary association lists, duplicates
included.  The real code decodes an object into a Go map before it looks at
it, i.e. it sees `dedupLast kvs` (for every key its LAST member).
* At struct-typed positions the model does exactly that (`getKey` is
  last-wins): `valid_struct_last_wins`, `filter_struct_last_wins`.
* At typed-map positions the model looks at every member of the list; the
  real code at the members of `dedupLast kvs`.  The two agree on objects
  without duplicated keys (`dedupLast_of_nodup`), and the correspondence is
  run as  real(v) ≃ model(v with every object in last-wins normal form),
  outputs compared up to that normal form.  `tmap_shadowed_member` is the
  negative witness for the raw list (replayed on the real code). -/

theorem valid_struct_last_wins (n : Bytes) (fs : Fields) (kvs : List (Bytes × J)) :
    valid (.struct n fs) (.obj kvs) = valid (.struct n fs) (.obj (dedupLast kvs)) := by
  simp [valid, check, checkFields_dedupLast]

theorem filter_struct_last_wins (n : Bytes) (fs : Fields) (kvs : List (Bytes × J)) :
    filter (.struct n fs) (.obj kvs) = filter (.struct n fs) (.obj (dedupLast kvs)) := by
  simp [filter, filterFields_dedupLast]

/-- the normal form has no duplicated key, keeps exactly the last members, and
is a fixed point -/
theorem dedupLast_spec (kvs : List (Bytes × J)) :
    ((dedupLast kvs).map Prod.fst).Nodup ∧
    (∀ k v, (k, v) ∈ dedupLast kvs ↔ getKey k kvs = some v) ∧
    dedupLast (dedupLast kvs) = dedupLast kvs :=
  ⟨keys_dedupLast_nodup kvs, fun _ _ => mem_dedupLast_iff,
    dedupLast_of_nodup (keys_dedupLast_nodup kvs)⟩

/-- struct positions: a shadowed (earlier) duplicate is never looked at –
`{"a":"x","a":1}` is a clean `struct A(int a)`, and filtering keeps the last member. -/
theorem struct_shadowed_member_ignored :
    valid tA (.obj [(ka, .str kx), (ka, .num (.int 1))]) = true ∧
    filter tA (.obj [(ka, .str kx), (ka, .num (.flt 10 (-1)))]) = (.obj [(ka, .num (.int 1))], .soft) :=
  ⟨by decide, rfl⟩

/-- typed-map positions, negative witness for the RAW list: the model rejects
`{"a":"x","a":1}` as `map<int>` (it looks at the shadowed member) but accepts
its last-wins normal form `{"a":1}` – which is what the real code validates
(it answers ok; replayed from corpus/C17). -/
theorem tmap_shadowed_member :
    valid (.tmap (.base .int)) (.obj [(ka, .str kx), (ka, .num (.int 1))]) = false ∧
    dedupLast [(ka, J.str kx), (ka, .num (.int 1))] = [(ka, .num (.int 1))] ∧
    valid (.tmap (.base .int)) (.obj (dedupLast [(ka, .str kx), (ka, .num (.int 1))])) = true :=
  ⟨by decide, rfl, by decide⟩


/-! ### 9. numerals as Go reads them (float64 rounding) – the extended model

Everything above decides "integral float" on the exact decimal value of a
literal.  The code rounds first: `BuiltinType.FilterJson` for `int` parses the
literal with `strconv.ParseFloat` when `int64` parsing fails and tests/writes
the ROUNDED value; `float` validation rejects literals beyond the largest
finite float64.  `Martian.TypesR` (Martian/Types.lean) is the same type model
over `Num.round64` / `Num.goInt?` / `Num.finite64` (Martian/Json.lean: the
literal is kept as exact integers mantissa·10^exp, only the rounding the code
performs is modelled), and the property theorems hold for it verbatim, for ALL
types and ALL JSON values, with no numeral excluded.  `R.` names below refer to
`Martian.TypesR`. -/
section Rounded

/-- filtering is idempotent (rounded numerals): the integer written for a
numeral is an `int64` literal, which filtering leaves alone -/
theorem filter_idem_round (t : Ty) (hwf : t.wf = true) (v : J) :
    (Martian.TypesR.filter t (Martian.TypesR.filter t v).1).1 = (Martian.TypesR.filter t v).1 :=
  Martian.TypesR.filter_idem t hwf v

/-- filtering changes nothing except dropping undeclared members and rewriting
a numeral that is no `int64` literal as the integer its float64 rounding is
(`Drops.int n i : n.goInt? = some i`) -/
theorem filter_only_drops_round (t : Ty) (v : J) (h : (Martian.TypesR.filter t v).2 ≠ .fatal) :
    Martian.TypesR.Drops (Martian.TypesR.filter t v).1 v :=
  Martian.TypesR.filter_drops t v h

/-- clean validation accepts exactly the declared shape, floats being finite in binary64 -/
theorem valid_iff_shape_round (t : Ty) (v : J) : Martian.TypesR.valid t v = true ↔ Martian.TypesR.Shape t v :=
  ⟨Martian.TypesR.shape_of_valid t v, Martian.TypesR.valid_of_shape t v⟩

/-- `noHole` is exact for the rounded model as well -/
theorem filter_valid_of_assignable_iff_round (d s : Ty) (hd : d.wf = true) (hs : s.wf = true)
    (ha : assignable d s = true) :
    (∀ v, Martian.TypesR.valid s v = true → Martian.TypesR.valid d (Martian.TypesR.filter d v).1 = true)
      ↔ noHole d s = true := by
  constructor
  · intro h
    cases hn : noHole d s with
    | true => rfl
    | false =>
      obtain ⟨v, hv1, hv2⟩ := Martian.TypesR.noHole_exact d hd s hs ha hn
      exact absurd (Martian.TypesR.shape_of_valid _ _ (h v (Martian.TypesR.valid_of_shape _ _ hv1))) hv2
  · intro hn v hv
    exact Martian.TypesR.valid_of_shape _ _
      (Martian.TypesR.shape_filter_of_assignable d hd s v (Martian.TypesR.shape_of_valid _ _ hv) ha hn)

/-- a clean value filters without any error (rounded model) -/
theorem filter_ok_of_valid_round (t : Ty) (v : J) (h : Martian.TypesR.valid t v = true) :
    (Martian.TypesR.filter t v).2 = .ok :=
  Martian.TypesR.filter_ok_of_valid t v h

/-- the integer `FilterJson` writes always fits `int64` -/
theorem goInt_in_int64 (n : Num) (i : Int) (h : n.goInt? = some i) : Num.inInt64 i = true :=
  Num.goInt?_inInt64 h

/-- Known finding C17-N3 as theorems about the code's rule (each replayed on the
real code every run): the value written is the ROUNDED value.
`9007199254740993.0` (2^53+1) is written as `9007199254740992`;
`1.0000000000000001` (not an integer) as `1`; `1e-400` as `0`; the integer
literal `-9223372036854775809` (outside `int64`) as `-9223372036854775808`;
while `9223372036854775808` and `1.5` are rejected, and `1.0`, `1e3` are exact. -/
theorem rounding_decides_witnesses :
    Num.goInt? (.flt 90071992547409930 (-1)) = some 9007199254740992
    ∧ Num.goInt? (.flt 10000000000000001 (-16)) = some 1
    ∧ Num.goInt? (.flt 1 (-400)) = some 0
    ∧ Num.goInt? (.int (-9223372036854775809)) = some (-9223372036854775808)
    ∧ Num.goInt? (.int 9223372036854775808) = none
    ∧ Num.goInt? (.flt 15 (-1)) = none
    ∧ Num.goInt? (.flt 10 (-1)) = some 1
    ∧ Num.goInt? (.flt 1 3) = some 1000 := by
  decide +kernel

/-- … and this is what `filter` at `int` does with them (error classes) -/
theorem rounding_filter_classes :
    (Martian.TypesR.filter (.base .int) (.num (.flt 90071992547409930 (-1)))).2 = .soft
    ∧ (Martian.TypesR.filter (.base .int) (.num (.int (-9223372036854775809)))).2 = .soft
    ∧ (Martian.TypesR.filter (.base .int) (.num (.int 9223372036854775808))).2 = .fatal
    ∧ (Martian.TypesR.filter (.base .int) (.num (.flt 15 (-1)))).2 = .fatal
    ∧ (Martian.TypesR.filter (.base .int) (.num (.int 7))).2 = .ok := by
  decide +kernel

/-- … where the exact-decimal model above says otherwise (the two models
differ only on numerals that are not `Num.exact64`) -/
theorem exact_model_differs_on_rounding :
    (Num.flt 90071992547409930 (-1)).intValue? = some 9007199254740993
    ∧ (Num.flt 10000000000000001 (-16)).intValue? = none
    ∧ Num.exact64 (.flt 90071992547409930 (-1)) = false
    ∧ Num.exact64 (.flt 10000000000000001 (-16)) = false
    ∧ Num.exact64 (.flt 10 (-1)) = true := by decide +kernel

/-- float range: `1e309` is no float (`ParseFloat`: `ErrRange`), the largest
finite float64 and a subnormal are; an `int64` integer is a float -/
theorem float_range_witnesses :
    Martian.TypesR.valid (.base .float) (.num (.flt 1 309)) = false
    ∧ Martian.TypesR.valid (.base .float) (.num (.flt 17976931348623157 292)) = true
    ∧ Martian.TypesR.valid (.base .float) (.num (.flt 17976931348623159 292)) = false
    ∧ Martian.TypesR.valid (.base .float) (.num (.flt 49 (-325))) = true
    ∧ Martian.TypesR.valid (.base .float) (.num (.int 9223372036854775807)) = true := by decide +kernel

/-- non-vacuity: a soft filtering in the rounded model that drops a member and rewrites a numeral -/
example : (Martian.TypesR.filter tA (.obj [(kx, .null), (ka, .num (.flt 90071992547409930 (-1)))])).2
    = .soft := by decide +kernel

/-- The two models differ ONLY through rounding: on a float-syntax literal that
is exactly a float64 value (`Num.exact64`, a decidable predicate on the exact
mantissa/exponent) the decision the code makes on the rounded value is the
decision of exact decimal arithmetic (`intValue?` + `int64` range) … -/
theorem goInt_exact_of_exact64 (m e : Int) (h : Num.exact64 (.flt m e) = true) :
    Num.goInt? (.flt m e) = match (Num.flt m e).intValue? with
      | some i => if Num.inInt64 i then some i else none
      | none => none :=
  Num.goInt?_of_exact_flt m e h

/-- … and therefore validation and filtering in the two models coincide – verdict,
filtered value, error class, for every type – on every JSON value all of whose
numerals are float64 values.  So every theorem of sections 1–8 is a theorem
about the code's behaviour on such values, and section 9 covers the rest. -/
theorem models_agree_on_exact_numerals (t : Ty) (v : J) (h : Martian.TypesR.NumsExact v) :
    Martian.TypesR.filter t v = filter t v ∧ Martian.TypesR.check t v = check t v :=
  ⟨Martian.TypesR.filter_agree t v h, Martian.TypesR.check_agree t v h⟩

/-- non-vacuity: `{"a": 1.0, "x": [0.5, 1e22, 9007199254740992]}` has exact numerals only -/
example : Martian.TypesR.NumsExact (.obj [(ka, .num (.flt 10 (-1))),
    (kx, .arr [.num (.flt 5 (-1)), .num (.flt 1 22), .num (.int 9007199254740992)])]) := by
  refine .obj _ ?_
  intro kv hkv
  simp only [List.mem_cons, List.not_mem_nil, or_false] at hkv
  rcases hkv with rfl | rfl
  · exact .num _ (by decide +kernel)
  · refine .arr _ ?_
    intro x hx
    simp only [List.mem_cons, List.not_mem_nil, or_false] at hx
    rcases hx with rfl | rfl | rfl <;> exact .num _ (by decide +kernel)

end Rounded

end Props.C17
