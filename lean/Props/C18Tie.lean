/-
C18 tie: the `switch r` of `appendShellSafeQuote` (what is appended for a rune
of width 1) TRANSLATED from martian/core/shell_quote.go on every run
(`Gen.tr_shellEscape r s0 buf`, with `r` the decoded rune, `s0 = s[0]`) is the
model's `escOf` over the regenerated escape table for an ASCII byte, and the
model's `octal` for an invalid byte (`r = utf8.RuneError`).
-/
import Martian.ShellQuote
import Gen.Facts

namespace Props.C18
open Martian.ShellQuote

/-- the switch only appends -/
theorem tr_shellEscape_appends (r : Int) (s0 : UInt8) (buf : List UInt8) :
    Gen.tr_shellEscape r s0 buf = buf ++ Gen.tr_shellEscape r s0 [] := by
  simp only [Gen.tr_shellEscape]
  repeat' split
  all_goals simp

/-- all 128 ASCII bytes (`r = rune(s[0])`): what the switch appends is the
model's escape of the byte under the regenerated table -/
theorem tr_shellEscape_ascii_table :
    ∀ b : Fin 128, Gen.tr_shellEscape (b.val : Int) (UInt8.ofNat b.val) [] =
      escOf Gen.shellEscapes (UInt8.ofNat b.val) := by decide

/-- for every ASCII byte and every buffer -/
theorem tr_shellEscape_eq_model (b : UInt8) (hb : b < 0x80) (buf : List UInt8) :
    Gen.tr_shellEscape (b.toNat : Int) b buf = buf ++ escOf Gen.shellEscapes b := by
  rw [tr_shellEscape_appends]
  have hlt : b.toNat < 128 := by
    have := UInt8.lt_iff_toNat_lt.mp hb
    simpa using this
  have := tr_shellEscape_ascii_table ⟨b.toNat, hlt⟩
  simp only [UInt8.ofNat_toNat] at this
  rw [this]

/-- an invalid byte (`DecodeRuneInString` returned `(RuneError, 1)`) is written
as a backslash and three octal digits – the model's `octal` -/
theorem tr_shellEscape_invalid (s0 : UInt8) (buf : List UInt8) :
    Gen.tr_shellEscape 0xFFFD s0 buf = buf ++ octal s0 := by
  simp [Gen.tr_shellEscape, octal]

example : Gen.tr_shellEscape 36 36 [1] = [1, 0x5C, 0x24] ∧ Gen.tr_shellEscape 65 65 [] = [65] ∧
    Gen.tr_shellEscape 0xFFFD 0xFF [] = [0x5C, 0x33, 0x37, 0x37] := by decide

/-- FAIL CLOSED (second audit pass, X2/X3): the tie theorems of this file are about the
definition(s) TRANSLATED FROM THE TREE UNDER TEST, not about the committed default the
extractor falls back to when the source leaves the translated subset – in that
case this obligation breaks and `./check` reports it (besides the note). -/
theorem translated_from_tree_under_test : Gen.tr_shellEscape_extracted = true := by decide

end Props.C18
