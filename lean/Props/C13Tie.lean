/-
C13 tie: `StructMember.GetOutFilename` TRANSLATED from
martian/syntax/struct_type.go on every run (`Gen.tr_GetOutFilename`; the
member's fields `isFile`, `OutName`, `isComplex`, `Tname.Tname`, `Id` are
parameters of the term, strings are lists of characters) is the model's
`outFilename`.  The model's type argument abstracts `(isComplex, Tname)`:
`.file ""` is a `file` / `path` member, `.file ext` a member of user file type
`ext`, everything else is "complex" (array, typed map, struct).
-/
import Martian.PostProcess
import Gen.Facts

namespace Props.C13
open Martian.PostProcess

/-- a member that is not of file type has no file name -/
theorem tr_GetOutFilename_not_file (fk : String) (on : List Char) (cx : Bool) (tn id : List Char)
    (h1 : fk ≠ "KindIsFile") (h2 : fk ≠ "KindIsDirectory") :
    Gen.tr_GetOutFilename fk on cx tn id = [] := by
  simp [Gen.tr_GetOutFilename, h1, h2]

/-- `file` / `path` members (`Ty.file ""`): the out name if there is one, else the id -/
theorem tr_GetOutFilename_eq_model_file (id on : String) (tn : List Char)
    (htn : tn = "file".toList ∨ tn = "path".toList) :
    Gen.tr_GetOutFilename "KindIsFile" on.toList false tn id.toList = (outFilename (.file "") id on).toList := by
  have h0 : ("" : String).toList = [] := rfl
  have hon : on.toList = [] ↔ on = "" := by
    constructor
    · intro h
      have : on.toList = ("" : String).toList := by rw [h, h0]
      exact String.toList_inj.mp this
    · rintro rfl; exact h0
  simp only [Gen.tr_GetOutFilename, outFilename]
  have hfile : ("file".toList == ([Char.ofNat 102, Char.ofNat 105, Char.ofNat 108, Char.ofNat 101] : List Char)) = true := by decide
  have hpath : ("path".toList == ([Char.ofNat 112, Char.ofNat 97, Char.ofNat 116, Char.ofNat 104] : List Char)) = true := by decide
  by_cases ho : on = ""
  · subst ho
    rcases htn with rfl | rfl <;> simp [h0, hfile, hpath]
  · have hl : on.toList ≠ [] := fun h => ho (hon.mp h)
    simp [ho, hl]

/-- complex members (arrays, typed maps, structs): the out name if there is one, else the id -/
theorem tr_GetOutFilename_eq_model_complex (id on : String) (tn : List Char) (ty : Ty)
    (hty : ∀ ext, ty ≠ .file ext) :
    Gen.tr_GetOutFilename "KindIsDirectory" on.toList true tn id.toList = (outFilename ty id on).toList := by
  have h0 : ("" : String).toList = [] := rfl
  have hon : on.toList = [] ↔ on = "" := by
    constructor
    · intro h
      have : on.toList = ("" : String).toList := by rw [h, h0]
      exact String.toList_inj.mp this
    · rintro rfl; exact h0
  have hout : outFilename ty id on = if on ≠ "" then on else id := by
    cases ty with
    | file ext => exact absurd rfl (hty ext)
    | _ => rfl
  rw [hout]
  simp only [Gen.tr_GetOutFilename]
  by_cases ho : on = ""
  · subst ho
    simp [h0]
  · have hl : on.toList ≠ [] := fun h => ho (hon.mp h)
    simp [ho, hl]

/-- members of a user file type `ext`: `<id>.<ext>` unless there is an out name -/
theorem tr_GetOutFilename_eq_model_ext (id on ext : String)
    (h1 : ext.toList ≠ "file".toList) (h2 : ext.toList ≠ "path".toList) (h3 : ext ≠ "") :
    Gen.tr_GetOutFilename "KindIsFile" on.toList false ext.toList id.toList = (outFilename (.file ext) id on).toList := by
  have h0 : ("" : String).toList = [] := rfl
  have hon : on.toList = [] ↔ on = "" := by
    constructor
    · intro h
      have : on.toList = ("" : String).toList := by rw [h, h0]
      exact String.toList_inj.mp this
    · rintro rfl; exact h0
  have hf : (ext.toList == ([Char.ofNat 102, Char.ofNat 105, Char.ofNat 108, Char.ofNat 101] : List Char)) = false := by
    have : ([Char.ofNat 102, Char.ofNat 105, Char.ofNat 108, Char.ofNat 101] : List Char) = "file".toList := by decide
    rw [this]; simpa using h1
  have hp : (ext.toList == ([Char.ofNat 112, Char.ofNat 97, Char.ofNat 116, Char.ofNat 104] : List Char)) = false := by
    have : ([Char.ofNat 112, Char.ofNat 97, Char.ofNat 116, Char.ofNat 104] : List Char) = "path".toList := by decide
    rw [this]; simpa using h2
  have hdot : ([Char.ofNat 46] : List Char) = ".".toList := by decide
  simp only [Gen.tr_GetOutFilename, outFilename]
  by_cases ho : on = ""
  · subst ho
    simp [h0, hf, hp, h3, hdot, String.toList_append]
  · have hl : on.toList ≠ [] := fun h => ho (hon.mp h)
    simp [ho, hl]

example : Gen.tr_GetOutFilename "KindIsFile" [] false "bam".toList "reads".toList = "reads.bam".toList ∧
    Gen.tr_GetOutFilename "KindIsDirectory" [] true "bam".toList "reads".toList = "reads".toList ∧
    Gen.tr_GetOutFilename "KindIsFile" "out.txt".toList false "bam".toList "reads".toList = "out.txt".toList ∧
    Gen.tr_GetOutFilename "KindIsNotFile" [] false "int".toList "n".toList = [] ∧
    outFilename (.file "bam") "reads" "" = "reads.bam" := by decide

/-- FAIL CLOSED (second audit pass, X2/X3): the tie theorems of this file are about the
definition(s) TRANSLATED FROM THE TREE UNDER TEST, not about the committed default the
extractor falls back to when the source leaves the translated subset – in that
case this obligation breaks and `./check` reports it (besides the note). -/
theorem translated_from_tree_under_test : Gen.tr_GetOutFilename_extracted = true := by decide

end Props.C13
