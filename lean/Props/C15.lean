/-
C15 — re-attach is refused iff the invocation's meaning (not merely its text) changed.
PROPERTY THEOREMS ONLY (lemmas: Proofs/Equiv.lean, Proofs/SortKeys.lean).

`equivCall`/`equivalentCall` is `Ast.EquivalentCall` of martian/syntax/equivalence.go
on compiled ASTs; `semCall` is the specification: the call tree unfolded through
the callable tables with locations, comments, include structure, callable
names, scalar file-type names, stage output file names, volatile, retain,
resources, src and chunk parameters erased and all tables sorted.
The facts `Gen.c15SelfCompare` and `Gen.c15StructsCompared` (the struct-definition
pass of the repaired comparison exists) are regenerated from the source on every run.
-/
import Martian.Equiv
import Martian.EquivMeaning
import Proofs.Equiv
import Proofs.EquivStructs
import Proofs.EquivFuel
import Proofs.EquivLockLTS
import Proofs.EquivLockLTSOld
import Gen.Facts

namespace Props.C15
open Martian.Equiv Martian.SortKeys

/-- Regenerated obligation: in `Modifiers.EquivalentTo` the binding compared
with the receiver's `disabled` binding is read from the *other* modifier set.
(False on a tree where it is read from the receiver itself — defect F11; the
negative witness is `selfCompare_accepts_changed_condition`.) -/
theorem disabled_lookup_reads_other :
    Gen.c15SelfCompare_extracted = true ∧ Gen.c15SelfCompare = false := by decide

/-- Re-attach is accepted exactly when the meaning is unchanged: at every
unfolding depth `n`, `CallStm.EquivalentTo` holds iff the two calls have the
same meaning. -/
theorem equivCall_iff_sem_eq (n : Nat) (T U : Tab) (c d : Call)
    (hT : T.wf = true) (hU : U.wf = true) (hc : c.wf = true) (hd : d.wf = true)
    (hcc : c.completeIn T = true) (hdc : d.completeIn U = true) :
    equivCall Gen.c15SelfCompare n T U c d = true ↔ semCall n T c = semCall n U d := by
  rw [disabled_lookup_reads_other.2]
  exact equivCall_iff n T U hT hU c d hc hd hcc hdc

/-- `Ast.EquivalentCall` on two compiled programs. -/
theorem equiv_iff_sem_eq (a b : Prog) (ha : a.wf = true) (hb : b.wf = true) :
    equivalentCall Gen.c15SelfCompare a b = true ↔
      semCall (Prog.fuel a b) a.tab a.call = semCall (Prog.fuel a b) b.tab b.call := by
  simp only [Prog.wf, Bool.and_eq_true] at ha hb
  exact equivCall_iff_sem_eq _ _ _ _ _ ha.1.1 hb.1.1 ha.1.2 hb.1.2 ha.2 hb.2

/-- Regenerated obligation (repair of F20): after the call comparison
`Ast.EquivalentCall` runs the second pass `structComparer.call`, which compares
the DEFINITIONS of the struct types used by the compared parameters, and refuses
when it fails.  (False on a tree without that pass — struct types are then
compared by name only; negative witness `struct_definition_change_accepted_without_second_pass`.) -/
theorem struct_definitions_compared :
    Gen.c15StructsCompared_extracted = true ∧ Gen.c15StructsCompared = true := by decide

/-- THE statement at the level of the full meaning (`Martian.Equiv.meaning`: the
call graph unfolded from the top-level call with all callable bodies, parameter
types, modifiers, bindings, AND the unfolded definitions of the struct types of
all those parameters — member names, what is compared of each member, the
definitions of the members' own struct types, recursively — plus every aspect
listed in `Ignored`): re-attach is accepted iff the COMPARED part of the meaning
is unchanged.  `equivalentCallFull` is `Ast.EquivalentCall` as repaired for F20:
`CallStm.EquivalentTo` on the top-level calls, then `structComparer.call`.
What it ignores, exactly as the Go code does, is the `ignored` component —
constructor by constructor `Ignored.calleeName`, `.volatile`, `.stageSrc`,
`.resources`, `.retain`, `.chunkParams`, `.fileTypeName` (scalar file kinds
only), `.outName` (stage outputs, non-file pipeline outputs), `.help` — and what
is not meaning at all (comments, whitespace, every ordering, include structure,
unreachable callables and types).  Each ignored aspect has its own edit class
in the correspondence harness, which checks that the real code accepts it AND
that the model sees exactly that aspect change.  Hypotheses (checked by the
driver on every real AST): the compiled ASTs are well formed; member names of
a struct are distinct. -/
theorem equiv_iff_compared_meaning_eq (a b : FullProg) (ha : a.core.wf = true) (hb : b.core.wf = true)
    (hsa : structsWf a.structs = true) (hsb : structsWf b.structs = true) :
    equivalentCallFull Gen.c15SelfCompare Gen.c15StructsCompared a b = true ↔
      (meaning (Prog.fuel a.core b.core) (sfuel a b) a).compared
        = (meaning (Prog.fuel a.core b.core) (sfuel a b) b).compared := by
  have h1 := equiv_iff_sem_eq a.core b.core ha hb
  simp only [Prog.wf, Bool.and_eq_true] at ha hb
  have h2 := typesCall_iff a.structs b.structs hsa hsb (sfuel a b) (Prog.fuel a.core b.core)
    a.core.tab b.core.tab ha.1.1 hb.1.1 a.core.call b.core.call
  rw [struct_definitions_compared.2]
  simp only [equivalentCallFull, meaning, Bool.and_eq_true, Bool.not_true, Bool.false_or, Prod.mk.injEq]
  exact and_congr h1 h2

theorem equiv_refl (n : Nat) (T : Tab) (c : Call) (hT : T.wf = true) (hc : c.wf = true)
    (hcc : c.completeIn T = true) :
    equivCall Gen.c15SelfCompare n T T c c = true :=
  (equivCall_iff_sem_eq n T T c c hT hT hc hc hcc hcc).mpr rfl

theorem equiv_symm (n : Nat) (T U : Tab) (c d : Call)
    (hT : T.wf = true) (hU : U.wf = true) (hc : c.wf = true) (hd : d.wf = true)
    (hcc : c.completeIn T = true) (hdc : d.completeIn U = true)
    (h : equivCall Gen.c15SelfCompare n T U c d = true) :
    equivCall Gen.c15SelfCompare n U T d c = true :=
  (equivCall_iff_sem_eq n U T d c hU hT hd hc hdc hcc).mpr
    ((equivCall_iff_sem_eq n T U c d hT hU hc hd hcc hdc).mp h).symm

theorem equiv_trans (n : Nat) (T U W : Tab) (c d e : Call)
    (hT : T.wf = true) (hU : U.wf = true) (hW : W.wf = true)
    (hc : c.wf = true) (hd : d.wf = true) (he : e.wf = true)
    (hcc : c.completeIn T = true) (hdc : d.completeIn U = true) (hec : e.completeIn W = true)
    (h1 : equivCall Gen.c15SelfCompare n T U c d = true)
    (h2 : equivCall Gen.c15SelfCompare n U W d e = true) :
    equivCall Gen.c15SelfCompare n T W c e = true :=
  (equivCall_iff_sem_eq n T W c e hT hW hc he hcc hec).mpr
    (((equivCall_iff_sem_eq n T U c d hT hU hc hd hcc hdc).mp h1).trans
      ((equivCall_iff_sem_eq n U W d e hU hW hd he hdc hec).mp h2))

/-- **sem_fuel_stable** (fuel adequacy, audit LOW-1).  `semCall` is fuel-bounded and is
`.cut` at fuel 0.  Whenever the unfolding with EXPLICIT fuel exhaustion (`semCallO`)
succeeds at a fuel `n` — nothing was cut — `semCall` is that meaning at `n` and at
every larger fuel.  The driver evaluates `semCallO (Prog.fuel a b)` for both programs
of every pair (7th field of `C15.equiv`); a `none` is a violation of the tie. -/
theorem sem_fuel_stable (n k : Nat) (T : Tab) (c : Call) (s : Sem) (h : semCallO n T c = some s) :
    semCall (n + k) T c = s :=
  semCall_stable n k T c s h

/-- …and so is the verdict of the comparison: more fuel never changes it. -/
theorem equiv_fuel_stable (n k : Nat) (T U : Tab) (c d : Call) (s t : Sem)
    (hT : T.wf = true) (hU : U.wf = true) (hc : c.wf = true) (hd : d.wf = true)
    (hcc : c.completeIn T = true) (hdc : d.completeIn U = true)
    (h1 : semCallO n T c = some s) (h2 : semCallO n U d = some t) :
    equivCall Gen.c15SelfCompare (n + k) T U c d = equivCall Gen.c15SelfCompare n T U c d := by
  have e1 := equivCall_iff_sem_eq (n + k) T U c d hT hU hc hd hcc hdc
  have e0 := equivCall_iff_sem_eq n T U c d hT hU hc hd hcc hdc
  rw [semCall_stable n k T c s h1, semCall_stable n k U d t h2] at e1
  have z1 := semCall_stable n 0 T c s h1
  have z2 := semCall_stable n 0 U d t h2
  simp only [Nat.add_zero] at z1 z2
  rw [z1, z2] at e0
  exact Bool.eq_iff_iff.mpr (e1.trans e0.symm)

/-! Non-vacuity: a well-formed program with a pipeline, a stage, a map literal,
a disabled condition; it is equivalent to itself with a renamed scalar file type
and the stage declared under another name (aliased back), and not to itself
with another argument value. -/

private def kA : Key := [65]
private def kB : Key := [66]
private def kX : Key := [120]
private def kY : Key := [121]
private def pFile (t : Key) : Param := { tname := t, arrayDim := 0, mapDim := 0, fileKind := 2, outName := [] }
private def pInt : Param := { tname := [105], arrayDim := 0, mapDim := 0, fileKind := 0, outName := [] }
private def mods0 : Mods := { isLocal := false, preflight := false, volatile := false, hasTable := false, disabled := none }
private def modsD (e : Exp) (vol : Bool) : Mods :=
  { isLocal := false, preflight := false, volatile := vol, hasTable := true, disabled := some e }
private def stageCall (dec : Key) (vol : Bool) : Call :=
  { id := kA, decId := dec, binds := [(kX, .atom (.ref 0 kX [])), (kY, .mcons kA (.atom (.int 1)) (.mcons kB (.atom .null) .mnil))],
    mods := modsD (.atom (.ref 0 kY [])) vol }
private def demoTab (stageName ft : Key) (vol : Bool) : Tab :=
  [(stageName, .stage true [(kX, pInt), (kY, pInt)] [(kA, pFile ft)]),
   (kB, .pipeline [(kX, pInt), (kY, pInt)] [(kA, pFile ft)] [stageCall stageName vol] [(kA, .atom (.ref 1 kA kA))])]
private def topCall (v : Int) : Call :=
  { id := kB, decId := kB, binds := [(kY, .atom (.bool true)), (kX, .atom (.int v))], mods := mods0 }

example : (Prog.mk (demoTab kA [116] false) (topCall 1)).wf = true := by decide
example : (Prog.mk (demoTab [67] [117] true) (topCall 1)).wf = true := by decide
example : (semCallO 2 (demoTab kA [116] false) (topCall 1)).isSome = true
    ∧ (semCallO 1 (demoTab kA [116] false) (topCall 1)).isSome = false := by decide
example : equivCall false 3 (demoTab kA [116] false) (demoTab [67] [117] true) (topCall 1) (topCall 1) = true := by
  decide
example : equivCall false 3 (demoTab kA [116] false) (demoTab kA [116] false) (topCall 1) (topCall 2) = false := by
  decide

/-! Struct definitions (repair of F20): stage `A(in Pt p)` called from the
top level; `struct Pt(int x)` versus `struct Pt(int x, int w)`. -/
private def kPt : Key := [80, 116]
private def pPt : Param := { tname := kPt, arrayDim := 0, mapDim := 0, fileKind := 0, outName := [] }
private def ptProg (fields : List (Key × Param)) : FullProg :=
  { core := { tab := [(kA, .stage false [(kX, pPt)] [])],
              call := { id := kA, decId := kA, binds := [(kX, .atom .null)], mods := mods0 } },
    extras := [], structs := [(kPt, fields)] }

/-- non-vacuity of `equiv_iff_compared_meaning_eq`, and the point of the repair:
a member added to a struct type that a reachable parameter uses changes the
compared meaning and is refused (both directions); the unchanged definition is
accepted. -/
theorem struct_definition_change_refused :
    (ptProg [(kX, pInt)]).core.wf = true ∧ structsWf (ptProg [(kX, pInt)]).structs = true
    ∧ structsWf (ptProg [(kX, pInt), (kY, pInt)]).structs = true
    ∧ equivalentCallFull false true (ptProg [(kX, pInt)]) (ptProg [(kX, pInt)]) = true
    ∧ equivalentCallFull false true (ptProg [(kX, pInt)]) (ptProg [(kX, pInt), (kY, pInt)]) = false
    ∧ equivalentCallFull false true (ptProg [(kX, pInt), (kY, pInt)]) (ptProg [(kX, pInt)]) = false := by
  decide

/-- Negative witness (F20): without the second pass the same change is accepted. -/
theorem struct_definition_change_accepted_without_second_pass :
    equivalentCallFull false false (ptProg [(kX, pInt)]) (ptProg [(kX, pInt), (kY, pInt)]) = true := by
  decide

/-- Negative witness (F11): when the second lookup reads the receiver's own
table, a call whose disabling condition changed from `true` to `false` is
accepted although its meaning differs. -/
theorem selfCompare_accepts_changed_condition :
    let c : Call := { id := kA, decId := kA, binds := [], mods := modsD (.atom (.bool true)) false }
    let d : Call := { id := kA, decId := kA, binds := [], mods := modsD (.atom (.bool false)) false }
    c.wf = true ∧ d.wf = true ∧ equivCall true 1 [] [] c d = true ∧ semCall 1 [] c ≠ semCall 1 [] d := by
  refine ⟨by decide, by decide, by decide, ?_⟩
  simp [semCall, modsD, Exp.sem, Atom.sem]

/-- A wildcard binding is compared through what it expands to: `* = A` and
`* = B` (same parameter names) are NOT equivalent, although the `*` entries
themselves are skipped. -/
private def wildCall (src : Key) : Call :=
  { id := kA, decId := kA, mods := mods0,
    binds := [(star, .atom (.ref 1 src [])), (kX, .atom (.ref 1 src kX)), (kY, .atom (.ref 1 src kY))] }
example : (wildCall kA).wf = true ∧ equivCall false 1 [] [] (wildCall kA) (wildCall kA) = true ∧
    equivCall false 1 [] [] (wildCall kA) (wildCall kB) = false := by decide

/-! ## the lock -/

/-- Regenerated obligation: `Pipestance.Lock` registers its signal handler only
AFTER the `_lock`-exists check, so an attacher that is refused is not
registered. (Negative witness otherwise: `registerFirst_lets_third_writer_in`.) -/
theorem handler_registered_after_check :
    Gen.c15RegisterFirst_extracted = true ∧ Gen.c15RegisterFirst = false := by decide

/-- While `_lock` exists every `Lock()` fails and leaves the lock file and the holders alone. -/
theorem lock_exclusive (s : LockState) (p : Nat) (h : s.lockFile = true) :
    (lockStep Gen.c15RegisterFirst s (.lock p)) = (s, false) := by
  rw [handler_registered_after_check.2]
  cases s
  simp_all [lockStep]

/-- In every history in which processes only unlock what they hold — and in which
ANY process, including attachers that were refused, may die through the
signal-handler path at any time — at most one process holds the pipestance for
writing, while one does every further `Lock()` (a second, third, … mrp) is
refused, and the death of a process that does not hold the lock never removes it. -/
theorem at_most_one_writer (ops : List LockOp) (s : LockState)
    (h : lockRun Gen.c15RegisterFirst lockInit ops = some s) :
    s.holders.length ≤ 1 ∧
    (∀ p q, p ∈ s.holders → (lockStep Gen.c15RegisterFirst s (.lock q)).2 = false) ∧
    (∀ p, p ∉ s.holders → (lockStep Gen.c15RegisterFirst s (.signal p)).1.lockFile = s.lockFile ∧
      (lockStep Gen.c15RegisterFirst s (.signal p)).1.holders = s.holders) := by
  rw [handler_registered_after_check.2] at h ⊢
  obtain ⟨hr, h0, h1⟩ := lockInv_run ops lockInit s lockInv_init h
  cases hl : s.lockFile
  · simp [h0 hl, lockStep, hl, hr]
  · obtain ⟨r, hr'⟩ := h1 hl
    refine ⟨by simp [hr'], by simp [hr', lockStep, hl], ?_⟩
    intro p hp
    have hne : ¬ p = r := by simpa [hr'] using hp
    have hne' : ¬ r = p := fun h => hne h.symm
    simp [lockStep, hr, hr', hl, hne, hne']

/-- SIGINT/SIGTERM handling in the holder removes the lock file. -/
theorem signal_unlocks (s : LockState) (p : Nat) (h : p ∈ s.registered) :
    (lockStep Gen.c15RegisterFirst s (.signal p)).1.lockFile = false := by
  simp [lockStep, h]

/-- Negative witness: if the handler were registered before the check, a refused
second mrp that dies removes the first one's lock and a third mrp attaches. -/
theorem registerFirst_lets_third_writer_in :
    ∃ s, lockRun true lockInit [.lock 1, .lock 2, .signal 2, .lock 3] = some s ∧ s.holders.length = 2 := by
  exact ⟨_, rfl, rfl⟩

example : lockRun false lockInit [.lock 1, .lock 2, .signal 2, .lock 3, .unlock 1, .lock 2, .signal 2, .lock 3]
    = some { lockFile := true, holders := [3], registered := [3] } := by decide

/-! ## the lock protocol as a transition system

`Martian.LockLTS`: actors = any number of mrp processes; actions `acquire p`
(the exclusive create of `_lock`: one atomic test-and-set), `register p` (the
signal handler, registered only once the lock is owned), `unlock p`, `signal p`
(death through the handler path), `kill p` (SIGKILL: nothing runs), `rmLock`
(an operator deletes the file).  No heartbeat and no automatic stale-lock
takeover exist in the code.  All theorems are over ALL traces / interleavings. -/

/-- Regenerated obligation: `Pipestance.Lock` creates `_lock` with
`os.OpenFile(…, O_CREATE|O_EXCL, …)`, which is what makes `acquire` ONE atomic
action.  (False on a tree where the lock is written after a separate existence
check: see `lts_check_then_write_race` for what then goes wrong.) -/
theorem lock_file_created_exclusively :
    Gen.c15LockExclusive_extracted = true ∧ Gen.c15LockExclusive = true := by decide

/-- Regenerated obligation (repair of the "refused start deletes the running
pipestance" defect): the error branch of `Runtime.InvokePipeline` after
`instantiatePipeline` — where a start that lost the race for the lock arrives with
PipestanceLockedError — does not remove the pipestance directory unconditionally.
(False on a tree where it does: negative witness `lts_refused_start_removes_owners_lock`.) -/
theorem refused_start_keeps_directory :
    Gen.c15RefusedStartRemovesDir_extracted = true ∧ Gen.c15RefusedStartRemovesDir = false := by decide

open Martian.LockLTS in
/-- Mutual exclusion for EVERY interleaving of attach attempts, unlocks, graceful
and ungraceful deaths — `Lock()` calls may overlap arbitrarily — provided the
operator removes `_lock` only when no process owns the pipestance: at most one
process owns the pipestance, and while one does the lock file exists.
(Without the operator assumption: `lts_rmLock_under_live_owner`.) -/
theorem lts_mutual_exclusion (tr : List Act) (s : St)
    (h : run Gen.c15RegisterFirst Gen.c15RefusedStartRemovesDir disciplined init tr = some s) :
    s.holders.length ≤ 1 ∧ (s.holders ≠ [] → s.lockFile = true) := by
  rw [handler_registered_after_check.2, refused_start_keeps_directory.2] at h
  have hi := inv_run tr init s inv_init h
  rcases hi.owner with h0 | ⟨x, hx, hl⟩
  · simp [h0]
  · simp [hx, hl]

open Martian.LockLTS in
/-- An attach that is refused changes nothing at all — in ANY state, reachable or not. -/
theorem lts_refused_attach_changes_nothing (s : St) (p : Nat) (h : s.lockFile = true) :
    step Gen.c15RegisterFirst Gen.c15RefusedStartRemovesDir s (.acquire p) = (s, false) := by
  rw [handler_registered_after_check.2, refused_start_keeps_directory.2]
  cases s; simp_all [step]


open Martian.LockLTS in
/-- A START (`Runtime.InvokePipeline` by a second mrp which saw the directory still
empty) that is refused because another mrp holds the pipestance changes nothing
either — since the repair of the defect by which `InvokePipeline` ran
`os.RemoveAll(pipestancePath)` on every instantiation error (regenerated fact
`refused_start_keeps_directory`). -/
theorem lts_refused_start_changes_nothing (s : St) (p : Nat) (h : s.lockFile = true) :
    step Gen.c15RegisterFirst Gen.c15RefusedStartRemovesDir s (.start p) = (s, false) := by
  rw [handler_registered_after_check.2, refused_start_keeps_directory.2]
  cases s; simp_all [step]

open Martian.LockLTS in
/-- Negative witness (the defect before its repair, reproduced on the real code by the
start-race stream of the harness): a refused start that removes the directory removes
the owner's lock, and a third mrp becomes a second owner. -/
theorem lts_refused_start_removes_owners_lock :
    ∃ s, run false true disciplined init [.start 1, .register 1, .start 2, .start 3] = some s
      ∧ s.holders = [3, 1] := by
  exact ⟨_, rfl, rfl⟩

open Martian.LockLTS in
/-- Negative witness for the second assumption of `lts_mutual_exclusion` (`disciplined`
excludes `acquireErr`): when the create of `_lock` fails with an error other than
"exists", `Lock()` logs it, REGISTERS the signal handler and returns nil; if that
process later dies through the handler path it removes the lock of whoever owns the
pipestance by then, and a further mrp attaches.  (On the real code the callers of
`Lock()` fail on the next operation — "Pipestance is in read only mode" — and
`Unlock()`, which unregisters the handler, so the history does not arise through
`ReattachToPipestance`; the harness checks exactly that on every run.) -/
theorem lts_create_error_breaks_exclusion :
    ∃ s, run false false anything init [.acquireErr 1, .acquire 2, .register 2, .signal 1, .acquire 3] = some s
      ∧ s.holders = [3, 2] := by
  exact ⟨_, rfl, rfl⟩

open Martian.LockLTS in
/-- …and neither does the later death (graceful or not) of a process that does
not own the pipestance — e.g. an attacher that was refused. -/
theorem lts_death_of_bystander_changes_nothing (tr : List Act) (s : St) (p : Nat)
    (h : run Gen.c15RegisterFirst Gen.c15RefusedStartRemovesDir disciplined init tr = some s) (hh : p ∉ s.holders) :
    (step Gen.c15RegisterFirst Gen.c15RefusedStartRemovesDir s (.signal p)).1 = s ∧ (step Gen.c15RegisterFirst Gen.c15RefusedStartRemovesDir s (.kill p)).1 = s := by
  rw [handler_registered_after_check.2, refused_start_keeps_directory.2] at h ⊢
  have hi := inv_run tr init s inv_init h
  have hr : p ∉ s.registered := fun hm => hh (hi.reg p hm)
  have hrc : s.registered.contains p = false := by
    cases hcn : s.registered.contains p
    · rfl
    · exact absurd (List.contains_iff_mem.mp hcn) hr
  cases s
  simp_all [step, drop_of_not_mem]

open Martian.LockLTS in
/-- The window between the exclusive create and the handler registration is
safe: an owner signalled there leaves the lock file in place (a stale lock). -/
theorem lts_signal_before_register_leaves_stale_lock :
    run false false disciplined init [.acquire 1, .signal 1] = some { lockFile := true, holders := [], registered := [] } := by
  decide

open Martian.LockLTS in
/-- Negative witness: deleting `_lock` while its owner is alive lets a second owner in. -/
theorem lts_rmLock_under_live_owner :
    ∃ s, run false false anything init [.acquire 1, .register 1, .rmLock, .acquire 2] = some s ∧ s.holders = [2, 1] := by
  exact ⟨_, rfl, rfl⟩

open Martian.LockLTSOld in
/-- REGRESSION DOCUMENTATION — a theorem about the OLD two-step protocol
(`Martian.LockLTSOld`: `Lock()` = existence check, then `os.WriteFile`), i.e. the
code before the fix "create the pipestance lock file exclusively": two
overlapping `Lock()` calls both succeeded.  This is what
`lock_file_created_exclusively` guards against. -/
theorem lts_check_then_write_race :
    ∃ s, run false anything init [.check 1, .check 2, .write 1, .write 2] = some s ∧ s.holders = [2, 1] := by
  exact ⟨_, rfl, rfl⟩

open Martian.LockLTS in
example : run false false disciplined init
    [.acquire 1, .acquire 2, .register 1, .acquire 2, .signal 2, .acquire 3, .kill 1, .acquire 2, .rmLock,
     .acquire 2, .acquire 3, .register 2, .unlock 2]
    = some { lockFile := false, holders := [], registered := [] } := by decide

/-! ### definitional unfoldings (documentation of the model, not guarantees)

The statements below restate modelling decisions: a field that the model's
comparison functions do not mention does not influence them.  That the Go code
does not read these components either is tied by the edit classes of the
harness (one class per `Ignored` constructor), not by these statements. -/

/-- Nothing in `Extra` (src, resources, retain, chunk parameters, help) can
change the verdict: neither pass of the comparison reads it.  (Before the repair
of F20 this also held for struct definitions; `struct_definition_change_refused`
shows that it no longer does.) -/
theorem ignored_components_do_not_matter (a a' b : FullProg) (h : a.core = a'.core)
    (hs : a.structs = a'.structs) (sc tc : Bool) :
    equivalentCallFull sc tc a b = equivalentCallFull sc tc a' b ∧
    equivalentCallFull sc tc b a = equivalentCallFull sc tc b a' := by
  simp only [equivalentCallFull, sfuel, h, hs, and_self]

/-- `volatile` is ignored by `Modifiers.EquivalentTo` (both sides). -/
theorem volatile_is_ignored (sc : Bool) (m o : Mods) (v : Bool) :
    Mods.equiv sc { m with volatile := v } o = Mods.equiv sc m o ∧
    Mods.equiv sc m { o with volatile := v } = Mods.equiv sc m o := by
  simp [Mods.equiv]

/-- the type NAME of a parameter of scalar file kind is ignored -/
theorem scalar_file_type_name_is_ignored (x y : Param) (t : Key) (hx : x.fileKind = 2) :
    inParamEq { x with tname := t } y = inParamEq x y ∧
    inParamEq y { x with tname := t } = inParamEq y x := by
  constructor
  · simp [inParamEq, hx]
  · simp only [inParamEq]
    by_cases hy : y.fileKind = 2
    · simp [hy]
    · have : (y.fileKind == x.fileKind) = false := by simpa [hx] using hy
      simp [this]

/-- the output file name of a STAGE output is ignored (`checkOutNames = false`) -/
theorem stage_out_name_is_ignored (x y : Param) (n : Key) :
    outParamEq false { x with outName := n } y = outParamEq false x y := by
  simp [outParamEq, inParamEq]

/-- …but not that of a pipeline output of file or directory kind -/
example : outParamEq true { tname := [116], arrayDim := 0, mapDim := 0, fileKind := 2, outName := [] }
    { tname := [116], arrayDim := 0, mapDim := 0, fileKind := 2, outName := [1] } = false := by decide


open Martian.LockLTS in
/-- A lock left behind by a killed owner — or by an owner signalled between its
`acquire` and its `register` — is never taken over: every attach is refused until
the file is removed (there is no stale-lock rule in the code). -/
theorem lts_stale_lock_blocks (s : St) (p q : Nat) (h : s.lockFile = true) :
    (step Gen.c15RegisterFirst Gen.c15RefusedStartRemovesDir (step Gen.c15RegisterFirst Gen.c15RefusedStartRemovesDir s (.kill p)).1 (.acquire q)).2 = false := by
  simp [step, h]


end Props.C15
