/-
C01 — stage arguments and pipeline outputs equal the MRO dataflow semantics.
PROPERTY THEOREMS ONLY (helper lemmas live in Proofs/Dataflow.lean).

Groups:
* kernel laws of the resolver model (Martian/Resolver.lean, ResolverForks.lean) against the
  specification's value operations: projection distributes through arrays and typed maps, struct
  narrowing keeps exactly the declared fields and is idempotent, chunk arguments = bindings
  overridden by the chunk def, static projection of resolved expressions (split / merge / disabled /
  fork) commutes with evaluation;
* meta-theorems about the specification `den`: instance `ix` of a mapped call receives what the
  unmapped call would receive with the `ix`-th element, renaming call ids changes nothing but the
  instance keys, den does not depend on the call-depth fuel; (the statements that are unfoldings of
  den's definition — no schedule, disabled = `dnull`, empty map = `dnull`, a sub-pipeline call
  denotes its body, `_chunk_outs` in chunk order — are collected under "definitional unfoldings" at
  the end: documentation, not guarantees);
* THE REFINEMENT "two-phase resolver model = den", proved for a growing fragment, every theorem named
  `…_partial` with the shapes outside listed: plain programs; map calls of stages over literals;
  sizes known after resolution; mapped pipelines and nested map calls; run-time `disabled` controls
  (modulo the rendering of `dnull`: `J.erase` / `J.approx`); map calls of run-time size given the
  recorded index sets, and typed-map mode.  `…_checked_partial` are the versions with decidable
  hypotheses, which the driver evaluates and replays on every run.  The model is tied to the code per
  run (static phase against the real `MakeCallGraph` incl. the chosen fork node of run-time merges,
  run-time phase against the delivered arguments); outside the proved fragment the refinement
  "real resolver = den" is established per run by trace checking (harness/c01.go ↔ Driver/C01.lean
  `C01.check`).
-/
import Martian.Dataflow
import Martian.Resolver
import Proofs.Dataflow
import Proofs.DataflowAlias
import Proofs.DataflowAliasKeys
import Proofs.ResolverForks
import Proofs.ResolverStaticCheck
import Proofs.ResolverStaticMapCheck
import Proofs.ResolverStaticMapGCheck
import Proofs.ResolverStaticTreeCheck
import Proofs.ResolverStaticDisCheck
import Proofs.ResolverStaticRun
import Proofs.ResolverStaticRunCheck
import Proofs.ResolverForkOrder
import Proofs.ResolverStaticApprox
import Proofs.DataflowApprox
import Proofs.ResolverStaticEvalR
import Proofs.ResolverStaticExample

namespace Props.C01
open Martian.Dataflow Martian.Resolver Martian.ResolverForks Proofs.Dataflow Proofs.DataflowAlias
  Proofs.ResolverForks Martian.ResolverStatic Proofs.ResolverStatic

/-! ## kernel laws -/

/-- Projection along any path distributes through an array level:
projecting an array value of type `b…[n+1]` is projecting each element at type `b…[n]`. -/
theorem project_distributes (st : StructTable) (b : String) (m n : Nat) (path : List String)
    (xs : List J) :
    projPath st ⟨b, m, n+1⟩ path (.arr xs) = .arr (xs.map (projPath st ⟨b, m, n⟩ path)) :=
  projPath_arr st path b m n xs

/-- One projection step distributes through a typed map `map<b[k]>`. -/
theorem project_distributes_map_step (b : String) (k : Nat) (f : String) (kvs : List (String × J)) :
    proj1 ⟨b, k+1, 0⟩ f (.obj kvs) = .obj (kvs.map fun kv => (kv.1, proj1 ⟨b, 0, k⟩ f kv.2)) :=
  proj1_obj b k f kvs

/-- Projection along a path distributes through a typed map `map<b[k]>`: it is the
map of the per-value projections at the element type `b[k]` — provided no field
on the path is itself a typed map (the compiler rejects such programs:
"invalid projection through nested maps"). -/
theorem project_distributes_map (st : StructTable) (b : String) (k : Nat) (path : List String)
    (kvs : List (String × J)) (h : NoMapFields st ⟨b, 0, k⟩ path) :
    projPath st ⟨b, k+1, 0⟩ path (.obj kvs)
      = .obj (kvs.map fun kv => (kv.1, projPath st ⟨b, 0, k⟩ path kv.2)) :=
  projPath_obj st path b k kvs h

/-- the hypothesis of `project_distributes_map` is satisfiable on a real path -/
example : NoMapFields [("PAIR", [⟨"a", ⟨"int", 0, 0⟩⟩])] ⟨"PAIR", 0, 1⟩ ["a"] := by
  refine ⟨?_, trivial⟩
  intro ft h
  simp [fieldTy] at h
  subst h
  rfl

/-- A null intermediate projects to null (and `dnull` to `dnull`), whatever the type and path. -/
theorem project_null (st : StructTable) (path : List String) :
    ∀ t : Ty, projPath st t path .null = .null ∧ projPath st t path .dnull = .dnull := by
  induction path with
  | nil => intro t; simp [projPath]
  | cons f r ih =>
    intro t
    have h1 : proj1 t f .null = .null := by
      unfold proj1 atBase
      cases t.arrDim <;> cases t.mapDim <;> simp [mapArr, mapObj, J.field]
    have h2 : proj1 t f .dnull = .dnull := by
      unfold proj1 atBase
      cases t.arrDim <;> cases t.mapDim <;> simp [mapArr, mapObj, J.field]
    simp only [projPath, h1, h2]
    exact ih _

/-- Struct narrowing is idempotent (binding an already narrowed value again changes nothing). -/
theorem filter_narrow (st : StructTable) (hst : StructsOk st) (fuel : Nat) (t : Ty) (v : J) :
    narrow st fuel t (narrow st fuel t v) = narrow st fuel t v :=
  narrow_idem st hst fuel t v

/-- Struct narrowing = dropping fields: narrowing an object to struct `s` yields
exactly the declared members of `s`, in declaration order. -/
theorem filter_narrow_fields (st : StructTable) (fuel : Nat) (s : String) (ps : List Param)
    (kvs : List (String × J)) (h : st.lookup s = some ps) :
    ∃ vs, narrow st (fuel+1) ⟨s, 0, 0⟩ (.obj kvs) = .obj vs ∧ vs.map (·.1) = ps.map (·.name) := by
  refine ⟨ps.map fun p => (p.name, narrow st fuel p.ty ((J.obj kvs).field p.name)), ?_, ?_⟩
  · simp [narrow, atBase, mapArr, h]
  · simp [List.map_map, Function.comp_def]

/-- `ChunkDef.Merge`: a chunk-def argument overrides the binding of the same name. -/
theorem chunk_merge_override (bindings chunkDef : List (String × J)) (k : String) (v : J)
    (h : chunkDef.lookup k = some v) : (chunkMerge bindings chunkDef).lookup k = some v := by
  unfold chunkMerge
  rw [List.lookup_append, lookup_filter_none bindings chunkDef k (by simp [h])]
  simp [h]

/-- `ChunkDef.Merge`: every other parameter keeps the stage's binding. -/
theorem chunk_merge_keep (bindings chunkDef : List (String × J)) (k : String)
    (h : chunkDef.lookup k = none) : (chunkMerge bindings chunkDef).lookup k = bindings.lookup k := by
  unfold chunkMerge
  rw [List.lookup_append, lookup_filter_keep bindings chunkDef k h, h]
  simp

/--
PARTIAL.  Static projection commutes with evaluation: projecting a binding
expression by a field *before* evaluation (`*Exp.BindingPath`: array literals
element-wise, typed-map literals value-wise, struct literals by member
selection, references by path extension) denotes the projection of its value.
Longer paths follow by iteration (`projPath` is the iteration of `proj1`).

Excluded shape: expressions that only exist after static resolution — references carrying
fork indices (`RefExp.Forks`), `MergeExp`, `DisabledExp` and nested `SplitExp`; those are covered
by `bindingPath_sound_forks` (resolved expressions).
-/
theorem bindingPath_sound_partial (st : StructTable) (env : Env) (f : String) (e : Exp) (t : Ty)
    (h : wt st env t e = true) :
    eval st env (bindingPath1 f e) = proj1 t f (eval st env e) :=
  bp_sound st env f e t h

/-- Static projection on RESOLVED expressions (the output of the static phase:
references evaluated against a fork assignment, `split` = the element of the
current fork of a mapped call, `merge` = the collection over all forks of a
mapped call, array and typed-map mode): `bpR` pushes the projection inside
`split` and `merge` (`SplitExp.BindingPath`, `MergeExp.BindingPath`) and the
result denotes the projection of the value, for every fork assignment.
`DisabledExp` and `fork` annotations are covered too (`RExp.disabled`, `RExp.fork`).  This is a
law of the UNTYPED evaluation `evalR`; the typed evaluation `evalRT` used by the refinement is
`narrow ∘ evalR` on well-typed expressions (`runtime_typed_is_narrowed_untyped`), and its typed
form is `static_projection_typed`.  The static CHOICE of the `ForkNode` of a run-time merge is
modelled and tied (`mergeForkNode`); its run-time USE (mergePartCall / mergeMatchFork / getParts,
where F14 / F32 / F33 live) is abstracted to the recorded index sets `ρ.idx`, which are a free
component of the store in THIS law (the refinement theorems take them from the run: `storeOfRun`,
`idxOkTList`). -/
theorem bindingPath_sound_forks (st : StructTable) (ρ : Store) (fld : String) (e : RExp) (t : Ty)
    (f : ForkAssign) (h : wtR st t e = true) :
    evalR st ρ f (bpR fld e) = proj1 t fld (evalR st ρ f e) :=
  bpR_sound st ρ fld e t f h

/-- `split` over a call of a `merge` over the same call cancels: inside fork `k`
the `k`-th element of the collection of per-fork values is the value of fork `k`
(array mode; `n` forks). -/
theorem split_merge_cancel (st : StructTable) (ρ : Store) (f : ForkAssign) (c : String)
    (e : RExp) (n k : Nat) (hk : k < n)
    (hidx : ρ.idx c (fset f c (.i k)) = (List.range n).map .i) :
    evalR st ρ (fset f c (.i k)) (.split c false (.merge c false e))
      = evalR st ρ (fset f c (.i k)) e :=
  split_merge_cancel_arr st ρ f c e n k hk hidx

/-- … and for a call mapped over a typed map with distinct keys. -/
theorem split_merge_cancel_keys (st : StructTable) (ρ : Store) (f : ForkAssign) (c : String)
    (e : RExp) (keys : List String) (s : String) (hs : s ∈ keys) (hn : keys.Nodup)
    (hidx : ρ.idx c (fset f c (.k s)) = keys.map .k) :
    evalR st ρ (fset f c (.k s)) (.split c true (.merge c true e))
      = evalR st ρ (fset f c (.k s)) e :=
  split_merge_cancel_map st ρ f c e keys s hs hn hidx

/-- `DisabledExp` in the resolved-expression language: `makeDisabledExp(d, v)` denotes
"null if the control `d` is true, else the value `v`" for every fork assignment
(a null value stays null, a constant control is decided statically, any other
control wraps the value). -/
theorem makeDisabled_sound (st : StructTable) (ρ : Store) (f : ForkAssign) (d v : RExp) :
    evalR st ρ f (mkDisabled d v)
      = if Martian.Dataflow.isTrue (evalR st ρ f d) then .null else evalR st ρ f v :=
  evalR_mkDisabled st ρ f d v

/-- nesting two wrappers on the same control changes nothing (the Go code's
pointer-equality shortcut "already disabled on the same control, no need to nest"). -/
theorem disabled_idem (st : StructTable) (ρ : Store) (f : ForkAssign) (d v : RExp) :
    evalR st ρ f (.disabled d (.disabled d v)) = evalR st ρ f (.disabled d v) := by
  simp only [evalR]
  split <;> simp_all

/-- `split` of a `merge` of a conditionally disabled value cancels like any other
(`split_merge_cancel` is stated for every `RExp`, so also for `DisabledExp`), and the
wrapper can be moved out of the pair. -/
theorem split_merge_cancel_disabled (st : StructTable) (ρ : Store) (f : ForkAssign) (c : String)
    (d e : RExp) (n k : Nat) (hk : k < n)
    (hidx : ρ.idx c (fset f c (.i k)) = (List.range n).map .i) :
    evalR st ρ (fset f c (.i k)) (.split c false (.merge c false (.disabled d e)))
      = evalR st ρ (fset f c (.i k)) (.disabled d (.split c false (.merge c false e))) := by
  rw [split_merge_cancel_arr st ρ f c (.disabled d e) n k hk hidx]
  simp only [evalR]
  split
  · rfl
  · have := split_merge_cancel_arr st ρ f c e n k hk hidx
    simp only [evalR] at this
    exact this.symm

/-- non-vacuity of `bindingPath_sound_forks` on a `DisabledExp`: the projection is pushed
inside the wrapper, and the wrapped expression is well shaped -/
example :
    wtR [("R", [⟨"r", ⟨"int", 0, 0⟩⟩])] ⟨"R", 0, 1⟩
      (.disabled (.ref "FLAG" ⟨"FLAG", 0, 0⟩ ["on"])
        (.merge "INNER" false (.struct [("r", .ref "INNER.W" ⟨"W", 0, 0⟩ ["y"])]))) = true
    ∧ bpR "r" (.disabled (.ref "FLAG" ⟨"FLAG", 0, 0⟩ ["on"]) (.ref "GEN" ⟨"GEN", 0, 0⟩ ["o"]))
      = .disabled (.ref "FLAG" ⟨"FLAG", 0, 0⟩ ["on"]) (.ref "GEN" ⟨"GEN", 0, 0⟩ ["o", "r"]) := by
  constructor
  · decide
  · simp [bpR, mkDisabled]

/-- non-vacuity: a merge over `INNER` of a struct of references to a node inside it, projected by
a member, is a merge of the projected reference -/
example :
    wtR [("R", [⟨"r", ⟨"int", 0, 0⟩⟩])] ⟨"R", 0, 1⟩
      (.merge "INNER" false (.struct [("r", .ref "INNER.W" ⟨"W", 0, 0⟩ ["y"])])) = true ∧
    bpR "r" (.merge "INNER" false (.struct [("r", .ref "INNER.W" ⟨"W", 0, 0⟩ ["y"])]))
      = .merge "INNER" false (.ref "INNER.W" ⟨"W", 0, 0⟩ ["y"]) := by
  constructor
  · decide
  · simp [bpR, mkMerge]

/-- `MergeExp.BindingPath` on the A.1 shape (a mapped pipeline that returns its split input):
"merging the elements of a collection which was split over the very same call gives back the
collection" — the projection of the merge is the split SOURCE, not a merge (`mkMerge`).  Such a
merge is excluded from `wtR` (the shape discipline of `bindingPath_sound_forks`): the
cancellation is sound exactly for the stores in which the index set of the call is that of the
collection and the collection does not vary with the call's fork: -/
theorem merge_split_cancel_sound (st : StructTable) (ρ : Store) (f : ForkAssign) (c : String) (v : RExp)
    (xs : List J) (hv : evalR st ρ f v = .arr xs)
    (hind : ∀ k, k < xs.length → evalR st ρ (fset f c (.i k)) v = .arr xs)
    (hidx : ρ.idx c f = (List.range xs.length).map .i) :
    evalR st ρ f (.merge c false (.split c false v)) = evalR st ρ f v :=
  merge_split_cancel_arr st ρ f c v xs hv hind hidx

example :
    bpR "r" (.merge "INNER" false (.struct [("r", .split "INNER" false (.ref "GEN" ⟨"GEN", 0, 0⟩ ["xs"]))]))
      = .ref "GEN" ⟨"GEN", 0, 0⟩ ["xs"] ∧
    -- … but not when the collection itself is an element of an enclosing split
    bpR "r" (.merge "INNER" false (.struct [("r", .split "INNER" false
        (.split "OUTER" false (.ref "GEN" ⟨"GEN", 0, 0⟩ ["xss"])))]))
      = .merge "INNER" false (.split "INNER" false (.split "OUTER" false (.ref "GEN" ⟨"GEN", 0, 0⟩ ["xss"]))) := by
  constructor <;> simp [bpR, mkMerge, hasSplitR]

/-- Fork-index substitution on a split literal: the expression selected for fork
`ix` denotes the `ix`-th element of the collection the literal denotes. -/
theorem split_literal_sound (st : StructTable) (env : Env) (xs : List Exp)
    (kvs : List (String × Exp)) (n : Nat) (k : String) :
    eval st env (selectFork (.i n) (.arr xs)) = elemAt (eval st env (.arr xs)) (.i n) ∧
    eval st env (selectFork (.k k) (.map kvs)) = elemAt (eval st env (.map kvs)) (.k k) := by
  constructor
  · simp only [selectFork, eval, elemAt]
    exact (evalList_getD st env xs n).symm
  · simp only [selectFork, eval, elemAt, J.field, lookup_evalFields]
    cases kvs.lookup k <;> simp [eval]

/-! ## meta-theorems about the specification -/

/-- Instance `ix` of a mapped call receives exactly the argument record the
unmapped call would receive with the `ix`-th element of every split collection. -/
theorem den_map_pointwise (st : StructTable) (nf : Nat) (env : Env) (ins : List Param) (c : Call)
    (ix : Idx) :
    mkArgs st nf (argVals st env ins c) (some ix)
      = mkArgs st nf (argVals st env ins (atIndex st env c ix)) none := by
  simp only [mkArgs, argVals, atIndex, List.map_map, J.obj.injEq]
  apply List.map_congr_left
  intro p _
  simp only [Function.comp_apply, List.find?_map]
  have hf : ((fun b : Bind => b.param == p.name) ∘ fun b : Bind =>
      if b.split then (⟨b.param, false, .lit (elemAt (eval st env b.exp) ix)⟩ : Bind) else b)
      = fun b : Bind => b.param == p.name := by
    funext b
    simp only [Function.comp_apply]
    split <;> rfl
  rw [hf]
  cases List.find? (fun b : Bind => b.param == p.name) c.binds with
  | none => simp
  | some b =>
    cases hs : b.split <;> simp [hs, eval]

/-- Renaming call ids inside a pipeline body changes nothing but the ids — UP TO THE RENAMING OF
THE INSTANCE KEYS (audit C01-H5: den's callee denotation puts the call path, and for a mapped call
the call id of its fork entry, into every instance key, so the instances below a renamed call
move).  `swapCall a b` exchanges the ids `a` and `b` consistently (in the call statements and in
every reference of every binding / `disabled` expression; a transposition, so no freshness
condition is needed — renaming `a` to a fresh `b` is the special case where `b` does not occur).
If the callees' denotations are related accordingly (`RunnerRelK`: on the renamed path / fork
entry they answer the same VALUE as the original ones on the original path, and the same
instances with every key renamed by `renKey` — satisfied by den's own callee denotation with the
re-keyed oracle: `den_alias_runner`), then evaluating the renamed body yields the same environment
up to the renaming of its keys — the same type and value for every call —, the same stage
instances with the same argument records each under its renamed key, and every renamed return
expression denotes the same value. -/
theorem den_alias (st : StructTable) (nf : Nat) (insOf : String → List Param) (a b : String)
    (run run' : Runner) (path : List String) (forks : List (String × Idx)) (mf : String → Bool)
    (hrel : RunnerRelK a b path forks mf run run') (cs : List Call) (env : Env) (acc : List Inst)
    (hmf : ∀ c ∈ cs, mf c.id = c.mapped) :
    evalCalls st nf insOf run' path forks (cs.map (swapCall a b)) (swapEnv a b env)
        (acc.map (renInst a b path.length forks.length mf))
      = (swapEnv a b (evalCalls st nf insOf run path forks cs env acc).1,
         (evalCalls st nf insOf run path forks cs env acc).2.map (renInst a b path.length forks.length mf))
    ∧ ∀ e : Exp,
        eval st (swapEnv a b (evalCalls st nf insOf run path forks cs env acc).1) (swapExp a b e)
          = eval st (evalCalls st nf insOf run path forks cs env acc).1 e :=
  ⟨evalCalls_swapK st nf insOf a b run run' path forks mf hrel cs env acc hmf,
   fun e => eval_swap st a b _ e⟩

/-- The hypothesis of `den_alias` holds for den's OWN callee denotation, for every program (stage
callees included: the renamed key is where the recorded outs are looked up): `runCallable P O`
against `runCallable P (O ∘ renKey)`. -/
theorem den_alias_runner (P : Program) (O : Oracle) (nf fuel : Nat) (a b : String)
    (path : List String) (forks : List (String × Idx)) (mf : String → Bool) :
    RunnerRelK a b path forks mf (runCallable P O nf fuel)
      (runCallable P (fun k => O (renKey a b path.length forks.length (fun y => mf (swapId a b y)) k)) nf fuel) :=
  runnerRelK_runCallable P O nf fuel a b path forks mf

/--
PARTIAL (whole-program `den_alias`, for the body of the TOP-LEVEL pipeline).  Swapping the call
ids `a` and `b` in the body of the top-level pipeline (`swapTop`) and looking the recorded stage
outputs up under the renamed keys (`O ∘ renKey`: path component at depth 1, and the fork entry of
the renamed call when it is a map call) yields the same top-level outputs and exactly the stage
instances of the original program with the same argument records, each under its renamed key.
Hypotheses (decidable): the top callable is a pipeline whose call ids are distinct, and no
callable calls the top-level pipeline.

Full statement NOT proved: the same for the body of ANY pipeline of the program (a pipeline that is
instantiated at several call paths needs the renaming of keys at every one of them: `renKey`
along a walk of the program; `den_alias` + `den_alias_runner` are the per-instantiation step).
-/
theorem den_alias_top_partial (a b : String) (P : Program) (O : Oracle)
    (pins outs : List Param) (calls : List Call) (ret : List (String × Exp))
    (htop : P.callables.lookup P.top.callee = some (.pipeline pins outs calls ret))
    (hids : (calls.map (·.id)).Nodup) (hnocall : noCallToTopB P = true) :
    den (swapTop a b P) (fun k => O (renKey a b 1 0 (fun y => mappedOf calls (swapId a b y)) k))
      = renRes a b 1 0 (mappedOf calls) (den P O) :=
  den_alias_top a b P O pins outs calls ret htop hids (noCallToTopB_sound P hnocall)

/-- non-vacuity on a program with STAGE callees (plain and mapped): the example program `exMap`
(GEN, a map call W of WORK over three elements, USE): hypotheses hold … -/
example : exMap.callables.lookup exMap.top.callee =
      some (.pipeline [⟨"v", xInt⟩] [⟨"ys", ⟨"int", 0, 1⟩⟩, ⟨"r", xInt⟩]
        (match exMap.callables.lookup "TOP" with | some (.pipeline _ _ cs _) => cs | _ => [])
        (match exMap.callables.lookup "TOP" with | some (.pipeline _ _ _ r) => r | _ => []))
    ∧ noCallToTopB exMap = true := ⟨rfl, by decide⟩

/-- … and the keys really move: after swapping `GEN` and `W` the instance that was
`TOP.W[W=1]` is `TOP.GEN[GEN=1]` (path component AND fork entry renamed), the plain stage
`TOP.GEN` is `TOP.W`, with the same argument records -/
example :
    let calls := match exMap.callables.lookup "TOP" with | some (.pipeline _ _ cs _) => cs | _ => []
    let O' : Oracle := fun k => exMapOracle (renKey "GEN" "W" 1 0 (fun y => mappedOf calls (swapId "GEN" "W" y)) k)
    (den (swapTop "GEN" "W" exMap) O').2.map (·.key)
      = [⟨["TOP", "W"], []⟩, ⟨["TOP", "GEN"], [("GEN", .i 0)]⟩, ⟨["TOP", "GEN"], [("GEN", .i 1)]⟩,
         ⟨["TOP", "GEN"], [("GEN", .i 2)]⟩, ⟨["TOP", "USE"], []⟩]
    ∧ ((den (swapTop "GEN" "W" exMap) O').2.zip (den exMap exMapOracle).2).all
        (fun p => p.1.args.matches p.2.args) = true
    ∧ (den (swapTop "GEN" "W" exMap) O').1.matches (den exMap exMapOracle).1 = true := by decide

example : swapCall "A" "B" (exAliasCall "A" "A") = exAliasCall "B" "B" := by
  simp [swapCall, swapExp, swapId, exAliasCall]

/-! ## non-vacuity: a concrete nested mapped program (DESIGN Appendix A.1, the F14 shape) -/

/-- the denotation is `r = [[1,1,1],[2,2,2]]` (two rows, not six), with 1 + 2×3 stage instances -/
example :
    (den exProg exOracle).1.matches
      (.obj [("r", .arr [.arr [.atom "1", .atom "1", .atom "1"], .arr [.atom "2", .atom "2", .atom "2"]])])
      = true ∧ (den exProg exOracle).2.length = 7 := by decide

/-- the instance (outer index 1, inner index 2) receives `what = 2, k = 30` -/
example :
    ((den exProg exOracle).2.find? fun i =>
        i.key == ⟨["TOP", "INNER", "ECHO"], [("INNER", .i 1), ("ECHO", .i 2)]⟩).map
      (fun i => i.args.matches (.obj [("what", .atom "2"), ("k", .atom "30")])) = some true := by decide

/-- hypotheses of `den_schedule_free` are satisfiable: two different completion orders -/
example :
    let h1 : List (InstKey × J) := [(⟨["TOP", "GEN"], []⟩, .null), (⟨["TOP", "X"], []⟩, .atom "1")]
    let h2 : List (InstKey × J) := [(⟨["TOP", "X"], []⟩, .atom "1"), (⟨["TOP", "GEN"], []⟩, .null)]
    h1.Perm h2 ∧ (h1.map (·.1)).Nodup ∧ h1 ≠ h2 := by
  refine ⟨List.Perm.swap _ _ _, by decide, by simp⟩

/-- hypotheses of `filter_narrow` / `den_disabled_null` / `den_map_collects` /
`den_empty_map_null` / `den_inline_partial` are satisfiable on the example program -/
example : StructsOk exProg.table := by
  intro name ps h
  simp only [Program.table, exProg, List.nil_append, List.map_cons, List.map_nil, Callable.outs] at h
  simp only [List.lookup_cons, List.lookup_nil] at h
  repeat (first | (split at h <;> first | (cases h; decide) | skip) | cases h)

example : Martian.Dataflow.isTrue (eval [] ⟨[], .null, []⟩ (.lit (.atom "true"))) = true := by decide

example :
    let env : Env := ⟨[⟨"v", tInt⟩], .obj [("v", .atom "1")], []⟩
    let c : Call := { id := "ECHO", callee := "ECHO", mapped := true,
                      binds := [⟨"what", false, .self "v" []⟩,
                                ⟨"k", true, .arr [.lit (.atom "10"), .lit (.atom "20")]⟩],
                      disabled := none }
    (callIndices [] env c).isEmpty = false ∧ splitsAgree [] env c = true ∧
    (callIndices [] env { c with binds := [⟨"k", true, .arr []⟩] }).isEmpty = true := by decide

example : exProg.callables.lookup "INNER" =
    some (.pipeline [⟨"v", tInt⟩] [⟨"r", tInts⟩]
          [ { id := "ECHO", callee := "ECHO", mapped := true,
              binds := [⟨"what", false, .self "v" []⟩,
                        ⟨"k", true, .arr [.lit (.atom "10"), .lit (.atom "20"), .lit (.atom "30")]⟩],
              disabled := none } ]
          [("r", .ref "ECHO" ["result"])]) := by rfl

/-- struct narrowing really drops a field: WIDE → PAIR -/
example :
    (narrow [("PAIR", [⟨"a", tInt⟩, ⟨"b", ⟨"string", 0, 0⟩⟩])] 3 ⟨"PAIR", 0, 1⟩
      (.arr [.obj [("a", .atom "1"), ("b", .atom "\"x\""), ("c", .atom "1.5")]])).matches
      (.arr [.obj [("a", .atom "1"), ("b", .atom "\"x\"")]]) = true := by decide

/-- `bindingPath_sound_partial`: a well-shaped expression mixing all literal kinds and a reference -/
example :
    wt [("PAIR", [⟨"a", tInt⟩])] ⟨[⟨"x", ⟨"PAIR", 1, 0⟩⟩], .null, []⟩ ⟨"PAIR", 1, 1⟩
      (.arr [.map [("k", .struct [("a", .lit (.atom "1"))])], .self "x" [], .lit .null]) = true := by decide

/-- chunk-def arguments override bindings -/
example : (chunkMerge [("x", .atom "1"), ("ci", .null)] [("ci", .atom "5")]).lookup "ci" = some (.atom "5")
    ∧ (chunkMerge [("x", .atom "1"), ("ci", .null)] [("ci", .atom "5")]).lookup "x" = some (.atom "1") := by
  constructor <;> rfl

/-! ## the two-phase resolver refines den (model of martian/syntax resolve_* + martian/core/resolve.go) -/

/-- Narrowing composes across boundaries: narrowing a value to `t` (at a sub-pipeline
boundary) and then to an assignable `t'` (at the stage parameter) is narrowing to `t'`.
`NarrowFix`: the fuel of `narrow` is enough for the struct table (`narrowFix_acyclic`). -/
theorem narrow_compose (st : StructTable) (hst : StructsOk st) (F : Nat) (hF : NarrowFix st F)
    (t t' : Ty) (h : Sub st t t') (v : J) :
    narrow st F t' (narrow st F t v) = narrow st F t' v :=
  narrow_narrow hst hF h v

/-- Projection commutes with narrowing: a member of a narrowed value is the narrowed member. -/
theorem project_narrow_commute (st : StructTable) (F : Nat) (hF : NarrowFix st F) (t : Ty) (f : String)
    (ft : Ty) (h : fieldTy st t.base f = some ft) (hm : t.mapDim ≠ 0 → ft.mapDim = 0) (v : J) :
    proj1 t f (narrow st F t v) = narrow st F (projTy1 st t f) (proj1 t f v) :=
  proj1_narrow hF t f ft h hm v

/-- `Program.nfuel` is enough fuel for every acyclic struct table (decidable check). -/
theorem narrowFix_acyclic (P : Program) (h : acyclicB P.table = true) : NarrowFix P.table P.nfuel :=
  narrowFix_of_acyclicB P.table h

/-- The static struct filter of literals (`Exp.filter`) is invisible to the type-directed
run-time evaluation (`TopNode.resolve`), and keeps the expression well typed.  Domain of the
three typed laws (`HasTyR`): literals (incl. reference-free JSON literals at an untyped map),
array / typed-map / struct literals, references, `fork` annotations, `DisabledExp`, `split` nodes
in array and typed-map mode (typed-map mode: the element type has no typed map below,
`NoMapBelow`), `merge` nodes in both modes whose value does not contain the call's own split (the
cancelling shape of `mkMerge`: for it only `merge_split_cancel_sound` holds). -/
theorem static_filter_invisible (st : StructTable) (hst : StructsOk st) (nf : Nat) (ρ : Store)
    (f : ForkAssign) (r : RExp) (t : Ty) (h : HasTyR st t r) :
    evalRT st nf ρ f t (filterR st t r) = evalRT st nf ρ f t r ∧ HasTyR st t (filterR st t r) :=
  evalRT_filterR st hst nf ρ f r t h

/-- Evaluating a resolved expression at run time at type `t` and narrowing the result to an
assignable `t'` is evaluating it at `t'` (what lets a resolved expression cross a
sub-pipeline boundary un-narrowed). -/
theorem runtime_narrow_assignable (st : StructTable) (hst : StructsOk st) (F : Nat) (hF : NarrowFix st F)
    (ρ : Store) (f : ForkAssign) (r : RExp) (t t' : Ty) (h : HasTyR st t r) (hs : Sub st t t') :
    narrow st F t' (evalRT st F ρ f t r) = evalRT st F ρ f t' r ∧ HasTyR st t' r :=
  narrow_evalRT st hst F hF ρ r t t' f h hs

/-- Static projection along a whole path (`BindingPath`) commutes with the TYPED run-time
evaluation, the types moving along (`bindingPath_sound_forks` is the untyped law). -/
theorem static_projection_typed (st : StructTable) (hst : StructsOk st) (F : Nat) (hF : NarrowFix st F)
    (ρ : Store) (f : ForkAssign) (path : List String) (r : RExp) (t : Ty) (h : HasTyR st t r)
    (hp : PathOk st t path) :
    projPath st t path (evalRT st F ρ f t r) = evalRT st F ρ f (pathTy st t path) (bpPath path r) ∧
    HasTyR st (pathTy st t path) (bpPath path r) :=
  projPath_evalRT st hst F hF ρ f path r t h hp

/-- One binding: for a source expression typed in an environment whose entries are related
to the static environment (in every fork assignment of `Fs`), den's (narrowed) value is the
run-time evaluation, in any such fork assignment, of what `resolveExp` (= `resolveRefs`,
then `filter`) produces. -/
theorem resolveExp_refines_eval (st : StructTable) (hst : StructsOk st) (F : Nat) (hF : NarrowFix st F)
    (ρ : Store) (Fs : ForkAssign → Prop) (env : Env) (self sib : RBMap)
    (hrel : EnvRel st F ρ Fs env self sib) (f : ForkAssign) (hf : Fs f) (e : Exp) (t : Ty)
    (h : HasTy st env.selfTy env.callTy t e) :
    narrow st F t (eval st env e) = evalRT st F ρ f t (filterR st t (resolveRefs self sib e)) :=
  (eval_resolveExp st hst F hF ρ Fs env self sib hrel f hf e t h).1

/--
PARTIAL (the refinement, for the plain fragment).  For every well-typed PLAIN program
(`WellTyped`: no map call, no `disabled` modifier; every binding / return
expression assignable to its parameter: literals of scalar type, array / typed-map
/ struct literals member-wise, references and projections through nested
sub-pipelines, struct narrowing `Sub`; aliases = call ids differ from callee names),
every struct table on which `narrow` has enough fuel, every naming `nm` of the
nodes and every store that holds the recorded outs under those names:
the STATIC phase (`staticProgram`: the resolved inputs of every stage node and the
resolved outputs of the top node) followed by the RUN-TIME phase (`evalRT`:
type-directed evaluation over the recorded outs) yields exactly `den`: the same
top-level outputs, the same stage instances in the same order, each with the same
argument record.

About `StoreOf nm O ρ` (audit M-2): it quantifies over ALL call paths, so it demands that the oracle
does not distinguish two paths with the same name.  For an injective `nm` that is no restriction;
for the "."-join used by the examples and the driver it holds for oracles given by node NAME
(`exPlainOracleN`, full example below) but not for `exPlainOracle`, which distinguishes
["TOP","GEN"] from ["TOP.GEN"].  The node-wise hypothesis `StoreAtNode` of
`resolver_refines_den_staticmap_*` / `_mapstatic_*` / `_mappedpipes_*` (which cover plain programs
as well, are what the driver replays, and whose store `storeOfNodes` is proved to satisfy it) has no
such side effect.

Full statement (NOT proved): the same for every compiling program, `twoPhase`
extended by split / merge wrapping of map calls, fork matching and `DisabledExp`
wrapping, equality up to `dnull` ~ null / empty.  Excluded shapes: map calls
(statically or dynamically sized), `disabled`, a struct bound to an untyped `map`
parameter (den narrows at the boundary type, the code does not), ill-typed
programs.  For those the refinement is checked per run against the real code.
-/
theorem resolver_refines_den_plain_partial (P : Program) (nm : List String → String) (O : Oracle)
    (ρ : Store) (hw : WellTyped P) (hfix : NarrowFix P.table P.nfuel) (hρ : StoreOf nm O ρ) :
    den P O = twoPhase P nm ρ :=
  twoPhase_eq_den_F P hw P.nfuel hfix nm O ρ hρ

/-- The same with DECIDABLE hypotheses (the driver evaluates them on every generated
program: `C01.static`): the checks `wellTypedB` and `acyclicB` pass. -/
theorem resolver_refines_den_plain_checked_partial (P : Program) (nm : List String → String) (O : Oracle)
    (ρ : Store) (h1 : wellTypedB P = true) (h2 : acyclicB P.table = true) (hρ : StoreOf nm O ρ) :
    den P O = twoPhase P nm ρ :=
  twoPhase_eq_den_F P (wellTypedB_sound P h1) P.nfuel (narrowFix_of_acyclicB P.table h2) nm O ρ hρ

/--
PARTIAL (the refinement, with statically sized map calls).  The same for programs in which,
besides plain calls, STAGES are called by `map call` over ARRAY LITERALS (`WellTypedM`: every
split binding is an array literal, all of one non-zero length; elements may be constants,
pipeline inputs, upstream outputs, struct literals; no `disabled`, no mapped pipeline).  Static
phase: the split bindings become `split` nodes over the resolved literal, the node forks
over the call, the call's outputs are the unrolled merge (`MergeExp.BindingPath` with a known
length: the array of the node's reference read in fork 0, 1, …, written `fork`); run-time
phase: fork `k` of the node evaluates its inputs in the fork assignment `[(call, k)]`, the
consumers in the empty one.  The store is described node by node (`StoreAtNode`: the outs of
a node read in a fork assignment are those of the fork of THAT node the assignment selects);
the resolved expressions of an environment denote the same value in EVERY fork assignment
(`EnvRel … FsT`), which is the invariant of the induction.  Result: den's top-level outputs,
and den's stage instances — one per fork of every mapped stage, in den's order, each with its
argument record (split parameters: the `k`-th element, narrowed) — are exactly what the two
phases compute.

Still excluded (full statement in the comment of `resolver_refines_den_plain_partial`): split
sources that are not array literals in the source (typed-map literals; a literal handed down
as a pipeline input; references of run-time size: `merge` nodes stay), mapped pipelines,
nested map calls, `disabled`.  The static model and the per-run tie cover the first two of
these as well (`C01.static`), unproved.
-/
theorem resolver_refines_den_staticmap_partial (P : Program) (nm : List String → String) (O : Oracle)
    (ρ : Store) (hw : WellTypedM P) (hfix : NarrowFix P.table P.nfuel)
    (hρ : ∀ n ∈ (staticProgram P nm).2, StoreAtNode nm O ρ n) :
    den P O = twoPhaseM P nm ρ :=
  twoPhaseM_eq_den_F P hw P.nfuel hfix nm O ρ hρ

/-- … with DECIDABLE hypotheses and the store built from the oracle and the call graph: the
checks `wellTypedMB`, `acyclicB` pass and the node names are distinct. -/
theorem resolver_refines_den_staticmap_checked_partial (P : Program) (nm : List String → String) (O : Oracle)
    (h1 : wellTypedMB P = true) (h2 : acyclicB P.table = true)
    (h3 : ((staticProgram P nm).2.map fun n => nm n.path).Nodup) :
    den P O = twoPhaseM P nm (storeOfNodes nm (staticProgram P nm).2 O) :=
  twoPhaseM_eq_den_F P (wellTypedMB_sound P h1) P.nfuel (narrowFix_of_acyclicB P.table h2) nm O _
    (storeOfNodes_ok nm _ O h3)

/--
PARTIAL (the refinement, with every map call of a STAGE whose size is known after resolution).
Generalises `resolver_refines_den_staticmap_partial`: the split sources may be array OR
typed-map literals, written at the call OR handed down through pipeline inputs (`split
self.xs` where an enclosing call binds `xs` to a literal, possibly through several pipeline
boundaries, narrowed on the way).  The typing (`WellTypedG`) no longer speaks about sizes; that
every map call INSTANCE of the call graph has a statically known, non-zero size on which all
its split inputs agree is a decidable condition on the static phase itself (`staticProgramOk`:
what the compiler's `KnownLength` / `unifyMapSources` decide), and den's index set is recovered
from den's VALUE of the split source by inverting the narrowing.  In typed-map mode the
call's outputs are the typed map key ↦ the node's outputs read in fork `key`, fork `key` receives
the value at `key` of every split parameter.

Still excluded: mapped pipelines, nested map calls, split sources of run-time size (`merge` nodes
stay), a map call over the merged output of another map call, `disabled`.
-/
theorem resolver_refines_den_mapstatic_partial (P : Program) (nm : List String → String) (O : Oracle)
    (ρ : Store) (hw : WellTypedG P) (hfix : NarrowFix P.table P.nfuel)
    (hρ : ∀ n ∈ (staticProgram P nm).2, StoreAtNode nm O ρ n) (hok : staticProgramOk P nm = true) :
    den P O = twoPhaseM P nm ρ :=
  twoPhaseG_eq_den_F P hw P.nfuel hfix nm O ρ hρ hok

/-- … with DECIDABLE hypotheses and the store built from the oracle and the call graph. -/
theorem resolver_refines_den_mapstatic_checked_partial (P : Program) (nm : List String → String) (O : Oracle)
    (h1 : wellTypedGB P = true) (h2 : acyclicB P.table = true) (h3 : staticProgramOk P nm = true)
    (h4 : ((staticProgram P nm).2.map fun n => nm n.path).Nodup) :
    den P O = twoPhaseM P nm (storeOfNodes nm (staticProgram P nm).2 O) :=
  twoPhaseG_eq_den_F P (wellTypedGB_sound P h1) P.nfuel (narrowFix_of_acyclicB P.table h2) nm O _
    (storeOfNodes_ok nm _ O h4) h3

/-- Narrowing can be inverted on shapes: a value whose narrowing at an array type is an array IS an
array of that length (what recovers den's index set of a split source from the static literal). -/
theorem narrow_array_shape (st : StructTable) (F : Nat) (hF : NarrowFix st F) (b : String) (m a : Nat)
    (v : J) (ys : List J) (h : narrow st F ⟨b, m, a + 1⟩ v = .arr ys) :
    ∃ xs, v = .arr xs ∧ xs.length = ys.length :=
  narrow_arr_inv hF b m a v ys h

/-- … and at a typed-map type: a typed map with the same keys -/
theorem narrow_map_shape (st : StructTable) (F : Nat) (hF : NarrowFix st F) (b : String) (k : Nat)
    (v : J) (L : List (String × J)) (h : narrow st F ⟨b, k + 1, 0⟩ v = .obj L) :
    ∃ kvs, v = .obj kvs ∧ kvs.map (·.1) = L.map (·.1) :=
  narrow_obj_inv hF b k v L h

/-- non-vacuity: a pipeline called with array literals that it splits inside (`split self.xs`,
`split self.ps` narrowed WIDE → PAIR on the way) and a map call over a typed-map literal pass
all the checks … -/
example : wellTypedGB exMapG = true ∧ acyclicB exMapG.table = true ∧ staticProgramOk exMapG exNm = true ∧
    ((staticProgram exMapG exNm).2.map fun n => exNm n.path).Nodup := by decide

/-- … 1 + 2 + 2 + 1 instances; fork "kb" of `W2` receives `x = 3` (GEN's output), fork 1 of the
inner `WORK` the struct literal that came through the pipeline input -/
example :
    (twoPhaseM exMapG exNm exMapGStore).2.length = 6 ∧
    ((twoPhaseM exMapG exNm exMapGStore).2.find? fun i => i.key == ⟨["TOP", "W2"], [("W2", .k "kb")]⟩).map
      (fun i => (i.args.field "x").matches (.atom "3")) = some true ∧
    ((twoPhaseM exMapG exNm exMapGStore).2.find? fun i => i.key == ⟨["TOP", "IN", "WORK"], [("WORK", .i 1)]⟩).map
      (fun i => (i.args.field "p").matches (.obj [("a", .atom "2"), ("b", .atom "\"t\"")])) = some true := by
  decide

/--
PARTIAL (the refinement, with MAPPED PIPELINES and NESTED map calls).  Array-mode map calls of
stages AND of pipelines, nested to any depth, every size known after resolution (`treeOkList`:
decidable on the static phase; also: no call id repeats along a nesting chain).  The static
phase is tree shaped (`staticProgramT`): below a mapped call the split inputs reach the callee's
environment as `split` nodes (projected by `BindingPath`, filtered by `SplitExp.filter`, narrowed
at run time), the call's outputs are the callee's outputs SPECIALISED to every fork (`pushFork`
= `BindingPath` with a known fork index: references get the index, a `split` over the call
selects its element statically; `pushFork_evalRT`: that is evaluation in that fork).  The
run-time phase evaluates everything below mapped calls `c₁ … cₙ` in fork assignments that agree
with den's fork list `[(c₁,i₁) … (cₙ,iₙ)]` (two or more roots; the value does not depend on which:
`evalRT_congr`, the store reads an assignment through its lookups only).  Result: den's top-level
outputs and den's stage instances — for every mapped call, for each index in order, everything
below — each with its argument record.

Still excluded: typed-map mode below mapped pipelines (map calls of STAGES in typed-map mode are
in `resolver_refines_den_mapstatic_partial`), split sources of run-time size, a map call over the
merged output of another map call (lockstep roots), `disabled`.
-/
theorem resolver_refines_den_mappedpipes_partial (P : Program) (nm : List String → String) (O : Oracle)
    (ρ : Store) (hw : WellTypedT P) (hfix : NarrowFix P.table P.nfuel) (hext : StoreExt ρ)
    (hρ : ∀ n ∈ flattenTList [] (staticProgramT P nm).2, StoreAtNode nm O ρ n)
    (hok : treeOkList [] (staticProgramT P nm).2 = true) :
    den P O = twoPhaseT P nm ρ :=
  twoPhaseT_eq_den_F P hw P.nfuel hfix nm O ρ hext hρ hok

/-- … with DECIDABLE hypotheses and the store built from the oracle and the call graph. -/
theorem resolver_refines_den_mappedpipes_checked_partial (P : Program) (nm : List String → String) (O : Oracle)
    (h1 : wellTypedTB P = true) (h2 : acyclicB P.table = true)
    (h3 : treeOkList [] (staticProgramT P nm).2 = true)
    (h4 : ((flattenTList [] (staticProgramT P nm).2).map fun n => nm n.path).Nodup) :
    den P O = twoPhaseT P nm (storeOfNodes nm (flattenTList [] (staticProgramT P nm).2) O) :=
  twoPhaseT_eq_den_F P (wellTypedTB_sound P h1) P.nfuel (narrowFix_of_acyclicB P.table h2) nm O _
    (storeOfNodes_ext nm _ O) (storeOfNodes_ok nm _ O h4) h3

/-- Specialising a resolved expression to one fork of a mapped call (`BindingPath` with a known fork
index: array index `.i k` of an array-mode call, key `.k s` of a typed-map mode call) is evaluating
it in that fork — for every store that reads fork assignments through their lookups — and keeps it
well typed.  `hok` (`pushOk c m e`): the expression contains no merge over `c` itself (the outputs
of `c`'s callee never do: for such a merge the compiler returns the merged value of that fork
instead) and every split over `c` in it is in the mode `m` of the call (`HasTyR` admits `merge`
nodes and typed-map splits since rounds 4 / 5; on the expressions it admitted before, `pushOk c
false` is `noMergeOf c`). -/
theorem specialise_to_fork_sound (st : StructTable) (hst : StructsOk st) (F : Nat) (ρ : Store)
    (hρ : StoreExt ρ) (c : String) (ix : Idx) (m : Bool) (hix : IdxMode ix m) (e : RExp) (t : Ty)
    (f : ForkAssign) (h : HasTyR st t e) (hok : pushOk c m e = true) :
    evalRT st F ρ f t (pushFork c ix e) = evalRT st F ρ (fset f c ix) t e ∧
    HasTyR st t (pushFork c ix e) :=
  pushFork_evalRT st hst F ρ hρ c ix m hix e t f h hok

example : IdxMode (.i 2) false ∧ IdxMode (.k "a") true ∧ ¬ IdxMode (.k "a") false ∧ ¬ IdxMode .none true := by
  simp [IdxMode]

/-- The run-time phase depends on a fork assignment only through its lookups (the order in which
the roots were bound does not matter). -/
theorem runtime_fork_assignment_ext (st : StructTable) (F : Nat) (ρ : Store) (hρ : StoreExt ρ)
    (e : RExp) (t : Ty) (f g : ForkAssign) (h : FEq f g) :
    evalRT st F ρ f t e = evalRT st F ρ g t e :=
  evalRT_congr st F ρ hρ e t f g h

/-- non-vacuity: a pipeline mapped over an array literal of length 3 with a nested map call of
length 2 inside passes the checks … -/
example : wellTypedTB exPipe = true ∧ acyclicB exPipe.table = true ∧
    treeOkList [] (staticProgramT exPipe exNm).2 = true ∧
    ((flattenTList [] (staticProgramT exPipe exNm).2).map fun n => exNm n.path).Nodup := by decide

/-- … 1 + 3·(1 + 1 + 2) + 1 instances in den's order; the instance (outer 1, inner 0) of the nested
call receives the outer split value `x = 5`, `k` from the sibling stage of ITS outer fork -/
example :
    (twoPhaseT exPipe exNm exPipeStore).2.length = 14 ∧
    ((twoPhaseT exPipe exNm exPipeStore).2.find? fun i =>
        i.key == ⟨["TOP", "INNER", "W2"], [("INNER", .i 1), ("W2", .i 0)]⟩).map
      (fun i => i.args.matches (.obj [("x", .atom "5"), ("k", .atom "11")])) = some true := by decide

example (nodes : List SNode) (O : Oracle) : StoreExt (storeOfNodes exNm nodes O) := storeOfNodes_ext _ _ _

/-! ### run-time `disabled` controls: the refinement modulo the rendering of "no value"

den writes `dnull` for every output of a disabled call ("no value"); the property text lets an
implementation render it as null, an empty collection or a collection of nulls.  `e ≈ o`
(`J.approx e o`) says exactly that: `o` is `e` with every `dnull` replaced by such a value, and
everything else equal.  `≈` is a congruence for the value operations downstream of the disabled
call, it is equality on values without `dnull`, and the model of the code renders `dnull` as JSON
null (`J.erase`). -/

example : J.approx .dnull .null = true ∧ J.approx .dnull (.arr []) = true ∧ J.approx .dnull (.obj []) = true ∧
    J.approx .dnull (.arr [.null, .null]) = true ∧ J.approx .dnull (.obj [("a", .null)]) = true ∧
    J.approx .dnull (.atom "0") = false ∧ J.approx .dnull (.arr [.atom "0"]) = false ∧
    J.approx (.arr [.atom "1", .dnull]) (.arr [.atom "1", .arr []]) = true ∧
    J.approx (.arr [.atom "1", .dnull]) (.arr [.atom "2", .null]) = false ∧
    J.approx .null (.arr []) = false := by decide

theorem approx_refl (v : J) : J.approx v v = true := Proofs.Approx.approx_refl v

/-- rendering every `dnull` as JSON null is one of the allowed renderings -/
theorem approx_erase (v : J) : J.approx v (J.erase v) = true := Proofs.Approx.approx_erase v

/-- where den has a value (no `dnull` inside), `≈` leaves no freedom -/
theorem approx_is_eq_on_values (e o : J) (hc : J.clean e = true) (h : J.approx e o = true) : e = o :=
  Proofs.Approx.approx_clean e o hc h

/-- `≈` is a congruence for projection (one step at a type, through arrays and typed maps; a path) … -/
theorem approx_project (st : StructTable) (t : Ty) (path : List String) (e o : J)
    (h : J.approx e o = true) : J.approx (projPath st t path e) (projPath st t path o) = true :=
  (Proofs.Approx.cong_projPath st path t).2 e o h

/-- … for narrowing to a declared type … -/
theorem approx_narrow (st : StructTable) (F : Nat) (t : Ty) (e o : J) (h : J.approx e o = true) :
    J.approx (narrow st F t e) (narrow st F t o) = true :=
  (Proofs.Approx.cong_narrow st F t).2 e o h

/-- … for collection building (arrays, typed maps / structs: same keys, `≈` members) … -/
theorem approx_collect (ixs : List Idx) (g g' : Idx → J) (h : ∀ ix ∈ ixs, J.approx (g ix) (g' ix) = true) :
    J.approx (.arr (ixs.map g)) (.arr (ixs.map g')) = true ∧
    J.approx (.obj (ixs.map fun ix => (ix.keyText, g ix))) (.obj (ixs.map fun ix => (ix.keyText, g' ix))) = true := by
  simp only [J.approx]
  induction ixs with
  | nil => simp [J.approxList, J.approxFields]
  | cons ix ixs ih =>
    simp only [List.map_cons, J.approxList, J.approxFields, Bool.and_eq_true, beq_self_eq_true, true_and]
    have := ih fun i hi => h i (by simp [hi])
    exact ⟨⟨h ix (by simp), this.1⟩, h ix (by simp), this.2⟩

/-- … and hence for the evaluation of every binding expression in `≈` environments. -/
theorem approx_eval (st : StructTable) (env env' : Env) (h : Proofs.Approx.EnvApprox env env') (e : Exp) :
    J.approx (eval st env e) (eval st env' e) = true :=
  Proofs.Approx.approx_eval st env env' h e

/-- `≈` keeps "is null-like" (so a `disabled` control / an emptiness test downstream agrees) -/
theorem approx_nullish (e o : J) (h : J.approx e o = true) : o.nullish = e.nullish :=
  Proofs.Approx.approx_nullish e o h

/--
THE REFINEMENT WITH RUN-TIME `disabled` CONTROLS ON PLAIN CALLS, anywhere in a call graph with
mapped pipelines and nested map calls of statically known size (array mode): the model of the
code delivers den's top-level outputs and, for every stage instance of den in den's order (the
instances below a disabled call are absent on both sides), den's arguments — with every `dnull`
rendered as JSON null.

Additional hypotheses over `resolver_refines_den_mappedpipes_partial`: every literal of the
program is null or a scalar (`Exp.clean`; what the parser produces) and the recorded outputs are
JSON values.  NOT COVERED: `disabled` on a map call, a control that is itself an element of a split
collection; everything not covered by `resolver_refines_den_mappedpipes_partial`.
FULL STATEMENT aimed at: the same for every well-typed program.
-/
theorem resolver_refines_den_disabled_partial (P : Program) (nm : List String → String) (O : Oracle)
    (ρ : Store) (hw : WellTypedE P) (hfix : NarrowFix P.table P.nfuel) (hext : StoreExt ρ)
    (hO : OracleClean O)
    (hρ : ∀ n ∈ flattenTList [] (staticProgramT P nm).2, StoreAtNode nm O ρ n)
    (hok : treeOkList [] (staticProgramT P nm).2 = true) :
    eraseRun (den P O) = twoPhaseT P nm ρ :=
  twoPhaseE_eq_den_F P hw P.nfuel hfix nm O hO ρ hext hρ hok

/-- … with DECIDABLE hypotheses (`h5`: for an oracle given by a finite record, a check of every
recorded value) and the store built from the oracle and the call graph.  `h6` is not used by the
proof: it cuts the statement down to the DOMAIN on which the static model is the compiler's (audit
pass 2, C01-M2) — no control is an element of a split collection (there the compiler simplifies the
control, `resolveDisableExp`; the static model is not compared with it).  (Audit C01-M1, a control
without a value: it counts as "not disabled" in den and in the model.  The code agrees for a null
SCALAR output — `Fork.disabled`: `json.Unmarshal` of the raw `null` into a bool leaves false — and
rejects at compile time a control bound to an output of a call that may itself be disabled.  It does
NOT agree for a control that is a member projected from a NULL STRUCT value (`disabled = S.s.flag`,
`S.s = null`): the compiler accepts, the fork fails "disabled is bound to a null value" — known
finding C01-F39 (audit pass 3, A3; fail-stop).  Such programs satisfy every hypothesis below: on
that shape this theorem is about the model only.  All observed on the real code: family
null-control.) -/
theorem resolver_refines_den_disabled_checked_partial (P : Program) (nm : List String → String) (O : Oracle)
    (h1 : wellTypedEB P = true) (h2 : acyclicB P.table = true)
    (h3 : treeOkList [] (staticProgramT P nm).2 = true)
    (h4 : ((flattenTList [] (staticProgramT P nm).2).map fun n => nm n.path).Nodup)
    (h5 : ∀ k v, O k = some v → J.clean v = true)
    (_h6 : ctlNoSplitList (staticProgramT P nm).2 = true) :
    eraseRun (den P O)
      = twoPhaseT P nm (storeOfNodes nm (flattenTList [] (staticProgramT P nm).2) O) :=
  twoPhaseE_eq_den_F P (wellTypedEB_sound P h1) P.nfuel (narrowFix_of_acyclicB P.table h2) nm O h5 _
    (storeOfNodes_ext nm _ O) (storeOfNodes_ok nm _ O h4) h3

/-- … stated with `≈`: the outputs are a rendering of den's, the instances are den's (same keys, same
order) and each receives a rendering of den's arguments. -/
theorem resolver_refines_den_disabled_approx_partial (P : Program) (nm : List String → String) (O : Oracle)
    (h1 : wellTypedEB P = true) (h2 : acyclicB P.table = true)
    (h3 : treeOkList [] (staticProgramT P nm).2 = true)
    (h4 : ((flattenTList [] (staticProgramT P nm).2).map fun n => nm n.path).Nodup)
    (h5 : ∀ k v, O k = some v → J.clean v = true)
    (h6 : ctlNoSplitList (staticProgramT P nm).2 = true) :
    let t := twoPhaseT P nm (storeOfNodes nm (flattenTList [] (staticProgramT P nm).2) O)
    J.approx (den P O).1 t.1 = true ∧ t.2.length = (den P O).2.length ∧
    ∀ p ∈ (den P O).2.zip t.2, p.2.key = p.1.key ∧ J.approx p.1.args p.2.args = true := by
  have h := resolver_refines_den_disabled_checked_partial P nm O h1 h2 h3 h4 h5 h6
  intro t
  have ht : t = (J.erase (den P O).1, (den P O).2.map eraseInst) := h.symm.trans rfl
  rw [ht]
  exact ⟨Proofs.Approx.approx_erase _, by simp, zip_map_eraseInst _⟩

/-- the recorded outputs of a finite history are JSON values if each recorded value is -/
theorem oracle_clean_of_history (h : List (InstKey × J)) (hc : h.all (fun e => J.clean e.2) = true) :
    ∀ k v, oracleOfHistory h k = some v → J.clean v = true := by
  intro k v hv
  simp only [oracleOfHistory, Option.map_eq_some_iff] at hv
  obtain ⟨e, he, rfl⟩ := hv
  exact List.all_eq_true.mp hc e (List.mem_of_find?_eq_some he)

/-- non-vacuity: a mapped pipeline whose body disables a call by a per-fork output of a sibling
stage passes the checks … -/
example : wellTypedEB exDis = true ∧ acyclicB exDis.table = true ∧
    treeOkList [] (staticProgramT exDis exNm).2 = true ∧
    ((flattenTList [] (staticProgramT exDis exNm).2).map fun n => exNm n.path).Nodup ∧
    noGuardList (staticProgramT exDis exNm).2 = false ∧
    ctlNoSplitList (staticProgramT exDis exNm).2 = true := by decide

/-- … den's outputs contain `dnull` (fork 1 of `q.a`), the model renders it as null; the disabled
instance is absent: 3 + 2 + 3 + 1 instances; the consumer inside fork 1 receives nulls -/
example :
    J.clean (den exDis exDisOracle).1 = false ∧
    (den exDis exDisOracle).1.approx (twoPhaseT exDis exNm exDisStore).1 = true ∧
    (twoPhaseT exDis exNm exDisStore).1.matches
      (.obj [("ys", .arr [.atom "40", .atom "41", .atom "42"]), ("qa", .arr [.atom "30", .null, .atom "32"]),
             ("r", .atom "99")]) = true ∧
    (twoPhaseT exDis exNm exDisStore).2.length = 9 ∧ (den exDis exDisOracle).2.length = 9 ∧
    ((twoPhaseT exDis exNm exDisStore).2.find? fun i =>
        i.key == ⟨["TOP", "INNER", "W2"], [("INNER", .i 1)]⟩).map
      (fun i => i.args.matches (.obj [("x", .null), ("p", .null)])) = some true := by decide

/-! ### map calls of run-time size -/

/--
THE REFINEMENT WITH MAP CALLS OF RUN-TIME SIZE AND WITH TYPED-MAP MODE (round 5): map calls whose
split sources are references (the size is known when the upstream stage has run) and map calls in
typed-map mode (over typed-map literals or typed-map references), of stages and pipelines, nested in
each other and in statically sized array-mode map calls, next to everything of
`resolver_refines_den_disabled_partial`, modulo `dnull ↦ null`.  The static phase resolves the
outputs of a run-time sized call to a `merge` node and the run-time phase enumerates its elements
from the index sets `ρ.idx` the run recorded.  GIVEN about those: `hidx` (decidable: checked along
the forks that exist) they are the index sets (lengths / key lists) of the collections the calls were
split over, and not empty; `hloc` they depend only on the forks of the mapped calls around the call.
Typing (`WellTypedR`): a map call is in array mode (`MappedOkT`) or in typed-map mode (`MappedOkK`:
the element types have no typed map below — a typed map of typed maps is not a type); later
bindings see `CALL` at the array / typed-map type of its mode (`callTyS`).

NOT COVERED: an empty / null source (den: `dnull` and optional instances); a callee that returns its
split input (the cancelling `merge` of `merge_split_cancel_sound`); a source that is an element of a
split over a STATICALLY sized call (the compiler then knows the size per fork); map calls in lockstep
over the merged output of another map call; `disabled` on a map call.
FULL STATEMENT aimed at: the same for every well-typed program.
-/
theorem resolver_refines_den_runtime_partial (P : Program) (nm : List String → String) (O : Oracle)
    (ρ : Store) (hw : WellTypedR P) (hfix : NarrowFix P.table P.nfuel) (hext : StoreExt ρ)
    (hO : OracleClean O)
    (hρ : ∀ n ∈ flattenTList [] (staticProgramT P nm).2, StoreAtNode nm O ρ n)
    (hok : treeOkPList [] (staticProgramT P nm).2 = true)
    (hidx : idxOkTList P.table P.nfuel ρ [] (staticProgramT P nm).2 = true)
    (hloc : ∀ o ∈ subROccList [] (staticProgramT P nm).2, IdxLocal ρ o.1 o.2.2) :
    eraseRun (den P O) = twoPhaseT P nm ρ :=
  twoPhaseR_eq_den_F P hw P.nfuel hfix nm O hO ρ hext ⟨hρ, hok, hidx, hloc⟩

/-- … with DECIDABLE hypotheses, for the store built from the recorded outs `O` and the recorded
index sets `I` of the run (`h6`: the run-time sized map calls have distinct call ids — the index sets
of the model's store and the fork assignments are keyed by call-id STRING, the code keys by call
statement: a pipeline with a run-time sized map call that is instantiated twice is outside, audit
C01-M3).  `h8`, `h9` are not used by the proof: they cut the statement down to the domain on which
the static model is the compiler's (audit C01-M2) — `h8` no run-time sized source is an element of a
split over a STATICALLY sized enclosing call (the compiler then unrolls per fork, `sourceForFork`),
`h9` no control is an element of a split collection. -/
theorem resolver_refines_den_runtime_checked_partial (P : Program) (nm : List String → String) (O : Oracle)
    (I : IdxRec)
    (h1 : wellTypedRB P = true) (h2 : acyclicB P.table = true)
    (h3 : treeOkPList [] (staticProgramT P nm).2 = true)
    (h4 : ((flattenTList [] (staticProgramT P nm).2).map fun n => nm n.path).Nodup)
    (h5 : ∀ k v, O k = some v → J.clean v = true)
    (h6 : ((subROccList [] (staticProgramT P nm).2).map (·.1)).Nodup)
    (h7 : idxOkTList P.table P.nfuel
      (storeOfRun nm (flattenTList [] (staticProgramT P nm).2) (subROccList [] (staticProgramT P nm).2) O I) []
      (staticProgramT P nm).2 = true)
    (_h8 : treeOkRList [] [] (staticProgramT P nm).2 = true)
    (_h9 : ctlNoSplitList (staticProgramT P nm).2 = true) :
    eraseRun (den P O)
      = twoPhaseT P nm
          (storeOfRun nm (flattenTList [] (staticProgramT P nm).2) (subROccList [] (staticProgramT P nm).2) O I) :=
  twoPhaseR_eq_den_F P (wellTypedRB_sound P h1) P.nfuel (narrowFix_of_acyclicB P.table h2) nm O h5 _
    (storeOfRun_ext nm _ _ O I)
    ⟨storeOfRun_ok nm _ _ O I h4, h3, h7, storeOfRun_local nm _ _ O I h6⟩

/-- the decidable condition on the element type of a typed-map mode map call -/
theorem no_map_below_checked (st : StructTable) (hst : StructsOk st) (n : Nat) (t : Ty)
    (h : noMapBelowB st n t = true) : NoMapBelow st t :=
  noMapBelowB_sound st hst n t h

/-- non-vacuity, typed-map mode: a pipeline mapped over the typed-map output of a stage (run-time key
set) with a nested map call over a typed-map literal passes the checks … -/
example : wellTypedRB exRunK = true ∧ wellTypedEB exRunK = false ∧ acyclicB exRunK.table = true ∧
    treeOkPList [] (staticProgramT exRunK exNm).2 = true ∧
    ((flattenTList [] (staticProgramT exRunK exNm).2).map fun n => exNm n.path).Nodup ∧
    ((subROccList [] (staticProgramT exRunK exNm).2).map (·.1)).Nodup ∧
    idxOkTList exRunK.table exRunK.nfuel exRunKStore [] (staticProgramT exRunK exNm).2 = true := by decide

/-- … 1 + 2·(1 + 2 + 1) instances; the outputs are typed maps over the recorded keys; the nested
instance (b, p) receives the split value of ITS outer fork -/
example :
    (twoPhaseT exRunK exNm exRunKStore).2.length = 9 ∧
    (twoPhaseT exRunK exNm exRunKStore).1.matches
      (.obj [("ys", .obj [("a", .atom "\"ya\""), ("b", .atom "\"yb\"")]),
             ("rs", .obj [("a", .atom "\"ra\""), ("b", .atom "\"rb\"")])]) = true ∧
    ((twoPhaseT exRunK exNm exRunKStore).2.find? fun i =>
        i.key == ⟨["TOP", "INNER", "W2"], [("INNER", .k "b"), ("W2", .k "p")]⟩).map
      (fun i => i.args.matches (.obj [("x", .atom "6"), ("k", .atom "\"yb\"")])) = some true := by decide

/-- the fragment of the statically sized theorems is inside this one: a call graph without run-time
sized calls needs nothing about index sets -/
theorem runtime_fragment_extends_static (st : StructTable) (nf : Nat) (ρ : Store) :
    ∀ (ts : List STree) (above : List String) (f : ForkAssign), treeOkList above ts = true →
      treeOkPList above ts = true ∧ idxOkTList st nf ρ f ts = true ∧ ∀ dims, subROccList dims ts = [] :=
  treeOk_implies_P st nf ρ

/-- non-vacuity: a pipeline mapped over the array output of a stage, with a nested map call over an
array output of a stage of its own fork, passes the checks for the recorded index sets … -/
example : wellTypedRB exRun = true ∧ acyclicB exRun.table = true ∧
    treeOkPList [] (staticProgramT exRun exNm).2 = true ∧
    treeOkList [] (staticProgramT exRun exNm).2 = false ∧
    ((flattenTList [] (staticProgramT exRun exNm).2).map fun n => exNm n.path).Nodup ∧
    ((subROccList [] (staticProgramT exRun exNm).2).map (·.1)).Nodup ∧
    idxOkTList exRun.table exRun.nfuel exRunStore [] (staticProgramT exRun exNm).2 = true ∧
    treeOkRList [] [] (staticProgramT exRun exNm).2 = true ∧
    ctlNoSplitList (staticProgramT exRun exNm).2 = true := by decide

/-- … 1 + 3·2 + (1 + 2 + 3) + 1 instances; the nested call's outputs arrive as a ragged array of arrays;
the second nested instance of fork 2 receives element 1 of `zs` of ITS fork and the split value of the
outer call -/
example :
    (twoPhaseT exRun exNm exRunStore).2.length = 14 ∧
    (twoPhaseT exRun exNm exRunStore).1.matches
      (.obj [("ys", .arr [.atom "10", .atom "11", .atom "12"]),
             ("yss", .arr [.arr [.atom "1000"], .arr [.atom "1010", .atom "1011"],
                           .arr [.atom "1020", .atom "1021", .atom "1022"]]),
             ("r", .atom "99")]) = true ∧
    ((twoPhaseT exRun exNm exRunStore).2.find? fun i =>
        i.key == ⟨["TOP", "INNER", "W2"], [("INNER", .i 2), ("W2", .i 1)]⟩).map
      (fun i => i.args.matches (.obj [("x", .atom "201"), ("k", .atom "7")])) = some true := by decide

/-- non-vacuity: a map call of a stage over two array literals of length 3 (constants, a pipeline
input, upstream outputs, a struct literal next to references that are narrowed WIDE → PAIR),
consumed whole, projected and narrowed, passes the checks; the node names are distinct -/
example : wellTypedMB exMap = true ∧ acyclicB exMap.table = true ∧
    ((staticProgram exMap exNm).2.map fun n => exNm n.path).Nodup := by decide

/-- … there are 1 + 3 + 1 stage instances, and fork 1 of `W` receives `x = 5` (the pipeline
input) and the struct literal narrowed to PAIR -/
example :
    (twoPhaseM exMap exNm exMapStore).2.length = 5 ∧
    ((twoPhaseM exMap exNm exMapStore).2.find? fun i => i.key == ⟨["TOP", "W"], [("W", .i 1)]⟩).map
      (fun i => i.args.matches (.obj [("x", .atom "5"), ("p", .obj [("a", .atom "1"), ("b", .atom "\"s\"")]),
        ("k", .atom "3")])) = some true := by decide

/-- FULL non-vacuity of `resolver_refines_den_plain_checked_partial`: all three hypotheses at once, for the
"."-join naming and the oracle given by node name -/
example : wellTypedB exPlain = true ∧ acyclicB exPlain.table = true ∧
    StoreOf exNm exPlainOracleN exPlainStoreN :=
  ⟨by decide, by decide, fun _ _ => rfl⟩

/-- … hence (by the theorem, no evaluation) den = the two phases on that oracle -/
example : den exPlain exPlainOracleN = twoPhase exPlain exNm exPlainStoreN :=
  resolver_refines_den_plain_checked_partial exPlain exNm exPlainOracleN exPlainStoreN (by decide) (by decide)
    (fun _ _ => rfl)

/-- non-vacuity: a nested, aliased program with struct narrowing WIDE → PAIR across the
pipeline boundary, projections through the boundary, struct / array literals mixing
references and constants passes both checks -/
example : wellTypedB exPlain = true ∧ acyclicB exPlain.table = true := by decide

/-- … its store holds the oracle's outs under the nodes' fully qualified ids … -/
example : ∀ f, exPlainStore.outs (exNm ["TOP", "GEN"]) f = (exPlainOracle ⟨["TOP", "GEN"], f⟩).getD .null :=
  fun _ => rfl

/-- … and the narrowing is real: GEN's recorded `w` has three members and an undeclared
output, the instance `TOP.INNER.USE` receives the two members of PAIR -/
example :
    ((twoPhase exPlain exNm exPlainStore).2.find? fun i => i.key == ⟨["TOP", "INNER", "USE"], []⟩).map
      (fun i => (i.args.field "p").matches (.obj [("a", .atom "1"), ("b", .atom "\"x\"")])) = some true := by
  decide

/-- hypotheses of `narrow_compose` / `runtime_narrow_assignable`: WIDE is assignable to PAIR -/
example : Sub exPlain.table ⟨"WIDE", 0, 1⟩ ⟨"PAIR", 0, 1⟩ := subB_sound _ 3 _ _ (by decide)

example : HasTyR exPlain.table ⟨"PAIR", 0, 0⟩ (.ref "TOP.GEN" ⟨"GEN", 0, 0⟩ ["w"]) := by
  simp only [HasTyR]
  exact subB_sound _ 3 _ _ (by decide)

example : PathOk exPlain.table ⟨"GEN", 0, 0⟩ ["ws", "b"] := pathOkB_sound _ _ _ (by decide)

/-- `doJoin`, with the READ of every chunk's `_outs` modelled (`none` = unreadable): the join is
launched only if every read succeeded, and then `_chunk_outs` holds exactly the chunks' outs,
complete and in chunk order; if some read fails the join is not launched (the fork fails) — the
readable outs that `doJoin` still writes are never delivered to a join.  (The per-run tie is the
fault stream of harness/c01.go: one chunk writes unreadable `_outs`; the driver's prediction
`C01.joinread` must agree with what happened.) -/
theorem join_complete_or_failed (reads : List (Option J)) :
    ((doJoinRead reads).2 = true →
      ∃ outs, reads = outs.map some ∧ (doJoinRead reads).1 = joinChunkOuts outs ∧
        ∀ i (h : i < outs.length), elemAt (doJoinRead reads).1 (.i i) = outs[i]) ∧
    ((∃ r ∈ reads, r = none) → (doJoinRead reads).2 = false) := by
  constructor
  · intro h
    simp only [doJoinRead, List.all_eq_true] at h
    refine ⟨reads.filterMap id, ?_, rfl, ?_⟩
    · induction reads with
      | nil => rfl
      | cons r rs ih =>
        have hr := h r (by simp)
        cases r with
        | none => simp at hr
        | some v =>
          simp only [List.filterMap_cons, id, List.map_cons, List.cons.injEq, true_and]
          exact ih fun x hx => h x (by simp [hx])
    · intro i hi
      simp [doJoinRead, elemAt, List.getD_eq_getElem?_getD, hi]
  · rintro ⟨r, hr, rfl⟩
    simp only [doJoinRead]
    cases hall : reads.all Option.isSome with
    | false => rfl
    | true =>
      simp only [List.all_eq_true] at hall
      have := hall none hr
      simp at this

/-- non-vacuity: three chunks, the middle one unreadable: not launched; all readable: the list -/
example : (doJoinRead [some (.atom "1"), none, some (.atom "3")]).2 = false ∧
    doJoinRead [some (.atom "1"), some (.atom "2")] = (.arr [.atom "1", .atom "2"], true) := ⟨rfl, rfl⟩

/-- The TYPED run-time evaluation (`evalRT`: what the refinement theorems and the driver use) is the
UNTYPED evaluation (`evalR`: what the split / merge / projection kernel laws are stated in)
followed by narrowing to the type — on every well-typed resolved expression (`HasTyR`: see
`static_filter_invisible`; split / merge in both modes and `DisabledExp` included).  (audit M-5) -/
theorem runtime_typed_is_narrowed_untyped (st : StructTable) (hst : StructsOk st) (F : Nat)
    (hF : NarrowFix st F) (ρ : Store) (r : RExp) (t : Ty) (f : ForkAssign) (h : HasTyR st t r) :
    evalRT st F ρ f t r = narrow st F t (evalR st ρ f r) :=
  evalRT_eq_narrow_evalR st hst F hF ρ r t f h

/-- non-vacuity of `split_merge_cancel` / `_keys`: a hand-made store whose merge index sets are
what the hypotheses ask for (audit M-5: the stores of the driver have none) -/
example : ∃ ρ : Store, ∀ f, ρ.idx "C" (fset f "C" (.i 1)) = (List.range 3).map .i :=
  ⟨⟨fun _ _ => .null, fun _ _ => (List.range 3).map .i⟩, fun _ => rfl⟩

example : ∃ ρ : Store, ∀ f, ρ.idx "C" (fset f "C" (.k "b")) = ["a", "b"].map .k ∧ ["a", "b"].Nodup :=
  ⟨⟨fun _ _ => .null, fun _ _ => ["a", "b"].map .k⟩, fun _ => ⟨rfl, by decide⟩⟩

/-- den does not depend on the call-depth fuel for programs whose call graph is acyclic
(`callGraphAcyclicB`: decidable, evaluated by the driver): more fuel than `Program.fuel` changes
nothing, so `den` is a specification and not an artefact of the cut-off.  (audit M-6; recursive
programs — rejected by the compiler — pass `wellTypedB` and are excluded by this check.) -/
theorem den_fuel_independent_checked (P : Program) (O : Oracle) (h : callGraphAcyclicB P = true) (k : Nat) :
    runCallable P O P.nfuel (P.fuel + k) P.top.callee [P.top.id] [] P.topArgs = den P O :=
  den_fuel_independent P O _ (callRankOk_of_B P h).1 (callRankOk_of_B P h).2 k

example : callGraphAcyclicB exPlain = true ∧ callGraphAcyclicB exPipe = true := by decide

/-! ### towards the refinement modulo `≈` (empty / null run-time sources) -/

/--
PARTIAL (bonus round): THE EXPRESSION STEP OF THE REFINEMENT MODULO `≈`.  If den's environment `env`
is `≈` an environment `env'` of the same types (`EnvApprox`: `env'` renders every `dnull` of `env`)
which the static environment refines EXACTLY (`EnvRel`), then for every well-typed binding
expression den's value, narrowed to the expected type, is `≈` the run-time evaluation of the
statically resolved expression — and so is the whole argument record of a call
(`args_approx_partial`).  This is the step the empty / null run-time source shape needs (den:
`dnull` and optional instances; code and model: the empty collection of the call's mode,
`merge_empty_renders_dnull`; the model lists the instances below such a call once, at "no element",
marked optional: `instsT_subR_empty`).

GAP to a refinement theorem for that shape: the induction of `refine_callsR` with `EnvRel` replaced
by "`EnvApprox env env'` for some `env'` with `EnvRel env'`" (after an empty map call the witness is
den's environment with that call's `dnull` replaced by the model's empty collection); agreement of
`indicesOf` / `isTrue` on `≈` values of the shapes that occur (`dnull` against the EMPTY collection
or null — for arbitrary null-like renderings the index sets differ); the arguments of the optional
instances (the model's `split` at "no element" is `dnull`, not null).
-/
theorem resolveExp_refines_eval_approx_partial (st : StructTable) (hst : StructsOk st) (F : Nat)
    (hF : NarrowFix st F) (ρ : Store) (Fs : ForkAssign → Prop) (env env' : Env) (self sib : RBMap)
    (hA : Proofs.Approx.EnvApprox env env') (hrel : EnvRel st F ρ Fs env' self sib) (f : ForkAssign)
    (hf : Fs f) (e : Exp) (t : Ty) (hty : HasTy st env.selfTy env.callTy t e) :
    J.approx (narrow st F t (eval st env e)) (evalRT st F ρ f t (resolveRefs self sib e)) = true :=
  (eval_resolveRefs_approx st hst F hF ρ Fs env env' self sib hA hrel f hf e t hty).1

/-- … the argument record of a call (plain, or fork `ix` of a map call) respects `≈` of the
environments: element selection (`elemAt`) is a congruence too. -/
theorem args_approx_partial (st : StructTable) (F : Nat) (env env' : Env)
    (h : Proofs.Approx.EnvApprox env env') (ins : List Param) (c : Call) (ix : Option Idx) :
    J.approx (mkArgs st F (argVals st env ins c) ix) (mkArgs st F (argVals st env' ins c) ix) = true :=
  approx_mkArgs st F env env' h ins c ix

/-- the model's value of a `merge` over an EMPTY recorded index set is the empty collection of its
mode — a rendering of den's `dnull` -/
theorem merge_empty_renders_dnull_partial (st : StructTable) (F : Nat) (ρ : Store) (f : ForkAssign) (t : Ty)
    (c : String) (m : Bool) (e : RExp) (h : ρ.idx c f = []) :
    evalRT st F ρ f t (.merge c m e) = (if m then .obj [] else .arr []) ∧
    J.approx .dnull (evalRT st F ρ f t (.merge c m e)) = true :=
  merge_empty_renders_dnull st F ρ f t c m e h

/-- non-vacuity: an environment whose call value is `dnull` against one that holds the empty array -/
example : Proofs.Approx.EnvApprox ⟨[], .null, [("C", ⟨"S", 0, 1⟩, .dnull)]⟩ ⟨[], .null, [("C", ⟨"S", 0, 1⟩, .arr [])]⟩ := by
  refine ⟨rfl, by decide, fun c => ?_, fun c => ?_⟩
  · simp only [Env.callTy, List.lookup_cons, List.lookup_nil]
    cases (c == "C") <;> rfl
  · simp only [Env.callVal, List.lookup_cons, List.lookup_nil]
    cases (c == "C") <;> decide

/-! ### the order of the stage instances below nested map calls -/

/-- The model enumerates the instances of a stage node below nested statically sized map calls
(`dims`: the calls with their index sets, outermost first) in den's order: for each index of the
outer call, everything below it (`denForks`: outermost call slowest). -/
theorem instances_in_den_order (st : StructTable) (F : Nat) (ρ : Store) (n : SNode)
    (dims : List (String × List Idx)) (forks : List (String × Idx)) (f : ForkAssign) :
    (instsT st F ρ forks f (chainT dims n)).map (·.key) =
      (denForks dims).map fun fk => ⟨n.path, forks ++ fk⟩ :=
  instsT_chain_keys st F ρ n dims forks f

/-- den's order against `ForkIdSet.MakeForkIds` (the cartesian product with the FIRST fork root
fastest: `prodFF`, which is C11's model `Martian.ForkName.makeForkIds` — `makeForkIds_is_prodFF`;
the tie of that model to the real `MakeForkIds` is C11's, on compiled nests): the
fork roots of a node are listed outermost first, so `MakeForkIds` varies the OUTERMOST call fastest
while den varies it slowest.  The two enumerations are the same list up to reversing the root list
and every fork id; "instances in den's order" is therefore NOT the order of the node's fork list
(nothing in the property depends on it: instances are compared by key). -/
theorem den_order_vs_makeForkIds (dims : List (String × List Idx)) :
    denForks dims
      = (prodFF ((dims.map fun d => d.2.map fun ix => (d.1, ix)).reverse)).map List.reverse := by
  rw [denForks_eq_prodFS, prodFS_eq_prodFF_reverse]

theorem makeForkIds_is_prodFF (srcs : List Martian.ForkName.Src) :
    Martian.ForkName.makeForkIds srcs = prodFF (srcs.map Martian.ForkName.srcParts) :=
  makeForkIds_eq_prodFF srcs

/-- two nested calls of sizes 2 and 3: den lists (0,0) (0,1) (0,2) (1,0) …, `MakeForkIds` for the
roots [INNER, W2] lists (0,0) (1,0) (0,1) (1,1) … -/
example :
    denForks [("INNER", [.i 0, .i 1]), ("W2", [.i 0, .i 1, .i 2])]
      = [[("INNER", .i 0), ("W2", .i 0)], [("INNER", .i 0), ("W2", .i 1)], [("INNER", .i 0), ("W2", .i 2)],
         [("INNER", .i 1), ("W2", .i 0)], [("INNER", .i 1), ("W2", .i 1)], [("INNER", .i 1), ("W2", .i 2)]] ∧
    prodFF [["I0", "I1"], ["W0", "W1", "W2"]]
      = [["I0", "W0"], ["I1", "W0"], ["I0", "W1"], ["I1", "W1"], ["I0", "W2"], ["I1", "W2"]] := by decide

/-! ### definitional unfoldings (documentation of the model, not guarantees) -/

/-
The theorems of this section restate one branch of a definition of the model (`evalCall`,
`runCallable`, `joinChunkOuts`, `resolvePath`) or hold by construction (`den` takes no schedule).
They document how the specification reads; the manifest does not cite them as guarantees about
the code (audit C01 M-3 / M-4).
-/

/-- `dnull ≈ o` iff `o` is null, or a collection of such values (in particular an empty one): the
first clause of the definition of `J.approx`. -/
theorem approx_dnull_iff (o : J) : J.approx .dnull o = o.nullish := Proofs.Approx.approx_dnull o

/-- The run-time formulation of projection (`LazyArgumentMap.Path` / `resolvePath`:
descend the value element by element) computes the specification's projection. -/
theorem resolver_path_refines (st : StructTable) (t : Ty) (path : List String) (v : J) :
    resolvePath st t path v = projPath st t path v :=
  resolvePath_eq st path t v

/-- `doJoin`: `_chunk_outs` holds every chunk's outs, complete and in chunk order. -/
theorem chunk_outs_in_order (outs : List J) (i : Nat) (h : i < outs.length) :
    elemAt (joinChunkOuts outs) (.i i) = outs[i] ∧
    indicesOf (joinChunkOuts outs) = (List.range outs.length).map .i := by
  simp [joinChunkOuts, elemAt, indicesOf, List.getD_eq_getElem?_getD, h]

/-- `den` does not depend on the order in which jobs finish: two histories that
record the same stage outputs in different completion orders give the same
arguments for every stage instance and the same pipeline outputs. -/
theorem den_schedule_free (P : Program) (h1 h2 : List (InstKey × J)) (hp : h1.Perm h2)
    (hn : (h1.map (·.1)).Nodup) :
    den P (oracleOfHistory h1) = den P (oracleOfHistory h2) := by
  have : oracleOfHistory h1 = oracleOfHistory h2 := by
    funext k
    simp only [oracleOfHistory]
    rw [find_perm h1 h2 hp hn k]
  rw [this]

/-- A disabled call runs nothing and every output of it is `dnull`. -/
theorem den_disabled_null (st : StructTable) (nf : Nat) (insOf : String → List Param) (run : Runner)
    (path : List String) (forks : List (String × Idx)) (env : Env) (c : Call) (e : Exp)
    (hd : c.disabled = some (false, e)) (ht : Martian.Dataflow.isTrue (eval st env e) = true) :
    evalCall st nf insOf run path forks env c = (liftTy c.callee (callMode st env c), .dnull, []) := by
  simp [evalCall, hd, ht]

/-- The mapped call as a whole: one run of the callee per index, outputs collected
in index order, instances concatenated in index order. -/
theorem den_map_collects (st : StructTable) (nf : Nat) (insOf : String → List Param) (run : Runner)
    (path : List String) (forks : List (String × Idx)) (env : Env) (c : Call)
    (hm : c.mapped = true) (hd : c.disabled = none) (hs : splitsAgree st env c = true)
    (hne : (callIndices st env c).isEmpty = false) :
    evalCall st nf insOf run path forks env c =
      (liftTy c.callee (callMode st env c),
       collect (callMode st env c) (callIndices st env c)
         ((callIndices st env c).map fun ix =>
           (run c.callee (path ++ [c.id]) (forks ++ [(c.id, ix)])
             (mkArgs st nf (argVals st env (insOf c.callee) (atIndex st env c ix)) none)).1),
       (callIndices st env c).flatMap fun ix =>
           (run c.callee (path ++ [c.id]) (forks ++ [(c.id, ix)])
             (mkArgs st nf (argVals st env (insOf c.callee) (atIndex st env c ix)) none)).2) := by
  have hnull : ∀ ix, Martian.Dataflow.isTrue (elemAt .null ix) = false := by
    intro ix; cases ix <;> rfl
  simp only [evalCall, hd, hm, hne, hs, Bool.not_true, Bool.false_eq_true, if_false, hnull,
    List.map_map, Function.comp_def, ← den_map_pointwise, List.flatMap_map]

/-- A mapped call over an empty (or null) collection: every output is `dnull`
and no instance below it is required to run. -/
theorem den_empty_map_null (st : StructTable) (nf : Nat) (insOf : String → List Param) (run : Runner)
    (path : List String) (forks : List (String × Idx)) (env : Env) (c : Call)
    (hm : c.mapped = true) (hd : c.disabled = none) (he : (callIndices st env c).isEmpty = true) :
    (evalCall st nf insOf run path forks env c).2.1 = .dnull ∧
    ∀ i ∈ (evalCall st nf insOf run path forks env c).2.2, i.optional = true := by
  simp only [evalCall, hd, hm, he, Bool.not_true, Bool.false_eq_true, if_false, if_true]
  split
  · refine ⟨rfl, ?_⟩
    intro i hi
    simp only [List.mem_singleton] at hi
    subst hi
    rfl
  · constructor
    · trivial
    · intro i hi
      simp only [List.mem_map] at hi
      obtain ⟨j, _, rfl⟩ := hi
      rfl

/--
PARTIAL (the compositional half of `den_inline`).  A call of a sub-pipeline
denotes its body: the value of the (enabled, unmapped) call is the return
struct of the body evaluated under the call's argument record, and the stage
instances below it are exactly the body's instances, with the call id appended
to the path.  Hence nothing in `den` can observe whether a group of calls is
written inline or wrapped in a sub-pipeline other than through this equation.

Full statement NOT proved here: for the syntactic transformation `inline P c`
(replace call `c` of sub-pipeline `Q` by `Q`'s calls with identifiers renamed
apart, `self.x` replaced by `c`'s binding expressions and `c.out` by `Q`'s
return expressions), `den (inline P c) O' = den P O` up to the renaming of
instance paths.  Missing: the substitution lemma for expressions and the
fuel/narrowing composition lemmas (narrow at the boundary followed by narrow at
the stage parameter = narrow at the stage parameter).  The check exercises it
instead: generated programs nest the same stages at different depths.
-/
theorem den_inline_partial (P : Program) (O : Oracle) (nf fuel : Nat) (env : Env)
    (path : List String) (forks : List (String × Idx)) (c : Call)
    (ins outs : List Param) (calls : List Call) (ret : List (String × Exp))
    (hq : P.callables.lookup c.callee = some (.pipeline ins outs calls ret))
    (hm : c.mapped = false) (hd : c.disabled = none) :
    let args := mkArgs P.table nf (argVals P.table env (P.insOf c.callee) c) none
    let body := evalCalls P.table nf P.insOf (runCallable P O nf fuel) (path ++ [c.id]) forks calls
        ⟨ins, args, []⟩ []
    evalCall P.table nf P.insOf (runCallable P O nf (fuel+1)) path forks env c =
      (⟨c.callee, 0, 0⟩,
       .obj (outs.map fun p =>
          (p.name, narrow P.table nf p.ty
            (match ret.lookup p.name with
             | some e => eval P.table body.1 e
             | none => .null))),
       body.2) := by
  simp [evalCall, hd, hm, runCallable, hq, callMode, liftTy]
  intro a _
  rfl

/-- den on a map call of a stage over array literals of length `n`: one run of the callee per
index, in index order (the den-side half of the refinement; cf. `den_map_collects`) -/
theorem den_map_literal (st : StructTable) (F : Nat) (insOf : String → List Param) (run : Runner)
    (path : List String) (env : Env) (c : Call) (n : Nat) (hn : 0 < n)
    (hm : c.mapped = true) (hd : c.disabled = none) (hex : ∃ b ∈ c.binds, b.split = true)
    (h : ∀ b ∈ c.binds, b.split = true → ∃ es, b.exp = .arr es ∧ es.length = n) :
    evalCall st F insOf run path [] env c =
      (⟨c.callee, 0, 1⟩,
       .arr ((List.range n).map fun k =>
          (run c.callee (path ++ [c.id]) [(c.id, .i k)]
            (mkArgs st F (argVals st env (insOf c.callee) c) (some (.i k)))).1),
       (List.range n).flatMap fun k =>
          (run c.callee (path ++ [c.id]) [(c.id, .i k)]
            (mkArgs st F (argVals st env (insOf c.callee) c) (some (.i k)))).2) :=
  evalCall_mapped st F insOf run path env c n hn hm hd hex h

end Props.C01
