/-
C08 — the parser/compiler is total: the lexer → converter contract.
PROPERTY THEOREMS ONLY (lemmas: Proofs/Lexer*.lean, Proofs/Regex*.lean, Proofs/Tokenizer*.lean;
models: Martian/Lexer*.lean, Martian/Regex.lean, Martian/Tokenizer.lean).

What is proved for ALL byte strings: every token the lexer hands to a
converter (`parseInt`, `parseFloat`, `unquoteBytes`) is converted without a
panic, the `src_stm` grammar action never indexes an empty slice, and the
`Lex` loop always makes progress.  "Never crashes / hangs" for the whole
goyacc-generated parser and the compiler is NOT a theorem (a Lean model of that
Go code is out of reach); it is covered by the search in harness/c08.go.
-/
import Martian.Lexer
import Martian.Regex
import Proofs.Lexer
import Proofs.Regex
import Proofs.LexerRegex
import Proofs.LexerRegexString
import Proofs.RegexOrder
import Martian.LexerId
import Proofs.LexerRegexId
import Proofs.TokenizerSpace
import Martian.LexerActions
import Proofs.LexerActions
import Martian.LexerLR
import Martian.LexerLRCheck
import Martian.LexerLRGen
import Proofs.LexerLR
import Martian.LexerLRSem
import Martian.Tokenizer
import Proofs.Tokenizer
import Gen.Facts

namespace Props.C08
open Martian.Lexer

/-! Regenerated obligations: the regex strings found in tokenizer.go now are
the ones the recognisers were written for (the float rule without the `(:?`
typo — on the unrepaired tree this is the obligation that breaks, F3). -/
theorem int_rule_src : Gen.tokIntRegex = intRuleSrc := by decide
theorem float_rule_src : Gen.tokFloatRegex = floatRuleSrc := by decide
theorem string_rule_src : Gen.tokStringRegex = stringRuleSrc := by decide

/-- On every token the integer rule admits (any number of leading zeros, then
at most 19 digits) `parseInt` computes the exact value when it fits in an
int64 and refuses otherwise: within the rule's bound the `uint64` accumulator
cannot wrap silently. -/
theorem int_tok_exact (b t : Bytes) (h : matchInt b = some t) :
    parseInt t = if inInt64 (intTokVal t) then some (intTokVal t) else none :=
  parseInt_exact h

example : matchInt [0x30, 0x30, 0x37, 0x29] = some [0x30, 0x30, 0x37] := by decide

/-- Negative witness F1: the rule admits 9223372036854775808 (2^63), on which
`parseInt` panics — the unchecked numeric branch (the tree before the repair)
hands it over. -/
theorem int_tok_total_unchecked_false :
    let s : Bytes := [0x39,0x32,0x32,0x33,0x33,0x37,0x32,0x30,0x33,0x36,0x38,0x35,0x34,0x37,0x37,0x35,0x38,0x30,0x38]
    numTokUnchecked false s = .int s ∧ parseInt s = none := by decide

/-- `parseInt` alone is NOT exact beyond the rule: for the 20-digit string
23058430092136939520 (= 10·2^61) the `uint64` product wraps and the overflow
test passes, returning 2^62. -/
theorem parseInt_wraps_beyond_rule :
    parseInt [0x32,0x33,0x30,0x35,0x38,0x34,0x33,0x30,0x30,0x39,0x32,0x31,0x33,0x36,0x39,0x33,0x39,0x35,0x32,0x30]
      = some 4611686018427387904 := by decide

/-- Negative witness F2: `1e999` is admitted by the float rule and rejected by
`parseFloat` (out of range). -/
theorem float_tok_total_unchecked_false :
    numTokUnchecked false [0x31, 0x65, 0x39, 0x39, 0x39] = .float [0x31, 0x65, 0x39, 0x39, 0x39] ∧
    parseFloat false [0x31, 0x65, 0x39, 0x39, 0x39] = none := by decide

/-- Negative witness F3: with the regex as shipped (`(:?`), `1:e5` is a float
token that is not even float syntax. -/
theorem float_rule_colon_typo :
    matchFloat true [0x31, 0x3A, 0x65, 0x35] = some [0x31, 0x3A, 0x65, 0x35] ∧
    goFloatSyntax [0x31, 0x3A, 0x65, 0x35] = none ∧
    matchFloat false [0x31, 0x3A, 0x65, 0x35] = none := by decide

/-- Every token the string rule admits is unquoted without a panic (every
escape form, any bytes between them). -/
theorem string_tok_unquote_total (b t : Bytes) (h : matchString b = some t) :
    ∃ out, unquoteBytes t = some out :=
  matchString_unquote h

/-- non-vacuity: `"a\x41\101é\U0001F600\"\n"` followed by other text -/
example : (matchString [0x22, 0x61, 0x5C, 0x78, 0x34, 0x31, 0x5C, 0x31, 0x30, 0x31, 0x5C, 0x75, 0x30, 0x30,
    0x65, 0x39, 0x5C, 0x55, 0x30, 0x30, 0x30, 0x31, 0x46, 0x36, 0x30, 0x30, 0x5C, 0x22, 0x5C, 0x6E, 0x22, 0x2C]).isSome = true := by
  decide

/-- Instances of the escape forms added for JSON compatibility: `"\/"` is `/`;
a high+low surrogate pair of `\u` escapes is one code point (U+1F600); a lone
or reversed surrogate is U+FFFD and the escape after it is still decoded. -/
theorem json_escape_samples :
    unquoteBytes [0x22, 0x5C, 0x2F, 0x22] = some [0x2F] ∧
    unquoteBytes [0x22, 0x5C,0x75,0x64,0x38,0x33,0x64, 0x5C,0x75,0x64,0x65,0x30,0x30, 0x22] = some [0xF0, 0x9F, 0x98, 0x80] ∧
    unquoteBytes [0x22, 0x5C,0x75,0x64,0x38,0x33,0x64, 0x61, 0x22] = some [0xEF, 0xBF, 0xBD, 0x61] ∧
    unquoteBytes [0x22, 0x5C,0x75,0x64,0x65,0x30,0x30, 0x5C,0x75,0x30,0x30,0x34,0x31, 0x22] = some [0xEF, 0xBF, 0xBD, 0x41] ∧
    (matchString [0x22, 0x5C, 0x2F, 0x22]).isSome = true := by decide

/-- `unquoteBytes` does panic outside the rule (`"\x1"`): the rule is what
protects it. -/
theorem unquote_panics_outside_rule : unquoteBytes [0x22, 0x5C, 0x78, 0x31, 0x22] = none ∧
    matchString [0x22, 0x5C, 0x78, 0x31, 0x22] = none := by decide

/-- The repaired `src_stm` action never panics, and reports an error exactly
when the unquoted command has no fields. -/
theorem src_action_total (cmd : Bytes) :
    srcAction cmd ≠ .panic ∧ (srcAction cmd = .error ↔ fields cmd = []) :=
  ⟨srcAction_no_panic cmd, srcAction_error_iff cmd⟩

example : srcAction [0x20, 0x61, 0x20, 0x62] = .ok ([0x61], [[0x62]]) ∧ srcAction [0x20, 0x09] = .error := by decide

/-- Negative witness F4: the action as shipped panics on a blank command. -/
theorem src_action_unchecked_panics : srcActionUnchecked [] = .panic ∧ srcActionUnchecked [0x20] = .panic := by
  decide

/-! ## The rules as REGULAR EXPRESSIONS: regex semantics, matcher, and the tie
of the hand-written recognisers to the regex text found in tokenizer.go -/

section regex
open Martian.Regex hiding Bytes isWord
open Martian.LexerRegex

/-- The leftmost-first matcher is sound for every regex of the AST and every
input: what it returns is a prefix of the input which the regex matches (in
the denotational semantics `Matches`, anchors evaluated in context). -/
theorem regex_matcher_sound (r : Re) (s w : Bytes) (h : pmatch r s = some w) :
    ∃ post, s = w ++ post ∧ Matches r [] w post :=
  pmatch_sound h

/-- … and complete: it reports "no match" only when no prefix of the input
matches (backtracking is exhaustive; the fuel of the star loop suffices;
skipping empty iterations loses nothing). -/
theorem regex_matcher_complete (r : Re) (s : Bytes) :
    pmatch r s = none ↔ ¬ ∃ w post, s = w ++ post ∧ Matches r [] w post :=
  pmatch_none_iff r s

-- non-vacuity, and the leftmost-FIRST (not leftmost-longest) preference: `^(?:a|ab)` on "ab" is "a"
example : (parse "^(?:a|ab)").map (fun r => pmatch r [0x61, 0x62]) = some (some [0x61]) ∧
    (parse "^(?:ab|a)").map (fun r => pmatch r [0x61, 0x62]) = some (some [0x61, 0x62]) ∧
    (parse "^a{2,3}\\b").map (fun r => pmatch r [0x61, 0x61, 0x61, 0x61]) = some none := by decide

/-- Regenerated obligation: the regex SYNTAX parser, run on the integer rule's
regex text as found in tokenizer.go now, yields the AST the proofs are about. -/
theorem int_rule_parses : parse Gen.tokIntRegex = some intRe := by decide

theorem float_rule_parses : parse Gen.tokFloatRegex = some floatRe := by decide

/-- For EVERY input the hand-written integer recogniser returns exactly the
prefix that the leftmost-first semantics of the parsed, regenerated regex of
`tokIntRule` selects (`none` = no match).  A change of the regex in the Go
source either changes `parse Gen.tokIntRegex` (this theorem breaks at
`int_rule_parses`) or leaves the AST, hence the matched language, unchanged. -/
theorem int_rule_is_regex (s : Bytes) :
    (parse Gen.tokIntRegex).map (fun r => pmatch r s) = some (matchInt s) := by
  rw [int_rule_parses]; exact congrArg some (pmatch_intRe s)

/-- The same for the float rule (the repaired regex, `(?:` instead of `(:?`). -/
theorem float_rule_is_regex (s : Bytes) :
    (parse Gen.tokFloatRegex).map (fun r => pmatch r s) = some (matchFloat false s) := by
  rw [float_rule_parses]; exact congrArg some (pmatch_floatRe s)

example : (parse Gen.tokIntRegex).map (fun r => pmatch r [0x2D, 0x30, 0x37, 0x2C]) = some (some [0x2D, 0x30, 0x37]) ∧
    (parse Gen.tokFloatRegex).map (fun r => pmatch r [0x31, 0x2E, 0x35, 0x65, 0x2D, 0x33, 0x5D])
      = some (some [0x31, 0x2E, 0x35, 0x65, 0x2D, 0x33]) := by decide

/-- Every text the float rule's regex admits is accepted by the syntax of
`strconv.ParseFloat` (decimal literal: digits, optional fraction, optional
exponent): the converter can refuse a NUM_FLOAT candidate only for being out
of range — which `keywordToken` tests before it emits the token. -/
theorem float_rule_admits_only_go_syntax (s t : Bytes)
    (h : (parse Gen.tokFloatRegex).map (fun r => pmatch r s) = some (some t)) :
    (goFloatSyntax t).isSome = true := by
  rw [float_rule_is_regex] at h
  injection h with h
  exact matchFloat_goSyntax s t h

/-- … and every text the integer rule's regex admits has the syntax of
`strconv.ParseInt(…, 10, 64)` (optional sign, digits). -/
theorem int_rule_admits_only_go_syntax (s t : Bytes)
    (h : (parse Gen.tokIntRegex).map (fun r => pmatch r s) = some (some t)) :
    goIntSyntax t = true := by
  rw [int_rule_is_regex] at h
  injection h with h
  exact matchInt_goSyntax s t h

example : goIntSyntax [0x2D, 0x30, 0x37] = true ∧ goIntSyntax [0x2D] = false ∧ goIntSyntax [0x31, 0x5F, 0x30] = false := by
  decide

theorem string_rule_parses : parse Gen.tokStringRegex = some stringRe := by decide

/-- For EVERY input (invalid UTF-8 included: a negated class consumes one rune
as `utf8.DecodeRune` delimits it) the hand-written string recogniser returns
exactly the prefix that the leftmost-first semantics of the parsed, regenerated
regex of `tokStringRule` selects. -/
theorem string_rule_is_regex (s : Bytes) :
    (parse Gen.tokStringRegex).map (fun r => pmatch r s) = some (matchString s) := by
  rw [string_rule_parses]; exact congrArg some (pmatch_stringRe s)

/-- (kept from the previous round; now a corollary of `string_rule_is_regex`) -/
theorem string_rule_regex_sound_partial (s t : Bytes)
    (h : (parse Gen.tokStringRegex).map (fun r => pmatch r s) = some (some t)) :
    matchString s = some t := by
  rw [string_rule_is_regex] at h
  exact (Option.some.inj h)

/-- Hence every LITSTRING token that Go's regexp can return for the rule's
regex is unquoted without a panic (all escape forms, any bytes). -/
theorem string_regex_tok_unquote_total (s t : Bytes)
    (h : (parse Gen.tokStringRegex).map (fun r => pmatch r s) = some (some t)) :
    ∃ out, unquoteBytes t = some out :=
  matchString_unquote (string_rule_regex_sound_partial s t h)

example : (parse Gen.tokStringRegex).map (fun r => pmatch r [0x22, 0x61, 0x5C, 0x6E, 0xC3, 0xA9, 0x22, 0x20])
    = some (some [0x22, 0x61, 0x5C, 0x6E, 0xC3, 0xA9, 0x22]) := by decide

theorem id_rule_parses : parse Gen.tokIdRegex = some idRe := by decide

/-- The identifier rule: for every input the hand-written recogniser `matchId`
(optional `_`, a letter, the maximal run of word characters) returns exactly
the leftmost-first match of the parsed, regenerated regex of `tokIdRule`. -/
theorem id_rule_is_regex (s : Bytes) :
    (parse Gen.tokIdRegex).map (fun r => pmatch r s) = some (matchId s) := by
  rw [id_rule_parses]; exact congrArg some (pmatch_idRe s)

example : matchId [0x5F, 0x61, 0x31, 0x5F, 0x2E] = some [0x5F, 0x61, 0x31, 0x5F] ∧ matchId [0x5F, 0x31] = none ∧
    matchId [0x61, 0xC3, 0xA9] = some [0x61] := by decide

/-! ### leftmost-FIRST: the priority order of matches -/

/-- `ends r [] s` enumerates the matches of prefixes of `s` best-first (first
alternative before the second, more iterations of a greedy repetition before
fewer — Go's leftmost-first / Perl order).  It contains exactly the matches of
the denotational semantics … -/
theorem regex_enumeration_exact (r : Re) (s p rest : Bytes) :
    (p, rest) ∈ ends r [] s ↔ ∃ w, s = w ++ rest ∧ p = w.reverse ++ [] ∧ Matches r [] w rest :=
  mem_ends_iff r [] s p rest

/-- … and `pmatch` returns the FIRST of them, for every regex and input (and
with any continuation the matcher returns the first element the continuation
accepts: `Martian.Regex.m_eq_firstSome`). -/
theorem regex_matcher_first (r : Re) (s : Bytes) :
    pmatch r s = (ends r [] s).head?.map fun x => x.1.reverse :=
  pmatch_first r s

-- the order for `^(?:a|ab)(?:c|bcd)?` on "abcd": abcd, a, abc, ab (Perl order, not longest-first)
example : (parse "^(?:a|ab)(?:c|bcd)?").map (fun r => (ends r [] [0x61, 0x62, 0x63, 0x64]).map fun x => x.1.reverse) =
    some [[0x61, 0x62, 0x63, 0x64], [0x61], [0x61, 0x62, 0x63], [0x61, 0x62]] := by decide

/-- For the three literal rules the enumeration has at most one element: the
rule theorems above hold whatever the preference order is. -/
theorem rule_match_unique (s : Bytes) :
    (∀ x ∈ ends intRe [] s, ∀ y ∈ ends intRe [] s, x = y) ∧
    (∀ x ∈ ends floatRe [] s, ∀ y ∈ ends floatRe [] s, x = y) ∧
    (∀ x ∈ ends stringRe [] s, ∀ y ∈ ends stringRe [] s, x = y) :=
  ⟨ends_unique intRe matchInt int_matches_iff s, ends_unique floatRe (matchFloat false) float_matches_iff s,
   ends_unique stringRe matchString string_matches_iff s⟩

end regex

/-! ## The whole tokenizer: `nextToken` for all token kinds (interpreted from the
regenerated first-byte switch of `keywordToken` and the regenerated token
constants) and the `Lex` scanner loop -/

section tokenizer
open Martian.Tokenizer

/-- Progress, full rule set, for ANY switch table / token-id table (so also for
the ones found in the source now): the text `nextToken` returns is a prefix of
the head, and it is non-empty unless the token is INVALID — every iteration
of `Lex` consumes at least one byte or hands INVALID to the parser. -/
theorem lexer_progress_full (T : Tables) (head : Martian.Lexer.Bytes) :
    (nextTokenT T head).2 <+: head ∧
    ((nextTokenT T head).1 = invalidId T ∨ 0 < (nextTokenT T head).2.length) :=
  ⟨nextTokenT_prefix T head, nextTokenT_progress T head⟩

/-- Termination of the scanner loop for the regenerated tables: it stops on its
own (end of input or INVALID) within `length + 1` iterations — more fuel
changes nothing. -/
theorem lex_terminates (src : Martian.Lexer.Bytes) (f : Nat) (h : src.length + 1 ≤ f) :
    lexRawFuel genTables f src startLoc = lexAllRaw src :=
  lexAllRaw_fuel src f h

/-- The texts of all tokens (skipped white space and comments included), in
order, followed by the unconsumed rest, are the input; a rest remains only
after an INVALID token. -/
theorem lex_reconstructs (src : Martian.Lexer.Bytes) :
    ((lexAllRaw src).1.map Tok.text).flatten ++ (lexAllRaw src).2 = src ∧
    ((lexAllRaw src).2 ≠ [] → ∃ pre t, (lexAllRaw src).1 = pre ++ [t] ∧ t.id = invalidId genTables) :=
  lexAllRaw_reconstructs src

/-- What the reported line of a token is: 1 + the newlines in the white-space
tokens, comments and other tokens (string literals) before it.  (Before the repair `da46d3b` of the line
bookkeeping the newlines inside string literals were not counted: every error
after a multi-line string literal pointed at too low a line.) -/
theorem lex_line (src : Martian.Lexer.Bytes) (pre : List Tok) (t : Tok) (post : List Tok)
    (h : (lexAllRaw src).1 = pre ++ t :: post) : t.line = 1 + (pre.map (lineAdvance genTables)).sum :=
  lexAllRaw_line src pre t post h

-- non-vacuity: `in x\n#\n$` is IN, ID, then INVALID on line 3
example : (lexAll [0x69, 0x6E, 0x20, 0x78, 0x0A, 0x23, 0x0A, 0x24]).map (fun t => (t.id, t.line)) =
    [(57354, 1), (57378, 1), (57348, 3)] := by decide

/-- **The reported line is the real line**: the line of every token is 1 + the
number of newline bytes in the source before it (`lex_reconstructs`: the texts
of the tokens before it ARE the source up to it).  This holds since the two
repairs of the line bookkeeping (newlines inside string literals; a comment
advances the line by the newline it contains, not unconditionally). -/
theorem lex_real_line (src : Martian.Lexer.Bytes) (pre : List Tok) (t : Tok) (post : List Tok)
    (h : (lexAllRaw src).1 = pre ++ t :: post) : t.line = 1 + countNL (pre.map Tok.text).flatten :=
  lexAllRaw_real_line src pre t post h

/-- Witnesses of the line bookkeeping, replayed on the real scanner: in
`"a⏎b" x` the identifier is reported on line 2, column 4 (before the first
repair: line 1); in `#\xff` — a comment cut short by an invalid byte — the
INVALID token is reported on line 1, column 2 (before the second repair: line 2
of a one-line file). -/
theorem line_count_quirks :
    (lexAll [0x22, 0x61, 0x0A, 0x62, 0x22, 0x20, 0x78]).map (fun t => (t.line, t.col)) = [(1, 1), (2, 4)] ∧
    (lexAll [0x23, 0xFF]).map (fun t => (t.id, t.line, t.col)) = [(57348, 1, 2)] := by decide

/-- The identifier rule of the tokenizer model (which runs the generic matcher
on the parsed regenerated regex) is the hand-written recogniser. -/
theorem tokenizer_id_rule (b : Martian.Lexer.Bytes) :
    (idRule genTables b).1 = ((Martian.Lexer.matchId b).getD []) := by
  have h := Props.C08.id_rule_is_regex b
  simp only [idRule, genTables]
  cases hp : Martian.Regex.parse Gen.tokIdRegex with
  | none => rw [hp] at h; cases h
  | some re =>
    rw [hp] at h
    simp only [Option.map_some, Option.some.injEq] at h
    show (match Martian.Regex.pmatch re b with
      | some t => (t, lookupId Gen.tokIds "ID")
      | none => ([], lookupId Gen.tokIds "ID")).fst = _
    rw [h]
    cases Martian.Lexer.matchId b <;> rfl

/-- The white-space set of `leadingSpace` is the one of the sources: its ASCII
fast path is the case list found in tokenizer.go now, and for runes ≥ 0x80 it
is `unicode.IsSpace`, i.e. membership in the `White_Space` range table found in
the toolchain's unicode/tables.go now (lo, hi, stride). -/
theorem leading_space_set (c : UInt8) (r : Nat) (h : 0x80 ≤ r) :
    isAsciiSpace c = Gen.tokSpaceAscii.contains c.toNat ∧
    isUniSpace r = inStride Gen.unicodeWhiteSpace r :=
  ⟨asciiSpace_eq_source c, uniSpace_eq_table r h⟩

example : isUniSpace 0x2003 = true ∧ isUniSpace 0x200B = false ∧ isUniSpace 0xFEFF = false := by decide

end tokenizer

/-! ## The next layer: the grammar ACTIONS that convert token texts
(`float_32`, resource values, `val_exp`, every `unquote` site, `src`, the
`arr_list` dimension counter) as total functions on tokens -/

section actions
open Martian.LexerActions

/-- Every action site, fed with a token text that ONE `nextToken` call of the
tokenizer model can emit with the kind it needs (NUM_INT, NUM_FLOAT or
LITSTRING), yields a value or a located error — never a panic.  (Hypothesis:
one `nextToken` call on some head; `lexer_progress_full`/`lex_reconstructs`
say that the scanner loop hands the parser exactly such tokens.) -/
theorem actions_total (s : Site) (k : Kind) (head t : Martian.Lexer.Bytes) (h : emits k head t) :
    act s k t ≠ .panic :=
  Martian.LexerActions.actions_total s k head t h

/-- … and an accepted kind is refused (located error) only for a float outside
the 32-bit range at a resource/float_32 site, or at the `src` site (blank
command). -/
theorem actions_error_only (s : Site) (k : Kind) (head t : Martian.Lexer.Bytes) (h : emits k head t)
    (ha : s.accepts k = true) (he : act s k t = .error) :
    (k = .numFloat ∧ (s = .float32 ∨ s = .threads ∨ s = .memGb ∨ s = .vmemGb) ∧ parseFloat true t = none) ∨
    (s = .src ∧ k = .litString) :=
  Martian.LexerActions.actions_error_only s k head t h ha he

/-- An emitted NUM_INT in a value expression becomes exactly its value, which
fits in an int64. -/
theorem val_int_exact (head t : Martian.Lexer.Bytes) (h : emits .numInt head t) :
    valAction .numInt t = .ok (.int (intTokVal t)) ∧ inInt64 (intTokVal t) = true :=
  valAction_int_exact h

set_option exponentiation.threshold 1100 in
example : emits .numFloat [0x31, 0x65, 0x33, 0x39, 0x2C] [0x31, 0x65, 0x33, 0x39] := by unfold emits; decide

/-- The `int16` dimension counter of `arr_list` cannot wrap: k pairs of `[]`
give k (< 2^15) or a located error. -/
theorem arr_list_total (k : Nat) :
    (∃ n : Int, arrList k = .ok n ∧ 0 ≤ n ∧ n < 2 ^ 15 ∧ n = k) ∨ (arrList k = .error ∧ 32767 < k) :=
  arrList_total k

/-- Negative witnesses, replayed on the real code by the harness: without its
guard the counter wraps to −32768; `1e39` is a NUM_FLOAT on which a direct
float32 conversion would panic while the action reports an error; and the
actions do panic on texts the tokenizer does not emit. -/
theorem arr_list_unguarded_wraps : arrListUnguarded 32768 = .ok (-32768) ∧ arrStepUnguarded 32767 = .ok (-32768) ∧
    arrStep 32767 = .error :=
  arrListUnguarded_wraps

theorem float32_unchecked_panics :
    numTok false [0x31, 0x65, 0x33, 0x39] = .float [0x31, 0x65, 0x33, 0x39] ∧
    float32FloatUnchecked [0x31, 0x65, 0x33, 0x39] = .panic ∧
    float32Float [0x31, 0x65, 0x33, 0x39] = .error :=
  Martian.LexerActions.float32_unchecked_panics

/-- The map dimension of `type_id` (`1 +` the inner array dimension, an int16):
since the repair 96a192c it is exact and below 2^15 for every count the
`arr_list` counter can deliver, or a located error. -/
theorem map_dim_total (n : Int) (h0 : 0 ≤ n) (h1 : n ≤ 32767) :
    (mapDim n = .ok (n + 1) ∧ n + 1 < 2 ^ 15) ∨ (mapDim n = .error ∧ n = 32767) :=
  mapDim_total n h0 h1

/-- Negative witness about the UNGUARDED action (the code before the repair;
the harness replays it and checks that the real code no longer behaves so):
32767 inner array dimensions of a map type wrapped the dimension to −32768. -/
theorem map_dim_wraps : mapDimUnguarded 32767 = -32768 ∧
    (∀ n : Int, 0 ≤ n → n < 32767 → mapDimUnguarded n = n + 1) :=
  mapDimUnguarded_wraps

end actions

/-! ## The lexer → converter contract through the INTERPRETED tokenizer -/

section contract
open Martian.LexerActions Martian.Tokenizer

/-- Whatever ONE call of `nextToken` (all clauses of the regenerated switch
interpreted, not only the numeric one) returns with the id of NUM_FLOAT /
NUM_INT / LITSTRING is accepted by the converter the grammar applies to that
kind: no other clause of `Gen.tokSwitch` can produce these ids, the numeric
clause emits them only after the range check, and the string rule's texts are
all unquotable. -/
theorem tokenizer_converter_contract (head t : Martian.Lexer.Bytes) :
    (nextToken head = (lookupId Gen.tokIds "NUM_FLOAT", t) → ∃ l, parseFloat false t = some l) ∧
    (nextToken head = (lookupId Gen.tokIds "NUM_INT", t) → ∃ i, parseInt t = some i) ∧
    (nextToken head = (lookupId Gen.tokIds "LITSTRING", t) → ∃ out, unquoteBytes t = some out) :=
  ⟨fun h => emitted_float_parses (head := head) h, fun h => emitted_int_parses (head := head) h,
   fun h => emitted_string_unquotes (head := head) h⟩

/-- … and such a token is the leftmost-first match of the rule's regenerated
regex at the head. -/
theorem tokenizer_num_token_is_regex_match (head t : Martian.Lexer.Bytes) :
    (nextToken head = (lookupId Gen.tokIds "NUM_FLOAT", t) →
      (Martian.Regex.parse Gen.tokFloatRegex).map (fun r => Martian.Regex.pmatch r head) = some (some t)) ∧
    (nextToken head = (lookupId Gen.tokIds "LITSTRING", t) →
      (Martian.Regex.parse Gen.tokStringRegex).map (fun r => Martian.Regex.pmatch r head) = some (some t)) := by
  constructor
  · intro h
    have h1 := emits_float (head := head) (t := t) h
    rw [float_rule_is_regex]
    unfold numTok at h1
    split at h1
    · rename_i tt hm
      split at h1 <;> cases h1
      rw [hm]
    · split at h1
      · split at h1 <;> cases h1
      · cases h1
  · intro h
    rw [string_rule_is_regex, emits_string (head := head) (t := t) h]

end contract

/-! ## Recogniser ⇔ DENOTATIONAL semantics (independent of the executable matcher) -/

section denotational
open Martian.Regex hiding Bytes isWord
open Martian.LexerRegex

/-- The hand-written recognisers decide the denotational semantics of the rule
regexes: `w` followed by `post` matches the regex (anchors evaluated in that
context) iff the recogniser, run on `w ++ post`, returns `w`.  (Hence a rule's
match is unique: `rule_match_unique`.) -/
theorem rules_decide_semantics (w post : Bytes) :
    (Matches intRe [] w post ↔ matchInt (w ++ post) = some w) ∧
    (Matches floatRe [] w post ↔ matchFloat false (w ++ post) = some w) ∧
    (Matches stringRe [] w post ↔ matchString (w ++ post) = some w) ∧
    (Matches idRe [] w post ↔ matchId (w ++ post) = some w) :=
  ⟨int_matches_iff w post, float_matches_iff w post, string_matches_iff w post, id_matches_iff w post⟩

end denotational

/-! ## The PARSER DRIVER: `mmParse` on the regenerated goyacc tables -/

section lr
open Martian.LexerLR

/-- The table checker is sound, for ANY tables and certificate: if `check T C`
evaluates to true then for every input (the ids `Lex` returns, call by call)
and every oracle for the semantic actions that can abort the parse, the driver
loop `mmParse` — shift / reduce / goto, exception table, `mmlex1`, error
recovery and `mmErrorMessage` — never indexes outside a table and never pops
the bottom of its stack (`panic`), stops within `fuelFor` rounds (`outOfFuel`),
and returns accept, an action error, or a syntax error at a lookahead token of
the input. -/
theorem lr_checker_sound (T : Tables) (C : Cert) (h : check T C = true) (fail : Nat → Bool) (input : List Int) :
    GoodOutcome input.length (runFuel T fail (fuelFor C input) (init input) [.push 0]).1 :=
  parse_total h fail input

/-- Regenerated obligation: the tables found in grammar.go now, with the
certificate the extractor computed from them (which states can lie below which
on the stack; a rank of the states that every reduction lowers), pass the
check.  Evaluated by the kernel: every (state, token) cell, every reduction
with every possible exposed state. -/
theorem lr_tables_checked : check genTables genCert = true := by decide +kernel

/-- (a)–(d) for the parser as generated: memory safety, termination, progress
of the error path (no state shifts `error`, so a syntax error ends the parse at
once), result located. -/
theorem lr_driver_total (fail : Nat → Bool) (input : List Int) :
    GoodOutcome input.length (runFuel genTables fail (fuelFor genCert input) (init input) [.push 0]).1 :=
  parse_total lr_tables_checked fail input

-- non-vacuity: `[1]` is accepted; `[1` is a syntax error at token 2 (the end of the input)
example : (runFuel genTables (fun _ => false) 100 (init [91, 57381, 93]) []).1 = .accept ∧
    (runFuel genTables (fun _ => false) 100 (init [91, 57381]) []).1 = .syntaxError 2 := by decide +kernel

/-- **Lexing + LR driver + modelled actions are total and located**: for every
source text (any bytes) the scanner loop terminates and its tokens reconstruct
the source (`lex_terminates`, `lex_reconstructs`), the parser driver run on
the scanner's token ids returns accept, an action error or a syntax error at
one of these tokens or at the end of the input — whose reported line is its
real line (`lex_real_line`) — and every modelled semantic action, on a token the
scanner can emit, yields a value or a located error (`actions_total`).
OUTSIDE: the Go code inside the semantic actions other than the modelled
conversions (AST node construction, `append`, map insertion, comment
attachment), the growth of the value stack (`make`/`copy`), and everything after
parsing (include resolution, the compiler passes) — covered by the search only. -/
theorem front_end_total (fail : Nat → Bool) (src : Martian.Lexer.Bytes) :
    GoodOutcome (Martian.Tokenizer.lexAll src).length (parseSource fail src).1 ∧
    (((Martian.Tokenizer.lexAllRaw src).1.map Martian.Tokenizer.Tok.text).flatten ++ (Martian.Tokenizer.lexAllRaw src).2 = src) ∧
    (∀ (s : Martian.LexerActions.Site) (k : Martian.LexerActions.Kind) (head t : Martian.Lexer.Bytes),
      Martian.LexerActions.emits k head t → Martian.LexerActions.act s k t ≠ .panic) := by
  refine ⟨?_, (lex_reconstructs src).1, fun s k head t h => Martian.LexerActions.actions_total s k head t h⟩
  have := lr_driver_total fail (tokenIds src)
  simpa [parseSource, tokenIds] using this

/-- Regenerated obligation for the semantic values of the value-expression
sub-grammar (`parseLR`, Martian/LexerLRSem.lean; used by Props/C09Tie.lean):
every modelled action is found, by its text, among the actions of grammar.go
now, and no two productions with different modelled actions share a text.  A
changed action body is no longer recognised and breaks this. -/
theorem lr_value_actions_recognised :
    (semTable.all fun p => Gen.mmProdBody.any fun q => q.2 == p.1) = true ∧
    (semTable.all fun p => semTable.all fun q => p.1 != q.1 || p.2 == q.2) = true := by decide +kernel

end lr

/-- The regenerated facts these theorems are stated against were really found
in the sources (a fact whose pattern is no longer found is emitted from its
committed default with `_extracted := false`: this obligation then breaks
instead of the theorems silently talking about the default). -/
theorem facts_extracted :
    Gen.tokIntRegex_extracted = true ∧ Gen.tokFloatRegex_extracted = true ∧ Gen.tokStringRegex_extracted = true ∧
    Gen.tokIdRegex_extracted = true ∧ Gen.tokSwitch_extracted = true ∧ Gen.tokIds_extracted = true ∧
    Gen.tokSpaceAscii_extracted = true ∧ Gen.unicodeWhiteSpace_extracted = true ∧
    Gen.mmExca_extracted = true ∧ Gen.mmAct_extracted = true ∧ Gen.mmPact_extracted = true ∧
    Gen.mmPgo_extracted = true ∧ Gen.mmR1_extracted = true ∧ Gen.mmR2_extracted = true ∧
    Gen.mmChk_extracted = true ∧ Gen.mmDef_extracted = true ∧ Gen.mmTok1_extracted = true ∧
    Gen.mmTok2_extracted = true ∧ Gen.mmTok3_extracted = true ∧ Gen.mmLast_extracted = true ∧
    Gen.mmPrivate_extracted = true ∧ Gen.mmFlag_extracted = true ∧ Gen.mmErrCode_extracted = true ∧
    Gen.mmEofCode_extracted = true ∧ Gen.mmNToknames_extracted = true ∧ Gen.mmNErrorMessages_extracted = true ∧
    Gen.mmFailProds_extracted = true ∧ Gen.mmPred_extracted = true ∧ Gen.mmRank_extracted = true ∧
    Gen.mmProdBody_extracted = true := by decide

/-! ### definitional unfoldings (documentation of the model, not guarantees) -/

/-- (By construction of `numTok`: the `if` of its definition read backwards; the
guarantee is `tokenizer_converter_contract`.)  Whatever the numeric branch of
`keywordToken` returns as NUM_INT / NUM_FLOAT is accepted by `parseInt` /
`parseFloat` (`none` = panic). -/
theorem num_tok_converts (b t : Bytes) :
    (numTok false b = .int t → (parseInt t).isSome = true) ∧
    (numTok false b = .float t → (parseFloat false t).isSome = true) := by
  unfold numTok
  constructor
  · intro h
    split at h
    · split at h <;> cases h
    · split at h
      · split at h
        · rename_i hok; cases h; exact hok
        · cases h
      · cases h
  · intro h
    split at h
    · split at h
      · rename_i hok; cases h; exact hok
      · cases h
    · split at h
      · split at h <;> cases h
      · cases h

-- non-vacuity: both kinds of token are produced
set_option exponentiation.threshold 1100 in
example : numTok false [0x2D, 0x34, 0x32, 0x2C] = .int [0x2D, 0x34, 0x32] ∧
    numTok false [0x31, 0x2E, 0x35, 0x65, 0x33, 0x5D] = .float [0x31, 0x2E, 0x35, 0x65, 0x33] := by
  decide

/-- (Old generic model, superseded by `lexer_progress_full` / `lex_terminates`.)
`nextToken` returns a non-empty text with every token other than INVALID,
whatever the rule functions are; hence the `Lex` loop, which only continues
after a SKIP/COMMENT token, terminates within `length + 1` iterations. -/
theorem lexer_progress (R : Rules) (isSkip : Nat → Bool) (hskip : isSkip INVALID = false) (s : Bytes) :
    ((nextToken R s).1 ≠ INVALID → 0 < (nextToken R s).2.length) ∧
    ∃ r, lex R isSkip (s.length + 1) s = some r :=
  ⟨nextToken_progress R s, lex_total R isSkip hskip _ s (by omega)⟩


end Props.C08
