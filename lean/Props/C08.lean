/-
C08 — the parser/compiler is total (lexer → converter contract).
-/
import Martian.Lexer
import Gen.Facts

namespace Props.C08
open Martian.Lexer

/-- Regenerated obligations: the regex strings in tokenizer.go are the ones the
recognisers were written for. -/
theorem int_rule_src : Gen.tokIntRegex = intRuleSrc := by decide
theorem float_rule_src : Gen.tokFloatRegex = floatRuleSrc := by decide
theorem string_rule_src : Gen.tokStringRegex = stringRuleSrc := by decide

end Props.C08
