/-
C08 — the parser/compiler is total: the lexer → converter contract.
PROPERTY THEOREMS ONLY (lemmas: Proofs/Lexer.lean; model: Martian/Lexer.lean).

What is proved for ALL byte strings: every token the lexer hands to a
converter (`parseInt`, `parseFloat`, `unquoteBytes`) is converted without a
panic, the `src_stm` grammar action never indexes an empty slice, and the
`Lex` loop always makes progress.  "Never crashes / hangs" for the whole
goyacc-generated parser and the compiler is NOT a theorem (a Lean model of that
Go code is out of reach); it is covered by the search in harness/c08.go.
-/
import Martian.Lexer
import Martian.Regex
import Proofs.Lexer
import Proofs.Regex
import Proofs.LexerRegex
import Proofs.LexerRegexString
import Martian.Tokenizer
import Proofs.Tokenizer
import Gen.Facts

namespace Props.C08
open Martian.Lexer

/-! Regenerated obligations: the regex strings found in tokenizer.go now are
the ones the recognisers were written for (the float rule without the `(:?`
typo — on the unrepaired tree this is the obligation that breaks, F3). -/
theorem int_rule_src : Gen.tokIntRegex = intRuleSrc := by decide
theorem float_rule_src : Gen.tokFloatRegex = floatRuleSrc := by decide
theorem string_rule_src : Gen.tokStringRegex = stringRuleSrc := by decide

/-- Lexer → converter contract for numerals: whatever the numeric branch of
`keywordToken` returns as NUM_INT / NUM_FLOAT is accepted by `parseInt` /
`parseFloat` (`none` = panic). -/
theorem num_tok_converts (b t : Bytes) :
    (numTok false b = .int t → (parseInt t).isSome = true) ∧
    (numTok false b = .float t → (parseFloat false t).isSome = true) := by
  unfold numTok
  constructor
  · intro h
    split at h
    · split at h <;> cases h
    · split at h
      · split at h
        · rename_i hok; cases h; exact hok
        · cases h
      · cases h
  · intro h
    split at h
    · split at h
      · rename_i hok; cases h; exact hok
      · cases h
    · split at h
      · split at h <;> cases h
      · cases h

-- non-vacuity: both kinds of token are produced
set_option exponentiation.threshold 1100 in
example : numTok false [0x2D, 0x34, 0x32, 0x2C] = .int [0x2D, 0x34, 0x32] ∧
    numTok false [0x31, 0x2E, 0x35, 0x65, 0x33, 0x5D] = .float [0x31, 0x2E, 0x35, 0x65, 0x33] := by
  decide

/-- On every token the integer rule admits (any number of leading zeros, then
at most 19 digits) `parseInt` computes the exact value when it fits in an
int64 and refuses otherwise: within the rule's bound the `uint64` accumulator
cannot wrap silently. -/
theorem int_tok_exact (b t : Bytes) (h : matchInt b = some t) :
    parseInt t = if inInt64 (intTokVal t) then some (intTokVal t) else none :=
  parseInt_exact h

example : matchInt [0x30, 0x30, 0x37, 0x29] = some [0x30, 0x30, 0x37] := by decide

/-- Negative witness F1: the rule admits 9223372036854775808 (2^63), on which
`parseInt` panics — the unchecked numeric branch (the tree before the repair)
hands it over. -/
theorem int_tok_total_unchecked_false :
    let s : Bytes := [0x39,0x32,0x32,0x33,0x33,0x37,0x32,0x30,0x33,0x36,0x38,0x35,0x34,0x37,0x37,0x35,0x38,0x30,0x38]
    numTokUnchecked false s = .int s ∧ parseInt s = none := by decide

/-- `parseInt` alone is NOT exact beyond the rule: for the 20-digit string
23058430092136939520 (= 10·2^61) the `uint64` product wraps and the overflow
test passes, returning 2^62. -/
theorem parseInt_wraps_beyond_rule :
    parseInt [0x32,0x33,0x30,0x35,0x38,0x34,0x33,0x30,0x30,0x39,0x32,0x31,0x33,0x36,0x39,0x33,0x39,0x35,0x32,0x30]
      = some 4611686018427387904 := by decide

/-- Negative witness F2: `1e999` is admitted by the float rule and rejected by
`parseFloat` (out of range). -/
theorem float_tok_total_unchecked_false :
    numTokUnchecked false [0x31, 0x65, 0x39, 0x39, 0x39] = .float [0x31, 0x65, 0x39, 0x39, 0x39] ∧
    parseFloat false [0x31, 0x65, 0x39, 0x39, 0x39] = none := by decide

/-- Negative witness F3: with the regex as shipped (`(:?`), `1:e5` is a float
token that is not even float syntax. -/
theorem float_rule_colon_typo :
    matchFloat true [0x31, 0x3A, 0x65, 0x35] = some [0x31, 0x3A, 0x65, 0x35] ∧
    goFloatSyntax [0x31, 0x3A, 0x65, 0x35] = none ∧
    matchFloat false [0x31, 0x3A, 0x65, 0x35] = none := by decide

/-- Every token the string rule admits is unquoted without a panic (every
escape form, any bytes between them). -/
theorem string_tok_unquote_total (b t : Bytes) (h : matchString b = some t) :
    ∃ out, unquoteBytes t = some out :=
  matchString_unquote h

/-- non-vacuity: `"a\x41\101é\U0001F600\"\n"` followed by other text -/
example : (matchString [0x22, 0x61, 0x5C, 0x78, 0x34, 0x31, 0x5C, 0x31, 0x30, 0x31, 0x5C, 0x75, 0x30, 0x30,
    0x65, 0x39, 0x5C, 0x55, 0x30, 0x30, 0x30, 0x31, 0x46, 0x36, 0x30, 0x30, 0x5C, 0x22, 0x5C, 0x6E, 0x22, 0x2C]).isSome = true := by
  decide

/-- Instances of the escape forms added for JSON compatibility: `"\/"` is `/`;
a high+low surrogate pair of `\u` escapes is one code point (U+1F600); a lone
or reversed surrogate is U+FFFD and the escape after it is still decoded. -/
theorem json_escape_samples :
    unquoteBytes [0x22, 0x5C, 0x2F, 0x22] = some [0x2F] ∧
    unquoteBytes [0x22, 0x5C,0x75,0x64,0x38,0x33,0x64, 0x5C,0x75,0x64,0x65,0x30,0x30, 0x22] = some [0xF0, 0x9F, 0x98, 0x80] ∧
    unquoteBytes [0x22, 0x5C,0x75,0x64,0x38,0x33,0x64, 0x61, 0x22] = some [0xEF, 0xBF, 0xBD, 0x61] ∧
    unquoteBytes [0x22, 0x5C,0x75,0x64,0x65,0x30,0x30, 0x5C,0x75,0x30,0x30,0x34,0x31, 0x22] = some [0xEF, 0xBF, 0xBD, 0x41] ∧
    (matchString [0x22, 0x5C, 0x2F, 0x22]).isSome = true := by decide

/-- `unquoteBytes` does panic outside the rule (`"\x1"`): the rule is what
protects it. -/
theorem unquote_panics_outside_rule : unquoteBytes [0x22, 0x5C, 0x78, 0x31, 0x22] = none ∧
    matchString [0x22, 0x5C, 0x78, 0x31, 0x22] = none := by decide

/-- The repaired `src_stm` action never panics, and reports an error exactly
when the unquoted command has no fields. -/
theorem src_action_total (cmd : Bytes) :
    srcAction cmd ≠ .panic ∧ (srcAction cmd = .error ↔ fields cmd = []) :=
  ⟨srcAction_no_panic cmd, srcAction_error_iff cmd⟩

example : srcAction [0x20, 0x61, 0x20, 0x62] = .ok ([0x61], [[0x62]]) ∧ srcAction [0x20, 0x09] = .error := by decide

/-- Negative witness F4: the action as shipped panics on a blank command. -/
theorem src_action_unchecked_panics : srcActionUnchecked [] = .panic ∧ srcActionUnchecked [0x20] = .panic := by
  decide

/-- `nextToken` returns a non-empty text with every token other than INVALID,
whatever the rule functions are; hence the `Lex` loop, which only continues
after a SKIP/COMMENT token, terminates within `length + 1` iterations. -/
theorem lexer_progress (R : Rules) (isSkip : Nat → Bool) (hskip : isSkip INVALID = false) (s : Bytes) :
    ((nextToken R s).1 ≠ INVALID → 0 < (nextToken R s).2.length) ∧
    ∃ r, lex R isSkip (s.length + 1) s = some r :=
  ⟨nextToken_progress R s, lex_total R isSkip hskip _ s (by omega)⟩

/-! ## The rules as REGULAR EXPRESSIONS: regex semantics, matcher, and the tie
of the hand-written recognisers to the regex text found in tokenizer.go -/

section regex
open Martian.Regex hiding Bytes isWord
open Martian.LexerRegex

/-- The leftmost-first matcher is sound for every regex of the AST and every
input: what it returns is a prefix of the input which the regex matches (in
the denotational semantics `Matches`, anchors evaluated in context). -/
theorem regex_matcher_sound (r : Re) (s w : Bytes) (h : pmatch r s = some w) :
    ∃ post, s = w ++ post ∧ Matches r [] w post :=
  pmatch_sound h

/-- … and complete: it reports "no match" only when no prefix of the input
matches (backtracking is exhaustive; the fuel of the star loop suffices;
skipping empty iterations loses nothing). -/
theorem regex_matcher_complete (r : Re) (s : Bytes) :
    pmatch r s = none ↔ ¬ ∃ w post, s = w ++ post ∧ Matches r [] w post :=
  pmatch_none_iff r s

-- non-vacuity, and the leftmost-FIRST (not leftmost-longest) preference: `^(?:a|ab)` on "ab" is "a"
example : (parse "^(?:a|ab)").map (fun r => pmatch r [0x61, 0x62]) = some (some [0x61]) ∧
    (parse "^(?:ab|a)").map (fun r => pmatch r [0x61, 0x62]) = some (some [0x61, 0x62]) ∧
    (parse "^a{2,3}\\b").map (fun r => pmatch r [0x61, 0x61, 0x61, 0x61]) = some none := by decide

/-- Regenerated obligation: the regex SYNTAX parser, run on the integer rule's
regex text as found in tokenizer.go now, yields the AST the proofs are about. -/
theorem int_rule_parses : parse Gen.tokIntRegex = some intRe := by decide

theorem float_rule_parses : parse Gen.tokFloatRegex = some floatRe := by decide

/-- For EVERY input the hand-written integer recogniser returns exactly the
prefix that the leftmost-first semantics of the parsed, regenerated regex of
`tokIntRule` selects (`none` = no match).  A change of the regex in the Go
source either changes `parse Gen.tokIntRegex` (this theorem breaks at
`int_rule_parses`) or leaves the AST, hence the matched language, unchanged. -/
theorem int_rule_is_regex (s : Bytes) :
    (parse Gen.tokIntRegex).map (fun r => pmatch r s) = some (matchInt s) := by
  rw [int_rule_parses]; exact congrArg some (pmatch_intRe s)

/-- The same for the float rule (the repaired regex, `(?:` instead of `(:?`). -/
theorem float_rule_is_regex (s : Bytes) :
    (parse Gen.tokFloatRegex).map (fun r => pmatch r s) = some (matchFloat false s) := by
  rw [float_rule_parses]; exact congrArg some (pmatch_floatRe s)

example : (parse Gen.tokIntRegex).map (fun r => pmatch r [0x2D, 0x30, 0x37, 0x2C]) = some (some [0x2D, 0x30, 0x37]) ∧
    (parse Gen.tokFloatRegex).map (fun r => pmatch r [0x31, 0x2E, 0x35, 0x65, 0x2D, 0x33, 0x5D])
      = some (some [0x31, 0x2E, 0x35, 0x65, 0x2D, 0x33]) := by decide

/-- Every text the float rule's regex admits is accepted by the syntax of
`strconv.ParseFloat` (decimal literal: digits, optional fraction, optional
exponent): the converter can refuse a NUM_FLOAT candidate only for being out
of range — which `keywordToken` tests before it emits the token. -/
theorem float_rule_admits_only_go_syntax (s t : Bytes)
    (h : (parse Gen.tokFloatRegex).map (fun r => pmatch r s) = some (some t)) :
    (goFloatSyntax t).isSome = true := by
  rw [float_rule_is_regex] at h
  injection h with h
  exact matchFloat_goSyntax s t h

/-- … and every text the integer rule's regex admits has the syntax of
`strconv.ParseInt(…, 10, 64)` (optional sign, digits). -/
theorem int_rule_admits_only_go_syntax (s t : Bytes)
    (h : (parse Gen.tokIntRegex).map (fun r => pmatch r s) = some (some t)) :
    goIntSyntax t = true := by
  rw [int_rule_is_regex] at h
  injection h with h
  exact matchInt_goSyntax s t h

example : goIntSyntax [0x2D, 0x30, 0x37] = true ∧ goIntSyntax [0x2D] = false ∧ goIntSyntax [0x31, 0x5F, 0x30] = false := by
  decide

theorem string_rule_parses : parse Gen.tokStringRegex = some stringRe := by decide

/- Full statement (NOT proved; the missing half is "whatever `matchString`
   returns is matched by the regex", i.e. completeness of the regex w.r.t. the
   recogniser — it is covered by the correspondence runs only):
     theorem string_rule_is_regex (s : Bytes) :
       (parse Gen.tokStringRegex).map (fun r => pmatch r s) = some (matchString s) -/
/-- Whatever prefix the leftmost-first semantics of the parsed, regenerated
regex of `tokStringRule` selects is returned by the hand-written string
recogniser — for every input, including invalid UTF-8 (a negated class
consumes one rune as `utf8.DecodeRune` delimits it). -/
theorem string_rule_regex_sound_partial (s t : Bytes)
    (h : (parse Gen.tokStringRegex).map (fun r => pmatch r s) = some (some t)) :
    matchString s = some t := by
  rw [string_rule_parses] at h
  simp only [Option.map_some, Option.some.injEq] at h
  exact pmatch_stringRe_sound s t h

/-- Hence every LITSTRING token that Go's regexp can return for the rule's
regex is unquoted without a panic (all escape forms, any bytes). -/
theorem string_regex_tok_unquote_total (s t : Bytes)
    (h : (parse Gen.tokStringRegex).map (fun r => pmatch r s) = some (some t)) :
    ∃ out, unquoteBytes t = some out :=
  matchString_unquote (string_rule_regex_sound_partial s t h)

example : (parse Gen.tokStringRegex).map (fun r => pmatch r [0x22, 0x61, 0x5C, 0x6E, 0xC3, 0xA9, 0x22, 0x20])
    = some (some [0x22, 0x61, 0x5C, 0x6E, 0xC3, 0xA9, 0x22]) := by decide

end regex

/-! ## The whole tokenizer: `nextToken` for all token kinds (interpreted from the
regenerated first-byte switch of `keywordToken` and the regenerated token
constants) and the `Lex` scanner loop -/

section tokenizer
open Martian.Tokenizer

/-- Progress, full rule set, for ANY switch table / token-id table (so also for
the ones found in the source now): the text `nextToken` returns is a prefix of
the head, and it is non-empty unless the token is INVALID — every iteration
of `Lex` consumes at least one byte or hands INVALID to the parser. -/
theorem lexer_progress_full (T : Tables) (head : Martian.Lexer.Bytes) :
    (nextTokenT T head).2 <+: head ∧
    ((nextTokenT T head).1 = invalidId T ∨ 0 < (nextTokenT T head).2.length) :=
  ⟨nextTokenT_prefix T head, nextTokenT_progress T head⟩

/-- Termination of the scanner loop for the regenerated tables: it stops on its
own (end of input or INVALID) within `length + 1` iterations — more fuel
changes nothing. -/
theorem lex_terminates (src : Martian.Lexer.Bytes) (f : Nat) (h : src.length + 1 ≤ f) :
    lexRawFuel genTables f src startLoc = lexAllRaw src :=
  lexAllRaw_fuel src f h

/-- The texts of all tokens (skipped white space and comments included), in
order, followed by the unconsumed rest, are the input; a rest remains only
after an INVALID token. -/
theorem lex_reconstructs (src : Martian.Lexer.Bytes) :
    ((lexAllRaw src).1.map Tok.text).flatten ++ (lexAllRaw src).2 = src ∧
    ((lexAllRaw src).2 ≠ [] → ∃ pre t, (lexAllRaw src).1 = pre ++ [t] ∧ t.id = invalidId genTables) :=
  lexAllRaw_reconstructs src

/-- What the reported line of a token is: 1 + the newlines in the white-space
tokens before it + the number of comment tokens before it. -/
theorem lex_line (src : Martian.Lexer.Bytes) (pre : List Tok) (t : Tok) (post : List Tok)
    (h : (lexAllRaw src).1 = pre ++ t :: post) : t.line = 1 + (pre.map (lineAdvance genTables)).sum :=
  lexAllRaw_line src pre t post h

-- non-vacuity: `in x\n#\n$` is IN, ID, then INVALID on line 3
example : (lexAll [0x69, 0x6E, 0x20, 0x78, 0x0A, 0x23, 0x0A, 0x24]).map (fun t => (t.id, t.line)) =
    [(57354, 1), (57378, 1), (57348, 3)] := by decide

/-- Negative witness (recorded, not a totality defect): newlines inside a
string literal are not counted, so `"a⏎b" x` reports `x` on line 1 although it
is on line 2 of the file; and a comment cut short by an invalid byte still
advances the line, so in `#\xff` the INVALID token is reported on line 2 of a
one-line file. -/
theorem line_count_quirks :
    (lexAll [0x22, 0x61, 0x0A, 0x62, 0x22, 0x20, 0x78]).map (fun t => t.line) = [1, 1] ∧
    (lexAll [0x23, 0xFF]).map (fun t => (t.id, t.line)) = [(57348, 2)] := by decide

end tokenizer

end Props.C08
