/-
C09 — formatting is idempotent and preserves the program.
PROPERTY THEOREMS ONLY (lemmas: Proofs/Format.lean; model: Martian/Format.lean).

Proved for all inputs: the call reordering (`topoSort`) is a permutation for
every dependency relation, and is the identity on an order that already
respects the dependencies (the fixed-point half of idempotence).  The string
printer/lexer round trip is proved only on a finite witness set here
(`quote_unquote_samples_partial`); the statement for all valid UTF-8 strings
is kept below as a comment and is checked by differential execution.
-/
import Martian.Format
import Proofs.Format

namespace Props.C09
open Martian.Format

/-- The reordering of calls never loses, duplicates or invents a call, for any
number of calls and any dependency edges (cyclic ones included). -/
theorem topoSort_perm (n : Nat) (edges : List (Nat × Nat)) :
    (topoSort n edges).Perm (List.range n) :=
  topoSort_perm' n edges

/-- The shift loop leaves an order alone in which no call depends on a later
one — for every dependency relation and every fuel: a formatted pipeline is a
fixed point of the reordering (stability). -/
theorem topoSort_stable (d : Dep) (f : Nat) (l : List Nat) (h : sortedFrom d l = true) :
    loop d f l 0 = l :=
  loop_sorted d f l 0 (by simpa using h)

/-- non-vacuity: a sorted order exists and the sort reaches one on a graph
where three of four calls must move -/
example : sortedFrom (depOfEdges [(0, 1), (1, 3), (2, 3)]) [3, 2, 1, 0] = true ∧
    topoSort 4 [(0, 1), (1, 3), (2, 3)] = [3, 2, 1, 0] := by decide

/-- instances of `respects dependencies` + `idempotent` (the general statements
are monitored on the real code for every generated pipeline, not proved):
the result is in dependency order, hence (by `topoSort_stable`) a fixed point -/
theorem topoSort_sorted_samples_partial :
    sortedFrom (closeN 4 4 (depOfEdges [(0, 1), (1, 3), (2, 3)])) (topoSort 4 [(0, 1), (1, 3), (2, 3)]) = true ∧
    sortedFrom (closeN 5 5 (depOfEdges [(0, 4), (4, 2), (1, 0), (3, 1)])) (topoSort 5 [(0, 4), (4, 2), (1, 0), (3, 1)]) = true ∧
    topoSort 3 [(0, 1), (1, 0)] = [0, 1, 2] := by decide

/- Full statement kept for the record (checked by correspondence on every run,
   harness/c09.go c09Strings, and NOT proved here):
     theorem unquote_quote (s : Bytes) (h : validUtf8 s = true) :
       Martian.Lexer.unquoteBytes (quoteString s) = some s
   It is false without the hypothesis (F6b), see `invalid_byte_not_preserved`. -/

/-- `unquoteBytes (quoteString s) = some s` on a witness set covering every
branch of `quoteString`: plain, `\"`, `\\`, `\b \f \n \r \t`, `\u00XX`, DEL,
2/3/4-byte runes, U+2028, U+2029 and their neighbours. -/
theorem quote_unquote_samples_partial :
    ([[], [0x61], [0x22], [0x5C], [0x08], [0x0C], [0x0A], [0x0D], [0x09], [0x00], [0x01], [0x1F], [0x7F],
      [0xC3, 0xA9], [0xDF, 0xBF], [0xE0, 0xA0, 0x80], [0xE2, 0x80, 0xA7], [0xE2, 0x80, 0xA8], [0xE2, 0x80, 0xA9],
      [0xE2, 0x80, 0xAA], [0xEF, 0xBF, 0xBD], [0xF0, 0x9F, 0x98, 0x80], [0xF4, 0x8F, 0xBF, 0xBF],
      [0x61, 0x22, 0x5C, 0x0A, 0x01, 0xE2, 0x80, 0xA8, 0xC3, 0xA9, 0x5C, 0x6E, 0x5C, 0x75]] : List (List UInt8)).all
      (fun s => Martian.Lexer.unquoteBytes (quoteString s) == some s) = true := by decide

/-- Negative witness F6b: a byte that is not valid UTF-8 is replaced by
U+FFFD. -/
theorem invalid_byte_not_preserved :
    Martian.Lexer.unquoteBytes (quoteString [0xFF]) = some [0xEF, 0xBF, 0xBD] := by decide

/-- Negative witness F6: written between bare quotes (as `src` commands and
include paths were), `a"b` is not even a string token; quoted it is. -/
theorem raw_emission_breaks :
    Martian.Lexer.matchString (emitRaw [0x61, 0x22, 0x62] ++ [0x2C]) = some [0x22, 0x61, 0x22] ∧
    Martian.Lexer.matchString (quoteString [0x61, 0x22, 0x62] ++ [0x2C]) = some (quoteString [0x61, 0x22, 0x62]) := by
  decide

end Props.C09
