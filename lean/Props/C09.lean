/-
C09 — formatting is idempotent and preserves the program.
PROPERTY THEOREMS ONLY.  Models: Martian/Format.lean (quoteString, topoSort),
Martian/FormatExp.lean (value expressions, tokenizer, reader), FormatExpText.lean
(accepted texts), FormatCall.lean / FormatCall2.lean (call statements, return,
retain, pipeline bodies), FormatDecl.lean (types, parameter lists, struct,
filetype), FormatRes.lean (src line, resources incl. formatGB, stage retain),
FormatStage.lean, FormatPipe.lean, FormatFile.lean.  Lemmas: Proofs/Format*.lean.

Sections (each: round trip `parse (format x) = some (norm x)` for every
well-formed x of the modelled AST, idempotence `format (norm x) = format x`,
stability of the normal form, lexing statement, non-vacuity examples by
`decide +kernel`, negative witnesses):
  (top)               quote/unquote of strings; topoSort (permutation; closure is
                      a fixed point and transitive for every graph; dependency
                      order and idempotence with the only hypothesis "no cycle");
                      regenerated keyword table / id production (fail closed)
  ValueExpressions    parse_format_exp, format_exp_idem, …          (from an AST)
  CallStatements      calls without modifiers
  Declarations        types, parameter lists, struct, filetype
  StageClauses        formatGB_roundtrip, resources, retain, src line
  PipelineStatements  full call statements, return, retain, bodies
  StageDeclarations   parse_format_stage
  PipelineDeclarations parse_format_pipeline, format_pipeline_idem (incl. the
                      reordering of calls: closedDeps_least, relabelling)
  WholeFile           parse_format_file, parse_source_any_order,
                      format_preserves_program (comment-free files)
  AcceptedTexts       from an ACCEPTED SOURCE TEXT (value expressions): the range
                      of lexer and reader, parse_produces_wf_partial,
                      format_preserves_accepted_exp_partial (the two hypotheses
                      are the recorded findings F6b and F26)
All other sections start from an AST satisfying the stated `wf…` predicate
(print → read → print); for declaration-level SOURCE texts in non-canonical
spelling the step text → AST is tied by correspondence only.
Not proved: comments, include expansion (monitors only); strconv float
printing/parsing (abstract: texts / `GOK`); the goyacc automaton (the readers
are recursive-descent models tied by correspondence on generated, respelled
and near-miss texts).  Theorems below a header `definitional unfoldings` are
documentation of the model, not guarantees.
-/
import Martian.Format
import Proofs.Format
import Proofs.FormatTopo
import Proofs.FormatClosure
import Proofs.FormatQuote
import Proofs.FormatExpRound
import Proofs.FormatExpLex
import Martian.FormatExp
import Gen.Facts
import Proofs.FormatCallLex
import Proofs.FormatDeclLex

import Proofs.FormatResRoundTrips
import Proofs.FormatResLex
import Proofs.FormatStageLex

import Proofs.FormatCall2Lex



import Proofs.FormatPipeParse
import Proofs.FormatFileLex
import Proofs.FormatExpRangeText
import Proofs.FormatStageRangeText
import Proofs.FormatStageRange32

import Proofs.FormatPipeRangeText
import Proofs.FormatFileRangeText

namespace Props.C09
open Martian.Format

/-- The reordering of calls never loses, duplicates or invents a call, for any
number of calls and any dependency edges (cyclic ones included). -/
theorem topoSort_perm (n : Nat) (edges : List (Nat × Nat)) :
    (topoSort n edges).Perm (List.range n) :=
  topoSort_perm' n edges

/-- The shift loop leaves an order alone in which no call depends on a later
one — for every dependency relation and every fuel: a formatted pipeline is a
fixed point of the reordering.  (This is "identity on sorted input", NOT the
stability the Go comment speaks of — the relative order of independent calls
being preserved when something does move — for which there is no theorem.) -/
theorem topoSort_stable (d : Dep) (f : Nat) (l : List Nat) (h : sortedFrom d l = true) :
    loop d f l 0 = l :=
  loop_sorted d f l 0 (by simpa using h)

/-- The closure `topoSort` computes before sorting contains the direct
dependencies. -/
theorem closedDeps_contains_edges (n : Nat) (edges : List (Nat × Nat)) (a b : Nat)
    (ha : a < n) (hb : b < n) (h : (a, b) ∈ edges) : closedDeps n edges a b = true :=
  closedDeps_contains_edges' n edges a b ha hb h

/-- **The closure loop terminates in a fixed point.**  `closedTable` runs rounds
of `addNextDeps` until a round adds nothing, with fuel `n² + 1`; for every
number of calls and every edge list that fuel is never exhausted: one more
round leaves the result unchanged. -/
theorem closedTable_is_fixpoint (n : Nat) (edges : List (Nat × Nat)) :
    tabulate n (closeOnce n (ofTable (closedTable n edges))) = closedTable n edges :=
  closedTable_fix n edges

/-- non-vacuity: on a chain of 5 calls the loop really iterates: the first and
the second round both change the table (paths of length ≤ 2, then ≤ 4), the
third is the round that adds nothing and ends the loop -/
example :
    let e := [(0, 1), (1, 2), (2, 3), (3, 4)]
    let t0 := tabulate 5 (depOfEdges e)
    t0 ≠ closeTab 5 1 t0 ∧ closeTab 5 1 t0 ≠ closeTab 5 2 t0 ∧
    closeTab 5 2 t0 = closeTab 5 3 t0 ∧ closeTab 5 2 t0 = closedTable 5 e := by decide

/-- **The closed relation is transitive** on the calls, for every number of
calls and every set of direct dependencies (cyclic ones included): what
`addNextDeps` is there to establish, and what the shift loop needs. -/
theorem closedDeps_transitive (n : Nat) (edges : List (Nat × Nat)) :
    transOn (List.range n) (closedDeps n edges) = true :=
  closedDeps_trans n edges

/-- non-vacuity: on the chain of 5 calls the direct dependencies, and the
relation after one round, are not transitive; the closed relation holds
exactly the 10 pairs `a < b` of the chain -/
example :
    let e := [(0, 1), (1, 2), (2, 3), (3, 4)]
    let t0 := tabulate 5 (depOfEdges e)
    transOn (List.range 5) (ofTable t0) = false ∧
    transOn (List.range 5) (ofTable (closeTab 5 1 t0)) = false ∧
    closedDeps 5 e 0 4 = true ∧ closedDeps 5 e 4 0 = false ∧
    tabulate 5 (closedDeps 5 e) = tabulate 5 (fun a b => decide (a < b)) := by decide

/-- **Respects dependencies.**  When the closed dependency relation has no
cycle (otherwise the Go code returns an error and leaves the order alone), no
call in the result is followed by a call it depends on (transitivity of the
closed relation, formerly a hypothesis, is proved for every graph:
`closedDeps_transitive`) — with `topoSort_perm`: every call comes after all its
dependencies.  The fuel `n² + n + 1` of the model is never exhausted (the loop
needs at most `2n` iterations). -/
theorem topoSort_respects_deps (n : Nat) (edges : List (Nat × Nat))
    (hcyc : hasCycle n (closedDeps n edges) = false)
    (a b : Nat) (ha : a < n) (hb : b < n) (hab : (a, b) ∈ edges)
    (A B : List Nat) (hl : topoSort n edges = A ++ a :: B) : b ∉ B :=
  sorted_no_later_dep _ _ A B a b (topoSort_sorted' n edges hcyc) hl
    (closedDeps_contains_edges n edges a b ha hb hab)

/-- the same for transitive dependencies: the result is in dependency order
for the whole closed relation (no transitivity hypothesis: `closedDeps_transitive`) -/
theorem topoSort_sorted_closed (n : Nat) (edges : List (Nat × Nat))
    (hcyc : hasCycle n (closedDeps n edges) = false) :
    sortedFrom (closedDeps n edges) (topoSort n edges) = true :=
  topoSort_sorted' n edges hcyc

/-- **Idempotent.**  Running the shift loop again on the result, with any
fuel, returns it unchanged (for every acyclic graph; transitivity is proved,
`closedDeps_transitive`). -/
theorem topoSort_idem (n : Nat) (edges : List (Nat × Nat)) (f : Nat)
    (hcyc : hasCycle n (closedDeps n edges) = false) :
    loop (closedDeps n edges) f (topoSort n edges) 0 = topoSort n edges :=
  topoSort_stable _ f _ (topoSort_sorted' n edges hcyc)

/-- the general loop statement: any call list, any relation that is transitive
and irreflexive on it, fuel above twice the length -/
theorem loop_sorts (d : Dep) (l : List Nat) (f : Nat)
    (htr : transOn l d = true) (hirr : irreflOn l d = true) (hf : 2 * l.length < f) :
    sortedFrom d (loop d f l 0) = true :=
  loop_sorted_of_closed d l f htr hirr hf

/-- non-vacuity: the hypotheses hold on a graph where three of four calls must
move, and on a 5-call graph with a forward chain -/
example : hasCycle 4 (closedDeps 4 [(0, 1), (1, 3), (2, 3)]) = false ∧
    transOn (List.range 4) (closedDeps 4 [(0, 1), (1, 3), (2, 3)]) = true ∧
    topoSort 4 [(0, 1), (1, 3), (2, 3)] = [3, 2, 1, 0] ∧
    hasCycle 5 (closedDeps 5 [(0, 4), (4, 2), (1, 0), (3, 1)]) = false ∧
    transOn (List.range 5) (closedDeps 5 [(0, 4), (4, 2), (1, 0), (3, 1)]) = true := by decide

/-- a dependency cycle is detected and leaves the order unchanged -/
theorem topoSort_cycle_sample :
    hasCycle 3 (closedDeps 3 [(0, 1), (1, 0)]) = true ∧ topoSort 3 [(0, 1), (1, 0)] = [0, 1, 2] := by decide

/-- **String round trip.**  For every valid UTF-8 byte string the lexer's
`unquoteBytes` returns exactly what `quoteString` was given (every escape
class of `quoteString`: `\\ \" \b \f \n \r \t \u00XX`, DEL and printable
ASCII verbatim, multi-byte runes verbatim, U+2028/U+2029 escaped). -/
theorem unquote_quote (s : List UInt8) (h : Martian.ShellQuote.validUtf8 s = true) :
    Martian.Lexer.unquoteBytes (quoteString s) = some s :=
  unquote_quoteString s h

/-- non-vacuity: a valid string with every class of character -/
example : Martian.ShellQuote.validUtf8
    [0x61, 0x22, 0x5C, 0x0A, 0x01, 0x7F, 0xE2, 0x80, 0xA8, 0xC3, 0xA9, 0xF0, 0x9F, 0x98, 0x80] = true := by decide

/-- Negative witness F6b: a byte that is not valid UTF-8 is replaced by
U+FFFD. -/
theorem invalid_byte_not_preserved :
    Martian.Lexer.unquoteBytes (quoteString [0xFF]) = some [0xEF, 0xBF, 0xBD] := by decide

/-- Historical negative witness F6 (the code it is about is gone: `SrcParam.format`
and the `@include` lines call `quoteString` since the repair): written between
bare quotes, as `src` commands and include paths were, `a"b` is not even a
string token; quoted it is. -/
theorem raw_emission_breaks :
    Martian.Lexer.matchString (emitRaw [0x61, 0x22, 0x62] ++ [0x2C]) = some [0x22, 0x61, 0x22] ∧
    Martian.Lexer.matchString (quoteString [0x61, 0x22, 0x62] ++ [0x2C]) = some (quoteString [0x61, 0x22, 0x62]) := by
  decide

/-- the keyword table the tokenizer model uses is the one in tokenizer.go now:
`Gen.tokKeywords` is re-read on every run from the `bytesPrefixString(b, X)` calls
of `keywordToken` (text, token constant; source order; without `@include`).  The first conjunct makes
the obligation fail when the extractor no longer finds the pattern (it would otherwise fall back to
the committed default, which is this very table): a new keyword is detected by this fact only. -/
theorem keyword_table_current :
    Gen.tokKeywords_extracted = true ∧ Gen.tokKeywords = Martian.FormatExp.keywordTable := by decide

/-- … and the tokens the grammar's `id` production accepts besides `ID` are the
alternatives of that production in grammar.y now (`Gen.idTokens`, source order) -/
theorem id_tokens_current :
    Gen.idTokens_extracted = true ∧ Gen.idTokens = Martian.FormatExp.idTokens := by decide


/-! ## value expressions: printer / reader round trip

Model: `Martian.FormatExp` (`fmt` = `Exp.format` as run by `FormatExp`;
`parseValExp` = tokenizer + `val_exp` grammar as run by `Parser.ParseValExp`;
`wf` = the expressions the claim is made for; `norm` = the documented
normalisations).  Tied on every run: `fmt` vs `syntax.FormatExp` byte for byte,
`parseValExp` vs `Parser.ParseValExp` (AST dump) on printed and near-miss
texts, and the three statements below monitored on the real code
(harness/c09exp.go). -/
section ValueExpressions
open Martian.FormatExp

/-- **Round trip.**  For EVERY well-formed value expression (any nesting of
arrays, maps, struct literals, references inside collections, strings with any
valid UTF-8 content, any `int64`, floats given by their 'g' text), the reader
accepts the printed text and returns the expression up to the normalisations
`norm` (a nil array prints as `null`; an integral float prints without `.`/`e`
and reads back as an int; an empty struct literal reads back as an empty map). -/
theorem parse_format_exp (e : Exp) (hw : wf e = true) (hv : isVal e = true) :
    -- (starts from an AST: `wf` excludes two things the PARSER can produce - a string that is
    -- not valid UTF-8 (F6b, `invalid_byte_not_preserved`) and the float `-0` (F26,
    -- `negative_zero_not_wf`); the statement for accepted source TEXTS, with exactly these two
    -- exceptions as hypotheses, is `format_preserves_accepted_exp_partial` in section AcceptedTexts;
    -- the name is kept without `_partial` because other properties build on it)
    parseValExp (fmt [] e) = some (norm e) := by
  simp only [parseValExp, lexAll_fmt_top e hw, Option.bind_some]
  exact parseToks_toks e hw hv

/-- the same for any indentation prefix made of white space (`FormatExp(e, prefix)`) -/
theorem parse_format_exp_prefix (e : Exp) (p : List UInt8) (hw : wf e = true) (hv : isVal e = true)
    (hp : p.all isSp = true) : parseValExp (fmt p e) = some (norm e) := by
  have h := lexAll_fmt e p [] hw hp (Or.inl rfl)
  rw [List.append_nil] at h
  have h0 : lexAll [] = some [] := lexAll_nil
  rw [h0] at h
  simp only [Option.map_some, List.append_nil] at h
  simp only [parseValExp, h, Option.bind_some]
  exact parseToks_toks e hw hv

/-- references are covered wherever the grammar allows them (inside a
collection): `[e]` for any well-formed `e`, a reference included -/
theorem parse_format_exp_nested (e : Exp) (hw : wf e = true) :
    parseValExp (fmt [] (.arr [e])) = some (.arr [norm e]) := by
  have := parse_format_exp (.arr [e]) (by simp [wf, wfL, hw]) rfl
  simpa [norm, normL] using this

/-- **Idempotent.**  Printing what was read back gives the same text: the
printed form of a well-formed expression is a fixed point of read-then-print. -/
theorem format_exp_idem (e : Exp) (p : List UInt8) (hw : wf e = true) : fmt p (norm e) = fmt p e :=
  fmt_norm e p hw

/-- read-then-print, in one statement -/
theorem format_parse_format_exp (e e' : Exp) (hw : wf e = true) (hv : isVal e = true)
    (h : parseValExp (fmt [] e) = some e') : fmt [] e' = fmt [] e ∧ wf e' = true ∧ parseValExp (fmt [] e') = some e' := by
  rw [parse_format_exp e hw hv] at h
  injection h with h
  subst h
  refine ⟨fmt_norm e [] hw, wf_norm e hw, ?_⟩
  rw [parse_format_exp (norm e) (wf_norm e hw) (by rw [isVal_norm]; exact hv), norm_norm]

/-- the normal form is well-formed and normal: after one round trip nothing changes any more -/
theorem norm_stable (e : Exp) (hw : wf e = true) : wf (norm e) = true ∧ norm (norm e) = norm e :=
  ⟨wf_norm e hw, norm_norm e⟩

/-- the lexer sees exactly the intended tokens, also in nested position (any
white-space prefix; followed by `,` `]` `}` newline, space or the end) -/
theorem lex_format_exp (e : Exp) (p rest : List UInt8) (hw : wf e = true) (hp : p.all isSp = true)
    (hr : TermStart rest) : lexAll (fmt p e ++ rest) = (lexAll rest).map (toks e ++ ·) :=
  lexAll_fmt e p rest hw hp hr

/-- non-vacuity: a well-formed expression with every construct — negative and
extreme ints, a float with exponent and an integral float, strings needing
every escape class, nested and empty collections, a one-element array (single
line) and one of a multi-line element, map keys needing escapes, struct keys of
different lengths incl. an id-like keyword, call and self references with
paths, `X.default`, a nil array -/
example : wf (.arr [
    .int (-9223372036854775808), .int 9223372036854775807, .null, .nilArr, .bool true,
    .float [0x31, 0x65, 0x2B, 0x30, 0x36], .float [0x2D, 0x32, 0x2E, 0x35], .float [0x31, 0x30, 0x30],
    .str [0x61, 0x22, 0x5C, 0x0A, 0x01, 0x7F, 0xE2, 0x80, 0xA8, 0xC3, 0xA9, 0xF0, 0x9F, 0x98, 0x80],
    .arr [], .map [], .struct [], .arr [.arr [.int 1]], .arr [.map [([0x6B], .null)]],
    .map [([0x22], .int 1), ([0x61, 0x0A], .arr [.int 1, .int 2])],
    .struct [([0x61], .int 1), ([0x73, 0x70, 0x6C, 0x69, 0x74], .arr [.int 1, .int 2]), ([0x7A, 0x7A, 0x7A], .str [])],
    .ref false [0x58] [], .ref false [0x58] [[0x61], [0x62]], .ref false [0x58] [sDefault],
    .ref true [0x78] [], .ref true [0x78] [[0x79]]]) = true := by decide +kernel

/-- Negative witness (F26): the float `-0.0` prints as `-0`, which is not the
canonical text of an integer, so it is outside `wf`; the text lexes as the
integer token `-0`, whose value prints as `0`. -/
theorem negative_zero_not_wf :
    wf (.float [0x2D, 0x30]) = false ∧
    Martian.Lexer.numTok false [0x2D, 0x30] = .int [0x2D, 0x30] ∧
    Martian.Lexer.parseInt [0x2D, 0x30] = some 0 ∧ fmt [] (.int 0) = [0x30] := by decide

/-- Negative witness: outside `wf` the round trip can fail — a struct field or
reference named like a reserved word (`in`) is printed bare and is then a
keyword token, not an `id` -/
theorem reserved_word_not_ident :
    isIdent [0x69, 0x6E] = false ∧ wordLexeme [0x69, 0x6E] = .tok (.reserved [0x69, 0x6E]) ∧
    parseToks [.punct 0x7B, .reserved [0x69, 0x6E], .punct 0x3A, .kNull, .punct 0x2C, .punct 0x7D] = none := by
  decide

end ValueExpressions

/-! ## call statements: printer / reader round trip

Model: `Martian.FormatCall` (`fmtCall` = `CallStm.format(printer, "")` for a
call without modifiers, wildcard binding and comments: with nothing else in the
file, the whole output of `FormatSrcBytes`; `parseCall` = tokenizer + the
first two alternatives of `call_stm`; `wfCall` = the calls the claim is made
for; `normCall` = `norm` on every binding expression).  Tied on every run:
`fmtCall` vs the real formatter byte for byte, `parseCall` vs
`Parser.UncheckedParse` (dump of `Ast.Call`) on printed, respelled and
near-miss texts (harness/c09call.go). -/
section CallStatements
open Martian.FormatExp Martian.FormatCall

/-- **Round trip.**  For EVERY well-formed call statement (`call` / `map call`,
with or without `as`, any number of bindings, split bindings of non-empty
arrays, non-empty maps and references, plain bindings of any well-formed
expression, ids of any length incl. the 30-byte alignment cut-off), the reader
accepts the printed text and returns the call up to `norm` of the values. -/
theorem parse_format_call (c : Call) (hw : wfCall c = true) :
    parseCall (fmtCall c) = some (normCall c) :=
  parseCall_fmtCall c hw

/-- **Idempotent.**  Printing what was read back gives the same text. -/
theorem format_call_idem (c : Call) (hw : wfCall c = true) : fmtCall (normCall c) = fmtCall c :=
  fmtCall_norm c hw

/-- read-then-print, in one statement: the result is well-formed, prints the same and reads back
as itself -/
theorem format_parse_format_call (c c' : Call) (hw : wfCall c = true)
    (h : parseCall (fmtCall c) = some c') :
    fmtCall c' = fmtCall c ∧ wfCall c' = true ∧ parseCall (fmtCall c') = some c' := by
  rw [parse_format_call c hw] at h
  injection h with h
  subst h
  refine ⟨fmtCall_norm c hw, wfCall_norm c hw, ?_⟩
  rw [parse_format_call _ (wfCall_norm c hw)]
  congr 1
  simp only [normCall, List.map_map]
  congr 1
  apply List.map_congr_left
  intro b _
  simp [normBind, norm_norm]

/-- the lexer sees exactly the intended tokens -/
theorem lex_format_call (c : Call) (hw : wfCall c = true) : lexAll (fmtCall c) = some (toksCall c) :=
  lexAll_fmtCall c hw

/-- non-vacuity: a well-formed map call with an `as`, a split array, a split
reference, a plain struct value (with an integral float, which `norm`
changes), a plain reference to a call named `split`, and ids of different
lengths (one of 31 bytes, beyond the alignment cut-off) -/
example :
    let c : Call := ⟨[0x53, 0x54], [0x61, 0x6C, 0x69, 0x61, 0x73],
      [⟨[0x61], true, .arr [.int 1, .str [0x78]]⟩,
       ⟨[0x62, 0x62, 0x62], true, .ref false [0x58] [[0x6F, 0x78]]⟩,
       ⟨[0x73, 0x70, 0x6C, 0x69, 0x74], false,
         .struct [([0x6B], .float [0x31, 0x30, 0x30]), ([0x6C, 0x6F, 0x6E, 0x67], .arr [.null, .bool true])]⟩,
       ⟨List.replicate 31 0x71, false, .ref false sSplit []⟩,
       ⟨[0x64, 0x64], true, .map [([0x6B], .ref true [0x70] [])]⟩]⟩
    wfCall c = true ∧ isMap c = true ∧ idWidth c.binds = 5 ∧ c.id ≠ c.decId ∧
      (parseCallToks (toksCall c)).map toksCall = some (toksCall (normCall c)) := by decide +kernel

/-- Negative witnesses: the split forms the grammar does not have are outside
`wfCall` (empty array, struct literal, a number), `split` before a comma or a
dot is an identifier, and `map call` without a split binding / `call` with one
are rejected -/
theorem split_near_misses :
    wfBind ⟨[0x61], true, .arr []⟩ = false ∧ wfBind ⟨[0x61], true, .struct [([0x6B], .int 1)]⟩ = false ∧
    wfBind ⟨[0x61], true, .int 1⟩ = false ∧
    -- call X(a = split,)
    (parseCallToks [.reserved sCall, .id [0x58], .punct 0x28, .id [0x61], .punct 0x3D, .id sSplit,
      .punct 0x2C, .punct 0x29]).map toksCall =
      some (toksCall ⟨[0x58], [0x58], [⟨[0x61], false, .ref false sSplit []⟩]⟩) ∧
    -- map call X(a = split,)
    (parseCallToks [.reserved sMap, .reserved sCall, .id [0x58], .punct 0x28, .id [0x61], .punct 0x3D,
      .id sSplit, .punct 0x2C, .punct 0x29]).isNone = true ∧
    -- call X(a = split [1],)
    (parseCallToks [.reserved sCall, .id [0x58], .punct 0x28, .id [0x61], .punct 0x3D, .id sSplit,
      .punct 0x5B, .int [0x31], .punct 0x5D, .punct 0x2C, .punct 0x29]).isNone = true ∧
    -- map call X(a = 1,)
    (parseCallToks [.reserved sMap, .reserved sCall, .id [0x58], .punct 0x28, .id [0x61], .punct 0x3D,
      .int [0x31], .punct 0x2C, .punct 0x29]).isNone = true := by decide +kernel

end CallStatements

/-! ## type names, parameter lists, `struct` and `filetype` declarations

Model: `Martian.FormatDecl` (`fmtParam mw tw iw hw` = `paramFormat` for ARBITRARY
column widths, `widths` = `getWidths`, `maxWidths` = `measureParamsWidths`,
`fmtStruct` = `StructType.format`, `fmtFiletype` = `UserType.format`; readers
`pType`, `pInParams`, `pOutParams`, `pMembers`, `parseStruct`, `parseFiletype`,
`parseParams` for the grammar's `type_id`, `in_param_list`, `out_param_list`,
`struct_field_list`, `struct`, `dec: FILETYPE id_list ';'`; `wfParam`,
`wfMember`, `wfStruct`, `wfFiletype` = the values the parser can produce).  No
normal form is needed: the AST is preserved exactly.  Tied on every run
(harness/c09decl.go): `fmtStruct`/`fmtFiletype` vs `FormatSrcBytes` byte for
byte, `parseStruct`/`parseFiletype` vs `Parser.UncheckedParse`, parameter blocks
inside a minimal stage (printer, `widths`, reader), respelled and near-miss texts. -/
section Declarations
open Martian.FormatExp Martian.FormatDecl

/-- **Round trip, `struct`.**  For EVERY well-formed struct declaration (any
number ≥ 1 of members; builtin, user-defined and dotted type names, arrays,
typed maps `map<T[]>[]`; ids of any length incl. id-like keywords; help texts and
out names with any valid UTF-8 content, empty help with an out name), the reader
accepts the printed text and returns exactly the declaration. -/
theorem parse_format_struct (s : Struct) (hw : wfStruct s = true) :
    parseStruct (fmtStruct s) = some s :=
  parseStruct_fmtStruct s hw

/-- **Round trip, `filetype`.** -/
theorem parse_format_filetype (t : Filetype) (hw : wfFiletype t = true) :
    parseFiletype (fmtFiletype t) = some t :=
  parseFiletype_fmtFiletype t hw

/-- **Round trip, parameter block.**  Input parameters followed by output
parameters, printed with ANY column widths (whatever lists `measureParamsWidths`
was run over), read back by `in_param_list out_param_list` as exactly the same
parameters: named and unnamed (`default`) outputs, help present or absent, an out
name with or without help text (the `""` placeholder). -/
theorem parse_format_params (mw tw iw hw : Nat) (ins outs : List Param)
    (hwi : ins.all Martian.FormatDecl.wfParam = true) (hwo : outs.all Martian.FormatDecl.wfParam = true)
    (hi : ins.all (fun p => !p.out) = true) (ho : outs.all (fun p => p.out) = true) :
    parseParams (fmtParams mw tw iw hw (ins ++ outs)) = some (ins ++ outs) :=
  parseParams_fmtParams mw tw iw hw ins outs hwi hwo hi ho

/-- **Idempotent.**  Read-then-print of a printed declaration gives the same
text (the reader returns the declaration itself). -/
theorem format_struct_idem (s : Struct) (hw : wfStruct s = true) :
    (parseStruct (fmtStruct s)).map fmtStruct = some (fmtStruct s) := by
  rw [parse_format_struct s hw]; rfl

theorem format_params_idem (mw tw iw hw : Nat) (ins outs : List Param)
    (hwi : ins.all Martian.FormatDecl.wfParam = true) (hwo : outs.all Martian.FormatDecl.wfParam = true)
    (hi : ins.all (fun p => !p.out) = true) (ho : outs.all (fun p => p.out) = true) :
    (parseParams (fmtParams mw tw iw hw (ins ++ outs))).map (fmtParams mw tw iw hw) =
      some (fmtParams mw tw iw hw (ins ++ outs)) := by
  rw [parse_format_params mw tw iw hw ins outs hwi hwo hi ho]; rfl

/-- the lexer sees exactly the intended tokens of a parameter list, in any
context: any widths, any following text (which is lexed on its own) -/
theorem lex_format_params (mw tw iw hw : Nat) (ps : List Param) (h : ps.all Martian.FormatDecl.wfParam = true)
    (rest : List UInt8) :
    lexAll (fmtParams mw tw iw hw ps ++ rest) = (lexAll rest).map (toksParams ps ++ ·) :=
  lexOK_fmtParams mw tw iw hw ps h rest trivial

/-- … and of a type name followed by the end of the input or a byte that is not a word character -/
theorem lex_format_type (t : TypeId) (h : wfType t = true) (rest : List UInt8) (hr : WordEnd rest) :
    lexAll (fmtType t ++ rest) = (lexAll rest).map (toksType t ++ ·) :=
  lexOK_fmtType t h rest hr

/-- the readers of the two halves of a parameter block, in any context: any
following tokens that do not start with IN (resp. OUT), any fuel above the
number of tokens of the list -/
theorem read_in_params (ps : List Param) (f : Nat) (rest : List Tok) (hw : ps.all Martian.FormatDecl.wfParam = true)
    (hm : ps.all (fun p => !p.out) = true) (hf : (toksParams ps).length < f)
    (hr : headKw sIn rest = false) : pInParams f (toksParams ps ++ rest) = some (ps, rest) :=
  pInParams_toks ps f rest hw hm hf hr

theorem read_out_params (ps : List Param) (f : Nat) (rest : List Tok) (hw : ps.all Martian.FormatDecl.wfParam = true)
    (hm : ps.all (fun p => p.out) = true) (hf : (toksParams ps).length < f)
    (hr : headKw sOut rest = false) : pOutParams f (toksParams ps ++ rest) = some (ps, rest) :=
  pOutParams_toks ps f rest hw hm hf hr

/-! ### definitional unfoldings (documentation of the model, not guarantees) -/
/-- `TypeId.strlen` is the length of what `TypeId.writeTo` prints -/
theorem typeLen_is_length (t : TypeId) : typeLen t = (fmtType t).length := typeLen_eq t

/-! ### guarantees (continued) -/
/-! ### definitional unfoldings (documentation of the model, not guarantees) -/
/-- `measureParamsWidths` over several lists is `getWidths` of their concatenation,
and the type column is wide enough for every parameter measured -/
theorem measure_is_widths (pss : List (List Param)) :
    maxWidths (pss.map widths) = widths pss.flatten ∧
    ∀ p ∈ pss.flatten, typeLen p.type ≤ (widths pss.flatten).2.1 :=
  ⟨maxWidths_widths pss, fun p hp => typeLen_le_widths _ p hp⟩

/-! ### guarantees (continued) -/
/-- non-vacuity: a well-formed struct with a typed map of arrays of a dotted user
type, a builtin, `map[]`, an id-like keyword as id and as type, help with an
escape, an out name without help, a 40-byte id; the reader returns it from its
tokens; its column widths are plain maxima (40: no cut-off) -/
example :
    let s : Struct := ⟨[0x53],
      [⟨⟨[[0x6A, 0x73, 0x6F, 0x6E], [0x67, 0x7A]], 1, 2⟩, [0x61], [0x68, 0x22, 0x0A], [0x6F]⟩,
       ⟨⟨[sInt], 3, 0⟩, sStruct, [], [0x6F, 0x6E]⟩,
       ⟨⟨[sMap], 1, 0⟩, List.replicate 40 0x71, [], []⟩,
       ⟨⟨[sFiletype], 0, 1⟩, [0x5F, 0x78], [0xC3, 0xA9], []⟩]⟩
    wfStruct s = true ∧ parseStructToks (toksStruct s) = some s ∧
      structWidths s.members = (16, 40, 3) := by decide +kernel

/-- non-vacuity: a well-formed parameter block — inputs with and without help,
an unnamed output, an unnamed output with help and out name, an unnamed output
with an out name only, a named output with an out name only, ids of 34 and 35
bytes and help texts of 24 and 25 bytes (the cut-offs of `widths`) -/
example :
    let ins : List Param :=
      [⟨⟨⟨[sInt], 0, 0⟩, [0x61], [], []⟩, false⟩,
       ⟨⟨⟨[[0x62, 0x61, 0x6D]], 2, 0⟩, List.replicate 34 0x62, List.replicate 24 0x68, []⟩, false⟩,
       ⟨⟨⟨[sPath], 0, 3⟩, List.replicate 35 0x63, List.replicate 25 0x68, []⟩, false⟩]
    let outs : List Param :=
      [⟨⟨⟨[sInt], 0, 0⟩, sDefault, [], []⟩, true⟩,
       ⟨⟨⟨[sFloat], 1, 0⟩, sDefault, [0x68], [0x6F]⟩, true⟩,
       ⟨⟨⟨[sBool], 0, 0⟩, sDefault, [], [0x6F]⟩, true⟩,
       ⟨⟨⟨[sString], 0, 0⟩, [0x78], [], [0x6F, 0x32]⟩, true⟩]
    (ins ++ outs).all Martian.FormatDecl.wfParam = true ∧ ins.all (fun p => !p.out) = true ∧ outs.all (fun p => p.out) = true ∧
      parseParamsToks (toksParams (ins ++ outs)) = some (ins ++ outs) ∧
      widths (ins ++ outs) = (3, 13, 34, 24) := by decide +kernel

/-- non-vacuity: a dotted filetype whose components are id-like keywords -/
example : wfFiletype ⟨[[0x6A, 0x73, 0x6F, 0x6E], sFiletype, sStruct]⟩ = true ∧
    parseFiletypeToks (toksFiletype ⟨[[0x6A, 0x73, 0x6F, 0x6E], sFiletype, sStruct]⟩) =
      some ⟨[[0x6A, 0x73, 0x6F, 0x6E], sFiletype, sStruct]⟩ := by decide +kernel

/-- Negative witnesses: outside `wf` the claim fails or the text is not in the
language — a struct member named like a reserved word (`in`) is printed bare and
is then a keyword token; `struct S()` has no member; `map<map>` is not a type
(but `map` alone is); `filetype a..b;`; an out name on an input parameter is
neither printed (`GetOutName()` is `""`) nor accepted by the grammar; `default`
is not an identifier, an unnamed output is written without id -/
theorem decl_near_misses :
    wfMember ⟨⟨[sInt], 0, 0⟩, sIn, [], []⟩ = false ∧
    parseStructToks [.id sStruct, .id [0x53], .punct 0x28, .reserved sInt, .reserved sIn, .punct 0x2C,
      .punct 0x29] = none ∧
    wfStruct ⟨[0x53], []⟩ = false ∧ parseStructToks [.id sStruct, .id [0x53], .punct 0x28, .punct 0x29] = none ∧
    wfType ⟨[sMap], 0, 1⟩ = false ∧ wfType ⟨[sMap], 2, 0⟩ = true ∧
    pType 9 [.reserved sMap, .punct 0x3C, .reserved sMap, .punct 0x3E, .id [0x78]] = none ∧
    parseFiletypeToks [.id sFiletype, .id [0x61], .punct 0x2E, .punct 0x2E, .id [0x62], .punct 0x3B] = none ∧
    Martian.FormatDecl.wfParam ⟨⟨⟨[sInt], 0, 0⟩, [0x78], [0x68], [0x6F]⟩, false⟩ = false ∧
    parseParamsToks (toksParams [⟨⟨⟨[sInt], 0, 0⟩, [0x78], [0x68], [0x6F]⟩, false⟩]) =
      some [⟨⟨⟨[sInt], 0, 0⟩, [0x78], [0x68], []⟩, false⟩] ∧
    parseParamsToks [.reserved sIn, .reserved sInt, .id [0x78], .str [0x22, 0x68, 0x22], .str [0x22, 0x6F, 0x22],
      .punct 0x2C] = none ∧
    parseParamsToks [.reserved sOut, .kDefault, .reserved sInt, .id [0x78], .punct 0x2C] = none ∧
    wfMember ⟨⟨[sInt], 0, 0⟩, sDefault, [], []⟩ = false ∧
    fmtParam 3 3 0 0 ⟨⟨⟨[sInt], 0, 0⟩, sDefault, [], []⟩, true⟩ =
      [0x20, 0x20, 0x20, 0x20, 0x6F, 0x75, 0x74, 0x20, 0x69, 0x6E, 0x74, 0x2C, 0x0A] := by decide +kernel

end Declarations

/-! ## The trailing clauses of a stage declaration: `src` line, `using (…)`, `retain (…)`

Model: Martian/FormatRes.lean (`fmtGB` = `formatGB`, `fmtRes` = `Resources.format`, `fmtRetain` =
`RetainParams.format`, `fmtSrc` = `SrcParam.format`; readers for `float_32` + `roundUpTo`,
`resources`/`resource_list`, `stage_retain`, `src_stm`); tied to the real formatter and parser by
harness/c09res.go on every run.  Each clause is stated for an arbitrary following text / token
list, so that whole stage declarations can be assembled from them. -/
section StageClauses
open Martian.FormatExp Martian.FormatRes
open Martian.FormatCall (tLP tRP)
open Martian.Lexer (Bytes)

/-- **formatGB round trip.**  For every `int64`-sized number of MB the text `formatGB` prints is
exactly one numeric token (NUM_INT for a whole number of GB, NUM_FLOAT otherwise), also when a
terminator byte (`,` …) and anything else follow, and reading the token back with
`roundUpTo(·, 1024)` (exact decimal value, rounded away from zero) gives the same number of MB.
This is a statement about the DIGITS `formatGB` prints (enough of them for the exact value to round
back), not about the real parser, which rounds the literal to float32 first: that reading agrees
below 256 GB only (`readGB32_inverts_formatGB`, F29), which is why `wfMB` is the smaller range. -/
theorem formatGB_roundtrip (mb : Int) (hb : mb.natAbs < 2 ^ 63) :
    readGB (fmtGB mb) = some mb ∧ readGBTok (tokGB mb) = some mb ∧
    (∀ c r, isTerm c = true → Martian.Lexer.numTok false (fmtGB mb ++ c :: r) =
      if mb.natAbs % 1024 = 0 then .int (fmtGB mb) else .float (fmtGB mb)) :=
  ⟨readGB_fmtGB mb hb, readGBTok_fmtGB mb hb,
    fun c r hc => by rw [numTok_append _ c r hc]; exact numTok_fmtGB mb hb⟩

/-- non-vacuity: 1.5 GB, -1/1024 GB (`-0.0009`), 307/1024 GB (`0.299`), 0, the largest value -/
example : fmtGB 1536 = [0x31, 0x2E, 0x35] ∧ fmtGB (-1) = [0x2D, 0x30, 0x2E, 0x30, 0x30, 0x30, 0x39] ∧
    fmtGB 307 = [0x30, 0x2E, 0x32, 0x39, 0x39] ∧ fmtGB 0 = [0x30] ∧ readGB (fmtGB 307) = some 307 ∧
    readGB (fmtGB (2 ^ 63 - 1)) = some (2 ^ 63 - 1) ∧
    readGB [0x31, 0x65, 0x2D, 0x35] = some 1 ∧                -- 1e-5 rounds up to 1/1024
    readGB [0x2D, 0x30, 0x2E, 0x30] = some 0 := by decide +kernel

/-- **F25 (known finding), negative witness.**  `int64(gb*1024)` overflows for `gb ≥ 2^53`
(amd64: the conversion yields `MinInt64`): a huge positive value is printed as a negative number,
a huge negative one as `--9007199254740992`, which is not even a token.  Below `2^63` MB the Go
arithmetic is the exact one. -/
theorem formatGB_overflow :
    fmtGBgo (2 ^ 63) = [0x2D, 0x39, 0x30, 0x30, 0x37, 0x31, 0x39, 0x39, 0x32, 0x35, 0x34, 0x37, 0x34,
      0x30, 0x39, 0x39, 0x32] ∧
    readGB (fmtGBgo (2 ^ 63)) = some (-(2 ^ 63)) ∧
    fmtGBgo (-(2 ^ 63)) = 0x2D :: fmtGBgo (2 ^ 63) ∧
    Martian.Lexer.numTok false (fmtGBgo (-(2 ^ 63))) = .nomatch ∧
    readGB (fmtGBgo (-(2 ^ 63))) = none ∧
    (∀ x : Int, x.natAbs < 2 ^ 63 → fmtGBgo x = fmtGB x) :=
  ⟨by decide +kernel, by decide +kernel, by decide +kernel, by decide +kernel, by decide +kernel,
    fmtGBgo_eq⟩

/-- **F29 (finding), negative witness.**  The round trip above is about the exact decimal value
of the printed text.  The real parser first rounds the literal to the nearest float32
(`readGB32`: `tryParseFloat32`, then `roundUpTo`); from 256 GB on that rounding eats the margin
`formatGB` relies on: 256 GB + 44 MB is printed as `256.042`, whose float32 is exactly
256 GB + 43 MB, so the value read back is 1 MB smaller (and is then printed as `256.0419`).
Below 256 GB no value fails (exhaustive replay on the real arithmetic, harness/c09res.go notes). -/
theorem formatGB_float32_witness :
    fmtGB 262188 = [0x32, 0x35, 0x36, 0x2E, 0x30, 0x34, 0x32] ∧
    readGB (fmtGB 262188) = some 262188 ∧ readGB32 (fmtGB 262188) = some 262187 ∧
    fmtGB 262187 = [0x32, 0x35, 0x36, 0x2E, 0x30, 0x34, 0x31, 0x39] ∧
    -- values below 256 GB with the same fraction are read back correctly
    readGB32 (fmtGB (262188 - 1024)) = some (262188 - 1024) ∧ readGB32 (fmtGB 44) = some 44 ∧
    -- the float32 rounding of a literal: 0.5000000001 is 0.5 (exactly 512 MB), not 513 MB
    readGB32 [0x30, 0x2E, 0x35, 0x30, 0x30, 0x30, 0x30, 0x30, 0x30, 0x30, 0x30, 0x31] = some 512 ∧
    readGB [0x30, 0x2E, 0x35, 0x30, 0x30, 0x30, 0x30, 0x30, 0x30, 0x30, 0x30, 0x31] = some 513 := by
  decide +kernel

/-- **Resources.**  For every well-formed `Resources` (`mem_gb` / `vmem_gb` below 256 GB in
magnitude, `special` valid UTF-8, `threads` a NUM_FLOAT in the float32 range or a canonical NUM_INT; any subset of the five
entries, including none): the printed block, followed by any text, lexes as `) using (` + its
entries and then the tokens of that text; and `resources` reads these tokens, closed by `)`, back
as the same `Resources`, leaving what follows.  (The printed order is the canonical one, so the
result is identical, not just equal up to a normal form; printing it again gives the same text.)
Domain: mem_gb / vmem_gb satisfying `gbRoundTrips` (`wfMB`, section ResourceDomain: every value below 256 GB, every whole number of GB up to 64 TB; exactly the values the real float32 reading of formatGB's text gives back): the range where the model's exact reading and the
real parser's float32 reading agree (`readGB32_inverts_formatGB`); above it the real formatter is not a
fixed point (F29, `formatGB_float32_witness`). -/
theorem parse_format_resources (r : Res) (hw : wfRes r = true) :
    (∀ rest, lexAll (fmtRes r ++ rest) = (lexAll rest).map (toksRes r ++ ·)) ∧
    toksRes r = tRP :: .id sUsing :: tLP :: toksResBody r ∧
    (∀ ts, pResources (.id sUsing :: tLP :: (toksResBody r ++ tRP :: ts)) = some (some r, ts)) :=
  ⟨fun rest => lexOK_fmtRes r hw rest trivial, rfl, pResources_toks r hw⟩

/-- **Retain.** -/
theorem parse_format_retain (ids : List Bytes) (hw : wfRetain ids = true) :
    (∀ rest, lexAll (fmtRetain ids ++ rest) = (lexAll rest).map (toksRetain ids ++ ·)) ∧
    toksRetain ids = tRP :: .id sRetain :: tLP :: toksRetainBody ids ∧
    (∀ ts, pRetain (.id sRetain :: tLP :: (toksRetainBody ids ++ tRP :: ts)) = some (some ids, ts)) :=
  ⟨fun rest => lexOK_fmtRetain ids hw rest trivial, rfl, pRetain_toks ids⟩

/-- **The src line**, whatever the two column widths handed down by `Stage.format`: the reader
gives back the language, the path and the arguments (`strings.Fields` inverts the
`strings.Join(·, " ")` of the printer on fields without white space). -/
theorem parse_format_src (mw tw : Nat) (lang : Lang) (path : Bytes) (args : List Bytes)
    (hw : wfSrc path args = true) :
    (∀ rest, lexAll (fmtSrc mw tw lang path args ++ rest) =
      (lexAll rest).map (toksSrc lang path args ++ ·)) ∧
    (∀ ts, pSrc (toksSrc lang path args ++ ts) = some ((lang, path, args), ts)) :=
  ⟨fun rest => lexOK_fmtSrc mw tw lang path args hw rest trivial, pSrc_toks lang path args hw⟩

/-- **Both clauses and the closing parenthesis** (a stage that is not split), before a token list
that does not itself begin with `using`/`retain`. -/
theorem parse_format_stage_tail (res : Option Res) (ret : Option (List Bytes))
    (hw1 : (match res with | some r => wfRes r | none => true) = true)
    (hw2 : (match ret with | some ids => wfRetain ids | none => true) = true) :
    (∀ rest, lexAll (fmtTail res ret ++ rest) = (lexAll rest).map (toksTail res ret ++ ·)) ∧
    (∀ ts, NotId sUsing ts → NotId sRetain ts →
      pTail (toksTail res ret ++ ts) = some ((res, ret), ts)) :=
  ⟨fun rest => lexOK_fmtTail res ret hw1 hw2 rest trivial, pTail_toks res ret hw1⟩

/-- **A whole declaration**: the text of a stage without parameters carrying all three clauses
reads back as the same stage; hence formatting is idempotent on it.
Domain: mem_gb / vmem_gb satisfying `gbRoundTrips` (`wfMB`, section ResourceDomain: every value below 256 GB, every whole number of GB up to 64 TB; exactly the values the real float32 reading of formatGB's text gives back): the range where the model's exact reading and the
real parser's float32 reading agree (`readGB32_inverts_formatGB`); above it the real formatter is not a
fixed point (F29, `formatGB_float32_witness`). -/
theorem parse_format_stage0 (s : Stage0) (hw : wfStage0 s = true) :
    parseStage0 (fmtStage0 s) = some s ∧
    (∀ s', parseStage0 (fmtStage0 s) = some s' → fmtStage0 s' = fmtStage0 s) := by
  refine ⟨parseStage0_fmtStage0 s hw, ?_⟩
  intro s' h
  rw [parseStage0_fmtStage0 s hw] at h
  injection h with h
  rw [h]

/-- non-vacuity: a well-formed stage with `exec`, two arguments, all five resources and two
retained ids; the padding (`mem_gb   =`, `special  =`) and the fixed order -/
example :
    let s : Stage0 := ⟨[0x53], .exec, [0x61, 0x2E, 0x70, 0x79], [[0x2D, 0x78], [0x79]],
      some ⟨some (-1537), some [0x68, 0x69], some [0x31, 0x65, 0x2B, 0x30, 0x36], some 1024, some true⟩,
      some [[0x61], sRetain]⟩
    wfStage0 s = true ∧ (pStage0 (toksStage0 s) == some s) = true ∧
    (fmtRes ⟨some 1536, none, some [0x32], none, some false⟩ ==
      sUsingOpen ++ indent ++ sMemGb ++ [0x20, 0x20] ++ sEq ++ [0x31, 0x2E, 0x35] ++ sEnd ++
        indent ++ sThreads ++ [0x20] ++ sEq ++ [0x32] ++ sEnd ++
        indent ++ sVolatile ++ sEq ++ sFalse ++ sEnd) = true ∧
    fmtRes {} = sUsingOpen ∧ wfRes {} = true := by decide +kernel

/-- Negative witnesses: entries in any order and repeated are accepted and the last value wins
(`threads = 1, mem_gb = 1, threads = 2,`), `memgb` is `mem_gb`; `volatile = true`, a string for
`threads`, an identifier for `special`, a missing comma and a float beyond the float32 range are
rejected; an empty command and a command of blanks are rejected; a field with a no-break space
is not well-formed (it would be split) -/
theorem stage_clause_near_misses :
    pResList [.id sThreads, .punct 0x3D, .int [0x31], .punct 0x2C, .id sMemgb, .punct 0x3D, .int [0x31],
      .punct 0x2C, .id sThreads, .punct 0x3D, .int [0x32], .punct 0x2C, .punct 0x29] {} =
      some (⟨some 1024, none, some [0x32], none, none⟩, []) ∧
    pResList [.id sVolatile, .punct 0x3D, .kTrue, .punct 0x2C, .punct 0x29] {} = none ∧
    pResList [.id sThreads, .punct 0x3D, .str [0x22, 0x32, 0x22], .punct 0x2C, .punct 0x29] {} = none ∧
    pResList [.id sSpecial, .punct 0x3D, .id [0x78], .punct 0x2C, .punct 0x29] {} = none ∧
    pResList [.id sMemGb, .punct 0x3D, .int [0x31], .punct 0x29] {} = none ∧
    pResList [.id sMemGb, .punct 0x3D, .float [0x31, 0x65, 0x34, 0x30], .punct 0x2C, .punct 0x29] {} = none ∧
    readCmd [0x22, 0x22] = none ∧ readCmd [0x22, 0x20, 0x20, 0x22] = none ∧
    pRetainList [.id [0x61], .punct 0x29] = none ∧
    wfField [0x78, 0xC2, 0xA0, 0x79] = false ∧
    fieldsU [0x78, 0xC2, 0xA0, 0x79, 0x09, 0x7A] = [[0x78], [0x79], [0x7A]] := by decide +kernel

end StageClauses

/-! ## the full call statement and the other statements of a pipeline body

Model: `Martian.FormatCall2`.  `fmtCall2 p c` = `CallStm.format(printer, p)` (`p` = `""` for the
top-level call of a file, INDENT inside a pipeline) with `map`, `as`, the wildcard binding
`* = self` / `* = REF` (after which `BindStms.format` stops), the `) using (` block (keyword
modifiers converted to `= true` bindings unless bound, sorted by id, aligned); `fmtReturn`,
`fmtPRetain`, `fmtBody` = `ReturnStm.format`, `PipelineRetains.format`, the statement part of
`Pipeline.format`.  Readers `pCall2` / `pReturn` / `pPRetain` / `pBody` on tokens (they return the
remaining tokens), `parseCall2` / `parseBody` on source text.  `wfCall2`: ids are identifiers,
binding values well-formed (`wfBind`), the wildcard value is `self` or a well-formed reference,
the `using` block holds distinct ids out of local/preflight/volatile (boolean) and disabled
(well-formed reference).  `normCall2`: `norm` on the binding values, keyword modifiers converted,
block sorted.  Tied on every run (harness/c09call2.go): printed, respelled and near-miss texts of
top-level calls and of pipeline bodies against `UncheckedParse` and `FormatSrcBytes`, and
`Ast.Format` on an AST whose wildcard binding was moved off the last position. -/
section PipelineStatements
open Martian.FormatExp Martian.FormatCall Martian.FormatCall2

/-- **Round trip, call statement.**  For EVERY well-formed call statement (`call` / `map call`, any
callee name incl. `local`/`preflight`/`volatile`, `as`, explicit and split bindings, a final
wildcard binding, keyword modifiers, a `using` block, or both), the reader accepts the printed
text of a file holding just the call and returns the call in normal form. -/
theorem parse_format_call2 (c : Call2) (hw : wfCall2 c = true) :
    parseCall2 (fmtCall2 [] c) = some (normCall2 c) :=
  parseCall2_fmtCall2 c hw

/-- **Round trip inside a pipeline**: whatever the (white-space) indentation and whatever text
follows, as long as that text lexes and its first token is not `using`: the reader returns the
normal form of the call and the tokens of the following text. -/
theorem parse_format_call2_in_context (p : List UInt8) (c : Call2) (rest : List UInt8) (ts : List Tok)
    (hp : p.all isSp = true) (hw : wfCall2 c = true) (hrest : lexAll rest = some ts)
    (hr : ∀ r, ts ≠ .id sUsing :: r) :
    (lexAll (fmtCall2 p c ++ rest)).bind pCall2 = some (normCall2 c, ts) :=
  pCall2_fmtCall2 p c rest ts hp hw hrest hr

/-- **Idempotent, call statement.**  Printing what was read back gives the same text, with any prefix. -/
theorem format_call2_idem (p : List UInt8) (c : Call2) (hw : wfCall2 c = true) :
    fmtCall2 p (normCall2 c) = fmtCall2 p c :=
  fmtCall2_norm p c hw

/-- the normal form is well formed and a fixed point of `normCall2` (the latter for every call) -/
theorem normCall2_stable (c : Call2) (hw : wfCall2 c = true) :
    wfCall2 (normCall2 c) = true ∧ normCall2 (normCall2 c) = normCall2 c :=
  ⟨wfCall2_norm c hw, normCall2_idem c⟩

/-- read-then-print-then-read: the call read back prints the same and reads back as itself -/
theorem format_parse_format_call2 (c c' : Call2) (hw : wfCall2 c = true)
    (h : parseCall2 (fmtCall2 [] c) = some c') :
    fmtCall2 [] c' = fmtCall2 [] c ∧ wfCall2 c' = true ∧ parseCall2 (fmtCall2 [] c') = some c' := by
  rw [parse_format_call2 c hw] at h
  injection h with h
  subst h
  refine ⟨fmtCall2_norm [] c hw, wfCall2_norm c hw, ?_⟩
  rw [parse_format_call2 _ (wfCall2_norm c hw), normCall2_idem]

/-- what the `using` block of the printed call holds: the bindings of the block and `= true` for
every keyword modifier that has no binding, in ascending order of the ids; it is printed iff it is
not empty; all of it is well formed with distinct ids -/
theorem using_block_normal_form (m : Mods) (hw : wfMods m = true) :
    sortedMods (modList m) = true ∧ (modList m).all wfMod = true ∧ distinctIds (modList m) = true ∧
    usingPrinted m = !(modList m).isEmpty ∧
    (∀ k, hasId k (modList m) = (hasId k m.binds || (m.loc && k == sLocal) ||
      (m.pre && k == sPreflight) || (m.vol && k == sVolatile))) :=
  ⟨sortMods_sorted _, (modList_wf m hw).1, (modList_wf m hw).2, usingPrinted_eq m, hasId_modList m⟩

/-- the lexer sees exactly the intended tokens, whatever follows -/
theorem lex_format_call2 (p : List UInt8) (c : Call2) (rest : List UInt8) (hp : p.all isSp = true)
    (hw : wfCall2 c = true) :
    lexAll (fmtCall2 p c ++ rest) = (lexAll rest).map (toksCall2 c ++ ·) :=
  lexAll_fmtCall2 p c rest hp hw

/-- `BindStms.format` on a list the parser does not build: nothing after the wildcard binding is
printed (or measured for the alignment) -/
theorem wildcard_ends_bindings (p : List UInt8) (bs : List Bind) (e : Exp) (junk : List Bind)
    (h : ∀ b ∈ bs, b.id ≠ sStar) :
    fmtBindStms p (bs ++ wildBind e :: junk) = fmtBindStms p (bs ++ [wildBind e]) :=
  fmtBindStms_trunc p bs e junk h

/-! ### definitional unfoldings (documentation of the model, not guarantees) -/
/-- the model extends `Martian.FormatCall`: same text for a call without wildcard and modifiers -/
theorem format_call2_extends_call (c : Call) (h : c.binds.all wfBind = true) :
    fmtCall2 [] ⟨c.decId, c.id, c.binds, none, noMods⟩ = fmtCall c :=
  fmtCall2_plain c h

/-! ### guarantees (continued) -/
/-- **Round trip, `return (…)`**, followed by any text that lexes -/
theorem parse_format_return (r : Ret) (rest : List UInt8) (ts : List Tok) (hw : wfRet r = true)
    (hrest : lexAll rest = some ts) :
    (lexAll (fmtReturn r ++ rest)).bind pReturn = some (normRet r, ts) :=
  pReturn_fmtReturn r rest ts hw hrest

/-- **Idempotent, `return (…)`**; the normal form is stable -/
theorem format_return_idem (r : Ret) (hw : wfRet r = true) :
    fmtReturn (normRet r) = fmtReturn r ∧ wfRet (normRet r) = true ∧ normRet (normRet r) = normRet r :=
  ⟨fmtReturn_norm r hw, wfRet_norm r hw, normRet_idem r⟩

/-- **Round trip, `retain (…)`**, followed by any text that lexes: the references come back
unchanged (so printing them again gives the same text) -/
theorem parse_format_pipeline_retain (rs : List Exp) (rest : List UInt8) (ts : List Tok)
    (hw : wfPRetain rs = true) (hrest : lexAll rest = some ts) :
    (lexAll (fmtPRetain rs ++ rest)).bind pPRetain = some (some rs, ts) :=
  pPRetain_fmtPRetain rs rest ts hw hrest

/-- **Round trip, the statements of a pipeline** (`call`s in the order the formatter leaves them in,
`return`, optional `retain`, the closing brace), followed by any text that lexes (the next
declaration, the top-level call) -/
theorem parse_format_body (b : Body) (rest : List UInt8) (ts : List Tok) (hw : wfBody b = true)
    (hrest : lexAll rest = some ts) :
    (lexAll (fmtBody b ++ rest)).bind pBody = some (normBody b, ts) :=
  pBody_fmtBody b rest ts hw hrest

/-- **Idempotent, the statements of a pipeline**; the normal form is stable -/
theorem format_body_idem (b : Body) (hw : wfBody b = true) :
    fmtBody (normBody b) = fmtBody b ∧ wfBody (normBody b) = true ∧ normBody (normBody b) = normBody b :=
  ⟨fmtBody_norm b hw, wfBody_norm b hw, normBody_idem b⟩

/-- non-vacuity: a well-formed map call of a callee named `local`, with `as`, a split binding, a
plain binding whose value `norm` changes, a wildcard binding `* = self`, the keyword modifiers
`local` and `volatile`, and a `using` block `volatile = false, disabled = D.x` (so `volatile` keeps
its binding, `local = true` is added, and the block is re-ordered) -/
example :
    let c : Call2 := ⟨sLocal, [0x59],
      [⟨[0x61], true, .ref true [0x70] []⟩, ⟨[0x62, 0x62], false, .struct [([0x6B], .float [0x31, 0x30, 0x30])]⟩],
      some (.ref true [] []),
      ⟨true, false, true, [(sVolatile, .bool false), (sDisabled, .ref false [0x44] [[0x78]])]⟩⟩
    wfCall2 c = true ∧ isMap2 c = true ∧ usingPrinted c.mods = true ∧
      toksMods (modList c.mods) = [.id sDisabled, .punct 0x3D, .id [0x44], .punct 0x2E, .id [0x78], .punct 0x2C,
        .id sLocal, .punct 0x3D, .kTrue, .punct 0x2C, .id sVolatile, .punct 0x3D, .kFalse, .punct 0x2C] ∧
      (pCall2 (toksCall2 c ++ [.reserved sReturn])).map (fun x => (toksCall2 x.1, x.2)) =
        some (toksCall2 (normCall2 c), [.reserved sReturn]) := by decide +kernel

/-- non-vacuity: a well-formed body: two calls, `return` with a wildcard, `retain` -/
example :
    let b : Body := ⟨[⟨[0x41], [0x41], [], none, ⟨false, true, false, []⟩⟩,
        ⟨[0x42], [0x42], [⟨[0x78], false, .ref false [0x41] [[0x6F]]⟩], some (.ref false [0x41] []), noMods⟩],
      ⟨[⟨[0x72], false, .ref false [0x42] [[0x6F]]⟩], some (.ref true [] [])⟩,
      some [.ref false [0x42] [[0x6F]], .ref true [0x61] []]⟩
    wfBody b = true ∧
      (pBody (toksBody b)).map (fun x => (toksBody x.1, x.2)) = some (toksBody (normBody b), []) := by
  decide +kernel

/-- Negative witnesses.  (1) keyword `local` together with the binding `local = false`: the printer
keeps the binding and drops the keyword (the block holds `local = false` only); (2) two `using`
blocks: the reader keeps the second (`Modifiers.Bindings` is replaced); (3) a modifier keyword
before `(` is the callee's name, twice it is a modifier and a name; (4) a binding after the
wildcard, a wildcard that is not a reference, and `map call` with only a wildcard are rejected;
(5) outside `wfCall2`: duplicate modifier ids, `disabled = true`, `local = 1`, a wildcard `* = 1`,
a wildcard reference `self` with an output path but no parameter name. -/
theorem call2_near_misses :
    -- (1)
    toksMods (modList ⟨true, false, false, [(sLocal, .bool false)]⟩) =
      [.id sLocal, .punct 0x3D, .kFalse, .punct 0x2C] ∧
    -- (2) call X() using (local = true,) using (volatile = true,)
    (pCall2 [.reserved sCall, .id [0x58], .punct 0x28, .punct 0x29, .id sUsing, .punct 0x28, .id sLocal,
      .punct 0x3D, .kTrue, .punct 0x2C, .punct 0x29, .id sUsing, .punct 0x28, .id sVolatile, .punct 0x3D,
      .kTrue, .punct 0x2C, .punct 0x29]).map (fun x => (toksCall2 x.1, x.2)) =
      some (toksCall2 ⟨[0x58], [0x58], [], none, ⟨false, false, false, [(sVolatile, .bool true)]⟩⟩, []) ∧
    -- (3) call local()   /   call local local()
    (pCall2 [.reserved sCall, .id sLocal, .punct 0x28, .punct 0x29]).map (fun x => (x.1.mods.loc, x.1.decId)) =
      some (false, sLocal) ∧
    (pCall2 [.reserved sCall, .id sLocal, .id sLocal, .punct 0x28, .punct 0x29]).map
      (fun x => (x.1.mods.loc, x.1.decId)) = some (true, sLocal) ∧
    -- (4) call X(* = self, a = 1,)   /   call X(* = 1,)   /   map call X(* = self,)
    (pCall2 [.reserved sCall, .id [0x58], .punct 0x28, .punct 0x2A, .punct 0x3D, .kSelf, .punct 0x2C,
      .id [0x61], .punct 0x3D, .int [0x31], .punct 0x2C, .punct 0x29]).isNone = true ∧
    (pCall2 [.reserved sCall, .id [0x58], .punct 0x28, .punct 0x2A, .punct 0x3D, .int [0x31], .punct 0x2C,
      .punct 0x29]).isNone = true ∧
    (pCall2 [.reserved sMap, .reserved sCall, .id [0x58], .punct 0x28, .punct 0x2A, .punct 0x3D, .kSelf,
      .punct 0x2C, .punct 0x29]).isNone = true ∧
    -- (5)
    wfMods ⟨false, false, false, [(sLocal, .bool true), (sLocal, .bool false)]⟩ = false ∧
    wfMod (sDisabled, .bool true) = false ∧ wfMod (sLocal, .int 1) = false ∧
    wfWild (.int 1) = false ∧ wfWild (.ref true [] [[0x78]]) = false := by decide +kernel

end PipelineStatements

/-! ## Whole `stage` declarations

Model: Martian/FormatStage.lean (`fmtStage` = `Stage.format` without comments: the column widths
of `measureParamsWidths` over all four parameter lists, `modeWidth = max(·, len "src")`, the src
line, the quirk that re-measures the id and help columns over the chunk lists alone when the
overall id column is wider than 30 or the help column wider than 20, `) split (`, the `using` and
`retain` clauses; `pStage` = the grammar's `stage` production with `split_param_list` in both
spellings, on a token list, returning the tokens after the declaration; `parseStage` = a file
that is one stage declaration; `wfStage` = what the parser can produce).  The round trip is the
identity on well-formed stages: the only normalisations (`split using (` → `split (`, the order
and spelling of the resource entries, white space) are on the text side.  Tied on every run by
harness/c09stage.go: `fmtStage` vs `FormatSrcBytes` byte for byte, `parseStage` vs every field of
the `syntax.Stage` read by `Parser.UncheckedParse`, on generated, respelled and near-miss texts. -/
section StageDeclarations
open Martian.FormatExp Martian.FormatDecl Martian.FormatRes Martian.FormatStage
open Martian.FormatCall (tLP tRP)
open Martian.Lexer (Bytes)

/-- **Round trip, whole stage declarations.**  For EVERY well-formed stage (any number of in,
out, chunk-in and chunk-out parameters of every shape `parse_format_params` covers, ids and help
texts of any length — hence whichever way the 35/25 cut-offs of `getWidths` and the 30/20 quirk of
`Stage.format` fall —, every language, a command with arguments, split or not, any `Resources`
incl. negative and fractional `mem_gb`, any retain list) the reader accepts the printed text and
returns exactly the stage.
Domain: mem_gb / vmem_gb satisfying `gbRoundTrips` (`wfMB`, section ResourceDomain: every value below 256 GB, every whole number of GB up to 64 TB; exactly the values the real float32 reading of formatGB's text gives back): the range where the model's exact reading and the
real parser's float32 reading agree (`readGB32_inverts_formatGB`); above it the real formatter is not a
fixed point (F29, `formatGB_float32_witness`).  The same statement for the
reader with the REAL float32 reading: `parse32_format_stage` below. -/
theorem parse_format_stage (s : Stage) (hw : wfStage s = true) : parseStage (fmtStage s) = some s :=
  parseStage_fmtStage s hw

/-- **Idempotence (AST side).**  This is `parse_format_stage` plus the fixed point: for a well-formed
stage `s` the printed text reads as `s`, and whatever the printed text reads as prints to the same
text again.  The hypothesis `_h` (some text `t` reads as `s`) is NOT used — it only records where `s`
comes from; the statement is about `wfStage s`.  The TEXT-side statement (for every source text the
real parser accepts, under explicit exception hypotheses, with the real float32 reading) is
`format_preserves_accepted_stage32_partial`.
Domain: mem_gb / vmem_gb satisfying `gbRoundTrips` (`wfMB`, section ResourceDomain: every value below 256 GB, every whole number of GB up to 64 TB; exactly the values the real float32 reading of formatGB's text gives back): the range where the model's exact reading and the
real parser's float32 reading agree (`readGB32_inverts_formatGB`); above it the real formatter is not a
fixed point (F29, `formatGB_float32_witness`). -/
theorem format_stage_idem (t : Bytes) (s : Stage) (_h : parseStage t = some s) (hw : wfStage s = true) :
    parseStage (fmtStage s) = some s ∧
    (∀ s', parseStage (fmtStage s) = some s' → fmtStage s' = fmtStage s) := by
  refine ⟨parseStage_fmtStage s hw, ?_⟩
  intro s' h
  rw [parseStage_fmtStage s hw] at h
  injection h with h
  rw [h]

/-- the resource conjunct of `wfStage` is `stageMB32Valid` (`wfMB` is the 256 GB bound) -/
theorem wfStage_below_256GB (s : Stage) (hw : wfStage s = true) : stageMB32Valid s = true :=
  stageMB32Valid_of_wf s hw

/-- **Round trip, whole stage declarations, with the REAL reading of `mem_gb` / `vmem_gb`.**  The same
as `parse_format_stage` for the reader that rounds the literal to the nearest float32 first, as the
real parser does (`parseStage32`, model `readGB32Tok`): on the domain `wfStage` the two readers
return the same stage. -/
theorem parse32_format_stage (s : Stage) (hw : wfStage s = true) : parseStage32 (fmtStage s) = some s :=
  parseStage32_fmtStage s hw (stageMB32Valid_of_wf s hw)

/-- **Negative witness, the 256 GB bound of `wfStage` (F29).**  The stage `S` with `mem_gb` =
262188 MB (256 GB + 44 MB, the value of `formatGB_float32_witness`) is NOT `wfStage`, and only
because of that value (with 262143 MB, the largest value of the domain, it is): the exact reading
of the printed text is 262188 MB, the real parser's float32 reading is 262187 MB — the model reader
`parseStage` accepts the printed text as the same stage, the real-reader model `parseStage32` reads
a different stage, whose printed form differs (the real formatter is not a fixed point there). -/
theorem stage_above_256GB_not_wf :
    let big : Stage := ⟨[0x53], [], [], .py, [0x78], [], false, [], [],
      some ⟨some 262188, none, none, none, none⟩, none⟩
    let top : Stage := { big with res := some ⟨some 262143, none, none, some (-262143), none⟩ }
    wfStage big = false ∧ stageMB32Valid big = false ∧ stageMBValid big = true ∧
    wfStage top = true ∧ parseStage32 (fmtStage top) = some top ∧
    readGB (fmtGB 262188) = some 262188 ∧ readGB32 (fmtGB 262188) = some 262187 ∧
    parseStage (fmtStage big) = some big ∧
    parseStage32 (fmtStage big) = some { big with res := some ⟨some 262187, none, none, none, none⟩ } ∧
    (parseStage32 (fmtStage big)).map fmtStage ≠ some (fmtStage big) := by
  set_option maxRecDepth 100000 in decide +kernel

/-- **Lexing layer.**  The printed declaration followed by ANY text lexes as its token sequence
followed by the tokens of that text (a file is a sequence of declarations). -/
theorem lex_format_stage (s : Stage) (hw : wfStage s = true) :
    lexAll (fmtStage s) = some (toksStage s) ∧
    (∀ rest, lexAll (fmtStage s ++ rest) = (lexAll rest).map (toksStage s ++ ·)) :=
  ⟨lexAll_fmtStage s hw, lexAll_fmtStage_append s hw⟩

/-- **Token layer.**  `pStage` reads the tokens of the declaration and returns the token list
that follows, provided that list does not begin with `split`, `using` or `retain` (`stageEnd`;
every declaration keyword and the end of the input qualify). -/
theorem read_stage (s : Stage) (hw : wfStage s = true) (rest : List Tok) (hr : stageEnd rest = true) :
    pStage (toksStage s ++ rest) = some (s, rest) :=
  pStage_toks s hw rest hr

/-- what may follow: the end of the input and the keywords that start a declaration -/
example : stageEnd [] = true ∧ stageEnd [.reserved sStage] = true ∧ stageEnd [.id sStruct] = true ∧
    stageEnd [.id sFiletype] = true ∧ stageEnd [.reserved [0x70, 0x69, 0x70, 0x65, 0x6C, 0x69, 0x6E, 0x65]] = true ∧
    stageEnd [.reserved [0x63, 0x61, 0x6C, 0x6C]] = true ∧ stageEnd [.id sUsing] = false := by decide

/-! ### definitional unfoldings (documentation of the model, not guarantees) -/
/-- the `split using (` spelling reads as `split (` -/
theorem read_split_using (f : Nat) (ts : List Tok) :
    pSplit f (tRP :: .id sSplit :: .id sUsing :: tLP :: ts) = pSplit f (tRP :: .id sSplit :: tLP :: ts) :=
  pSplit_using f ts

/-! ### guarantees (continued) -/
/-- non-vacuity (`exampleStage`, `exampleStage30`: Proofs/FormatStageParse.lean): a well-formed stage that uses every clause — in and out parameters (named and
unnamed, help, out name), chunk parameters, an id of 31 bytes and a help text of 21 bytes (over
the 30/20 thresholds: the chunk parameters are laid out with the widths of the chunk lists alone,
id column 7 = `default`, help column 1, not 31 and 21), all five resources with `mem_gb = -0.5`,
a retain list, a command with arguments; the whole text reads back as the stage, and so do its
tokens before another declaration.  With an id of 30 and a help text of 20 bytes the chunk
parameters share the columns of the others (30, 20). -/
example :
    wfStage exampleStage = true ∧
    stageWidths exampleStage = (3, 16, 31, 21) ∧ chunkW exampleStage = (7, 1) ∧ modeW exampleStage = 3 ∧
    parseStage (fmtStage exampleStage) = some exampleStage ∧
    pStage (toksStage exampleStage ++ [.reserved sStage]) = some (exampleStage, [.reserved sStage]) ∧
    wfStage exampleStage30 = true ∧ stageWidths exampleStage30 = (3, 6, 30, 20) ∧
    chunkW exampleStage30 = (30, 20) ∧ parseStage (fmtStage exampleStage30) = some exampleStage30 := by
  set_option maxRecDepth 100000 in decide +kernel

/-- Negative witnesses and spelling normalisations.  `split using (` is accepted and printed as
`split (` (with `py` padded to the type column, 3); `split ()` is a split stage without chunk parameters (both lists may be empty); a
stage that is not split cannot hold chunk parameters (`wfStage` false: they would not be
printed); an in parameter named like a reserved word (`src`) is outside `wfStage`, and its
printed form is not in the language; `) using (…) split (…)`, `retain` before `using`, an out
parameter before an in parameter, an in parameter after the chunk outs, a missing `src` line and
two `src` lines are all rejected. -/
theorem stage_near_misses :
    let srcX : List Tok := [.reserved sSrc, .reserved sPy, .str [0x22, 0x78, 0x22], tComma]
    let hd : List Tok := [.reserved sStage, .id [0x53], tLP]
    let inC : List Tok := [.reserved sIn, .reserved sInt, .id [0x63], tComma]
    let outD : List Tok := [.reserved sOut, .reserved sInt, tComma]
    let sC : Stage := ⟨[0x53], [], [], .py, [0x78], [], true, [⟨⟨⟨[sInt], 0, 0⟩, [0x63], [], []⟩, false⟩], [],
      none, none⟩
    pStageAll (hd ++ srcX ++ [tRP, .id sSplit, .id sUsing, tLP] ++ inC ++ [tRP]) = some sC ∧
    pStageAll (hd ++ srcX ++ [tRP, .id sSplit, tLP] ++ inC ++ [tRP]) = some sC ∧
    fmtStage sC = [0x73, 0x74, 0x61, 0x67, 0x65, 0x20, 0x53, 0x28, 0x0A, 0x20, 0x20, 0x20, 0x20, 0x73, 0x72,
      0x63, 0x20, 0x70, 0x79, 0x20, 0x20, 0x22, 0x78, 0x22, 0x2C, 0x0A, 0x29, 0x20, 0x73, 0x70, 0x6C, 0x69, 0x74, 0x20,
      0x28, 0x0A, 0x20, 0x20, 0x20, 0x20, 0x69, 0x6E, 0x20, 0x20, 0x69, 0x6E, 0x74, 0x20, 0x63, 0x2C, 0x0A, 0x29,
      0x0A] ∧
    pStageAll (hd ++ srcX ++ [tRP, .id sSplit, tLP, tRP]) = some { sC with chunkIns := [] } ∧
    wfStage { sC with chunkIns := [] } = true ∧
    wfStage { sC with split := false } = false ∧
    pStageAll (toksStage { sC with split := false }) = some { sC with split := false, chunkIns := [] } ∧
    wfStage { sC with ins := [⟨⟨⟨[sInt], 0, 0⟩, sSrc, [], []⟩, false⟩] } = false ∧
    pStageAll (hd ++ [.reserved sIn, .reserved sInt, .reserved sSrc, tComma] ++ srcX ++ [tRP]) = none ∧
    wfStage { sC with id := sStage } = false ∧
    pStageAll (hd ++ srcX ++ [tRP, .id sUsing, tLP, tRP, .id sSplit, tLP] ++ inC ++ [tRP]) = none ∧
    pStageAll (hd ++ srcX ++ [tRP, .id sRetain, tLP, tRP, .id sUsing, tLP, tRP]) = none ∧
    pStageAll (hd ++ srcX ++ [tRP, .id sUsing, tLP, tRP, .id sRetain, tLP, tRP]) =
      some ⟨[0x53], [], [], .py, [0x78], [], false, [], [], some {}, some []⟩ ∧
    pStageAll (hd ++ outD ++ inC ++ srcX ++ [tRP]) = none ∧
    pStageAll (hd ++ inC ++ outD ++ srcX ++ [tRP]) ≠ none ∧
    pStageAll (hd ++ srcX ++ [tRP, .id sSplit, tLP] ++ outD ++ inC ++ [tRP]) = none ∧
    pStageAll (hd ++ inC ++ [tRP]) = none ∧
    pStageAll (hd ++ srcX ++ srcX ++ [tRP]) = none ∧
    pStageAll (hd ++ srcX ++ [tRP, .id sSplit, .id sUsing, .id sUsing, tLP, tRP]) = none := by
  set_option maxRecDepth 100000 in decide +kernel

end StageDeclarations

/-! ## Whole pipeline declarations, including the reordering of calls

Model `Martian.FormatPipe`: `Pipeline.format` (format_callable.go), `directDepsMap` / `topoSort`
(compile_pipelines.go), the production `pipeline` (grammar.y).  `callEdges` is `directDepsMap` on
positions, `sortCalls` is `Pipeline.Calls` after `topoSort()` (unchanged when `directDepsMap`
reports an error or `addNextDeps` a cycle), `fmtPipeline` prints the sorted calls.  Tied to the
real code by harness/c09pipe.go: the model's text with the calls in SOURCE order, fed to the real
`FormatSrcBytes`, gives the model's `fmtPipeline` byte for byte. -/
section PipelineDeclarations
open Martian.FormatExp Martian.FormatCall Martian.FormatCall2 Martian.FormatPipe

/-- **The closure is the least one.**  The dependency relation `topoSort` sorts by is contained
in every transitive relation on the calls that contains the direct dependencies: the `for
changes` loop of `addNextDeps` adds nothing but consequences of transitivity.  (With
`closedDeps_contains_edges` and `closedDeps_transitive`: it IS the transitive closure.) -/
theorem closedDeps_least (n : Nat) (edges : List (Nat × Nat)) (R : Nat → Nat → Prop)
    (hE : ∀ a b, a < n → b < n → (a, b) ∈ edges → R a b)
    (htr : ∀ a b c, a < n → b < n → c < n → R a b → R b c → R a c)
    (a b : Nat) (ha : a < n) (hb : b < n) (h : closedDeps n edges a b = true) : R a b :=
  closedDeps_least' n edges R hE htr a b ha hb h

/-- non-vacuity: the relation "a < b" contains the chain and is transitive; the closure of the
chain is exactly it (`closedDeps_transitive` example above), while the total relation also
satisfies the hypotheses and is strictly larger -/
example : closedDeps 5 [(0, 1), (1, 2), (2, 3), (3, 4)] 0 4 = true ∧
    closedDeps 5 [(0, 1), (1, 2), (2, 3), (3, 4)] 4 0 = false := by decide

/-- **A sorted arrangement stays where it is.**  If `L` arranges the calls `0 … n-1` in
dependency order (closed relation of `edges`), and `edges'` are dependencies between positions of
`L` that all come from `edges`, then `topoSort` on the positions moves nothing — whether or not
`edges'` is cyclic. -/
theorem topoSort_of_sorted_arrangement (n : Nat) (edges edges' : List (Nat × Nat)) (L : List Nat)
    (hp : L.Perm (List.range n)) (hs : sortedFrom (closedDeps n edges) L = true)
    (he : ∀ i j, i < n → j < n → (i, j) ∈ edges' → (L.getD i 0, L.getD j 0) ∈ edges) :
    topoSort n edges' = List.range n :=
  topoSort_relabel n edges edges' L hp hs he

/-- **`directDepsMap` on positions.**  Call `a` depends on call `b` iff a binding value or a
modifier binding value of `a` holds a reference (kind call) to an id which `callMap` resolves to
`b` (the last call with that id). -/
theorem callEdges_spec (cs : List Call2) (a b : Nat) :
    (a, b) ∈ callEdges cs ↔ ∃ c, cs[a]? = some c ∧ ∃ x ∈ callRefs c, lastPos x cs = some b :=
  mem_callEdges cs a b

/-- **The reordering is a permutation** of the calls of the pipeline (any pipeline: errors,
cycles, duplicate ids included). -/
theorem sortCalls_perm (pid : List UInt8) (cs : List Call2) : (sortCalls pid cs).Perm cs :=
  sortCalls_perm' pid cs

/-- **The reordering respects dependencies.**  When `directDepsMap` reports no error and there
is no cycle, no call is printed before a call whose id it refers to (distinct call ids). -/
theorem sortCalls_respects_deps (pid : List UInt8) (cs : List Call2) (hd : distinctCallIds cs = true)
    (herr : depsError pid cs = false) (hcyc : callCycle cs = false)
    (A B : List Call2) (c : Call2) (hl : sortCalls pid cs = A ++ c :: B) :
    ∀ c' ∈ B, c'.id ∉ callRefs c :=
  sortCalls_respects_deps' pid cs hd herr hcyc A B c hl

/-- **The reordering is idempotent** (distinct call ids; errors and cycles included), and it
commutes with the normal form of the calls (the normal form keeps ids and references). -/
theorem sortCalls_idempotent (pid : List UInt8) (cs : List Call2) (hd : distinctCallIds cs = true) :
    sortCalls pid (sortCalls pid cs) = sortCalls pid cs ∧
      sortCalls pid (cs.map normCall2) = (sortCalls pid cs).map normCall2 :=
  ⟨sortCalls_idem pid cs hd, sortCalls_norm pid cs⟩

/-- **Round trip, whole pipeline**: for every well-formed pipeline, whatever the order of its
calls, the printed text reads back as the pipeline with its calls in `topoSort` order, each in
normal form. -/
theorem parse_format_pipeline (p : Pipeline) (hw : wfPipeline p = true) :
    parsePipeline (fmtPipeline p) = some (normPipeline p) :=
  parsePipeline_fmtPipeline p hw

/-- the same followed by any text (the next declaration of the file) -/
theorem parse_format_pipeline_in_context (p : Pipeline) (rest : List UInt8) (ts : List Tok)
    (hw : wfPipeline p = true) (hrest : lexAll rest = some ts) :
    (lexAll (fmtPipeline p ++ rest)).bind pPipeline = some (normPipeline p, ts) :=
  pPipeline_fmtPipeline p rest ts hw hrest

/-- **Idempotent, whole pipeline**: printing what was read back gives the same text.  (The
printed calls are in `topoSort` order; the second `topoSort` sees the relabelled dependency
graph and moves nothing: `topoSort_of_sorted_arrangement`, by `closedDeps_least`.) -/
theorem format_pipeline_idem (p : Pipeline) (hw : wfPipeline p = true) :
    fmtPipeline (normPipeline p) = fmtPipeline p :=
  fmtPipeline_norm p hw

/-- the normal form is well formed and a fixed point -/
theorem normPipeline_stable (p : Pipeline) (hw : wfPipeline p = true) :
    wfPipeline (normPipeline p) = true ∧ normPipeline (normPipeline p) = normPipeline p :=
  normPipeline_stable' p hw

/-- `format ∘ parse ∘ format = format` -/
theorem format_parse_format_pipeline (p q : Pipeline) (hw : wfPipeline p = true)
    (hq : parsePipeline (fmtPipeline p) = some q) : fmtPipeline q = fmtPipeline p := by
  rw [parse_format_pipeline p hw] at hq
  injection hq with hq
  rw [← hq]
  exact format_pipeline_idem p hw

/-- **The formatter on calls in any order.**  The text of a well-formed pipeline with its calls
in SOURCE order reads as that pipeline (calls in source order, each in normal form), and
formatting what was read gives `fmtPipeline p`. -/
theorem format_source_order (p : Pipeline) (hw : wfPipeline p = true) :
    ∃ q, parsePipeline (fmtPipelineRaw p) = some q ∧ fmtPipeline q = fmtPipeline p :=
  ⟨_, parsePipeline_fmtPipelineRaw p hw, fmtPipeline_of_raw p hw⟩

/-- the printed pipeline lexes as `toksPipeline p`, whatever text follows -/
theorem lex_format_pipeline (p : Pipeline) (rest : List UInt8) (hw : wfPipeline p = true) :
    lexAll (fmtPipeline p ++ rest) = (lexAll rest).map (toksPipeline p ++ ·) :=
  Martian.FormatCall2.lexAll_of_lexOK (lexOK_fmtPipeline p hw) rest

/-- the token-level reader on the tokens of the printed pipeline, followed by any tokens -/
theorem read_pipeline (p : Pipeline) (rest : List Tok) (hw : wfPipeline p = true) :
    pPipeline (toksPipeline p ++ rest) = some (normPipeline p, rest) :=
  pPipeline_toks p rest hw

/-- the pipeline of the examples: `pipeline P(in int a, out int r "h",)` with the calls, in
source order, `map call C(x = split B.o, * = self,) using (disabled = A.d,)`,
`call local B(y = [A.o],)`, `call A(z = self.a,)`, `return (r = C.o,)`, `retain (C.o,)` -/
def samplePipeline : Pipeline :=
  ⟨[0x50],
    [⟨⟨⟨[Martian.FormatDecl.sInt], 0, 0⟩, [0x61], [], []⟩, false⟩],
    [⟨⟨⟨[Martian.FormatDecl.sInt], 0, 0⟩, [0x72], [0x68], []⟩, true⟩],
    ⟨[⟨[0x43], [0x43], [⟨[0x78], true, .ref false [0x42] [[0x6F]]⟩], some (.ref true [] []),
        ⟨false, false, false, [(sDisabled, .ref false [0x41] [[0x64]])]⟩⟩,
      ⟨[0x42], [0x42], [⟨[0x79], false, .arr [.ref false [0x41] [[0x6F]]]⟩], none, ⟨true, false, false, []⟩⟩,
      ⟨[0x41], [0x41], [⟨[0x7A], false, .ref true [0x61] []⟩], none, noMods⟩],
     ⟨[⟨[0x72], false, .ref false [0x43] [[0x6F]]⟩], none⟩,
     some [.ref false [0x43] [[0x6F]]]⟩⟩

/-- non-vacuity: a well-formed pipeline whose three calls must all move: `C` depends on `B`
through a split binding and on `A` through `disabled = A.d`, `B` on `A` through an array;
`self.a` and the wildcard `* = self` are no dependencies.  The reader on the tokens of the
printed pipeline returns the normal form (calls `A, B, C`); on the tokens of the text in source
order it returns the calls in source order. -/
example :
    wfPipeline samplePipeline = true ∧
    callEdges samplePipeline.body.calls = [(0, 1), (0, 2), (1, 2)] ∧
    depsError samplePipeline.id samplePipeline.body.calls = false ∧
    callCycle samplePipeline.body.calls = false ∧
    (sortCalls samplePipeline.id samplePipeline.body.calls).map (·.id) = [[0x41], [0x42], [0x43]] ∧
    (pPipeline (toksPipeline samplePipeline ++ [.reserved sPipeline])).map
        (fun x => (toksPipeline x.1, x.2)) =
      some (toksPipeline (normPipeline samplePipeline), [.reserved sPipeline]) ∧
    (pPipeline (toksPipelineRaw samplePipeline)).map (fun x => x.1.body.calls.map (·.id)) =
      some [[0x43], [0x42], [0x41]] ∧
    toksPipeline (normPipeline samplePipeline) ≠ toksPipelineRaw samplePipeline := by decide +kernel

/-- Negative witnesses.  (1) a dependency cycle: the calls are printed in source order;
(2) a pipeline that calls itself: `directDepsMap` returns an error, nothing is reordered although
`B` refers to the later `A`; (3) a call bound to its own output: the same; (4) a reference to an
id no call has is no dependency, nor is `self.A`; (5) with duplicate ids the LAST call wins
(`callMap`), and such a pipeline is outside `wfPipeline`; (6) a pipeline without calls is read
(second alternative of the production) and printed; (7) `return` is required, `retain` comes
after it, outputs come after inputs. -/
theorem pipeline_near_misses :
    let call (id : List UInt8) (refs : List (List UInt8)) : Call2 :=
      ⟨id, id, refs.map (fun r => ⟨[0x78], false, .ref false r [[0x6F]]⟩), none, noMods⟩
    let ids (cs : List Call2) : List (List UInt8) := cs.map (·.id)
    -- (1) call A(x = B.o)  call B(x = A.o)
    callCycle [call [0x41] [[0x42]], call [0x42] [[0x41]]] = true ∧
    depsError [0x50] [call [0x41] [[0x42]], call [0x42] [[0x41]]] = false ∧
    ids (sortCalls [0x50] [call [0x41] [[0x42]], call [0x42] [[0x41]]]) = [[0x41], [0x42]] ∧
    -- (2) call B(x = A.o)  call A()  call P()      inside pipeline P / inside pipeline Q
    depsError [0x50] [call [0x42] [[0x41]], call [0x41] [], call [0x50] []] = true ∧
    ids (sortCalls [0x50] [call [0x42] [[0x41]], call [0x41] [], call [0x50] []]) = [[0x42], [0x41], [0x50]] ∧
    ids (sortCalls [0x51] [call [0x42] [[0x41]], call [0x41] [], call [0x50] []]) = [[0x41], [0x42], [0x50]] ∧
    -- (3) call B(x = A.o)  call A(x = A.o)
    depsError [0x50] [call [0x42] [[0x41]], call [0x41] [[0x41]]] = true ∧
    ids (sortCalls [0x50] [call [0x42] [[0x41]], call [0x41] [[0x41]]]) = [[0x42], [0x41]] ∧
    -- (4) call B(x = Z.o)  /  self.A
    callEdges [call [0x42] [[0x5A]], call [0x41] []] = [] ∧
    callEdges [⟨[0x42], [0x42], [⟨[0x78], false, .ref true [0x41] []⟩], none, noMods⟩, call [0x41] []] = [] ∧
    -- (5) call B(x = A.o)  call A()  call A()
    callEdges [call [0x42] [[0x41]], call [0x41] [], call [0x41] []] = [(0, 2)] ∧
    distinctCallIds [call [0x42] [[0x41]], call [0x41] [], call [0x41] []] = false ∧
    -- (6) pipeline P() { return () }
    (pPipeline [.reserved sPipeline, .id [0x50], .punct 0x28, .punct 0x29, .punct 0x7B, .reserved sReturn,
      .punct 0x28, .punct 0x29, .punct 0x7D]).map (fun x => (x.1.body.calls.length, x.2)) = some (0, []) ∧
    wfPipeline ⟨[0x50], [], [], ⟨[], ⟨[], none⟩, none⟩⟩ = true ∧
    -- (7) pipeline P() { }   /   … { retain () return () }   /   pipeline P(out int r, in int a,) { return () }
    (pPipeline [.reserved sPipeline, .id [0x50], .punct 0x28, .punct 0x29, .punct 0x7B, .punct 0x7D]).isNone = true ∧
    (pPipeline [.reserved sPipeline, .id [0x50], .punct 0x28, .punct 0x29, .punct 0x7B, .id sRetain, .punct 0x28,
      .punct 0x29, .reserved sReturn, .punct 0x28, .punct 0x29, .punct 0x7D]).isNone = true ∧
    (pPipeline [.reserved sPipeline, .id [0x50], .punct 0x28, .reserved Martian.FormatDecl.sOut,
      .reserved Martian.FormatDecl.sInt, .id [0x72], .punct 0x2C, .reserved Martian.FormatDecl.sIn,
      .reserved Martian.FormatDecl.sInt, .id [0x61], .punct 0x2C, .punct 0x29, .punct 0x7B, .reserved sReturn,
      .punct 0x28, .punct 0x29, .punct 0x7D]).isNone = true := by decide +kernel

end PipelineDeclarations

/-! ## Whole files (model `Martian.FormatFile`; lemmas `Proofs/FormatFileParse.lean`, `Proofs/FormatFileLex.lean`)

`File` is the Go `Ast` after `NewAst` for a comment-free source: include directives, `UserTypes`,
`StructTypes`, `Callables.List` (stages and pipelines in source order), `Call`.  `fmtFile` is
`Ast.format(true)` (what `FormatSrcBytes` returns), `parseFile` is `UncheckedParse`.

COVERED by the theorems: every `File` whose parts are well formed (`wfFile`; every shape of
parameter list, struct, stage, pipeline and call the earlier sections cover), any number of each
kind of part; sources with the declarations of the four kinds in ANY order and any white space
(blank lines) between the pieces, the calls of every pipeline in any order, in the CANONICAL
SPELLING of the tokens (the spelling the printers of the parts use: `using (local = true,)` for a
call modifier, `mem_gb`, …).  NOT covered: comments (the modelled fragment has none: `DumpComments`
writes nothing); non-canonical spellings of tokens and other white space INSIDE a declaration
(covered by the respelling cases of the harness of the parts, and by the harness of this part on
the real code); `fixIncludes = true`; the expansion of `@include` (the included files are not
read by `UncheckedParse`/`FormatSrcBytes` with `fixIncludes = false`); invalid UTF-8 in an include
path (F6b). -/

section WholeFile
open Martian.FormatExp Martian.FormatDecl Martian.FormatCall2 Martian.FormatStage Martian.FormatPipe
open Martian.FormatFile
open Martian.Lexer (Bytes)

/-- **Round trip, whole file.**  For EVERY well-formed file (any include lines, filetypes, structs,
stages and pipelines, with or without a top-level call; at least a declaration or the call) the
reader accepts the printed text and returns the file up to the documented normalisations
(`normFile`: the calls of every pipeline in `topoSort` order, calls and `return` in normal form;
everything else exactly).
Domain: mem_gb / vmem_gb satisfying `gbRoundTrips` (`wfMB`, section ResourceDomain: every value below 256 GB, every whole number of GB up to 64 TB; exactly the values the real float32 reading of formatGB's text gives back): the range where the model's exact reading and the
real parser's float32 reading agree (`readGB32_inverts_formatGB`); above it the real formatter is not a
fixed point (F29, `formatGB_float32_witness`).  The same statement for the
reader with the REAL float32 reading: `parse32_format_file` below. -/
theorem parse_format_file (f : File) (hw : wfFile f = true) : parseFile (fmtFile f) = some (normFile f) :=
  parseFile_fmtFile f hw

/-- **Idempotent, whole file.**  Printing what was read gives the same text.
Domain: mem_gb / vmem_gb satisfying `gbRoundTrips` (`wfMB`, section ResourceDomain: every value below 256 GB, every whole number of GB up to 64 TB; exactly the values the real float32 reading of formatGB's text gives back): the range where the model's exact reading and the
real parser's float32 reading agree (`readGB32_inverts_formatGB`); above it the real formatter is not a
fixed point (F29, `formatGB_float32_witness`). -/
theorem format_file_idem (f : File) (hw : wfFile f = true) : fmtFile (normFile f) = fmtFile f :=
  fmtFile_norm f hw

/-- every stage of a well-formed file has `mem_gb` / `vmem_gb` below 256 GB in magnitude -/
theorem wfFile_below_256GB (f : File) (hw : wfFile f = true) : fileMB32Valid f = true :=
  fileMB32Valid_of_wf f hw

/-- **Round trip, whole file, with the REAL reading of `mem_gb` / `vmem_gb`** (`parseFile32`: the
literal rounded to the nearest float32 first, as the real parser does): on the domain `wfFile` it
returns the same file as the exact reader of `parse_format_file`. -/
theorem parse32_format_file (f : File) (hw : wfFile f = true) : parseFile32 (fmtFile f) = some (normFile f) :=
  parseFile32_fmtFile f hw (fileMB32Valid_of_wf f hw)

/-- the normal form is well formed and a fixed point -/
theorem normFile_stable (f : File) (hw : wfFile f = true) :
    wfFile (normFile f) = true ∧ normFile (normFile f) = normFile f :=
  normFile_stable' f hw

/-- `format ∘ parse ∘ format = format` -/
theorem format_parse_format_file (f g : File) (hw : wfFile f = true)
    (hg : parseFile (fmtFile f) = some g) : fmtFile g = fmtFile f := by
  rw [parse_format_file f hw] at hg
  injection hg with hg
  rw [← hg]
  exact format_file_idem f hw

/-- **The reader accepts the declarations in any order; `NewAst` regroups them.**  A source that
consists of include lines, well-formed declarations `ds` of the four kinds in ANY order (each in
the printer's spelling, pipelines with their calls in `topoSort` order) and optionally the call,
with any white space `w k` after piece number `k`, reads as the normal form of the file which
`NewAst` builds (`distribute`: all filetypes, all structs, all callables, each group in source
order).  Domain: `mem_gb` / `vmem_gb` of every stage below 256 GB in magnitude (`wfMB`, F29). -/
theorem parse_source_any_order (w : Nat → Bytes) (hws : ∀ k, (w k).all isSp = true)
    (incs : List Bytes) (ds : List Decl) (call : Option Call2) (hw : wfSource incs ds call = true) :
    parseFile (fmtSource false w incs ds call) = some (normFile (distribute incs ds call)) :=
  parseFile_fmtSource_sorted w hws incs ds call hw

/-- **Formatting preserves the program, for every accepted comment-free source in canonical token
spelling.**  Let the source hold the declarations in any order and the calls of every pipeline in
any order (`fmtSource true`).  Then (1) the reader accepts it and returns `g`: the distributed
file with every pipeline's calls where they stand, calls in normal form; (2) the formatter's
output for it, `fmtFile g`, is the printed form of the distributed file; (3) that output reads as
the normal form of the distributed file — the same includes, filetypes, structs and stages, the
same pipelines up to the order of their calls (`normPipeline`), the same call; and (4) formatting
again changes nothing.
Domain (`wfSource`: every declaration well formed): mem_gb / vmem_gb satisfying `gbRoundTrips` (`wfMB`, section ResourceDomain: every value below 256 GB, every whole number of GB up to 64 TB; exactly the values the real float32 reading of formatGB's text gives back): the range where the model's exact reading and the
real parser's float32 reading agree (`readGB32_inverts_formatGB`); above it the real formatter is not a
fixed point (F29, `formatGB_float32_witness`). -/
theorem format_preserves_program (w : Nat → Bytes) (hws : ∀ k, (w k).all isSp = true)
    (incs : List Bytes) (ds : List Decl) (call : Option Call2) (hw : wfSource incs ds call = true) :
    let g := distribute incs (ds.map readDecl) (call.map normCall2)
    parseFile (fmtSource true w incs ds call) = some g ∧
    fmtFile g = fmtFile (distribute incs ds call) ∧
    parseFile (fmtFile g) = some (normFile (distribute incs ds call)) ∧
    fmtFile (normFile (distribute incs ds call)) = fmtFile g := by
  have hwf := wfFile_distribute incs ds call hw
  have h2 := fmtFile_read incs ds call hw
  refine ⟨parseFile_fmtSource_raw w hws incs ds call hw, h2, ?_, ?_⟩
  · rw [h2]; exact parseFile_fmtFile _ hwf
  · rw [h2]; exact fmtFile_norm _ hwf

/-! ### definitional unfoldings (documentation of the model, not guarantees) -/
/-- a well-formed source distributes to a well-formed file, and the declarations of a file in
printing order distribute back to it -/
theorem distribute_facts (incs : List Bytes) (ds : List Decl) (call : Option Call2) (f : File) :
    (wfSource incs ds call = true → wfFile (distribute incs ds call) = true) ∧
    distribute f.includes (declsOf f) f.call = f :=
  ⟨wfFile_distribute incs ds call, distribute_declsOf f⟩

/-! ### guarantees (continued) -/
/-- the printed file lexes as `toksFile f`, whatever text follows -/
theorem lex_format_file (f : File) (rest : Bytes) (hw : wfFile f = true) :
    lexAll (fmtFile f ++ rest) = (lexAll rest).map (toksFile f ++ ·) :=
  lexAll_of_lexOK (lexOK_fmtFile f hw) rest

/-- the token-level reader on the tokens of the pieces of a source -/
theorem read_file (raw : Bool) (incs : List Bytes) (ds : List Decl) (call : Option Call2)
    (hw : wfSource incs ds call = true) :
    pFile (toksIncludes incs ++ (toksDecls raw ds ++ toksCallOpt call)) =
      some (distribute incs (ds.map (readDeclB raw)) (call.map normCall2)) :=
  pFile_toks raw incs ds call hw

/-! ### definitional unfoldings (documentation of the model, not guarantees) -/
/-- `@include` is one token when a non-word byte (or the end of the input) follows -/
theorem lex_include (rest : Bytes) (hr : WordEnd rest) :
    lexAll (sAtInclude ++ rest) = (lexAll rest).map (Tok.reserved sAtInclude :: ·) :=
  lexOK_atInclude rest hr

/-! ### guarantees (continued) -/
/-- ASCII text as bytes (for the examples) -/
def ascii (s : String) : List UInt8 := s.toList.map fun c => UInt8.ofNat c.toNat

/-- the parts of the example file: `filetype json;`, `filetype tar.gz;`, `struct S(int a "h", …)`,
`struct T(map<S[]>[] m,)`, the stage `exampleStage` (split, all five resources, retain), the
pipeline `samplePipeline` (its three calls all move), the call
`call volatile P(a = 1, * = self,) using (local = true,)` -/
def sampleDecls : List Decl :=
  [.struct ⟨[0x53], [⟨⟨[sInt], 0, 0⟩, [0x61], [0x68], []⟩, ⟨⟨[[0x6A, 0x73, 0x6F, 0x6E]], 1, 0⟩, [0x62], [], [0x6F]⟩]⟩,
   .pipeline samplePipeline,
   .filetype ⟨[[0x6A, 0x73, 0x6F, 0x6E]]⟩,
   .stage exampleStage,
   .struct ⟨[0x54], [⟨⟨[[0x53]], 1, 2⟩, [0x6D], [], []⟩]⟩,
   .filetype ⟨[[0x74, 0x61, 0x72], [0x67, 0x7A]]⟩]

def sampleCall : Call2 :=
  ⟨[0x50], [0x50], [⟨[0x61], false, .int 1⟩], some (.ref true [] []),
    ⟨false, false, true, [(sLocal, .bool true)]⟩⟩

def sampleIncs : List Bytes := [ascii "dir/a.mro"]

def sampleFile : File := distribute sampleIncs sampleDecls (some sampleCall)

/-- non-vacuity: a well-formed file with every kind of part (an include, two filetypes, two
structs, a split stage with resources and retain, a pipeline whose three calls get reordered, a
top-level call with a keyword modifier and a `using` block).  Its declarations stand in the
source in the order struct, pipeline, filetype, stage, struct, filetype, separated by blank
lines; the reader regroups them (2 filetypes, 2 structs, 2 callables with the pipeline first);
the source text differs from the formatted text; formatting what was read from the source gives
`fmtFile sampleFile`; the formatted text reads back as a file that prints to the same text and
has the tokens of the normal form (the calls of the pipeline are reordered); the blank lines of `Ast.format` are where the Go code puts them
(the head of the text is shown). -/
example :
    wfSource sampleIncs sampleDecls (some sampleCall) = true ∧ wfFile sampleFile = true ∧
    (sampleFile.filetypes.length, sampleFile.structs.length, sampleFile.callables.length) = (2, 2, 2) ∧
    (parseFile (fmtSource true (fun _ => [0x0A]) sampleIncs sampleDecls (some sampleCall))).map fmtFile =
      some (fmtFile sampleFile) ∧
    fmtSource true (fun _ => [0x0A]) sampleIncs sampleDecls (some sampleCall) ≠ fmtFile sampleFile ∧
    (parseFile (fmtFile sampleFile)).map (fun g => (fmtFile g, toksFile g)) =
      some (fmtFile sampleFile, toksFile (normFile sampleFile)) ∧
    toksDecls true (declsOf sampleFile) ≠ toksDecls false (declsOf sampleFile) ∧
    (fmtFile sampleFile).take 81 =
      ascii "@include \"dir/a.mro\"\n\nfiletype json;\nfiletype tar.gz;\n\nstruct S(\n    int    a \"h\"" := by
  set_option maxRecDepth 100000 in decide +kernel

/-- the blank lines of `Ast.format`, case by case: nothing before the first block whatever it is;
one blank line between blocks; filetypes on consecutive lines; a blank line between structs and
between callables; a blank line before the call iff anything precedes it. -/
example :
    let ft (n : String) : Filetype := ⟨[ascii n]⟩
    let st (n : String) : Struct := ⟨ascii n, [⟨⟨[sInt], 0, 0⟩, [0x78], [], []⟩]⟩
    let pl (n : String) : Callable := .pipeline ⟨ascii n, [], [], ⟨[], ⟨[], none⟩, none⟩⟩
    let cl : Call2 := ⟨[0x50], [0x50], [], none, noMods⟩
    fmtFile ⟨[], [ft "a", ft "b"], [], [], none⟩ = ascii "filetype a;\nfiletype b;\n" ∧
    fmtFile ⟨[ascii "i", ascii "j"], [ft "a"], [], [], none⟩ =
      ascii "@include \"i\"\n@include \"j\"\n\nfiletype a;\n" ∧
    fmtFile ⟨[], [], [st "S", st "T"], [], none⟩ = ascii "struct S(\n    int x,\n)\n\nstruct T(\n    int x,\n)\n" ∧
    fmtFile ⟨[ascii "i"], [], [st "S"], [], none⟩ = ascii "@include \"i\"\n\nstruct S(\n    int x,\n)\n" ∧
    fmtFile ⟨[], [ft "a"], [st "S"], [], some cl⟩ =
      ascii "filetype a;\n\nstruct S(\n    int x,\n)\n\ncall P()\n" ∧
    fmtFile ⟨[], [], [], [pl "P", pl "Q"], some cl⟩ =
      ascii "pipeline P(\n)\n{\n    return (\n    )\n}\n\npipeline Q(\n)\n{\n    return (\n    )\n}\n\ncall P()\n" ∧
    fmtFile ⟨[], [ft "a"], [], [pl "P"], none⟩ =
      ascii "filetype a;\n\npipeline P(\n)\n{\n    return (\n    )\n}\n" ∧
    fmtFile ⟨[], [], [], [], some cl⟩ = ascii "call P()\n" ∧
    fmtFile ⟨[ascii "i"], [], [], [], some cl⟩ = ascii "@include \"i\"\n\ncall P()\n" := by
  set_option maxRecDepth 100000 in decide +kernel

/-- Negative witnesses.  (1) the empty file and a file of white space are rejected (`file` has no
empty alternative), and the file without parts — which prints as the empty text — is outside
`wfFile`; (2) so is a file that consists of `@include` lines only (no alternative `includes`
alone); (3) a file that is only a value expression is not a file although `ParseValExp` reads it
(the `val_exp` alternative sets `exp`, `yaccParse` then returns an error); (4) declarations after
the top-level call are rejected, and so is a second call; (5) `@include` after a declaration is
rejected; (6) `@include` must be followed by a string; `@includex` and a lone `@` are not tokens;
`@include"a"` (no space) is fine; (7) accepted: a call alone; includes and a call; a declaration
and a call; `filetype` and `struct` are not reserved: `struct filetype(int struct,)` is a struct. -/
theorem file_near_misses :
    parseFile [] = none ∧ parseFile (ascii "\n \n") = none ∧
    fmtFile ⟨[], [], [], [], none⟩ = [] ∧ wfFile ⟨[], [], [], [], none⟩ = false ∧
    parseFile (ascii "@include \"a.mro\"\n") = none ∧ wfFile ⟨[ascii "a.mro"], [], [], [], none⟩ = false ∧
    parseFile (ascii "[1]") = none ∧ (parseValExp (ascii "[1]")).isSome = true ∧
    parseFile (ascii "1\n") = none ∧ parseFile (ascii "@include \"a\"\n[1]") = none ∧
    parseFile (ascii "call A()\nfiletype a;\n") = none ∧
    (parseFile (ascii "filetype a;\ncall A()\n")).isSome = true ∧
    parseFile (ascii "call A()\ncall B()\n") = none ∧
    parseFile (ascii "filetype a;\n@include \"a\"\n") = none ∧
    (parseFile (ascii "@include \"a\"\nfiletype a;\n")).isSome = true ∧
    parseFile (ascii "@include\nfiletype a;\n") = none ∧
    parseFile (ascii "@include a\nfiletype a;\n") = none ∧
    lexAll (ascii "@includex \"a\"\nfiletype a;\n") = none ∧ lexAll (ascii "@ include") = none ∧
    lexAll (ascii "@include_") = none ∧ lexAll (ascii "@includ") = none ∧
    lexAll (ascii "@include") = some [.reserved sAtInclude] ∧
    (parseFile (ascii "@include\"a\"filetype a;")).map (·.includes) = some [ascii "a"] ∧
    (parseFile (ascii "call A()\n")).isSome = true ∧
    (parseFile (ascii "@include \"a\"\n@include \"b\"\ncall A()\n")).map (·.includes.length) = some 2 ∧
    (parseFile (ascii "struct filetype(int struct,)")).map (·.structs) =
      some [⟨sFiletype, [⟨⟨[sInt], 0, 0⟩, sStruct, [], []⟩]⟩] ∧
    parseFile (ascii "filetype a\nfiletype b;") = none ∧ parseFile (ascii "filetype;") = none ∧
    parseFile (ascii "struct S()") = none := by
  set_option maxRecDepth 100000 in decide +kernel

end WholeFile

/-! ## value expressions: ACCEPTED SOURCE TEXTS

The theorems of section ValueExpressions quantify over expressions satisfying `wf`.  This
section closes the gap to "every source text the parser accepts": the RANGE of the tokenizer
(`range_lex`, `numTok_prefix`) and of the reader (`parse_produces_wfRaw`: no hypothesis at all)
show that whatever `ParseValExp` returns is `wf` — up to exactly the two recorded findings:
F6b (a string literal with an escape for an invalid UTF-8 byte, `"\xff"`) and F26 (a float
literal denoting negative zero, `-0.0`), which are GENUINE exceptions of the real code (negative
witnesses below), so they appear as the hypotheses `strsValid e` and `noNegZero e`.

Model: `Martian.FormatExpText`.  `parseValExp` is the raw reader (float leaves keep the token
text); Go builds a `float64` and prints it with `strconv.AppendFloat(v, 'g', -1, 64)`.  strconv is
trusted: `g` stands for `fun t => FormatFloat(ParseFloat(t, 64), 'g', -1, 64)` and only `GOK g` is
assumed about it; `parseValExpG g` = `Parser.ParseValExp` with the float leaves as Go holds them. -/
section AcceptedTexts
open Martian.FormatExp

/-- **Range of the tokenizer.**  For EVERY input the tokenizer accepts, every token it returns is
in `tokOK`: a NUM_INT text is, on its own, one NUM_INT token whose value `parseInt` accepts (an
`int64`); a NUM_FLOAT text is, on its own, one NUM_FLOAT token the range check accepts; a
LITSTRING text is unquoted by `unquoteBytes` without a panic; an `id` text is an identifier
(`isIdent`: not a reserved word); a punctuation byte is one of the 14. -/
theorem range_lex (src : List UInt8) (ts : List Tok) (h : lexAll src = some ts) :
    ∀ tok ∈ ts, tokOK tok = true :=
  range_lexAll src ts h

/-- **Prefix lemma.**  The numeric token found at the head of ANY text is, run on its own, the
same token (the regexp rules end at a `\b`; re-run on the match alone they take the same
branches), so the text kept in a `.float`/`.int` token satisfies `isFloatTok` / is one NUM_INT. -/
theorem numTok_prefix (b t : List UInt8) :
    (Martian.Lexer.numTok false b = .float t → isFloatTok t = true) ∧
    (Martian.Lexer.numTok false b = .int t → Martian.Lexer.numTok false t = .int t) :=
  ⟨fun h => by simp [isFloatTok, numTok_prefix_float h], fun h => numTok_prefix_int h⟩

/-- non-vacuity: the float token of `1.5.3,` is `1.5`, of `2e5+3` is `2e5`; the int token of
`007]` is `007` — followed by a byte that is not a terminator of the printer -/
example :
    Martian.Lexer.numTok false [0x31, 0x2E, 0x35, 0x2E, 0x33, 0x2C] = .float [0x31, 0x2E, 0x35] ∧
    Martian.Lexer.numTok false [0x32, 0x65, 0x35, 0x2B, 0x33] = .float [0x32, 0x65, 0x35] ∧
    Martian.Lexer.numTok false [0x30, 0x30, 0x37, 0x5D] = .int [0x30, 0x30, 0x37] := by decide +kernel

/-- **Range of the reader** (the lemma the round-trip theorems were missing; NO exception
hypothesis).  For EVERY source text the raw reader accepts, the expression it returns is in
`wfRaw`: integers fit `int64`; every float leaf is the text of a NUM_FLOAT token; map and struct
keys are strictly ascending whatever their order and multiplicity in the source (`mkMap`); struct
keys and reference components are identifiers; references have one of the shapes `X`, `X.a.b`,
`X.default`, `self.x`, `self.x.a`; and the top level is not a reference (`isVal`). -/
theorem parse_produces_wfRaw (src : List UInt8) (e : Exp) (h : parseValExp src = some e) :
    wfRaw e = true ∧ isVal e = true :=
  parseValExp_range src e h

/-- `GOK` is satisfiable: the identity (a reader that keeps the token text: both clauses hold
trivially), and the sample `gSample` which does what strconv does on `1e3` (↦ `1000`, a canonical
integer) and on `-0.0` (↦ `-0`, the third alternative of clause `range`) -/
theorem gok_instances : GOK id ∧ GOK gSample := ⟨gok_id, gok_gSample⟩

/-- **The parser produces well-formed expressions** — partial: the FULL statement is "for every
source text `ParseValExp` accepts, the expression it returns satisfies `wf`" (then
`parse_format_exp` and `format_exp_idem` apply to every accepted text).  The full statement is
FALSE for the code as it is; the two hypotheses `hs`, `hz` are exactly the recorded findings:
F6b (`strsValid`: `"\xff"` is accepted and denotes a string that is not valid UTF-8; the printer
rewrites the byte to U+FFFD — `invalid_byte_not_preserved`, `accepted_text_invalid_utf8` below)
and F26 (`noNegZero`: `-0.0` is accepted, printed `-0`, read back as the integer 0 —
`negative_zero_not_wf`, `accepted_text_negative_zero` below).  Everything else the parser can
return is covered: `g` is any canonicaliser with `GOK g` (what is trusted about strconv). -/
theorem parse_produces_wf_partial (g : List UInt8 → List UInt8) (hg : GOK g) (src : List UInt8) (e : Exp)
    (h : parseValExpG g src = some e) (hs : strsValid e = true) (hz : noNegZero e = true) :
    wf e = true ∧ isVal e = true := by
  obtain ⟨e0, h0, rfl⟩ := parseValExpG_inv h
  have ⟨hr, hv0⟩ := parseValExp_range src e0 h0
  exact ⟨wf_canon g hg e0 hr hs hz, by rw [isVal_canon]; exact hv0⟩

/-- **Formatting preserves every accepted text** — partial in the same sense (hypotheses `hs`, `hz`
= findings F6b, F26; without them the statement is FALSE for the code as it is, see the two
negative witnesses below).  For every source text the parser accepts (any spacing, comments, key
order, duplicate keys, leading zeros, trailing commas, escapes): the formatter's output is
accepted; it denotes the same expression up to `norm` (an integral float prints without
`.`/`e` and reads back as an int; `norm` changes nothing else in an expression that was read); the
output is a fixed point of the formatter; and formatting the re-read expression is accepted again
with the same result. -/
theorem format_preserves_accepted_exp_partial (g : List UInt8 → List UInt8) (hg : GOK g)
    (src : List UInt8) (e : Exp) (h : parseValExpG g src = some e) (hs : strsValid e = true)
    (hz : noNegZero e = true) :
    parseValExpG g (fmt [] e) = some (norm e) ∧ fmt [] (norm e) = fmt [] e ∧
      parseValExpG g (fmt [] (norm e)) = some (norm e) := by
  obtain ⟨e0, h0, rfl⟩ := parseValExpG_inv h
  have ⟨hr, hv0⟩ := parseValExp_range src e0 h0
  have hw := wf_canon g hg e0 hr hs hz
  have hv : isVal (canon g e0) = true := by rw [isVal_canon]; exact hv0
  have hfix := canon_norm_fixed g hg e0 hr hw
  have h1 : parseValExpG g (fmt [] (canon g e0)) = some (norm (canon g e0)) := by
    simp only [parseValExpG, parse_format_exp _ hw hv, Option.map_some, hfix]
  refine ⟨h1, fmt_norm _ [] hw, ?_⟩
  rw [fmt_norm _ [] hw]
  exact h1

/-- a source text with non-canonical spacing, unsorted and duplicate keys (`"b"`, `"a"` twice: the
later entry wins), a comment, leading zeros (`007` is the int 7), a float with exponent (`1e3`,
which Go holds as 1000), escapes, nested empty collections, a struct literal with unsorted fields
and references, trailing commas -/
def sampleText : List UInt8 :=
  ascii "{ \"b\" : 007 ,\"a\":[ ],  # c\n \"b\": [1e3, {}, [[]], -12,\"\\t\\u0041\"], \"a\": 2.5, \"\": {x:{},aa : self.p.q , b:[ X.default,Y.o ]}, }"

/-- non-vacuity: the hypotheses of the two theorems hold for `sampleText` (with `g = gSample`, and
with `g = id`), and the formatted text is the canonical one -/
example :
    (parseValExpG gSample sampleText).map (fun e => (strsValid e, noNegZero e)) = some (true, true) ∧
    (parseValExpG id sampleText).map (fun e => (strsValid e, noNegZero e)) = some (true, true) ∧
    (parseValExpG gSample sampleText).map (fmt []) = some (ascii
      "{\n    \"\": {\n        aa: self.p.q,\n        b: [\n            X.default,\n            Y.o,\n        ],\n        x:  {},\n    },\n    \"a\": 2.5,\n    \"b\": [\n        1000,\n        {},\n        [[]],\n        -12,\n        \"\\tA\",\n    ],\n}") := by
  set_option maxRecDepth 100000 in decide +kernel

/-- Negative witness F6b on an ACCEPTED TEXT: `"\xff"` is accepted, the string it denotes is the
single byte FF (`strsValid` fails); the printer writes `"\ufffd"`, which reads back as U+FFFD —
another string.  So "format preserves every accepted text" is false without `strsValid`. -/
theorem accepted_text_invalid_utf8 :
    (match parseValExp (ascii "\"\\xff\"") with
      | some (.str s) => s == [0xFF] && !strsValid (.str s) && fmt [] (.str s) == ascii "\"\\ufffd\""
      | _ => false) = true ∧
    (match parseValExp (ascii "\"\\ufffd\"") with
      | some (.str s) => s == [0xEF, 0xBF, 0xBD]
      | _ => false) = true := by
  set_option maxRecDepth 100000 in decide +kernel

/-- Negative witness F26 on an ACCEPTED TEXT: `-0.0` is accepted; Go holds the float negative
zero, which prints as `-0` (`noNegZero` fails); `-0` is accepted and is the INTEGER 0, which prints
as `0`: the formatter's output is not a fixed point and does not denote the same expression.  So
the statement is false without `noNegZero`. -/
theorem accepted_text_negative_zero :
    (match parseValExpG gSample (ascii "-0.0") with
      | some (.float t) => t == sNegZero && !noNegZero (.float t) && fmt [] (.float t) == ascii "-0"
      | _ => false) = true ∧
    (match parseValExpG gSample (ascii "-0") with
      | some (.int i) => i == 0 && fmt [] (.int i) == ascii "0"
      | _ => false) = true := by
  set_option maxRecDepth 100000 in decide +kernel

end AcceptedTexts

/-! ## declarations below pipelines: ACCEPTED SOURCE TEXTS

The theorems of sections Declarations, StageClauses and StageDeclarations quantify over ASTs
satisfying `wfFiletype` / `wfStruct` / `wfParam` / `wfStage`.  This section closes the gap to "every
source text the parser accepts", as section AcceptedTexts does for value expressions: the RANGE
of the readers on the range of the tokenizer (`range_lex`) — whatever `parseFiletype`,
`parseStruct`, `parseParams`, `parseStage` return for ANY source text is well-formed, up to exactly
the recorded exceptions, which are GENUINE exceptions of the real code and appear as Bool
hypotheses (negative witnesses below; the driver evaluates them on what the real parser returns,
harness/c09decl.go, c09stage.go, key `C09:accepted-decl-not-wf`):

* F6b — `declStrsValid` / `paramsStrsValid` / `stageStrsValid`: a help text, out name, `special`
  value or src command written with an escape for an invalid UTF-8 byte (`"\xff"`);
* F29 — `stageMB32Valid` (= `wfMB` on both values): `mem_gb` / `vmem_gb` of 256 GB or more in
  magnitude, where the real parser's float32 reading of what `formatGB` prints can differ from the
  exact reading of the model.  This is the resource bound of `wfStage`, hence a hypothesis of the
  theorems about BOTH readers.  F25 — `stageMBValid`: 2^53 GB or more (`formatGB`'s
  `int64(gb*1024)`) — is subsumed (`stageMBValid_of_32`) and kept as a definition only.

Model: `Martian.FormatDeclText`.  `threads`: the model reader keeps the token text, Go stores
`roundUpTo(float32(text), 100)` and prints it with `%g`; strconv/fmt and `roundUpTo` are trusted:
`h` stands for `fun t => Sprintf("%g", roundUpTo(float_32(t), 100))` and only `HOK h` is assumed
(clause `fixed` is the idempotence of `roundUpTo` on its own output, fix 1a6dbe9, which the harness
checks exhaustively on 0.01 … 64.00, key `C09:threads-hundredths`); `parseStageH h` = the real
parser's `Stage`.

`mem_gb` / `vmem_gb` (F29, stated, not hidden): `parseStage` reads them by `readGBTok`, the EXACT
decimal value of the literal rounded up to 1/1024; the real parser rounds the literal to the nearest
float32 first (`readGB32Tok`; `0.5000000001` is 512 MB for the real parser, 513 MB exactly).  BOTH
readers are covered, under the SAME hypothesis `stageMB32Valid` (below 256 GB in magnitude, the
domain where the two readings of a printed value agree — `readGB32_inverts_formatGB`, 262 144 values
by kernel evaluation — and the domain of `wfStage`): `parseStage` (`…_stage_partial`) and
`parseStage32` = the same reader with `readGB32Tok` (`…_stage32_partial`; this is the statement
about the real code).  From 256 GB + 44 MB on the real formatter's output does NOT read back as the
same value: `accepted_stage_float32_resource`, finding F29.  The harness ties `readGB32` to the real
parser on every literal and every printed value it samples (streams `C09.readgb` / `C09.readgb32`,
harness/c09res.go). -/
section AcceptedDeclTexts
open Martian.FormatExp Martian.FormatDecl Martian.FormatRes Martian.FormatStage
open Martian.Lexer (Bytes)

/-- **Range of the `filetype` reader** — no exception: for EVERY source text `parseFiletype`
accepts, the declaration it returns is well-formed (its components come from `id` tokens, which
are identifiers by `range_lex`). -/
theorem parse_produces_wf_filetype (src : Bytes) (t : Filetype) (h : parseFiletype src = some t) :
    wfFiletype t = true :=
  parseFiletype_range src t h

/-- **Range of the `struct` reader** — partial: the hypothesis `hs` is finding F6b (a help text or
out name `"\xff"` is accepted and denotes a string that is not valid UTF-8:
`accepted_struct_invalid_utf8` below); nothing else the reader returns is outside `wfStruct`: the
ids are identifiers, there is at least one member, type names are builtin keywords (`map` only
without argument) or dotted identifiers, array dimensions ≤ 32767 and a map dimension ≤ 32767
(the reader rejects beyond, like the grammar actions: `arr_list` at 32767, and the inner dimensions
of a typed map at 32767 since fix e6bd8cc; reader and `wfType` agree at the boundary). -/
theorem parse_produces_wf_struct_partial (src : Bytes) (s : Struct) (h : parseStruct src = some s)
    (hs : declStrsValid s = true) : wfStruct s = true :=
  parseStruct_range src s h hs

/-- **Range of the parameter-block reader** — partial (`hs` = F6b): the block is a list of inputs
followed by a list of outputs, each parameter well-formed (`in_param_list out_param_list`). -/
theorem parse_produces_wf_params_partial (src : Bytes) (ps : List Param) (h : parseParams src = some ps)
    (hs : paramsStrsValid ps = true) :
    ∃ ins outs, ps = ins ++ outs ∧ ins.all Martian.FormatDecl.wfParam = true ∧
      outs.all Martian.FormatDecl.wfParam = true ∧
      ins.all (fun p => !p.out) = true ∧ outs.all (fun p => p.out) = true :=
  parseParams_range src ps h hs

/-- **Range of the `stage` reader** (NO exception hypothesis).  For EVERY source text the model
reader accepts, the stage it returns is in `stageRaw`: `wfStage` without the validity of the
strings and the `int64` bound on `mem_gb` / `vmem_gb`, and with the threads text a NUM_INT or
NUM_FLOAT token that `float_32` accepts (`threadsTokOK`): ids and retained ids are identifiers,
parameters are of the mode of their list and shaped as the grammar says, a stage that is not split
has no chunk parameters, and every field of the src command is free of white space
(`strings.Fields`, ASCII and Unicode). -/
theorem parse_produces_stageRaw (src : Bytes) (s : Stage) (h : parseStage src = some s) :
    stageRaw s = true :=
  parseStage_range src s h

/-- `HOK` is satisfiable: `hSample` does what Go does on `0.50` (↦ `0.5`), `1e0` (↦ `1`), `007`
(↦ `7`) and leaves every text in printed form alone -/
theorem hok_instance : HOK hSample := hok_hSample

/-- **The parser produces well-formed stages** — partial: `hs` is finding F6b, `hm` is F29's range
(`mem_gb`, `vmem_gb` below 256 GB in magnitude: the resource bound of `wfStage`, the domain where the
exact reading of this model reader is the reading of the real parser; `accepted_stage_float32_resource`
below).  F25 is subsumed (`accepted_stage_huge_resource` below: `mem_gb = 9007199254740992` is
accepted; the real `formatGB` prints `-9007199254740992` for it).  Everything else the parser can return is covered:
`h` is any canonicaliser with `HOK h` (what is trusted about `roundUpTo`, `float32` and `%g`);
without `h` the statement is false (`threads = 007` is accepted: `accepted_stage_threads_text`). -/
theorem parse_produces_wf_stage_partial (h : Bytes → Bytes) (hh : HOK h) (src : Bytes) (s : Stage)
    (hp : parseStageH h src = some s) (hs : stageStrsValid s = true) (hm : stageMB32Valid s = true) :
    wfStage s = true :=
  parseStageH_wf h hh src s hp hs hm

/-- **Formatting preserves every accepted `filetype` text**: for every source text the reader
accepts (any white space and comments between the tokens, also around the dots) the formatter's
output is accepted and denotes the same declaration; hence it is a fixed point. -/
theorem format_preserves_accepted_filetype (src : Bytes) (t : Filetype) (h : parseFiletype src = some t) :
    parseFiletype (fmtFiletype t) = some t ∧
    ∀ t', parseFiletype (fmtFiletype t) = some t' → fmtFiletype t' = fmtFiletype t := by
  have h1 := parseFiletype_fmt_accepted src t h
  refine ⟨h1, fun t' h2 => ?_⟩
  rw [h1] at h2; injection h2 with h2; rw [h2]

/-- **Formatting preserves every accepted `struct` text** — partial (`hs` = F6b; without it the
statement is FALSE for the code as it is: `accepted_struct_invalid_utf8`). -/
theorem format_preserves_accepted_struct_partial (src : Bytes) (s : Struct) (h : parseStruct src = some s)
    (hs : declStrsValid s = true) :
    parseStruct (fmtStruct s) = some s ∧
    ∀ s', parseStruct (fmtStruct s) = some s' → fmtStruct s' = fmtStruct s := by
  have h1 := parseStruct_fmt_accepted src s h hs
  refine ⟨h1, fun s' h2 => ?_⟩
  rw [h1] at h2; injection h2 with h2; rw [h2]

/-- **Formatting preserves every accepted parameter block** — partial (`hs` = F6b), printed with
ANY column widths, in particular those `getWidths` computes for the block (`widths ps`): the
output is accepted, reads as the same parameters and is a fixed point. -/
theorem format_preserves_accepted_params_partial (src : Bytes) (ps : List Param)
    (h : parseParams src = some ps) (hs : paramsStrsValid ps = true) (mw tw iw hw : Nat) :
    parseParams (fmtParams mw tw iw hw ps) = some ps ∧
    parseParams (fmtParams (widths ps).1 (widths ps).2.1 (widths ps).2.2.1 (widths ps).2.2.2 ps) = some ps ∧
    ∀ ps', parseParams (fmtParams mw tw iw hw ps) = some ps' →
      fmtParams mw tw iw hw ps' = fmtParams mw tw iw hw ps := by
  have h1 := parseParams_fmt_accepted src ps h hs mw tw iw hw
  refine ⟨h1, parseParams_fmt_accepted src ps h hs _ _ _ _, fun ps' h2 => ?_⟩
  rw [h1] at h2; injection h2 with h2; rw [h2]

/-- **Formatting preserves every accepted `stage` text** — partial: `hs` = F6b, `hm` = F29's range
(below 256 GB in magnitude; F25 subsumed); this is
the reader with the EXACT reading of `mem_gb` / `vmem_gb` (section header; the real reading, under
the same hypotheses: `format_preserves_accepted_stage32_partial`).  For every
source text the parser accepts (any spacing, comments between tokens, `split using (`, resource
entries in any order, repeated, in either spelling, numerals in any spelling): the formatter's
output is accepted, denotes the same stage, and whatever it is read as prints to the same text. -/
theorem format_preserves_accepted_stage_partial (h : Bytes → Bytes) (hh : HOK h) (src : Bytes) (s : Stage)
    (hp : parseStageH h src = some s) (hs : stageStrsValid s = true) (hm : stageMB32Valid s = true) :
    parseStageH h (fmtStage s) = some s ∧
    ∀ s', parseStageH h (fmtStage s) = some s' → fmtStage s' = fmtStage s :=
  parseStageH_fmtStage h hh src s hp hs hm

/-! ### the same with `mem_gb` / `vmem_gb` as the REAL parser reads them (float32) -/

/-- F29's range is inside F25's (256 GB < 2^53 GB) -/
theorem stageMB32_implies (s : Stage) (hm : stageMB32Valid s = true) : stageMBValid s = true :=
  stageMBValid_of_32 s hm

/-- **The real reading inverts `formatGB` below 256 GB**: for `|mb| < 256·1024` the text `formatGB`
prints, rounded to the nearest float32 and then up to 1/1024 (`readGB32` = `tryParseFloat32` +
`roundUpTo`), is `mb` again, and the exact reader agrees.  (262 144 values: the text is reduced to
`f32MB (f32Round (I·10^k + D) (10^k))`, evaluated by the kernel in 64 slices.)  Sharp:
`formatGB_float32_witness` is 256 GB + 44 MB. -/
theorem readGB32_inverts_formatGB (mb : Int) (hb : mb.natAbs < 262144) :
    readGB32 (fmtGB mb) = some mb ∧ readGB32 (fmtGB mb) = readGB (fmtGB mb) :=
  readGB32_fmtGB mb hb

/-- definitional: `parseStage` is the parameterised stage reader with the exact reading of the two
values; `parseStage32` is the same reader with the real one -/
theorem parseStage_readers (src : Bytes) :
    parseStage src = (lexAll src).bind (pStageAllR readGBTok) ∧
    parseStage32 src = (lexAll src).bind (pStageAllR readGB32Tok) :=
  ⟨parseStage_eq src, rfl⟩

/-- **Range of the stage reader with the real reading** (no exception hypothesis) -/
theorem parse32_produces_stageRaw (src : Bytes) (s : Stage) (h : parseStage32 src = some s) :
    stageRaw s = true :=
  parseStage32_range src s h

/-- **The real parser produces well-formed stages** — partial: `hs` = F6b; `hm` (`mem_gb`, `vmem_gb`
below 256 GB in magnitude) is the resource bound of `wfStage` (`wfMB`) and what
`format_preserves_accepted_stage32_partial` needs (F29); F25 is subsumed (`stageMB32_implies`). -/
theorem parse_produces_wf_stage32_partial (h : Bytes → Bytes) (hh : HOK h) (src : Bytes) (s : Stage)
    (hp : parseStage32H h src = some s) (hs : stageStrsValid s = true) (hm : stageMB32Valid s = true) :
    wfStage s = true :=
  parseStage32H_wf h hh src s hp hs hm

/-- **Formatting preserves every stage text the REAL parser accepts** — partial: `hs` = F6b, `hm` =
F29/F25 (`mem_gb`, `vmem_gb` below 256 GB in magnitude; without it the statement is FALSE for the
code as it is: `accepted_stage_float32_resource`).  The reader is `parseStage32H h`: every
clause of the grammar's `stage` production, `mem_gb` / `vmem_gb` through the float32 rounding of the
literal, `threads` through `h`. -/
theorem format_preserves_accepted_stage32_partial (h : Bytes → Bytes) (hh : HOK h) (src : Bytes) (s : Stage)
    (hp : parseStage32H h src = some s) (hs : stageStrsValid s = true) (hm : stageMB32Valid s = true) :
    parseStage32H h (fmtStage s) = some s ∧
    ∀ s', parseStage32H h (fmtStage s) = some s' → fmtStage s' = fmtStage s :=
  parseStage32H_fmtStage h hh src s hp hs hm

/-! ### non-vacuity: concrete SOURCE TEXTS in non-canonical spelling -/

/-- white space around the dots, a comment after the semicolon -/
def sampleFiletypeText : Bytes := ascii "filetype  json . gz ;# c\n"

example : (parseFiletype sampleFiletypeText).map (fun t => (fmtFiletype t, fmtFiletype t != sampleFiletypeText)) =
    some (ascii "filetype json.gz;\n", true) := by
  set_option maxRecDepth 100000 in decide +kernel

/-- odd white space, `[ ]`, a help string with escapes (`\x41`, `\n`), an empty help with an out
name, a comment between members, an id-like keyword as id -/
def sampleStructText : Bytes :=
  ascii "struct  S ( int a \"h\\x41\\n\" ,map<json.gz[ ]>[] b  \"\"  \"o\",\n# c\n string[ ] struct , )"

example : (parseStruct sampleStructText).map
      (fun s => (declStrsValid s, fmtStruct s != sampleStructText, fmtStruct s)) =
    some (true, true, ascii
      "struct S(\n    int              a      \"hA\\n\",\n    map<json.gz[]>[] b      \"\"    \"o\",\n    string[]         struct,\n)\n") := by
  set_option maxRecDepth 100000 in decide +kernel

/-- inputs then outputs on one line, an unnamed output, the `""` placeholder -/
def sampleParamsText : Bytes := ascii "in int a\"x\", in  map b ,out float , out path p \"\" \"o\","

example : (parseParams sampleParamsText).map (fun ps => (paramsStrsValid ps, widths ps,
      fmtParams (widths ps).1 (widths ps).2.1 (widths ps).2.2.1 (widths ps).2.2.2 ps)) =
    some (true, (3, 5, 7, 1), ascii
      "    in  int   a        \"x\",\n    in  map   b,\n    out float,\n    out path  p        \"\"   \"o\",\n") := by
  set_option maxRecDepth 100000 in decide +kernel

/-- a stage on two lines: a help text with a `\u` escape, a command with two blanks, a comment,
`split using (`, the resources in source order `threads, memgb, volatile, threads, vmem_gb,
special` (repeated key: the last wins; `memgb` is `mem_gb`), the numerals `007`, `1e0`, `0.50`,
trailing commas before `)` -/
def sampleStageText : Bytes :=
  ascii "stage S ( in int a \"\\u0041\" , out float , src py \"x.py  -v\" ,# c\n ) split using ( in int c , ) using ( threads = 007 , memgb = 1e0 , volatile = strict , threads=0.50, vmem_gb = 0.50, special = \"a\\tb\" ,) retain ( a , )"

example : (parseStageH hSample sampleStageText).map
      (fun s => (stageStrsValid s, stageMB32Valid s, fmtStage s != sampleStageText, fmtStage s)) =
    some (true, true, true, ascii
      "stage S(\n    in  int   a        \"A\",\n    out float,\n    src py    \"x.py -v\",\n) split (\n    in  int   c,\n) using (\n    mem_gb   = 1,\n    special  = \"a\\tb\",\n    threads  = 0.5,\n    vmem_gb  = 0.5,\n    volatile = strict,\n) retain (\n    a,\n)\n") := by
  set_option maxRecDepth 100000 in decide +kernel

/-! ### negative witnesses: each exception hypothesis excludes something the parser produces -/

/-- Negative witness F6b on an ACCEPTED struct text: the help text `"\xff"` is accepted and is
the single byte FF (`declStrsValid` and `wfStruct` fail); the printer writes `"\ufffd"`, which reads
back as U+FFFD — another declaration. -/
theorem accepted_struct_invalid_utf8 :
    (match parseStruct (ascii "struct S(int a \"\\xff\",)") with
      | some s => !declStrsValid s && !wfStruct s && (s.members.map (·.help) == [[0xFF]]) &&
          fmtStruct s == ascii "struct S(\n    int a \"\\ufffd\",\n)\n" &&
          (parseStruct (fmtStruct s)).map (fun s' => s'.members.map (·.help)) == some [[0xEF, 0xBF, 0xBD]]
      | none => false) = true := by
  set_option maxRecDepth 100000 in decide +kernel

/-- Negative witness F25 on an ACCEPTED stage text: `mem_gb = 9007199254740992` (2^53 GB) is
accepted and stored as 2^63 MB (`stageMBValid`, `stageMB32Valid` and `wfStage` fail); the real `formatGB` (`fmtGBgo`:
`int64` overflow) prints `-9007199254740992` for it, not what the model printer `fmtGB` prints. -/
theorem accepted_stage_huge_resource :
    (match parseStageH hSample (ascii "stage S(src py \"x\",) using (mem_gb = 9007199254740992,)") with
      | some s => !stageMBValid s && !stageMB32Valid s && !wfStage s && stageStrsValid s &&
          ((s.res.bind (·.mem)) == some (2 ^ 63 : Int))
      | none => false) = true ∧
    fmtGBgo (2 ^ 63) ≠ fmtGB (2 ^ 63) := by
  set_option maxRecDepth 100000 in decide +kernel

/-- Why `h` is needed: `threads = 007` is accepted; the raw reader keeps `007`, which is neither a
NUM_FLOAT token nor a canonical integer (`wfStage` fails for the RAW stage); Go holds 7 and prints
`7` (`hSample`), and the stage as Go holds it is well-formed. -/
theorem accepted_stage_threads_text :
    (parseStage (ascii "stage S(src py \"x\",) using (threads = 007,)")).map
      (fun s => (stageRaw s, wfStage s, s.res.bind (·.threads))) = some (true, false, some (ascii "007")) ∧
    (parseStageH hSample (ascii "stage S(src py \"x\",) using (threads = 007,)")).map
      (fun s => (wfStage s, s.res.bind (·.threads))) = some (true, some (ascii "7")) := by
  set_option maxRecDepth 100000 in decide +kernel

/-- non-vacuity for the real reading: `sampleStageText` is read alike by both readers and
satisfies `stageMB32Valid`; `mem_gb = 0.5000000001` is 512 MB for the real parser (the float32
nearest to the literal is 0.5) and 513 MB for the exact reader -/
example :
    parseStage32H hSample sampleStageText = parseStageH hSample sampleStageText ∧
    (parseStage32H hSample sampleStageText).map stageMB32Valid = some true ∧
    (parseStage32 (ascii "stage S(src py \"x\",) using (mem_gb = 0.5000000001,)")).map (fun s => s.res.bind (·.mem)) =
      some (some 512) ∧
    (parseStage (ascii "stage S(src py \"x\",) using (mem_gb = 0.5000000001,)")).map (fun s => s.res.bind (·.mem)) =
      some (some 513) := by
  set_option maxRecDepth 100000 in decide +kernel

/-- Negative witness F29 on an ACCEPTED stage text: `mem_gb = 256.04296875` (256 GB + 44 MB, a
float32) is accepted by the real reader as 262188 MB (`stageMB32Valid` and hence `wfStage` fail —
the domain of the round-trip theorems ends below 256 GB —, `stageMBValid`, F25's range, holds); the
formatter prints `256.042`, which the real reader reads as 262187 MB — the output does not denote
the same stage (the exact reader of the model reads 262188 back: above 256 GB the model reader is
NOT the real parser, which is why `wfStage` excludes it). -/
theorem accepted_stage_float32_resource :
    (match parseStage32 (ascii "stage S(src py \"x\",) using (mem_gb = 256.04296875,)") with
      | some s => !stageMB32Valid s && stageMBValid s && !wfStage s &&
          ((s.res.bind (·.mem)) == some (262188 : Int)) &&
          fmtStage s == ascii "stage S(\n    src py \"x\",\n) using (\n    mem_gb = 256.042,\n)\n" &&
          ((parseStage32 (fmtStage s)).map (fun s' => s'.res.bind (·.mem)) == some (some (262187 : Int))) &&
          ((parseStage (fmtStage s)).map (fun s' => s'.res.bind (·.mem)) == some (some (262188 : Int)))
      | none => false) = true := by
  set_option maxRecDepth 100000 in decide +kernel

end AcceptedDeclTexts

/-! ## call statements and pipelines: ACCEPTED SOURCE TEXTS

The theorems of sections CallStatements, PipelineStatements and PipelineDeclarations quantify over
ASTs satisfying `wfCall` / `wfCall2` / `wfBody` / `wfPipeline` (print → read → print).  This section
closes the gap to "every source text the parser accepts", as section AcceptedTexts does for value
expressions: the RANGE of the readers `pCall2`, `pReturn`, `pPRetain`, `pBody`, `pInParams`,
`pOutParams`, `pPipeline` on tokens in the range of the tokenizer (`range_lex`) is `wfCall2Raw` …
`wfPipelineRaw` (NO exception hypothesis), and from there everything `UncheckedParse` can return
for a file that is one call / one pipeline is well formed, up to exactly these exceptions, each an
explicit Bool hypothesis with a negative witness on an accepted text below:

* F6b `call2StrsValid` / `pipeStrsValid`: a string (binding value, help text, out name) that is not
  valid UTF-8;  F26 `call2NoNegZero` / `pipeNoNegZero`: a float leaf `-0`;
* F40 `modsDistinct` / `pipeModsDistinct`: the same modifier id twice in one `using` block
  (`using (local = true, local = false,)` is grammatical; the compiler rejects it later with
  `DuplicateBinding`).  The model's `sortMods` is a STABLE sort, Go's `sort.Slice` is not: on 13 or
  more entries with repeated ids the real formatter permutes entries with equal ids (found with the
  real code; the output is still a fixed point there, pdqsort leaves sorted input alone), so the
  model describes the real printer only for distinct ids;
* F34 `pipeCallsDistinct`: two calls with the same id in one pipeline (`pipeline-not-idempotent`).

What the parser does NOT guarantee but `wfCall2` does not demand either (so no hypothesis; witnesses
below): a keyword modifier together with a binding of the same id (`call local X() using (local =
false,)`, F41: the compiler rejects the source with `ConflictingModifiers`, the formatter prints the
binding alone, which compiles), and two `using` blocks (the PARSER keeps the last one only, so the
AST the formatter sees never held the first).

Model: `Martian.FormatCallText`.  `parseCall2G g` / `parsePipelineG g` = `UncheckedParse` with every
float leaf as Go holds it (`canonCall2 g` / `canonPipeline g` of the raw result; `g` abstract with
`GOK g`, see section AcceptedTexts).  Tied on every run by harness/c09call2.go and
harness/c09pipe.go: every hypothesis and `wfCall2` / `wfPipeline` are evaluated (driver ops
`call2hyps`, `pipehyps`) on what the REAL parser returned for every accepted text; an accepted text
that satisfies all hypotheses but not `wf…` is the violation `C09:accepted-call-not-wf`. -/
section AcceptedCallTexts
open Martian.FormatExp Martian.FormatCall Martian.FormatCall2 Martian.FormatPipe Martian.FormatCallText

/-- **Range of the call reader** (no exception hypothesis).  On tokens in the range of the
tokenizer, whatever `pCall2` returns satisfies `wfCall2Raw`: callee name and call id are `id`
tokens, hence identifiers (`local`/`preflight`/`volatile` before `(` or `as` is the name); every
binding id is an identifier and every binding value is in the range of the expression reader
(`wfRaw`); a split binding holds a non-empty array, a non-empty map or a reference (and is only
read inside a `map call`: `isMap2` is DEFINED as "some binding is split", and `pCall2` rejects a
`map call` without one); the wildcard value (always last: it ends the list) is `self` or a
reference; the `using` block holds `local|preflight|volatile = true|false` and `disabled = REF`. -/
theorem range_call2_reader (ts : List Tok) (c : Call2) (rest : List Tok)
    (h : pCall2 ts = some (c, rest)) (hts : ∀ tok ∈ ts, tokOK tok = true) :
    wfCall2Raw c = true ∧ ∀ tok ∈ rest, tokOK tok = true :=
  ⟨(pCall2_range' ts c rest (List.all_eq_true.mpr hts) h).1,
    List.all_eq_true.mp (pCall2_range' ts c rest (List.all_eq_true.mpr hts) h).2⟩

/-- **Range of `return (…)`, `retain (…)` and of the statements of a pipeline**: `return` has no
split binding, `retain` holds references. -/
theorem range_body_readers (ts : List Tok) (hts : ∀ tok ∈ ts, tokOK tok = true) :
    (∀ r rest, pReturn ts = some (r, rest) → wfRetRaw r = true) ∧
    (∀ rs rest, pPRetain ts = some (some rs, rest) → wfPRetainRaw rs = true) ∧
    (∀ b rest, pBody ts = some (b, rest) → wfBodyRaw b = true) :=
  ⟨fun r rest h => (pReturn_range ts r rest (List.all_eq_true.mpr hts) h).1,
   fun rs rest h => (pPRetain_range ts (some rs) rest (List.all_eq_true.mpr hts) h).1 rs rfl,
   fun b rest h => (pBody_range ts b rest (List.all_eq_true.mpr hts) h).1⟩

/-- **Range of the parameter-list readers** as `pipeline` uses them: every parameter satisfies
`pipeParamRaw` (= `wfParam` without the validity of help text and out name: the type is a builtin
keyword or a dotted list of identifiers with dimensions in `int16`, the id is an identifier — or
`default` for an unnamed output —, an input has no out name), inputs are inputs, outputs outputs. -/
theorem range_param_readers (f : Nat) (ts : List Tok) (ps : List Martian.FormatDecl.Param) (rest : List Tok)
    (hts : ∀ tok ∈ ts, tokOK tok = true) :
    (Martian.FormatDecl.pInParams f ts = some (ps, rest) →
      ps.all pipeParamRaw = true ∧ ps.all (fun q => !q.out) = true) ∧
    (Martian.FormatDecl.pOutParams f ts = some (ps, rest) →
      ps.all pipeParamRaw = true ∧ ps.all (fun q => q.out) = true) :=
  ⟨fun h => ⟨(pInParams_range f ts ps rest (List.all_eq_true.mpr hts) h).1,
      (pInParams_range f ts ps rest (List.all_eq_true.mpr hts) h).2.1⟩,
   fun h => ⟨(pOutParams_range f ts ps rest (List.all_eq_true.mpr hts) h).1,
      (pOutParams_range f ts ps rest (List.all_eq_true.mpr hts) h).2.1⟩⟩

/-- with valid help texts and out names, `pipeParamRaw` is `wfParam` -/
theorem params_wf_of_raw (ps : List Martian.FormatDecl.Param) (hr : ps.all pipeParamRaw = true)
    (hs : paramsStrsValid ps = true) : ps.all Martian.FormatDecl.wfParam = true :=
  all_wfParam_of_raw ps hr hs

/-- **Range of the pipeline reader** (no exception hypothesis) -/
theorem range_pipeline_reader (ts : List Tok) (p : Pipeline) (rest : List Tok)
    (h : pPipeline ts = some (p, rest)) (hts : ∀ tok ∈ ts, tokOK tok = true) : wfPipelineRaw p = true :=
  pPipeline_range ts p rest hts h

/-- **Every accepted source text** (any spelling): what the raw readers return is in the range -/
theorem parse_produces_raw_call_pipeline (src : List UInt8) :
    (∀ c, parseCall src = some c → wfCallRaw c = true) ∧
    (∀ c, parseCall2 src = some c → wfCall2Raw c = true) ∧
    (∀ b, parseBody src = some b → wfBodyRaw b = true) ∧
    (∀ p, parsePipeline src = some p → wfPipelineRaw p = true) :=
  ⟨parseCall_range src, parseCall2_range src, parseBody_range src, parsePipeline_range src⟩

/-- **The parser produces well-formed call statements** — partial: hypotheses `hs` (F6b), `hz` (F26),
`hd` (F40: a modifier id bound twice in the `using` block); without any of them the statement is
false (`accepted_call_invalid_utf8_negative_zero`, `accepted_call_duplicate_modifier`). -/
theorem parse_produces_wf_call2_partial (g : List UInt8 → List UInt8) (hg : GOK g) (src : List UInt8)
    (c : Call2) (h : parseCall2G g src = some c) (hs : call2StrsValid c = true)
    (hz : call2NoNegZero c = true) (hd : modsDistinct c = true) : wfCall2 c = true :=
  parseCall2G_wf g hg src c h hs hz hd

/-- **Formatting preserves every accepted call statement** — partial in the same sense (F6b, F26,
F40).  For every source text of a call statement the parser accepts — keyword modifiers
(`call local volatile X(…)`), a `using` block in any order, both, `as`, `map call` with split
bindings, a wildcard binding, comments, any white space, any spelling of the values — the
formatter's output is accepted; it denotes the same call up to `normCall2` (keyword modifiers
become `= true` bindings, the `using` block is sorted by id, integral floats become ints); it is a
fixed point of the formatter; and formatting what was re-read is accepted again, same result. -/
theorem format_preserves_accepted_call2_partial (g : List UInt8 → List UInt8) (hg : GOK g)
    (src : List UInt8) (c : Call2) (h : parseCall2G g src = some c) (hs : call2StrsValid c = true)
    (hz : call2NoNegZero c = true) (hd : modsDistinct c = true) :
    parseCall2G g (fmtCall2 [] c) = some (normCall2 c) ∧ fmtCall2 [] (normCall2 c) = fmtCall2 [] c ∧
      parseCall2G g (fmtCall2 [] (normCall2 c)) = some (normCall2 c) :=
  format_accepted_call2 g hg src c h hs hz hd

/-- the same for the modifier-less slice `parseCall` / `fmtCall` of section CallStatements (F6b, F26) -/
theorem format_preserves_accepted_call_partial (g : List UInt8 → List UInt8) (hg : GOK g)
    (src : List UInt8) (c : Call) (h : parseCallG g src = some c) (hs : callStrsValid c = true)
    (hz : callNoNegZero c = true) :
    wfCall c = true ∧ parseCallG g (fmtCall c) = some (normCall c) ∧ fmtCall (normCall c) = fmtCall c ∧
      parseCallG g (fmtCall (normCall c)) = some (normCall c) :=
  ⟨parseCallG_wf g hg src c h hs hz, format_accepted_call g hg src c h hs hz⟩

/-- **The parser produces well-formed pipelines** — partial: F6b, F26, F40 and F34 (`hc`: two calls
with the same id; `accepted_pipeline_duplicate_call_ids`). -/
theorem parse_produces_wf_pipeline_partial (g : List UInt8 → List UInt8) (hg : GOK g) (src : List UInt8)
    (p : Pipeline) (h : parsePipelineG g src = some p) (hs : pipeStrsValid p = true)
    (hz : pipeNoNegZero p = true) (hd : pipeModsDistinct p = true) (hc : pipeCallsDistinct p = true) :
    wfPipeline p = true :=
  parsePipelineG_wf g hg src p h hs hz hd hc

/-- **Formatting preserves every accepted pipeline** — partial (F6b, F26, F40, F34).  For every
source text of a pipeline declaration the parser accepts, with its calls in ANY order and every
token in any spelling: the formatter's output is accepted; it denotes the same pipeline up to the
documented reordering of the calls (`sortBody`: `topoSort` order) and the normal form of each call
(`normPipeline`); the output is a fixed point of the formatter; and formatting what was re-read is
accepted again with the same result. -/
theorem format_preserves_accepted_pipeline_partial (g : List UInt8 → List UInt8) (hg : GOK g)
    (src : List UInt8) (p : Pipeline) (h : parsePipelineG g src = some p) (hs : pipeStrsValid p = true)
    (hz : pipeNoNegZero p = true) (hd : pipeModsDistinct p = true) (hc : pipeCallsDistinct p = true) :
    parsePipelineG g (fmtPipeline p) = some (normPipeline p) ∧
      fmtPipeline (normPipeline p) = fmtPipeline p ∧
      parsePipelineG g (fmtPipeline (normPipeline p)) = some (normPipeline p) :=
  format_accepted_pipeline g hg src p h hs hz hd hc

/-- a call statement in non-canonical spelling: double spaces, a comment, keyword modifiers `local`
and `volatile`, `as`, a split binding of an array with `1e3` (Go holds 1000) and `007`, a map with
unsorted and duplicate keys (`"k"` twice: the later wins), a wildcard binding, an unsorted `using`
block without the closing newline -/
def sampleCallText : List UInt8 :=
  ascii "map  call local volatile X as Y (  # c\n  b = split [1e3, 007 ,],  a={ \"k\":2.5, \"a\":[], \"k\": 1 },\n  * = self ,\n) using ( preflight = false , disabled = D.x, )"

/-- a modifier-less call: struct literal with unsorted and duplicate fields, an escape, a comment -/
def samplePlainCallText : List UInt8 :=
  ascii "call X(y = {b: 1e3, a: [ ], b: 2,}, # c\n x=\"\\x41\",)"

/-- a pipeline whose three calls are all out of dependency order (`C` needs `B` and `A`, `B` needs
`A`), on few lines, with a comment, a keyword-modified call, `1e3`, `007`, duplicate map keys, an
unnamed output and a typed-map parameter -/
def samplePipelineText : List UInt8 :=
  ascii "pipeline P(in int a \"h\", out map<int[]>[] r,out bam,){ # c\n  map call C(x = split B.o, * = self,) using (disabled = A.d,)\n call local volatile B(y = [A.o, 1e3],) call A(z = {\"b\":self.a, \"a\":007, \"b\":null},)\n return (r = C.o,) retain (C.o,) }"

/-- non-vacuity: the sample texts are accepted, satisfy every hypothesis (and are free of the
modifier conflict F41), and the formatted text differs from the source: for the call the `using`
block of the normal form is `disabled, local, preflight, volatile` (keywords converted, sorted),
for the modifier-less call the whole canonical text is shown.  (The canonical texts of
`sampleCallText` and `samplePipelineText` are compared with the real formatter's output on every
run: harness/c09calltext.go; evaluating the printers on them in the kernel takes half a minute.) -/
example :
    (parseCall2G gSample sampleCallText).map
        (fun c => call2StrsValid c && call2NoNegZero c && modsDistinct c && !modsConflict c.mods &&
          (normCall2 c).mods.binds.map (·.1) == [sDisabled, sLocal, sPreflight, sVolatile] &&
          !(fmtCall2 [] c == sampleCallText)) = some true ∧
    (parseCallG gSample samplePlainCallText).map (fun c => callStrsValid c && callNoNegZero c &&
        fmtCall c == ascii "call X(\n    y = {\n        a: [],\n        b: 2,\n    },\n    x = \"A\",\n)\n") =
      some true := by
  set_option maxRecDepth 1000000 in decide +kernel

/-- non-vacuity, pipeline: accepted, every hypothesis holds, the calls are read in source order
`C, B, A` and come out in dependency order `A, B, C`; the formatted text differs from the source -/
example :
    (parsePipelineG gSample samplePipelineText).map
        (fun p => pipeStrsValid p && pipeNoNegZero p && pipeModsDistinct p && pipeCallsDistinct p &&
          p.body.calls.map (·.id) == [[0x43], [0x42], [0x41]] &&
          (normPipeline p).body.calls.map (·.id) == [[0x41], [0x42], [0x43]] &&
          !(fmtPipeline p == samplePipelineText)) = some true := by
  set_option maxRecDepth 1000000 in decide +kernel

/-- Negative witness F40 on an ACCEPTED TEXT: `call X() using (local = true, local = false,)` is
accepted; the `using` block holds the id `local` twice (`modsDistinct` fails), which is outside
`wfCall2`.  (The MODEL still prints both entries in source order — a stable sort; the real
`sort.Slice` is not stable from 13 entries on, so the model does not speak for the real printer
here: harness histogram `accepted-call2 dup-mods`.) -/
theorem accepted_call_duplicate_modifier :
    (parseCall2G gSample (ascii "call X() using (local = true, local = false,)")).map
      (fun c => (call2StrsValid c, call2NoNegZero c, modsDistinct c, wfCall2 c, wfCall2Raw c)) =
      some (true, true, false, false, true) := by
  set_option maxRecDepth 100000 in decide +kernel

/-- Negative witness F34 on an ACCEPTED TEXT: two calls with the id `X` (`call X`, `call Y as X`).
The text is accepted, every other hypothesis holds; the formatter moves `X` behind `C` (the LAST
call with id `X` wins in `callMap`), and formatting the output moves `C` again (the calls of
`normPipeline (normPipeline p)`, which `fmtPipeline` prints in that order, are not those of
`normPipeline p`): the output is not a fixed point. -/
theorem accepted_pipeline_duplicate_call_ids :
    (parsePipelineG gSample (ascii
      "pipeline P(in int a, out int r,) { call X(a = B.o,) call Y as X() call C(c = X.o,) call B() return (r = C.o,) }")).map
      (fun p => pipeStrsValid p && pipeNoNegZero p && pipeModsDistinct p && !pipeCallsDistinct p &&
        p.body.calls.map (·.decId) == [[0x58], [0x59], [0x43], [0x42]] &&
        (normPipeline p).body.calls.map (·.decId) == [[0x59], [0x43], [0x42], [0x58]] &&
        (normPipeline (normPipeline p)).body.calls.map (·.decId) == [[0x59], [0x42], [0x58], [0x43]]) =
      some true := by
  set_option maxRecDepth 1000000 in decide +kernel

/-- Witness F41 on an ACCEPTED TEXT, inside the theorem (no hypothesis excludes it):
`call local X() using (local = false,)` — a keyword modifier together with a binding of the same
id, which `Modifiers.compile` rejects (`ConflictingModifiers`).  The formatter prints the binding
alone: `call X() using (local = false,)`, free of the conflict: formatting turns a source the
compiler rejects into one it accepts (the value the compiler would have used, the binding's, is
kept).  Two `using` blocks: the PARSER keeps the last one, so `disabled = A.x` never reaches the
formatter. -/
theorem accepted_call_conflicting_modifiers :
    (parseCall2G gSample (ascii "call local X() using (local = false,)")).map
      (fun c => (modsConflict c.mods, modsConflict (normCall2 c).mods, modsDistinct c, wfCall2 c, fmtCall2 [] c)) =
      some (true, false, true, true, ascii "call X() using (\n    local = false,\n)\n") ∧
    (parseCall2G gSample (ascii "call X() using (disabled = A.x,) using (volatile = true,)")).map
      (fun c => fmtCall2 [] c) = some (ascii "call X() using (\n    volatile = true,\n)\n") := by
  set_option maxRecDepth 100000 in decide +kernel

/-- the formatter never produces a modifier conflict: the normal form has no keyword modifiers -/
theorem normCall2_no_conflict (c : Call2) : modsConflict (normCall2 c).mods = false := rfl

/-- **The normal form keeps the compiled modifiers.**  What `Modifiers.compile` computes from the
modifiers of a call — the flags `Local`, `Preflight`, `Volatile` (`modFlags`: the value of the
binding when the `using` block binds the id, else the keyword) and the `disabled` binding
(`modDisabled`) — is the same for the call read back from the formatted text as for the source's,
for every `using` block with distinct ids (conflict F41 included: there the binding's value wins
in both). -/
theorem normCall2_keeps_modifiers (c : Call2) (hd : modsDistinct c = true) :
    modFlags (normCall2 c).mods = modFlags c.mods ∧ modDisabled (normCall2 c).mods = modDisabled c.mods :=
  normMods_keeps c.mods hd

/-- non-vacuity: `sampleCallText` (`local`, `volatile` as keywords, `preflight = false` and
`disabled = D.x` bound) and the conflict text (`local` keyword, `local = false` bound) -/
example :
    (parseCall2G gSample sampleCallText).map
      (fun c => (modsDistinct c, modFlags c.mods, modFlags (normCall2 c).mods, (modDisabled c.mods).isSome,
        (modDisabled (normCall2 c).mods).isSome)) =
      some (true, (true, false, true), (true, false, true), true, true) ∧
    (parseCall2G gSample (ascii "call local X() using (local = false,)")).map
      (fun c => (modsDistinct c, modFlags c.mods, modFlags (normCall2 c).mods)) =
      some (true, (false, false, false), (false, false, false)) := by
  set_option maxRecDepth 100000 in decide +kernel

/-- Negative witnesses F6b and F26 inside a call statement: `call X(a = "\xff",)` is accepted, the
string is not valid UTF-8 and is printed as `"\ufffd"`; `call X(a = -0.0,)` is accepted, printed
`a = -0`, which reads back as the integer 0 and prints `a = 0`: not a fixed point. -/
theorem accepted_call_invalid_utf8_negative_zero :
    (parseCall2G gSample (ascii "call X(a = \"\\xff\",)")).map (fun c => (call2StrsValid c, fmtCall2 [] c)) =
      some (false, ascii "call X(\n    a = \"\\ufffd\",\n)\n") ∧
    (parseCall2G gSample (ascii "call X(a = -0.0,)")).map
      (fun c => (call2NoNegZero c, fmtCall2 [] c, (parseCall2G gSample (fmtCall2 [] c)).map (fmtCall2 []))) =
      some (false, ascii "call X(\n    a = -0,\n)\n", some (ascii "call X(\n    a = 0,\n)\n")) := by
  set_option maxRecDepth 100000 in decide +kernel

end AcceptedCallTexts

/-! ## a whole comment-free file: ACCEPTED SOURCE TEXTS  (the capstone of the text-side statements)

The theorems of section WholeFile quantify over files satisfying `wfFile` (print → read → print) and
over sources in the canonical spelling of the tokens.  This section closes the gap to

  **for every source text the parser accepts, the formatter's output is accepted by the parser,
  denotes the same program (up to the documented reordering of calls and the normal form of call
  modifiers), and is a fixed point of the formatter**

by assembling the parts: the range of the tokenizer (`range_lex`, section AcceptedTexts), of the
expression reader (AcceptedTexts), of the readers of `filetype`, `struct`, parameter lists and
`stage` (AcceptedDeclTexts), of `call`, `return`, `retain` and `pipeline` (AcceptedCallTexts), and
here of `includes`, `dec_list` and `file` (`range_file_reader`: NO exception hypothesis).  The
source may have its declarations in any order (a pipeline before the filetype it uses, a struct
after a stage), the calls of every pipeline in any order, every token in any spelling the
tokenizer accepts (`split using (`, keyword modifiers, `memgb`, `1e3`, `007`, duplicate map keys,
escapes), any white space, and COMMENTS — which the model reader DROPS: the statement is about the
program; what the real formatter does with comments (it keeps and moves them) is outside the
model and covered by monitors only (harness/c09dangle.go, c09file.go; findings F27, F28).

The FULL statement is FALSE for the code as it is — not merely unproved: each of the following is
a recorded finding (known_findings.d/C09.json), a GENUINE exception of the real code with a
negative witness on a small accepted FILE text below, and appears as a conjunct of the Bool
hypothesis `fileHyps f` (model `Martian.FormatFileText`; every conjunct ranges over ALL parts of
the file):

* F6b `fileStrsValid`: a string that is not valid UTF-8 (`"\xff"`) — an `@include` path, a help
  text or out name of a struct member or of a parameter of a stage or pipeline, the `special` value
  or src command of a stage, a string in a binding value.  `quoteString` prints U+FFFD for the
  byte (`accepted_file_invalid_utf8_include`).
* F26 `fileNoNegZero`: a float leaf `-0.0` in a binding value: printed `-0`, read back as the
  integer 0, printed `0` (`accepted_file_negative_zero_duplicate_modifier`).
* F29 `fileMB32Valid`: `mem_gb` / `vmem_gb` of a stage of 256 GB or more in magnitude (`wfMB`): the
  real parser rounds the literal to the nearest float32 first and can read what `formatGB` printed
  one MB lower (`accepted_file_float32_resource`); below 256 GB the exact reading of the model and
  the real reading agree (`readGB32_inverts_formatGB`).  This is the resource bound of `wfFile`.
  It subsumes F25 `fileMBValid`: 2^53 GB or more, `formatGB`'s `int64(gb*1024)` overflows
  (`accepted_file_huge_resource`).
* F40 `fileModsDistinct`: the same modifier id twice in one `using` block of a call (the model's
  stable sort is `sort.Slice` only for distinct ids).
* F34 `fileCallsDistinct`: two calls with the same id in one pipeline: the output is not a fixed
  point (`accepted_file_duplicate_call_ids`).

Which reader of `mem_gb` / `vmem_gb`: `parseFile` (section WholeFile) reads the two values EXACTLY
(`readGBTok`); the real parser rounds the literal to the nearest float32 first (F29).  BOTH are
covered, under the SAME hypotheses (`fileHyps32 f = fileHyps f`: the domain is where the two
readings of a printed value agree): `parseFileGH g h` (exact; `…_file_partial`) and
`parseFile32GH g h` = the same reader with `pStageR readGB32Tok` for every stage
(`…_file32_partial`; this is the statement about the real code).  From 256 GB + 44 MB on the
statement is FALSE for the real reading: `accepted_file_float32_resource`.

Trusted (abstract, as in the parts): strconv's float64 print∘parse `g` with `GOK g`, and
`h = Sprintf("%g", roundUpTo(float32(·), 100))` for `threads` with `HOK h`; `canonFile g h` applies
them to every float leaf / every `threads` value, `parseFileGH g h` = `UncheckedParse` as Go holds
the result.  Tied on every run by harness/c09file.go: `fileHyps…` and `wfFile` are evaluated (driver
op `filehyps`) on what the REAL parser returned for every accepted generated, respelled and
near-miss file text; all hypotheses true but `wfFile` false (or the reverse) is the violation
`C09:accepted-file-not-wf`; the sample text below goes through the real parser and formatter. -/
section AcceptedFileTexts
open Martian.FormatExp Martian.FormatDecl Martian.FormatCall2 Martian.FormatStage Martian.FormatPipe
open Martian.FormatFile Martian.FormatCallText
open Martian.Lexer (Bytes)

/-- **Range of the file reader** (no exception hypothesis).  On tokens in the range of the
tokenizer, whatever `pFile` returns satisfies `fileRaw`: every filetype is well formed; every
struct has an identifier as id and at least one member, each with a well-formed type and an
identifier as id (`structRaw`); every stage is in `stageRaw` and every pipeline in `wfPipelineRaw`
(the ranges of sections AcceptedDeclTexts, AcceptedCallTexts); the call, if any, is in `wfCall2Raw`;
and there is at least one declaration or the call.  Nothing is claimed about the include paths:
they are whatever `unquote` returned. -/
theorem range_file_reader (ts : List Tok) (f : File) (h : pFile ts = some f)
    (hts : ∀ tok ∈ ts, tokOK tok = true) : fileRaw f = true := by
  rw [← pFileR_exact] at h
  exact pFileR_range _ ts f (List.all_eq_true.mpr hts) h

/-- the same for the reader with ANY reader `rd` of `mem_gb` / `vmem_gb`, in particular the real one -/
theorem range_file_reader_any (rd : Tok → Option Int) (ts : List Tok) (f : File) (h : pFileR rd ts = some f)
    (hts : ∀ tok ∈ ts, tokOK tok = true) : fileRaw f = true :=
  pFileR_range rd ts f (List.all_eq_true.mpr hts) h

/-- **Every accepted source text** (any order of the declarations, any spelling, comments): what
the reader returns is in the range — NO exception hypothesis. -/
theorem parse_produces_fileRaw (src : Bytes) (f : File) (h : parseFile src = some f) : fileRaw f = true :=
  parseFile_range src f h

/-- definitional: `parseFile` is the parameterised file reader with the exact reading of `mem_gb` /
`vmem_gb`; `parseFile32` is the same reader with the real one -/
theorem parseFile_readers (src : Bytes) :
    parseFile src = parseFileR Martian.FormatRes.readGBTok src ∧
    parseFile32 src = parseFileR Martian.FormatRes.readGB32Tok src :=
  ⟨parseFile_eq src, rfl⟩

/-- … and so is what the reader with the real (float32) reading of `mem_gb` / `vmem_gb` returns -/
theorem parse32_produces_fileRaw (src : Bytes) (f : File) (h : parseFile32 src = some f) : fileRaw f = true :=
  parseFile32_range src f h

/-- **The parser produces well-formed files** — partial.  The FULL statement is "for every source
text `UncheckedParse` accepts, the file it returns satisfies `wfFile`" (then `parse_format_file`,
`format_file_idem` apply to every accepted text).  It is FALSE for the code as it is; `hy` is the
conjunction of exactly the recorded findings F6b, F26, F29 (which subsumes F25), F40, F34 over all parts of the file
(section header; negative witnesses below).  Everything else the parser can return is covered;
`g`, `h`: what is trusted about strconv / `roundUpTo` (`GOK`, `HOK`). -/
theorem parse_produces_wf_file_partial (g h : Bytes → Bytes) (hg : GOK g) (hh : HOK h) (src : Bytes) (f : File)
    (hp : parseFileGH g h src = some f) (hy : fileHyps f = true) : wfFile f = true :=
  parseFileGH_wf g h hg hh src f hp hy

/-- **Formatting preserves every accepted file** — partial in the same sense (`hy` = F6b, F26, F29
(below 256 GB; F25 subsumed), F40, F34; without any conjunct the statement is FALSE for the code as it is).  For EVERY source
text of a whole file the parser accepts — `@include` lines, the declarations of the four kinds in
any order, the calls of every pipeline in any order, the top-level call, every token in any
spelling, any white space, comments (dropped by the model reader: the statement is about the
program; comments are covered by monitors only) —: the formatter's output is accepted; it denotes
the same file up to `normFile` (the calls of every pipeline in `topoSort` order, call modifiers as
sorted `using` bindings, integral floats as ints — nothing else changes; the regrouping of the
declarations into includes, filetypes, structs, callables, call is not visible in the AST); the
output is a fixed point of the formatter; and formatting what was re-read is accepted again with
the same result.  `mem_gb` / `vmem_gb` are read exactly here (on the domain of `hy` that is the
real reading of every printed value); the real reading of the source too:
`format_preserves_accepted_file32_partial`. -/
theorem format_preserves_accepted_file_partial (g h : Bytes → Bytes) (hg : GOK g) (hh : HOK h)
    (src : Bytes) (f : File) (hp : parseFileGH g h src = some f) (hy : fileHyps f = true) :
    parseFileGH g h (fmtFile f) = some (normFile f) ∧ fmtFile (normFile f) = fmtFile f ∧
      parseFileGH g h (fmtFile (normFile f)) = some (normFile f) :=
  format_accepted_file g h hg hh src f hp hy

/-- `fileHyps32` is `fileHyps` (both carry F29's bound, 256 GB, since the domain of `wfFile` ends there) -/
theorem fileHyps32_implies (f : File) (hy : fileHyps32 f = true) : fileHyps f = true := fileHyps_of_32 f hy

theorem fileHyps32_is_fileHyps (f : File) : fileHyps32 f = fileHyps f := fileHyps32_eq f

/-- the hypotheses put every `mem_gb` / `vmem_gb` in F25's range too (256 GB < 2^53 GB) -/
theorem fileHyps_implies_F25 (f : File) (hy : fileHyps f = true) : fileMBValid f = true :=
  fileMBValid_of_hyps f hy

/-- **The REAL parser produces well-formed files** — partial (`hy` = F6b, F26, F29 ⊇ F25, F40, F34):
`parseFile32GH g h` reads `mem_gb` / `vmem_gb` of every stage through the float32 rounding of the
literal, as `UncheckedParse` does. -/
theorem parse_produces_wf_file32_partial (g h : Bytes → Bytes) (hg : GOK g) (hh : HOK h) (src : Bytes)
    (f : File) (hp : parseFile32GH g h src = some f) (hy : fileHyps32 f = true) : wfFile f = true :=
  parseFile32GH_wf g h hg hh src f hp hy

/-- **Formatting preserves every file text the REAL parser accepts** — partial: `hy` = F6b, F26, F29
(`mem_gb`, `vmem_gb` of every stage below 256 GB in magnitude; without it the statement is FALSE
for the code as it is: `accepted_file_float32_resource`), F40, F34. -/
theorem format_preserves_accepted_file32_partial (g h : Bytes → Bytes) (hg : GOK g) (hh : HOK h)
    (src : Bytes) (f : File) (hp : parseFile32GH g h src = some f) (hy : fileHyps32 f = true) :
    parseFile32GH g h (fmtFile f) = some (normFile f) ∧ fmtFile (normFile f) = fmtFile f ∧
      parseFile32GH g h (fmtFile (normFile f)) = some (normFile f) :=
  format_accepted_file32 g h hg hh src f hp hy

/-! ### non-vacuity: a concrete SOURCE TEXT of a whole file in non-canonical spelling -/

/-- `Martian.FormatFile.sampleFileText` (an include; a pipeline before the filetype it uses, its
calls `C, B, A` out of dependency order, keyword modifiers, `1e3`, `007`, duplicate map keys; a
stage with `split using (`, the resources in source order with `memgb`, a repeated key, `1e0`,
`0.50`; a struct after the stage; the call; comments, tabs, blank lines) is accepted; the file Go
holds satisfies every hypothesis (`fileHyps`, `fileHyps32`) and `wfFile`; the callables are read in
source order with the calls of `P` as written and come out in dependency order; and the formatted
text is `sampleFileCanon`, which differs from the source. -/
example :
    (parseFileGH gSample hSample sampleFileText).map (fun f =>
      fileHyps f && fileHyps32 f && wfFile f && f.includes == [ascii "a.mro"] &&
      f.callables.map callableCalls == [(ascii "P", [ascii "C", ascii "B", ascii "A"]), (ascii "S", [])] &&
      (normFile f).callables.map callableCalls ==
        [(ascii "P", [ascii "A", ascii "B", ascii "C"]), (ascii "S", [])] &&
      fmtFile f == sampleFileCanon && !(sampleFileCanon == sampleFileText)) = some true := by
  set_option maxRecDepth 1000000 in decide +kernel

/-- non-vacuity for the real reading: `sampleFileText` is accepted by the reader with the float32
reading with the same resources (`mem_gb = 1e0` is 1024 MB) and satisfies `fileHyps32`;
`mem_gb = 0.5000000001` is 512 MB for the real parser and 513 MB for the exact reader -/
example :
    (parseFile32GH gSample hSample sampleFileText).map (fun f => fileHyps32 f && wfFile f && fileMems f == [some 1024]) =
      some true ∧
    (parseFile32 (ascii "filetype a;\nstage S(src py \"x\",) using (mem_gb = 0.5000000001,)")).map fileMems =
      some [some 512] ∧
    (parseFile (ascii "filetype a;\nstage S(src py \"x\",) using (mem_gb = 0.5000000001,)")).map fileMems =
      some [some 513] := by
  set_option maxRecDepth 1000000 in decide +kernel

/-! ### negative witnesses on ACCEPTED FILE TEXTS: each conjunct of `fileHyps` excludes something the parser produces -/

/-- Negative witness F6b in an INCLUDE PATH: `@include "\xff"` is accepted, the path is the single
byte FF (`fileStrsValid` fails, every other conjunct holds, `wfFile` fails); the formatter writes
`@include "\ufffd"`, which reads back as the path U+FFFD — another file. -/
theorem accepted_file_invalid_utf8_include :
    (parseFileGH gSample hSample (ascii "@include \"\\xff\"\nfiletype a;")).map (fun f =>
      !fileStrsValid f && fileNoNegZero f && fileMB32Valid f && fileModsDistinct f && fileCallsDistinct f &&
        !wfFile f && f.includes == [[0xFF]] && fmtFile f == ascii "@include \"\\ufffd\"\n\nfiletype a;\n" &&
        ((parseFileGH gSample hSample (fmtFile f)).map (·.includes) == some [[0xEF, 0xBF, 0xBD]])) = some true := by
  set_option maxRecDepth 100000 in decide +kernel

/-- Negative witness F34 in a FILE: a pipeline with two calls of id `X` after a filetype.  The text
is accepted, only `fileCallsDistinct` fails; the formatter moves `X` behind `C`, and formatting
the output moves `C` again: the output is not a fixed point. -/
theorem accepted_file_duplicate_call_ids :
    (parseFileGH gSample hSample (ascii
      "filetype a;\npipeline P(in int a, out int r,) { call X(a = B.o,) call Y as X() call C(c = X.o,) call B() return (r = C.o,) }")).map
      (fun f => fileStrsValid f && fileNoNegZero f && fileMB32Valid f && fileModsDistinct f &&
        !fileCallsDistinct f && !wfFile f &&
        f.callables.map callableCalls == [([0x50], [[0x58], [0x59], [0x43], [0x42]])] &&
        (normFile f).callables.map callableCalls == [([0x50], [[0x59], [0x43], [0x42], [0x58]])] &&
        (normFile (normFile f)).callables.map callableCalls == [([0x50], [[0x59], [0x42], [0x58], [0x43]])]) =
      some true := by
  set_option maxRecDepth 1000000 in decide +kernel

/-- Negative witness F25 in a FILE: `mem_gb = 9007199254740992` (2^53 GB) in a stage followed by a
call.  Accepted, only `fileMBValid` / `fileMB32Valid` fail (and `wfFile`); the real `formatGB` (`fmtGBgo`: `int64`
overflow) prints `-9007199254740992` for it, not what the model printer prints. -/
theorem accepted_file_huge_resource :
    (parseFileGH gSample hSample (ascii "stage S(src py \"x\",) using (mem_gb = 9007199254740992,)\ncall S()")).map
      (fun f => fileStrsValid f && fileNoNegZero f && !fileMBValid f && !fileMB32Valid f && fileModsDistinct f &&
        fileCallsDistinct f && !wfFile f && fileMems f == [some (2 ^ 63 : Int)]) = some true ∧
    Martian.FormatRes.fmtGBgo (2 ^ 63) ≠ Martian.FormatRes.fmtGB (2 ^ 63) := by
  set_option maxRecDepth 100000 in decide +kernel

/-- Negative witness F29 in a FILE, real reading: `mem_gb = 256.04296875` (256 GB + 44 MB) is read
as 262188 MB; only `fileMB32Valid` fails (F25's `fileMBValid` holds), so `fileHyps` = `fileHyps32`
and `wfFile` fail — the domain of the round-trip theorems ends below 256 GB; the formatter prints
`256.042`, which the real reader reads as 262187 MB — the output does not denote the same file (the
exact reader of the model reads 262188 back: above 256 GB it is NOT the real parser). -/
theorem accepted_file_float32_resource :
    (parseFile32GH gSample hSample (ascii "filetype a;\nstage S(src py \"x\",) using (mem_gb = 256.04296875,)")).map
      (fun f => !fileHyps f && !fileHyps32 f && !wfFile f && fileMBValid f && !fileMB32Valid f &&
        fileStrsValid f && fileNoNegZero f && fileModsDistinct f && fileCallsDistinct f &&
        fileMems f == [some 262188] &&
        ((parseFile32GH gSample hSample (fmtFile f)).map fileMems == some [some 262187]) &&
        ((parseFileGH gSample hSample (fmtFile f)).map fileMems == some [some 262188])) = some true := by
  set_option maxRecDepth 100000 in decide +kernel

/-- Negative witnesses F26 and F40 in a FILE: `call X(a = -0.0,)` after a filetype (only
`fileNoNegZero` fails; printed `a = -0`, which reads back as the integer 0: not a fixed point) and
`call X() using (local = true, local = false,)` (only `fileModsDistinct` fails; in the range
`fileRaw`, outside `wfFile`). -/
theorem accepted_file_negative_zero_duplicate_modifier :
    (parseFileGH gSample hSample (ascii "filetype a;\ncall X(a = -0.0,)")).map
      (fun f => !fileNoNegZero f && fileStrsValid f && fileMB32Valid f && fileModsDistinct f &&
        fileCallsDistinct f && !wfFile f && fmtFile f == ascii "filetype a;\n\ncall X(\n    a = -0,\n)\n" &&
        ((parseFileGH gSample hSample (fmtFile f)).map fmtFile ==
          some (ascii "filetype a;\n\ncall X(\n    a = 0,\n)\n"))) = some true ∧
    (parseFileGH gSample hSample (ascii "filetype a;\ncall X() using (local = true, local = false,)")).map
      (fun f => !fileModsDistinct f && fileStrsValid f && fileNoNegZero f && fileMB32Valid f &&
        fileCallsDistinct f && !wfFile f && fileRaw f) = some true := by
  set_option maxRecDepth 100000 in decide +kernel

end AcceptedFileTexts

/-! ## The exact domain of the resource round trip (third audit, A10)

`wfMB` - the `mem_gb` / `vmem_gb` conjunct of `wfRes`, `wfStage`, `wfFile` and of the text-side
hypotheses `stageMB32Valid` / `fileMB32Valid` - is `gbRoundTrips`: the REAL reading (`readGB32`) of
`formatGB`'s text is the value again.  Not a range any more: every value on which the code round-trips
is covered, F29 is exactly its complement (within `formatGB`'s `int64` range, F25). -/
section ResourceDomain
open Martian.FormatRes

/-- every value below 256 GB round-trips (all 2·262144 values: kernel evaluation, 64 slices) -/
theorem gbRoundTrips_below_256GB (mb : Int) (hb : mb.natAbs < 262144) : gbRoundTrips mb = true :=
  gbRoundTrips_of_lt mb hb

/-- every whole number of GB up to 64 TB, of either sign, round-trips: `formatGB` prints an integer
and float32 holds it exactly (65536 values by kernel evaluation; beyond 2^24 GB float32 cannot hold
every integer and the statement fails) -/
theorem gbRoundTrips_whole_GB (k : Int) (hk : k.natAbs < 65536) : gbRoundTrips (1024 * k) = true :=
  gbRoundTrips_whole k hk

/-- what the predicate gives: the real reader inverts `formatGB`, within its `int64` range -/
theorem gbRoundTrips_spec (mb : Int) (h : gbRoundTrips mb = true) :
    mb.natAbs < 2 ^ 63 ∧ readGB32 (fmtGB mb) = some mb ∧ readGB32Tok (tokGB mb) = some mb := by
  refine ⟨gbRoundTrips_lt63 h, ?_, gbRoundTrips_tok h⟩
  simp only [gbRoundTrips, Bool.and_eq_true, beq_iff_eq] at h
  exact h.2

/-- witnesses: `vmem_gb = 1024` of the repo's testdata/formatter_test.mro (1 TB) and 16 TB are inside
the domain now; F29's value 262188 MB and its neighbour 262189 are outside, 262187 and 262144 inside -/
theorem resource_domain_witnesses :
    gbRoundTrips (1024 * 1024) = true ∧ wfMB (some (1024 * 16384)) = true ∧
    gbRoundTrips 262188 = false ∧ gbRoundTrips 262187 = true ∧ gbRoundTrips 262144 = true ∧
    gbRoundTrips (-262188) = false ∧ gbRoundTrips (2 ^ 63) = false := by decide +kernel

end ResourceDomain


end Props.C09
