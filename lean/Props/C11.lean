/-
C11 — fork identities are unique; job notifications reach exactly their owner.
PROPERTY THEOREMS ONLY (helper lemmas: Proofs/ForkName.lean; model:
Martian/ForkName.lean).  Stated against the facts regenerated from the working
tree: `Gen.journalPairs` (encodeJournalName), `Gen.jobJournalRe`,
`Gen.metadataFileNames`, `Gen.journalPrefixes`.
-/
import Martian.ForkName
import Proofs.ForkName
import Gen.Facts

namespace Props.C11
open Martian.ForkName

/-! ### Regenerated obligations -/

/-- The journal regex in the source is the one `parseRun` was written for. -/
theorem journal_regex_is_the_modelled_one :
    Gen.jobJournalRe = "(.*)\\.fork([^.]+)(?:\\.chnk(\\d+))?(?:\\.u([a-f0-9]{10}))?\\.(.*)$" := by
  decide

/-- `encodeJournalName` replaces `.` and `/` and no replacement re-introduces either. -/
theorem journal_table_clean : TableOK Gen.journalPairs = true := by decide

/-- `encodeJournalName` is a percent-encoding that encodes the escape character
`%` as well (every pair is `c ↦ %XX`, and `%` has a pair).  Fails on a tree
whose replacer leaves `%` alone (F7). -/
theorem journal_table_percent_encoding : TablePct Gen.journalPairs = true := by decide

/-- After flushing an array index in front of a map part, `ForkId.forkId`
continues *at* the map part (`start+i`), so the map key is written.  Fails on a
tree where it continues after it (`start+i+1`: the key is dropped and the forks
of the inner map call share one directory). -/
theorem forkId_reenters_at_map_part : Gen.forkIdReenters = true := by decide

/-- `fork` itself is not touched by the replacer, so what follows `<fqid>.fork`
in a fork's fqname is the encoding of what follows `fork` in its id. -/
theorem journal_keeps_fork_prefix (t : Bytes) :
    journalEnc Gen.journalPairs (sFork ++ t) = sFork ++ journalEnc Gen.journalPairs t := by
  rw [journalEnc_append]; rfl

/-- Every metadata file name, bare or with the `split_` / `join_` prefix a job
of that phase writes, is unambiguous after a fork part: it contains no `.fork`,
and cannot be read as a `.chnkN` or `.u<10 hex>` component. -/
theorem metadata_file_names_unambiguous :
    (Gen.metadataFileNames.all fun n =>
      fileOK n && Gen.journalPrefixes.all fun p => fileOK (p ++ n)) = true := by decide

/-! ### Key encoding -/

/-- `makeKeySafe` (= `url.PathEscape`) is inverted by `url.PathUnescape` on
every byte string … -/
theorem pathEscape_roundtrip (k : Bytes) : pathUnescape (pathEscape k) = some k :=
  pathUnescape_pathEscape k

/-- … hence distinct keys (dots, slashes, percent signs, spaces, non-ASCII,
text that looks like an encoded key, anything) get distinct safe names. -/
theorem pathEscape_injective (a b : Bytes) (h : pathEscape a = pathEscape b) : a = b :=
  pathEscape_inj h

/-- A safe key contains no `/` (it is a single path component). -/
theorem pathEscape_no_slash (k : Bytes) : cSlash ∉ pathEscape k := slash_not_in_pathEscape k

/-! ### Journal-name encoding -/

/-- No `.` and no `/` in an encoded journal component, for every input: the
regex's `[^.]+` sees the whole component and `path.Base` in mrjob keeps it. -/
theorem journal_component_clean (s : Bytes) :
    cDot ∉ journalEnc Gen.journalPairs s ∧ cSlash ∉ journalEnc Gen.journalPairs s :=
  journalEnc_clean journal_table_clean s

/-- The journal encoding is injective on ALL strings: two forks whose ids
(directories) differ have different journal names, whatever the nesting and
whatever the keys contain. -/
theorem journal_name_injective (a b : Bytes)
    (h : journalEnc Gen.journalPairs a = journalEnc Gen.journalPairs b) : a = b :=
  journalEnc_inj journal_table_percent_encoding h

/-- Negative witness (F7, the replacer as found: `.`→`%2E`, `/`→`%2F`, `%` kept):
the ids `fork_a%2Ffork_b/fork_c` (keys `a/fork_b`, `c`) and
`fork_a/fork_b%2Ffork_c` (keys `a`, `b/fork_c`) are different directories with
the same journal name. -/
theorem journal_collision_with_replacer_as_found :
    let old : Pairs := [(0x2E, [0x25, 0x32, 0x45]), (0x2F, [0x25, 0x32, 0x46])]
    let k1 : Bytes := [0x61, 0x2F, 0x66, 0x6F, 0x72, 0x6B, 0x5F, 0x62]   -- a/fork_b
    let k2 : Bytes := [0x63]                                             -- c
    let k3 : Bytes := [0x61]                                             -- a
    let k4 : Bytes := [0x62, 0x2F, 0x66, 0x6F, 0x72, 0x6B, 0x5F, 0x63]   -- b/fork_c
    mapsId [k1, k2] ≠ mapsId [k3, k4] ∧
    journalEnc old (mapsId [k1, k2]) = journalEnc old (mapsId [k3, k4]) := by decide

/-! ### Fork directory names -/

/-- Forks of an array-mapped call: distinct indices give distinct directories
(`fork<i>`; all widths). -/
theorem array_fork_dirs_distinct (i j len len' : Nat) (st st' : Bool) (x : Bytes)
    (hi : singleId (.arr i len st) = some x) (hj : singleId (.arr j len' st') = some x) : i = j := by
  have h1 := singleId_arr i len st x hi
  have h2 := singleId_arr j len' st' x hj
  rw [h1] at h2
  exact itoa_inj (List.append_cancel_left h2)

example : singleId (.arr 9 11 true) = some (sFork ++ itoa 9) ∧
    singleId (.arr 10 11 true) = some (sFork ++ itoa 10) := by decide

/-- Forks of a map call: distinct keys give distinct directories (`fork_<safe key>`). -/
theorem map_fork_dirs_distinct (k k' : Bytes) (keys keys' : List Bytes) (st st' : Bool) (x : Bytes)
    (h : singleId (.key k keys st) = some x) (h' : singleId (.key k' keys' st') = some x) : k = k' := by
  have h1 := singleId_key k keys st x h
  have h2 := singleId_key k' keys' st' x h'
  rw [h1] at h2
  exact pathEscape_inj (List.append_cancel_left h2)

example : singleId (.key [0x2E] [[0x2E], [0x25, 0x32, 0x45]] true) = some (sForkU ++ [0x2E]) ∧
    singleId (.key [0x25, 0x32, 0x45] [[0x2E], [0x25, 0x32, 0x45]] true)
      = some (sForkU ++ [0x25, 0x32, 0x35, 0x32, 0x45]) := by decide

/-- Flat indices of nested array parts (`writeForkIndex`, zero padded to the
width of the largest index): the index is recoverable from the string for every
dimension, so distinct flat indices give distinct names across all decimal
width boundaries. -/
theorem fork_index_string_distinct (dim dim' i j : Nat)
    (h : forkIndexStr dim i = forkIndexStr dim' j) : i = j := by
  have hv : ∀ d n, digitsVal ((forkIndexStr d n).drop 4) 0 = some n := by
    intro d n
    unfold forkIndexStr
    split
    · next hc =>
      have : n = 0 := by
        simp only [Bool.and_eq_true, beq_iff_eq] at hc; exact hc.2
      subst this; rfl
    · show digitsVal (padded _ n) 0 = some n
      exact digitsVal_padded _ n
  have := congrArg (fun s => digitsVal (s.drop 4) 0) h
  simpa [hv] using this

/-- Chunk names `chnk%0*d` of one fork: distinct indices give distinct names. -/
theorem chunk_names_distinct (n i j : Nat) (h : chunkName n i = chunkName n j) : i = j :=
  padded_inj (List.append_cancel_left h)

/-- Nested map calls of any depth (`fork_<k1>/fork_<k2>/…`): the id string
determines the whole key tuple, so distinct key tuples give distinct
directories.  Holds for both variants of the `start+i` recursion.

PARTIAL: the full statement is "for two fork ids of the same part structure
(any mix of array and map parts, static or run-time sized),
`forkIdString a = forkIdString b → a = b`".  It is proved here for nests of map
parts (and above for single parts and for flat indices); mixed array/map nests
are covered by exhaustive enumeration on the real code only, and are false for
the code as found (next theorem). -/
theorem nested_fork_dirs_distinct_partial (re : Bool) (a b : List Part) (ka kb : List Bytes)
    (ha : keysOf a = some ka) (hb : keysOf b = some kb) (hna : a ≠ []) (hnb : b ≠ [])
    (h : forkIdString re a = forkIdString re b) : ka = kb := by
  rw [forkIdString_maps re a ka ha hna, forkIdString_maps re b kb hb hnb] at h
  exact mapsId_inj ka kb (Option.some.inj h)

example : keysOf [.key [0x61] [[0x61], [0x62]] true, .key [0x2F] [[0x2F]] false]
    = some [[0x61], [0x2F]] := by decide

/-- Negative witness (the `forkId` recursion as found, `start+i+1`): under an
array part, the map part is skipped, so the forks for keys `a` and `b` of the
inner map call get the same directory `fork1/fork0`. -/
theorem array_over_map_dirs_collide_as_found :
    forkIdString false [.arr 1 3 true, .key [0x61] [[0x61], [0x62]] true] = some [0x66, 0x6F, 0x72, 0x6B, 0x31, 0x2F, 0x66, 0x6F, 0x72, 0x6B, 0x30] ∧
    forkIdString false [.arr 1 3 true, .key [0x62] [[0x61], [0x62]] true] = some [0x66, 0x6F, 0x72, 0x6B, 0x31, 0x2F, 0x66, 0x6F, 0x72, 0x6B, 0x30] := by
  decide

/-- With the recursion as it is in the working tree the same two forks get
different directories (`fork1/fork_a`, `fork1/fork_b`). -/
theorem array_over_map_dirs_differ :
    forkIdString Gen.forkIdReenters [.arr 1 3 true, .key [0x61] [[0x61], [0x62]] true]
      ≠ forkIdString Gen.forkIdReenters [.arr 1 3 true, .key [0x62] [[0x61], [0x62]] true] := by decide

/-! ### Journal file names are parsed back exactly -/

/-- `parseRunFilename (journal name of x) = x` for every well-formed name:
any fqid (even one containing `.fork…` components), any dot-free non-empty fork
part, optional chunk digits, optional 10-hex uniquifier, and a file name that
satisfies `fileOK` (all of martian's do: `metadata_file_names_unambiguous`). -/
theorem parse_render (x : JName) (wf : WellFormed x) : parseRun x.render = some x :=
  parseRun_render x wf

example : WellFormed ⟨[0x41, 0x2E, 0x66, 0x6F, 0x72, 0x6B, 0x31, 0x2E, 0x42],   -- A.fork1.B
    [0x5F, 0x61, 0x25, 0x32, 0x46, 0x62],                                         -- _a%2Fb
    some [0x30, 0x37], some [0x30, 0x31, 0x32, 0x33, 0x34, 0x35, 0x36, 0x37, 0x38, 0x39],
    [0x73, 0x70, 0x6C, 0x69, 0x74, 0x5F, 0x63, 0x6F, 0x6D, 0x70, 0x6C, 0x65, 0x74, 0x65]⟩ :=
  ⟨by decide, by decide, by intro d h; cases h; decide, by intro u h; cases h; decide, by decide⟩

/-- Distinct (node, fork, chunk, attempt, file) records have distinct journal
file names: in particular two attempts of one job (different uniquifiers) never
share a journal name. -/
theorem render_injective (x y : JName) (wx : WellFormed x) (wy : WellFormed y)
    (h : x.render = y.render) : x = y := by
  have hx := parseRun_render x wx
  have hy := parseRun_render y wy
  rw [h, hy] at hx
  exact (Option.some.inj hx).symm

/-! ### Routing to the node -/

/-- `Node.find` returns the node with exactly the requested path: for a tree
whose nodes have pairwise distinct fully-qualified ids `top.fqname.<path>`, the
journal name `<path>` of node `i` is routed to node `i`, in whatever order the
nodes are visited (Go map order), provided no node's full id is itself `<path>`
(true in martian: every full id starts with `ID.<pipestance>.`, no path does).
A name that merely shares a suffix or prefix with another node's id does not
match it. -/
theorem find_routes (top : Bytes) (fqids : List Bytes) (i : Nat) (n : Bytes)
    (hnd : fqids.Nodup) (hi : fqids[i]? = some (top ++ cDot :: n)) (hno : ∀ f ∈ fqids, f ≠ n) :
    findNode top fqids n = some i :=
  findNode_routes top fqids i n hnd hi hno

/-- and the node it returns has exactly that id (with or without the
pipestance prefix), never one that only ends in it. -/
theorem find_exact (top : Bytes) (fqids : List Bytes) (name : Bytes) (j : Nat)
    (h : findNode top fqids name = some j) :
    ∃ f, fqids[j]? = some f ∧ (f = top ++ cDot :: name ∨ f = name) := by
  obtain ⟨f, hf, hm⟩ := findNode_sound top fqids name j h
  refine ⟨f, hf, ?_⟩
  simpa [nodeMatches] using hm

-- TOP.WORK_A vs TOP.SUBTOP.WORK_A under pipestance ID.ps: hypotheses of find_routes are satisfiable
example :
    let top : Bytes := [0x49, 0x44, 0x2E, 0x70, 0x73]                        -- ID.ps
    let a : Bytes := [0x54, 0x4F, 0x50, 0x2E, 0x41]                          -- TOP.A
    let b : Bytes := [0x54, 0x4F, 0x50, 0x2E, 0x53, 0x55, 0x42, 0x54, 0x4F, 0x50, 0x2E, 0x41]  -- TOP.SUBTOP.A
    let fqids := [top ++ cDot :: b, top ++ cDot :: a]
    fqids.Nodup ∧ (∀ f ∈ fqids, f ≠ a) ∧ findNode top fqids a = some 1 := by decide

/-! ### Routing to the fork -/

/-- `getFork` returns the fork whose name was asked for: for a node whose forks
have pairwise distinct names, the name of fork `i` is routed to position `i`,
whatever the list order and whether or not the name looks like a number. -/
theorem getFork_routes (names : List Bytes) (i : Nat) (n : Bytes)
    (hnd : names.Nodup) (hi : names[i]? = some n) (hne : n ≠ []) :
    getForkNew names n = some i :=
  getForkNew_routes names i n hnd hi hne

/-- and it never returns a fork with a different name (no notification is
attributed to a fork that did not write it). -/
theorem getFork_exact (names : List Bytes) (index : Bytes) (j : Nat)
    (h : getForkNew names index = some j) : names[j]? = some index :=
  (getForkNew_sound names index j h).1

-- fork table of TOP.INNER.ECHO in DESIGN Appendix A.1: positions 0..5 carry fork0, fork2, fork4, fork1, fork3, fork5
example : ([[0x30], [0x32], [0x34], [0x31], [0x33], [0x35]] : List Bytes).Nodup := by decide

/-- Negative witness (F8, `getFork` as found: `Atoi(index)` taken as a list
position first): with that fork table a notification for `fork2` (position 1)
is given to position 2, which is `fork4`. -/
theorem getFork_misroutes_as_found :
    let names : List Bytes := [[0x30], [0x32], [0x34], [0x31], [0x33], [0x35]]
    getForkOld names [0x32] = some 2 ∧ names[2]? = some [0x34] ∧
    getForkNew names [0x32] = some 1 := by decide

/-- End to end on the model: forks of one node with pairwise distinct ids
`fork ++ tᵢ`; a notification rendered for fork `i` (any chunk, any attempt, any
metadata file) is parsed back to exactly that record and routed to position `i`. -/
theorem notification_reaches_owner (ts : List Bytes) (i : Nat) (t : Bytes)
    (hnd : ts.Nodup) (hi : ts[i]? = some t) (hne : t ≠ [])
    (fqid : Bytes) (chunk uniq : Option Bytes) (file : Bytes)
    (hch : ∀ d, chunk = some d → d ≠ [] ∧ ∀ c ∈ d, isDigit c = true)
    (huq : ∀ u, uniq = some u → u.length = 10 ∧ u.all isLowerHex = true)
    (hfile : fileOK file = true) :
    let x : JName := ⟨fqid, journalEnc Gen.journalPairs t, chunk, uniq, file⟩
    parseRun x.render = some x ∧
    getForkNew (ts.map (journalEnc Gen.journalPairs)) x.forkPart = some i := by
  intro x
  have hne' : journalEnc Gen.journalPairs t ≠ [] := by
    intro h
    have : journalEnc Gen.journalPairs t = journalEnc Gen.journalPairs [] := by rw [h]; rfl
    exact hne (journalEnc_inj journal_table_percent_encoding this)
  refine ⟨parseRun_render x ⟨hne', ?_, hch, huq, hfile⟩, ?_⟩
  · intro c hc hd
    exact (journalEnc_clean journal_table_clean t).1 (hd ▸ hc)
  · apply getForkNew_routes _ i _ (nodup_map_journalEnc journal_table_percent_encoding ts hnd) _ hne'
    simp [hi]

/-- `Metadata.cache`: a notification is recorded iff it carries the current
attempt's uniquifier (a stale attempt's notification is ignored). -/
theorem stale_uniquifier_ignored (own seen : Bytes) : cacheAccepts own seen = true ↔ own = seen := by
  simp [cacheAccepts]

end Props.C11
