/-
C11 — fork identities are unique; job notifications reach exactly their owner.
PROPERTY THEOREMS ONLY (helper lemmas: Proofs/ForkName.lean; model:
Martian/ForkName.lean).  Stated against the facts regenerated from the working
tree: `Gen.journalPairs` (encodeJournalName), `Gen.jobJournalRe`,
`Gen.metadataFileNames`, `Gen.journalPrefixes`.
-/
import Martian.ForkName
import Martian.ForkNameSpec
import Proofs.ForkName
import Proofs.ForkNameInj
import Proofs.ForkNameDiv
import Proofs.ForkRoute
import Proofs.ForkNameBatch
import Proofs.ForkNameLen
import Proofs.ForkNameSet
import Gen.Facts

namespace Props.C11
open Martian.ForkName

/-! ### Regenerated obligations -/

/-- Every fact this file is stated against was really EXTRACTED from the
working tree (not the committed fall-back value): if a refactoring defeats one
of the go/ast patterns this obligation breaks instead of leaving the others
true by default. -/
theorem facts_really_extracted :
    Gen.journalPairs_extracted = true ∧ Gen.jobJournalRe_extracted = true ∧
    Gen.metadataFileNames_extracted = true ∧ Gen.journalPrefixes_extracted = true ∧
    Gen.forkIdReenters_extracted = true ∧ Gen.forkIdSkipsEmpty_extracted = true := by decide

/-- The TRANSLATED tie of this property (Props/C11Tie.lean: `util.WidthForInt`
translated from util.go on every run and proved equal to the model's
`widthForInt` below 100000) was really produced by the translator, not taken
from the committed fall-back. -/
theorem translated_ties_extracted : Gen.tr_WidthForInt_extracted = true := by decide

/-- The journal regex in the source is the one `parseRun` was written for. -/
theorem journal_regex_is_the_modelled_one :
    Gen.jobJournalRe = "(.*)\\.fork([^.]+)(?:\\.chnk(\\d+))?(?:\\.u([a-f0-9]{10}))?\\.(.*)$" := by
  decide

/-- `encodeJournalName` replaces `.` and `/` and no replacement re-introduces either. -/
theorem journal_table_clean : TableOK Gen.journalPairs = true := by decide

/-- `encodeJournalName` is a percent-encoding that encodes the escape character
`%` as well (every pair is `c ↦ %XX`, and `%` has a pair).  Fails on a tree
whose replacer leaves `%` alone (F7). -/
theorem journal_table_percent_encoding : TablePct Gen.journalPairs = true := by decide

/-- After flushing an array index in front of a map part, `ForkId.forkId`
continues *at* the map part (`start+i`), so the map key is written.  Fails on a
tree where it continues after it (`start+i+1`: the key is dropped and the forks
of the inner map call share one directory). -/
theorem forkId_reenters_at_map_part : Gen.forkIdReenters = true := by decide

/-- A part whose range is empty is skipped by `ForkId.forkId` (`continue`), it
does not end the id.  Fails on a tree where the id stops there (all static
forks below an empty run-time outer fork were then named `fork0`). -/
theorem forkId_skips_empty_parts : Gen.forkIdSkipsEmpty = true := by decide

/-- `fork` itself is not touched by the replacer, so what follows `<fqid>.fork`
in a fork's fqname is the encoding of what follows `fork` in its id. -/
theorem journal_keeps_fork_prefix (t : Bytes) :
    journalEnc Gen.journalPairs (sFork ++ t) = sFork ++ journalEnc Gen.journalPairs t := by
  rw [journalEnc_append]; rfl

/-- Every metadata file name, bare or with the `split_` / `join_` prefix a job
of that phase writes, is unambiguous after a fork part: it contains no `.fork`,
and cannot be read as a `.chnkN` or `.u<10 hex>` component. -/
theorem metadata_file_names_unambiguous :
    (Gen.metadataFileNames.all fun n =>
      fileOK n && Gen.journalPrefixes.all fun p => fileOK (p ++ n)) = true := by decide

/-! ### Key encoding -/

/-- `makeKeySafe` (= `url.PathEscape`) is inverted by `url.PathUnescape` on
every byte string … -/
theorem pathEscape_roundtrip (k : Bytes) : pathUnescape (pathEscape k) = some k :=
  pathUnescape_pathEscape k

/-- … hence distinct keys (dots, slashes, percent signs, spaces, non-ASCII,
text that looks like an encoded key, anything) get distinct safe names. -/
theorem pathEscape_injective (a b : Bytes) (h : pathEscape a = pathEscape b) : a = b :=
  pathEscape_inj h

/-- A safe key contains no `/` (it is a single path component). -/
theorem pathEscape_no_slash (k : Bytes) : cSlash ∉ pathEscape k := slash_not_in_pathEscape k

/-! ### Journal-name encoding -/

/-- No `.` and no `/` in an encoded journal component, for every input: the
regex's `[^.]+` sees the whole component and `path.Base` in mrjob keeps it. -/
theorem journal_component_clean (s : Bytes) :
    cDot ∉ journalEnc Gen.journalPairs s ∧ cSlash ∉ journalEnc Gen.journalPairs s :=
  journalEnc_clean journal_table_clean s

/-- The journal encoding is injective on ALL strings: two forks whose ids
(directories) differ have different journal names, whatever the nesting and
whatever the keys contain. -/
theorem journal_name_injective (a b : Bytes)
    (h : journalEnc Gen.journalPairs a = journalEnc Gen.journalPairs b) : a = b :=
  journalEnc_inj journal_table_percent_encoding h

/-- Negative witness (F7, the replacer as found: `.`→`%2E`, `/`→`%2F`, `%` kept):
the ids `fork_a%2Ffork_b/fork_c` (keys `a/fork_b`, `c`) and
`fork_a/fork_b%2Ffork_c` (keys `a`, `b/fork_c`) are different directories with
the same journal name. -/
theorem journal_collision_with_replacer_as_found :
    let old : Pairs := [(0x2E, [0x25, 0x32, 0x45]), (0x2F, [0x25, 0x32, 0x46])]
    let k1 : Bytes := [0x61, 0x2F, 0x66, 0x6F, 0x72, 0x6B, 0x5F, 0x62]   -- a/fork_b
    let k2 : Bytes := [0x63]                                             -- c
    let k3 : Bytes := [0x61]                                             -- a
    let k4 : Bytes := [0x62, 0x2F, 0x66, 0x6F, 0x72, 0x6B, 0x5F, 0x63]   -- b/fork_c
    mapsId [k1, k2] ≠ mapsId [k3, k4] ∧
    journalEnc old (mapsId [k1, k2]) = journalEnc old (mapsId [k3, k4]) := by decide

/-! ### Fork directory names -/

/-- Forks of an array-mapped call: distinct indices give distinct directories
(`fork<i>`; all widths). -/
theorem array_fork_dirs_distinct (i j len len' : Nat) (st st' : Bool) (x : Bytes)
    (hi : singleId (.arr i len st) = some x) (hj : singleId (.arr j len' st') = some x) : i = j := by
  have h1 := singleId_arr i len st x hi
  have h2 := singleId_arr j len' st' x hj
  rw [h1] at h2
  exact itoa_inj (List.append_cancel_left h2)

example : singleId (.arr 9 11 true) = some (sFork ++ itoa 9) ∧
    singleId (.arr 10 11 true) = some (sFork ++ itoa 10) := by decide

/-- Forks of a map call: distinct keys give distinct directories (`fork_<safe key>`). -/
theorem map_fork_dirs_distinct (k k' : Bytes) (keys keys' : List Bytes) (st st' : Bool) (x : Bytes)
    (h : singleId (.key k keys st) = some x) (h' : singleId (.key k' keys' st') = some x) : k = k' := by
  have h1 := singleId_key k keys st x h
  have h2 := singleId_key k' keys' st' x h'
  rw [h1] at h2
  exact pathEscape_inj (List.append_cancel_left h2)

example : singleId (.key [0x2E] [[0x2E], [0x25, 0x32, 0x45]] true) = some (sForkU ++ [0x2E]) ∧
    singleId (.key [0x25, 0x32, 0x45] [[0x2E], [0x25, 0x32, 0x45]] true)
      = some (sForkU ++ [0x25, 0x32, 0x35, 0x32, 0x45]) := by decide

/-- Flat indices of nested array parts (`writeForkIndex`, zero padded to the
width of the largest index): the index is recoverable from the string for every
dimension, so distinct flat indices give distinct names across all decimal
width boundaries. -/
theorem fork_index_string_distinct (dim dim' i j : Nat)
    (h : forkIndexStr dim i = forkIndexStr dim' j) : i = j := by
  have hv : ∀ d n, digitsVal ((forkIndexStr d n).drop 4) 0 = some n := by
    intro d n
    unfold forkIndexStr
    split
    · next hc =>
      have : n = 0 := by
        simp only [Bool.and_eq_true, beq_iff_eq] at hc; exact hc.2
      subst this; rfl
    · show digitsVal (padded _ n) 0 = some n
      exact digitsVal_padded _ n
  have := congrArg (fun s => digitsVal (s.drop 4) 0) h
  simpa [hv] using this

/-- Chunk names `chnk%0*d` of one fork: distinct indices give distinct names. -/
theorem chunk_names_distinct (n i j : Nat) (h : chunkName n i = chunkName n j) : i = j :=
  padded_inj (List.append_cancel_left h)

/-- **Fork names are injective in the fork-part tuple**, for every nesting
of array and map parts: any depth, statically or run-time sized arrays of any
length (flat indices, `_`-separated groups, zero padding at every width), map
keys over all byte strings, with unresolved parts and parts of empty range
anywhere in between (they are skipped).  Two forks of the same shape
(`sameShape`: the same kinds, lengths, key sets and static-ness position by
position) whose indices / keys are in range (`partOk`) and whose id strings are
equal are the same fork.  Stated against the regenerated recursion target and
empty-part behaviour of `ForkId.forkId`.

What still shares a name, exactly: (1) part lists that differ only in the
*payload of skipped parts* — `sameShape` demands equal payload there, so they
are outside the theorem: `[undet, x]`, `[empty, x]` and `[arr i of 0, x]` all
render like `[x]` prefixed by nothing (next theorem).  These are one and the
same fork at different stages of resolution (unresolved → found empty); the
runtime renames the fork (`updateId`) instead of creating a second one, so they
never coexist.  (2) a list consisting of a single unresolved / empty part is
`fork0` (`ForkSourcePart.ForkIdString`), as is the fork with all indices 0:
again the same fork before and after resolution. -/
theorem forkName_injective (a b : List Part) (hs : sameShape a b = true)
    (hva : a.all partOk = true) (hvb : b.all partOk = true)
    (h1 : a.length = 1 → a.all partValid = true) (h1' : b.length = 1 → b.all partValid = true)
    (h : forkIdString Gen.forkIdReenters Gen.forkIdSkipsEmpty a
        = forkIdString Gen.forkIdReenters Gen.forkIdSkipsEmpty b) : a = b := by
  rw [forkId_reenters_at_map_part, forkId_skips_empty_parts] at h
  exact forkIdString_inj a b hs hva hvb h1 h1' h

/-- **Forks of one call never share a name, also when their ids have different
shapes.**  Under a run-time sized call the inner parts of two forks may differ
in length, key set or emptiness from one outer fork to the next, so the forks
of a node are not all of the same shape.  But any two of them agree on a
(possibly empty) prefix `p` of parts and then name a different index of the
same array call or a different key of the same map call (`diverge x y`).  Then
their id strings differ, whatever parts `ra`, `rb` follow on either side
(resolved parts in range, parts found empty, unresolved parts; the two tails
need not have the same shape, only the same number of parts). -/
theorem forkName_distinct_after_divergence (p : List Part) (x y : Part) (ra rb : List Part)
    (hd : diverge x y = true) (hp : p.all partOk = true) (hra : ra.all partOk = true) (hrb : rb.all partOk = true)
    (hlen : ra.length = rb.length) :
    forkIdString Gen.forkIdReenters Gen.forkIdSkipsEmpty (p ++ x :: ra)
      ≠ forkIdString Gen.forkIdReenters Gen.forkIdSkipsEmpty (p ++ y :: rb) := by
  rw [forkId_reenters_at_map_part, forkId_skips_empty_parts]
  exact forkIdString_diverge p x y ra rb hd hp hra hrb hlen

/-- … and so do their journal names. -/
theorem forkJournalName_distinct_after_divergence (p : List Part) (x y : Part) (ra rb : List Part) (ia ib : Bytes)
    (hd : diverge x y = true) (hp : p.all partOk = true) (hra : ra.all partOk = true) (hrb : rb.all partOk = true)
    (hlen : ra.length = rb.length)
    (ha : forkIdString Gen.forkIdReenters Gen.forkIdSkipsEmpty (p ++ x :: ra) = some ia)
    (hb : forkIdString Gen.forkIdReenters Gen.forkIdSkipsEmpty (p ++ y :: rb) = some ib) :
    journalEnc Gen.journalPairs ia ≠ journalEnc Gen.journalPairs ib := by
  intro h
  have := journal_name_injective ia ib h
  exact forkName_distinct_after_divergence p x y ra rb hd hp hra hrb hlen (by rw [ha, hb, this])

-- under outer fork 0 the inner run-time source is empty, under outer fork 1 it has 3 elements and a map call follows
example :
    let ks : List Bytes := [[0x61], [0x62]]
    diverge (.arr 0 2 true) (.arr 1 2 true) = true ∧
    ([.empty, .undet] : List Part).all partOk = true ∧
    ([.arr 2 3 false, .key [0x62] ks false] : List Part).all partOk = true := by decide

/-- Skipped parts contribute nothing: an unresolved outer part, an outer part
found empty, and an outer array part of length 0 give the inner forks the same
names — the names they had before the outer source was known. -/
theorem skipped_parts_share_names (x : Part) :
    forkIdString true true [.undet, x, .undet] = forkIdString true true [.empty, x, .undet] ∧
    forkIdString true true [.undet, x, .undet] = forkIdString true true [.arr 5 0 false, x, .undet] := by
  cases x <;> simp [forkIdString, forkIdGo]

/-- Negative witness (an empty part as found: the id stopped there): under an
outer fork whose run-time source is empty, the inner static forks 1 and 2 of 3
are both `fork0`; skipping the empty part they are `fork1` and `fork2`. -/
theorem forks_under_empty_outer_collide_as_found :
    forkIdString true false [.empty, .arr 1 3 true] = some sFork0 ∧
    forkIdString true false [.empty, .arr 2 3 true] = some sFork0 ∧
    forkIdString true true [.empty, .arr 1 3 true] ≠ forkIdString true true [.empty, .arr 2 3 true] := by decide

/-- … hence so are the fork directories `<node path>/<fork id>` … -/
theorem forkDir_injective (nodePath : Bytes) (a b : List Part) (ia ib : Bytes)
    (hs : sameShape a b = true) (hva : a.all partOk = true) (hvb : b.all partOk = true)
    (h1 : a.length = 1 → a.all partValid = true) (h1' : b.length = 1 → b.all partValid = true)
    (ha : forkIdString Gen.forkIdReenters Gen.forkIdSkipsEmpty a = some ia) (hb : forkIdString Gen.forkIdReenters Gen.forkIdSkipsEmpty b = some ib)
    (h : nodePath ++ cSlash :: ia = nodePath ++ cSlash :: ib) : a = b := by
  have : ia = ib := by simpa using List.append_cancel_left h
  exact forkName_injective a b hs hva hvb h1 h1' (by rw [ha, hb, this])

/-- … and the fork parts of the journal names `<fqid>.<journalEnc id>` (the
replacer pairs as regenerated). -/
theorem forkJournalName_injective (a b : List Part) (ia ib : Bytes)
    (hs : sameShape a b = true) (hva : a.all partOk = true) (hvb : b.all partOk = true)
    (h1 : a.length = 1 → a.all partValid = true) (h1' : b.length = 1 → b.all partValid = true)
    (ha : forkIdString Gen.forkIdReenters Gen.forkIdSkipsEmpty a = some ia) (hb : forkIdString Gen.forkIdReenters Gen.forkIdSkipsEmpty b = some ib)
    (h : journalEnc Gen.journalPairs ia = journalEnc Gen.journalPairs ib) : a = b := by
  have := journal_name_injective ia ib h
  exact forkName_injective a b hs hva hvb h1 h1' (by rw [ha, hb, this])

-- non-vacuity: a run-time sized array over a map over a static array of 12, two forks of the same shape
example :
    let ks : List Bytes := [[0x61, 0x2F, 0x62], [0x2E]]
    let a : List Part := [.empty, .arr 2 3 false, .key [0x2E] ks true, .arr 11 12 true]
    let b : List Part := [.empty, .arr 1 3 false, .key [0x61, 0x2F, 0x62] ks true, .arr 0 12 true]
    sameShape a b = true ∧ a.all partOk = true ∧ b.all partOk = true ∧
    forkIdString true true a ≠ forkIdString true true b := by decide

/-- Negative witness (the `forkId` recursion as found, `start+i+1`): under an
array part, the map part is skipped, so the forks for keys `a` and `b` of the
inner map call get the same directory `fork1/fork0`. -/
theorem array_over_map_dirs_collide_as_found :
    forkIdString false false [.arr 1 3 true, .key [0x61] [[0x61], [0x62]] true] = some [0x66, 0x6F, 0x72, 0x6B, 0x31, 0x2F, 0x66, 0x6F, 0x72, 0x6B, 0x30] ∧
    forkIdString false false [.arr 1 3 true, .key [0x62] [[0x61], [0x62]] true] = some [0x66, 0x6F, 0x72, 0x6B, 0x31, 0x2F, 0x66, 0x6F, 0x72, 0x6B, 0x30] := by
  decide

/-- With the recursion as it is in the working tree the same two forks get
different directories (`fork1/fork_a`, `fork1/fork_b`). -/
theorem array_over_map_dirs_differ :
    forkIdString Gen.forkIdReenters Gen.forkIdSkipsEmpty [.arr 1 3 true, .key [0x61] [[0x61], [0x62]] true]
      ≠ forkIdString Gen.forkIdReenters Gen.forkIdSkipsEmpty [.arr 1 3 true, .key [0x62] [[0x61], [0x62]] true] := by decide

/-! ### The fork set of one node -/

/-- **The forks of ONE node, as `ForkIdSet.MakeForkIds` builds them for
statically sized sources (the cartesian product of the sources' index / key
ranges, any number of nested array and map calls and unresolved sources, map
key sets without repetition), get pairwise distinct names**: the list of their
id strings has no duplicate.  Stated against the regenerated recursion target
and empty-part behaviour of `ForkId.forkId`.  (Forks added later by run-time
expansion have dependent shapes: `forkName_distinct_after_divergence`.) -/
theorem forkSet_names_nodup (srcs : List Src) (h : ∀ s ∈ srcs, srcOk s) :
    ((makeForkIds srcs).map (forkIdString Gen.forkIdReenters Gen.forkIdSkipsEmpty)).Nodup := by
  rw [forkId_reenters_at_map_part, forkId_skips_empty_parts]
  exact forkSet_names_nodup_tt srcs h

/-- … hence pairwise distinct directories and journal names: whenever two
positions of the fork set carry ids `ia`, `ib` with the same journal encoding,
they are the same position. -/
theorem forkSet_journal_names_distinct (srcs : List Src) (h : ∀ s ∈ srcs, srcOk s) (i j : Nat) (ia ib : Bytes)
    (hi : ((makeForkIds srcs).map (forkIdString Gen.forkIdReenters Gen.forkIdSkipsEmpty))[i]? = some (some ia))
    (hj : ((makeForkIds srcs).map (forkIdString Gen.forkIdReenters Gen.forkIdSkipsEmpty))[j]? = some (some ib))
    (he : journalEnc Gen.journalPairs ia = journalEnc Gen.journalPairs ib) : i = j := by
  have hid := journal_name_injective ia ib he
  subst hid
  exact nodup_getElem?_inj _ (forkSet_names_nodup srcs h) i j _ hi hj

-- non-vacuity: a map call (keys `a/b`, `.`) around an array call of 12 around an unresolved source: 24 forks, sources are legal,
-- first source fastest
example :
    let srcs : List Src := [.arr 12, .keys [[0x2E], [0x61, 0x2F, 0x62]], .undet]
    (∀ s ∈ srcs, srcOk s) ∧ (makeForkIds srcs).length = 24 ∧
    (makeForkIds srcs)[13]? = some [.arr 1 12 true, .key [0x61, 0x2F, 0x62] [[0x2E], [0x61, 0x2F, 0x62]] true, .undet] := by
  refine ⟨?_, by decide, by decide⟩
  intro s hs
  simp only [List.mem_cons, List.mem_nil_iff, or_false] at hs
  rcases hs with rfl | rfl | rfl <;> simp [srcOk]

/-! ### Journal file names are parsed back exactly -/

/-- `parseRunFilename (journal name of x) = x` for every well-formed name:
any fqid (even one containing `.fork…` components), any dot-free non-empty fork
part, optional chunk digits, optional 10-hex uniquifier, and a file name that
satisfies `fileOK` (all of martian's do: `metadata_file_names_unambiguous`). -/
theorem parse_render (x : JName) (wf : WellFormed x) : parseRun x.render = some x :=
  parseRun_render x wf

example : WellFormed ⟨[0x41, 0x2E, 0x66, 0x6F, 0x72, 0x6B, 0x31, 0x2E, 0x42],   -- A.fork1.B
    [0x5F, 0x61, 0x25, 0x32, 0x46, 0x62],                                         -- _a%2Fb
    some [0x30, 0x37], some [0x30, 0x31, 0x32, 0x33, 0x34, 0x35, 0x36, 0x37, 0x38, 0x39],
    [0x73, 0x70, 0x6C, 0x69, 0x74, 0x5F, 0x63, 0x6F, 0x6D, 0x70, 0x6C, 0x65, 0x74, 0x65]⟩ :=
  ⟨by decide, by decide, by intro d h; cases h; decide, by intro u h; cases h; decide, by decide⟩

/-- Distinct (node, fork, chunk, attempt, file) records have distinct journal
file names: in particular two attempts of one job (different uniquifiers) never
share a journal name. -/
theorem render_injective (x y : JName) (wx : WellFormed x) (wy : WellFormed y)
    (h : x.render = y.render) : x = y := by
  have hx := parseRun_render x wx
  have hy := parseRun_render y wy
  rw [h, hy] at hx
  exact (Option.some.inj hx).symm

/-! ### Routing to the node -/

/-- `Node.find` returns the node with exactly the requested path: for a tree
whose nodes have pairwise distinct fully-qualified ids `top.fqname.<path>`, the
journal name `<path>` of node `i` is routed to node `i`, in whatever order the
nodes are visited (Go map order), provided no node's full id is itself `<path>`
(true in martian: every full id starts with `ID.<pipestance>.`, no path does).
A name that merely shares a suffix or prefix with another node's id does not
match it. -/
theorem find_routes (top : Bytes) (fqids : List Bytes) (i : Nat) (n : Bytes)
    (hnd : fqids.Nodup) (hi : fqids[i]? = some (top ++ cDot :: n)) (hno : ∀ f ∈ fqids, f ≠ n) :
    findNode top fqids n = some i :=
  findNode_routes top fqids i n hnd hi hno

/-- and the node it returns has exactly that id (with or without the
pipestance prefix), never one that only ends in it. -/
theorem find_exact (top : Bytes) (fqids : List Bytes) (name : Bytes) (j : Nat)
    (h : findNode top fqids name = some j) :
    ∃ f, fqids[j]? = some f ∧ (f = top ++ cDot :: name ∨ f = name) := by
  obtain ⟨f, hf, hm⟩ := findNode_sound top fqids name j h
  refine ⟨f, hf, ?_⟩
  simpa [nodeMatches] using hm

-- TOP.WORK_A vs TOP.SUBTOP.WORK_A under pipestance ID.ps: hypotheses of find_routes are satisfiable
example :
    let top : Bytes := [0x49, 0x44, 0x2E, 0x70, 0x73]                        -- ID.ps
    let a : Bytes := [0x54, 0x4F, 0x50, 0x2E, 0x41]                          -- TOP.A
    let b : Bytes := [0x54, 0x4F, 0x50, 0x2E, 0x53, 0x55, 0x42, 0x54, 0x4F, 0x50, 0x2E, 0x41]  -- TOP.SUBTOP.A
    let fqids := [top ++ cDot :: b, top ++ cDot :: a]
    fqids.Nodup ∧ (∀ f ∈ fqids, f ≠ a) ∧ findNode top fqids a = some 1 := by decide

/-! ### Routing to the fork -/

/-- `getFork` returns the fork whose name was asked for: for a node whose forks
have pairwise distinct names, the name of fork `i` is routed to position `i`,
whatever the list order and whether or not the name looks like a number. -/
theorem getFork_routes (names : List Bytes) (i : Nat) (n : Bytes)
    (hnd : names.Nodup) (hi : names[i]? = some n) (hne : n ≠ []) :
    getForkNew names n = some i :=
  getForkNew_routes names i n hnd hi hne

/-- and it never returns a fork with a different name (no notification is
attributed to a fork that did not write it). -/
theorem getFork_exact (names : List Bytes) (index : Bytes) (j : Nat)
    (h : getForkNew names index = some j) : names[j]? = some index :=
  (getForkNew_sound names index j h).1

-- fork table of TOP.INNER.ECHO in DESIGN Appendix A.1: positions 0..5 carry fork0, fork2, fork4, fork1, fork3, fork5
example : ([[0x30], [0x32], [0x34], [0x31], [0x33], [0x35]] : List Bytes).Nodup := by decide

/-- Negative witness (F8, `getFork` as found: `Atoi(index)` taken as a list
position first): with that fork table a notification for `fork2` (position 1)
is given to position 2, which is `fork4`. -/
theorem getFork_misroutes_as_found :
    let names : List Bytes := [[0x30], [0x32], [0x34], [0x31], [0x33], [0x35]]
    getForkOld names [0x32] = some 2 ∧ names[2]? = some [0x34] ∧
    getForkNew names [0x32] = some 1 := by decide


/-- Illustration of a defect CLASS, not a witness about the code: `getForkFold`
is a strawman lookup that compares the fork name up to letter case; no such
code exists in the tree and nothing ties it to any (untied by design). with that fork
table the notification of fork `s1` (position 2) is given to fork `S1`
(position 0), which sorts first. -/
theorem getFork_case_folding_misroutes :
    let names : List Bytes := [[0x5F, 0x53, 0x31], [0x5F, 0x70, 0x6C, 0x61, 0x69, 0x6E], [0x5F, 0x73, 0x31]]
    getForkFold names [0x5F, 0x73, 0x31] = some 0 ∧ getForkNew names [0x5F, 0x73, 0x31] = some 2 := by decide

/-- End to end on the model: forks of one node with pairwise distinct ids
`fork ++ tᵢ`; a notification rendered for fork `i` (any chunk, any attempt, any
metadata file) is parsed back to exactly that record and routed to position `i`. -/
theorem notification_reaches_owner (ts : List Bytes) (i : Nat) (t : Bytes)
    (hnd : ts.Nodup) (hi : ts[i]? = some t) (hne : t ≠ [])
    (fqid : Bytes) (chunk uniq : Option Bytes) (file : Bytes)
    (hch : ∀ d, chunk = some d → d ≠ [] ∧ ∀ c ∈ d, isDigit c = true)
    (huq : ∀ u, uniq = some u → u.length = 10 ∧ u.all isLowerHex = true)
    (hfile : fileOK file = true) :
    let x : JName := ⟨fqid, journalEnc Gen.journalPairs t, chunk, uniq, file⟩
    parseRun x.render = some x ∧
    getForkNew (ts.map (journalEnc Gen.journalPairs)) x.forkPart = some i := by
  intro x
  have hne' : journalEnc Gen.journalPairs t ≠ [] := by
    intro h
    have : journalEnc Gen.journalPairs t = journalEnc Gen.journalPairs [] := by rw [h]; rfl
    exact hne (journalEnc_inj journal_table_percent_encoding this)
  refine ⟨parseRun_render x ⟨hne', ?_, hch, huq, hfile⟩, ?_⟩
  · intro c hc hd
    exact (journalEnc_clean journal_table_clean t).1 (hd ▸ hc)
  · apply getForkNew_routes _ i _ (nodup_map_journalEnc journal_table_percent_encoding ts hnd) _ hne'
    simp [hi]

/-! ### Routing: `route (journalName n f j) = (n, f, j)` and nothing else routes -/

/-- Round trip through the regenerated replacer pairs and the regex: in a
pipestance whose nodes have pairwise distinct ids `top.<path>`, the journal
name written for node `n` (path `p`), fork `f` (name `nm`) and job record
(chunk digits, uniquifier, metadata file) is routed to exactly `(n, f, chunk,
uniq, file)`. -/
theorem route_roundtrip (top : Bytes) (nodes : List NodeM) (n f : Nat) (nd : NodeM) (p nm : Bytes)
    (chunk uniq : Option Bytes) (file : Bytes)
    (hnd : (nodes.map (·.fqid)).Nodup) (hn : nodes[n]? = some nd) (hfq : nd.fqid = top ++ cDot :: p)
    (hp : p ≠ []) (hno : ∀ m ∈ nodes, m.fqid ≠ p)
    (hfnd : nd.forks.Nodup) (hf : nd.forks[f]? = some nm)
    (wf : WellFormed ⟨p, nm, chunk, uniq, file⟩) :
    route top nodes (JName.render ⟨p, nm, chunk, uniq, file⟩) = some (n, f, chunk, uniq, file) :=
  route_of_render top nodes n f nd p nm chunk uniq file hnd hn hfq hp hno hfnd hf wf

/-- The fork names of the round trip can be the encoded fork ids: forks of one
node with pairwise distinct id tails get pairwise distinct, non-empty, dot-free
names, so the hypotheses of `route_roundtrip` on `nd.forks` hold. -/
theorem route_fork_names_ok (ts : List Bytes) (hnd : ts.Nodup) :
    (ts.map (journalEnc Gen.journalPairs)).Nodup ∧
    ∀ nm ∈ ts.map (journalEnc Gen.journalPairs), ∀ c ∈ nm, c ≠ cDot := by
  refine ⟨nodup_map_journalEnc journal_table_percent_encoding ts hnd, ?_⟩
  intro nm hnm c hc hd
  obtain ⟨t, _, rfl⟩ := List.mem_map.mp hnm
  exact (journalEnc_clean journal_table_clean t).1 (hd ▸ hc)

/-- Conversely, whatever is routed is the journal name of the job it is routed
to: if `s` is routed to node `n`, fork `f` and a job record, then `s` is exactly
the rendering of (that node's path, that fork's name, that record).  No
prefix, suffix or numeric-position confusion is possible. -/
theorem route_exact (top : Bytes) (nodes : List NodeM) (s : Bytes) (n f : Nat)
    (chunk uniq : Option Bytes) (file : Bytes)
    (h : route top nodes s = some (n, f, chunk, uniq, file)) :
    ∃ nd p nm, nodes[n]? = some nd ∧ (nd.fqid = top ++ cDot :: p ∨ nd.fqid = p) ∧ p ≠ [] ∧
      nd.forks[f]? = some nm ∧ s = JName.render ⟨p, nm, chunk, uniq, file⟩ :=
  route_sound top nodes s n f chunk uniq file h

/-- A name that no (node, fork, job record) of the pipestance produces routes
nowhere. -/
theorem route_nowhere (top : Bytes) (nodes : List NodeM) (s : Bytes)
    (h : ∀ (n : Nat) (nd : NodeM) (f : Nat) (nm p : Bytes) (chunk uniq : Option Bytes) (file : Bytes), nodes[n]? = some nd → (nd.fqid = top ++ cDot :: p ∨ nd.fqid = p) →
      nd.forks[f]? = some nm → s ≠ JName.render ⟨p, nm, chunk, uniq, file⟩) :
    route top nodes s = none := by
  cases hr : route top nodes s with
  | none => rfl
  | some r =>
    obtain ⟨n, f, chunk, uniq, file⟩ := r
    obtain ⟨nd, p, nm, hn, hfq, _, hf, hs⟩ := route_sound top nodes s n f chunk uniq file hr
    exact absurd hs (h n nd f nm p chunk uniq file hn hfq hf)

-- ID.ps with nodes TOP.A (forks 0, 1) and TOP.SUBTOP.A (fork 0): TOP.A.fork1.chnk0.complete goes to (node 1, fork 1);
-- the suffix-cut OP.A.fork1.chnk0.complete and the padded TOP.A.fork01.chnk0.complete route nowhere
example :
    let top : Bytes := [0x49, 0x44, 0x2E, 0x70, 0x73]
    let a : Bytes := [0x54, 0x4F, 0x50, 0x2E, 0x41]
    let b : Bytes := [0x54, 0x4F, 0x50, 0x2E, 0x53, 0x55, 0x42, 0x54, 0x4F, 0x50, 0x2E, 0x41]
    let nodes : List NodeM := [⟨top ++ cDot :: b, [[0x30]]⟩, ⟨top ++ cDot :: a, [[0x30], [0x31]]⟩]
    let file : Bytes := [0x63, 0x6F, 0x6D, 0x70, 0x6C, 0x65, 0x74, 0x65]
    (route top nodes (JName.render ⟨a, [0x31], some [0x30], none, file⟩)).map (fun r => (r.1, r.2.1)) = some (1, 1) ∧
    route top nodes (JName.render ⟨a.drop 1, [0x31], some [0x30], none, file⟩) = none ∧
    route top nodes (JName.render ⟨a, [0x30, 0x31], some [0x30], none, file⟩) = none := by decide

/-! ### Attempt identity -/

/-- A job is (re)started any number of times; attempt `k` is given the
uniquifier `draw k`, and every notification written by a process of attempt `k`
carries it.  ASSUMPTION (freshness): `draw` is injective — no two attempts of
one job get the same uniquifier.  Then, for every history of resets and
notifications (stragglers of older attempts included, in any order), every
notification in the metadata cache is credited to the current attempt and was
written by that attempt. -/
theorem attempt_exact {U : Type} [DecidableEq U] (draw : Nat → U)
    (fresh : ∀ a b, draw a = draw b → a = b) (evs : List JobEv) :
    ∀ q ∈ (jobRun draw ⟨0, draw 0, []⟩ evs).recorded,
      q.1 = (jobRun draw ⟨0, draw 0, []⟩ evs).attempt ∧ JobEv.notify q.1 q.2 ∈ evs := by
  intro q hq
  have := jobRun_exact draw fresh evs ⟨0, draw 0, []⟩ rfl (by simp) q hq
  refine ⟨this.1, ?_⟩
  rcases this.2 with h | h
  · exact h
  · simp at h

/-- Freshness as the code provides it within one process: the time part of the
uniquifier of a retry is `nextTime old now` (`nextUniquifier`), strictly above
the previous attempt's whatever the clock reads — also within the same second
— so the sequence is injective and `attempt_exact` applies.  (Across processes
freshness rests on the process id + wall clock; the 24-bit time field wraps
after ~194 days.) -/
theorem attempt_exact_same_process (now : Nat → Nat) (evs : List JobEv) :
    ∀ q ∈ (jobRun (attemptTime now) ⟨0, attemptTime now 0, []⟩ evs).recorded,
      q.1 = (jobRun (attemptTime now) ⟨0, attemptTime now 0, []⟩ evs).attempt ∧ JobEv.notify q.1 q.2 ∈ evs :=
  attempt_exact (attemptTime now) (attemptTime_inj now) evs

-- the clock stands still for three attempts: the uniquifier times still differ
example : (attemptTime (fun _ => 7) 0, attemptTime (fun _ => 7) 1, attemptTime (fun _ => 7) 2) = (7, 8, 9) := by decide

/-- Negative witness (uniquifier by clock second alone, or kept across the
reset): when attempts 0 and 1 get the same uniquifier, a straggler of attempt 0
reporting after the reset is credited to attempt 1. -/
theorem stale_attempt_credited_without_freshness :
    let evs := [JobEv.reset, JobEv.notify 0 [0x63]]
    (1, [0x63]) ∈ (jobRun (fun _ : Nat => (7 : Nat)) ⟨0, 7, []⟩ evs).recorded := by decide


/-! ### One refresh cycle over a batch of journal entries

`Node.refreshState` reads the whole journal directory in one cycle.  The model
of a cycle is the entry-by-entry map (`routeBatch`, `creditTable`): nothing is
carried from one entry to the next.  The harness feeds batches through the real
`refreshState` in ONE cycle and compares the credit table; a cache or any other
state that makes the result for an entry depend on the entries read before it
is a correspondence violation (`routeBatch_stateless`, `creditTable_stateless`
say what the model promises). -/

/-- Batch lift of `route_roundtrip`: whatever set of jobs of the tree wrote a
notification between two cycles (any nodes — also ones whose names are
prefixes of each other —, any forks, split / join / chunk jobs, any attempts,
any metadata files, in any order and multiplicity), every entry is routed to
exactly the (node, fork, chunk digits, uniquifier, file) that wrote it. -/
theorem routeBatch_roundtrip (top : Bytes) (nodes : List NodeM) (nch : Nat → Nat → Nat)
    (hnd : (nodes.map (·.fqid)).Nodup) (recs : List JobRec) (hv : ∀ r ∈ recs, ValidJob top nodes nch r) :
    routeBatch top nodes (recs.map JobRec.name) = recs.map fun r => some r.target :=
  routeBatch_jobNames top nodes nch hnd recs hv

/-- Down to the metadata object: the journal name a job writes is delivered to
exactly that job's object (fork / split / join / chunk `i`, the chunk index
read back from its zero-padded decimal rendering at every width), with the
uniquifier it carries and the bare metadata file name. -/
theorem deliver_roundtrip (top : Bytes) (nodes : List NodeM) (nch : Nat → Nat → Nat)
    (hnd : (nodes.map (·.fqid)).Nodup) (r : JobRec) (v : ValidJob top nodes nch r) :
    deliver top nodes nch r.name = some ⟨r.owner, r.uniq.getD [], r.file⟩ :=
  deliver_jobName top nodes nch hnd r v

/-- **Credit table of a cycle**: for every batch of notifications written by
jobs of the tree, each metadata object `o` is credited exactly the files that
`o` itself wrote under its current uniquifier — in the batch's order, with
multiplicity — and nothing else. -/
theorem creditTable_exact (top : Bytes) (nodes : List NodeM) (nch : Nat → Nat → Nat) (uq : Owner → Bytes)
    (hnd : (nodes.map (·.fqid)).Nodup) (recs : List JobRec) (hv : ∀ r ∈ recs, ValidJob top nodes nch r) (o : Owner) :
    creditedTo top nodes nch uq (recs.map JobRec.name) o
      = ((recs.filter (JobRec.current uq)).filter (fun r => r.owner = o)).map (·.file) :=
  creditedTo_jobNames top nodes nch uq hnd recs hv o

-- non-vacuity: ID.ps with nodes P.X (forks 0..10, 2 chunks each) and P.X1 (fork 0): the chunk-1 job of P.X fork 10 and
-- the split job of P.X1 fork 0 are valid job records ("P.X"+"10" = "P.X1"+"0" as plain concatenations)
example :
    let top : Bytes := [0x49, 0x44, 0x2E, 0x70, 0x73]
    let px : Bytes := [0x50, 0x2E, 0x58]
    let px1 : Bytes := [0x50, 0x2E, 0x58, 0x31]
    let file : Bytes := [0x63, 0x6F, 0x6D, 0x70, 0x6C, 0x65, 0x74, 0x65]
    let nodes : List NodeM := [⟨top ++ cDot :: px, [[0x30], [0x31], [0x32], [0x33], [0x34], [0x35], [0x36], [0x37], [0x38], [0x39], [0x31, 0x30]]⟩,
      ⟨top ++ cDot :: px1, [[0x30]]⟩]
    (nodes.map (·.fqid)).Nodup ∧
    ValidJob top nodes (fun _ _ => 2) ⟨0, 10, .chunk 1, none, file, px, [0x31, 0x30], 1⟩ ∧
    ValidJob top nodes (fun _ _ => 2) ⟨1, 0, .split, none, file, px1, [0x30], 1⟩ := by
  refine ⟨by decide, ⟨⟨_, rfl, rfl, by decide, rfl⟩, by decide, by decide, by decide, by decide, (by intro u h; cases h), ?_⟩,
    ⟨⟨_, rfl, rfl, by decide, rfl⟩, by decide, by decide, by decide, by decide, (by intro u h; cases h), ?_⟩⟩
  · simp only [slotValid]; decide
  · simp only [slotValid]; decide

/-- … nobody else receives anything: whatever a cycle credits to an object `o`
(for ANY directory content, valid names or not) is an entry of the batch that is
literally the journal name of `o`'s node and fork, whose chunk digits / file
prefix select `o`'s slot, and that carries `o`'s current uniquifier. -/
theorem creditTable_nobody_else (top : Bytes) (nodes : List NodeM) (nch : Nat → Nat → Nat) (uq : Owner → Bytes)
    (batch : List Bytes) (o : Owner) (name : Bytes) (h : (o, name) ∈ creditTable top nodes nch uq batch) :
    ∃ s ∈ batch, ∃ nd p nm ch u file, nodes[o.node]? = some nd ∧ (nd.fqid = top ++ cDot :: p ∨ nd.fqid = p) ∧ p ≠ [] ∧
      nd.forks[o.fork]? = some nm ∧ s = JName.render ⟨p, nm, ch, u, file⟩ ∧
      slotOf (nch o.node o.fork) ch file = some (o.slot, name) ∧ uq o = u.getD [] := by
  obtain ⟨s, hs, d, hd, ho, hf, hu⟩ := creditTable_mem top nodes nch uq batch o name h
  obtain ⟨nd, p, nm, ch, u, file, h1, h2, h3, h4, h5, h6, h7⟩ := deliver_sound top nodes nch s d hd
  subst ho
  subst hf
  exact ⟨s, hs, nd, p, nm, ch, u, file, h1, h2, h3, h4, h5, h6, by rw [hu, h7]⟩





/-- Illustration of a defect CLASS, not a witness about the code
(`routeMemoConcat` is a strawman, untied by design): a cycle that memoises the
(node, fork) lookup under the plain concatenation `fqid ++ forkPart` is NOT
the map of `route`.  With nodes
`P.X` (11 forks) and `P.X1` (1 fork), the entries `P.X.fork10.chnk0.complete`
and `P.X1.fork0.chnk0.log` read in one cycle share the key `P.X10`: the second
one is handed to node 0 / fork 10 instead of node 1 / fork 0.  (The harness's
batch stream sends such pairs through the real `refreshState`.) -/
theorem memo_by_concatenation_misroutes :
    let top : Bytes := [0x49, 0x44, 0x2E, 0x70, 0x73]
    let px : Bytes := [0x50, 0x2E, 0x58]
    let px1 : Bytes := [0x50, 0x2E, 0x58, 0x31]
    let nodes : List NodeM := [⟨top ++ cDot :: px, [[0x30], [0x31], [0x32], [0x33], [0x34], [0x35], [0x36], [0x37], [0x38], [0x39], [0x31, 0x30]]⟩,
      ⟨top ++ cDot :: px1, [[0x30]]⟩]
    let e1 := JName.render ⟨px, [0x31, 0x30], some [0x30], none, [0x63, 0x6F, 0x6D, 0x70, 0x6C, 0x65, 0x74, 0x65]⟩
    let e2 := JName.render ⟨px1, [0x30], some [0x30], none, [0x6C, 0x6F, 0x67]⟩
    (routeBatch top nodes [e1, e2]).map (Option.map fun t => (t.1, t.2.1)) = [some (0, 10), some (1, 0)] ∧
    (routeMemoConcat top nodes [] [e1, e2]).map (Option.map fun t => (t.1, t.2.1)) = [some (0, 10), some (0, 10)] := by
  decide

/-! ### Name lengths (keys used as directory and journal names) -/

/-- `makeKeySafe` lengthens a key by exactly two bytes per escaped byte … -/
theorem pathEscape_length_exact (k : Bytes) : (pathEscape k).length = k.length + 2 * escCount k :=
  pathEscape_length k

/-- … so a safe key is between one and three times as long as the key, and
exactly as long when no byte needs escaping. -/
theorem pathEscape_length_bounds (k : Bytes) :
    k.length ≤ (pathEscape k).length ∧ (pathEscape k).length ≤ 3 * k.length ∧
    (k.all (fun c => !shouldEscape c) = true → (pathEscape k).length = k.length) := by
  have h := pathEscape_length k
  have h2 := escCount_le k
  refine ⟨by omega, by omega, ?_⟩
  intro hall
  rw [h, escCount_zero k hall]; rfl

/-- The fork directory of map key `k` is `fork_` + safe key: `5 + |k| + 2·(escaped bytes)`. -/
theorem mapForkDir_length_exact (k : Bytes) : (mapForkDir k).length = 5 + k.length + 2 * escCount k :=
  mapForkDir_length k

/-- Whatever its bytes, a key of at most 83 bytes gets a directory name within
`NAME_MAX` = 255; a key without escaped bytes may have 250. -/
theorem mapForkDir_fits (k : Bytes) :
    (k.length ≤ 83 → (mapForkDir k).length ≤ nameMax) ∧
    (k.all (fun c => !shouldEscape c) = true → k.length ≤ 250 → (mapForkDir k).length ≤ nameMax) := by
  have h := mapForkDir_length k
  have h2 := escCount_le k
  refine ⟨fun hk => by unfold nameMax; omega, fun hall hk => ?_⟩
  rw [h, escCount_zero k hall]; unfold nameMax; omega

set_option maxRecDepth 100000 in
/-- Both bounds are sharp: 84 bytes `0xFF` (a key of 84 bytes, well within the
255 bytes a file name may have) give a 257-byte directory name, and 251 letters
give 256 — `mkdir` fails with ENAMETOOLONG for a legal map key. -/
theorem mapForkDir_exceeds_name_max :
    (List.replicate 84 (0xFF : UInt8)).length ≤ nameMax ∧ (mapForkDir (List.replicate 84 0xFF)).length = 257 ∧
    (List.replicate 251 (0x61 : UInt8)).length ≤ nameMax ∧ (mapForkDir (List.replicate 251 0x61)).length = 256 := by
  refine ⟨by decide, ?_, by decide, ?_⟩
  · rw [mapForkDir_length]; decide
  · rw [mapForkDir_length]; decide

/-- The fork part of the journal name (`encodeJournalName` of the directory
name, replacer pairs as regenerated) is at most `5 + 5·|k|` bytes: an escaped
byte `%XX` becomes `%25XX`. -/
theorem journal_forkpart_length (k : Bytes) :
    (journalEnc Gen.journalPairs (mapForkDir k)).length ≤ 5 + 5 * k.length :=
  journalEnc_mapForkDir_length k

/-- Length of a journal file name; it is ONE path component (the journal is a
flat directory), so it too must stay within `NAME_MAX`. -/
theorem journal_name_length (x : JName) :
    x.render.length = x.fqid.length + 5 + x.forkPart.length +
      (match x.chunk with | some d => 5 + d.length | none => 0) +
      (match x.uniq with | some u => 2 + u.length | none => 0) + 1 + x.file.length :=
  render_length x

/-- The journal name of a chunk job of the fork for key `k` fits `NAME_MAX`
when `|fqid| + 5·|k| + |digits| + |file| ≤ 228` (uniquifier present). -/
theorem journal_name_fits (fqid k d u file : Bytes) (hu : u.length = 10)
    (h : fqid.length + 5 * k.length + d.length + file.length ≤ 228) :
    (JName.render ⟨fqid, (journalEnc Gen.journalPairs (mapForkDir k)).drop 4, some d, some u, file⟩).length ≤ nameMax := by
  rw [render_length]
  have := journalEnc_mapForkDir_length k
  simp only [List.length_drop, hu]
  unfold nameMax
  omega

-- non-vacuity of journal_name_fits, and sharpness of the regime: a 40-byte key of bytes 0xFF under TOP.S
example : ([0x54, 0x4F, 0x50, 0x2E, 0x53] : Bytes).length + 5 * (List.replicate 40 (0xFF : UInt8)).length + 1 + 8 ≤ 228 := by decide

/-! ### definitional unfoldings (documentation of the model, not guarantees)

`routeBatch` / `creditTable` are DEFINED as the entry-by-entry map, so the four
statements below hold by unfolding: they say what the model of a refresh cycle
promises (no state between entries, no dependence on the listing order).  That
the REAL `refreshState` behaves like this map is checked by the batch
differential stream of the harness, not by these theorems. -/

/-- A cycle carries no state between entries: the routes of a batch are the
routes of its parts, whatever was read before … -/
theorem routeBatch_stateless (top : Bytes) (nodes : List NodeM) (a b : List Bytes) :
    routeBatch top nodes (a ++ b) = routeBatch top nodes a ++ routeBatch top nodes b := by
  simp [routeBatch]

/-- … and so is the credit table. -/
theorem creditTable_stateless (top : Bytes) (nodes : List NodeM) (nch : Nat → Nat → Nat) (uq : Owner → Bytes)
    (a b : List Bytes) :
    creditTable top nodes nch uq (a ++ b) = creditTable top nodes nch uq a ++ creditTable top nodes nch uq b := by
  simp [creditTable]

/-- The order of the directory listing does not matter: permuting the batch
permutes the routes … -/
theorem routeBatch_perm (top : Bytes) (nodes : List NodeM) (a b : List Bytes) (h : a.Perm b) :
    (routeBatch top nodes a).Perm (routeBatch top nodes b) := h.map _

/-- … and every object is credited the same multiset of files. -/
theorem creditedTo_perm (top : Bytes) (nodes : List NodeM) (nch : Nat → Nat → Nat) (uq : Owner → Bytes)
    (a b : List Bytes) (h : a.Perm b) (o : Owner) :
    (creditedTo top nodes nch uq a o).Perm (creditedTo top nodes nch uq b o) :=
  (h.filterMap _).filterMap _

/-- `Metadata.cache`: a notification is recorded iff it carries the current
attempt's uniquifier (a stale attempt's notification is ignored). -/
theorem stale_uniquifier_ignored (own seen : Bytes) : cacheAccepts own seen = true ↔ own = seen := by
  simp [cacheAccepts]

/-- **The lookup is exact, so near-equal names are routed apart**: two forks of
one node whose names differ — in the case of one letter, a trailing space, the
normal form of an accent, the hex case of an escape, a leading zero, anything —
are each found under their own name, at different positions.  No equivalence
coarser than byte equality is applied.  (A corollary: `getFork_routes` applied
twice; the guarantee is `getFork_routes` / `getFork_exact`.) -/
theorem getFork_distinguishes_near_equal (names : List Bytes) (i j : Nat) (a b : Bytes)
    (hnd : names.Nodup) (hi : names[i]? = some a) (hj : names[j]? = some b) (ha : a ≠ []) (hb : b ≠ []) (hab : a ≠ b) :
    getForkNew names a = some i ∧ getForkNew names b = some j ∧ i ≠ j := by
  refine ⟨getForkNew_routes names i a hnd hi ha, getForkNew_routes names j b hnd hj hb, ?_⟩
  intro e
  subst e
  rw [hi] at hj
  exact hab (Option.some.inj hj)

-- the fork table of a map call over the keys S1, plain, s1 (names `_S1`, `_plain`, `_s1`): hypotheses satisfiable, and the
-- two case-distinct keys are found at their own positions 0 and 2
example :
    let names : List Bytes := [[0x5F, 0x53, 0x31], [0x5F, 0x70, 0x6C, 0x61, 0x69, 0x6E], [0x5F, 0x73, 0x31]]
    names.Nodup ∧ getForkNew names [0x5F, 0x53, 0x31] = some 0 ∧ getForkNew names [0x5F, 0x73, 0x31] = some 2 := by decide

end Props.C11
