/-
C18 — cluster job scripts reproduce commands, paths and environment exactly.
PROPERTY THEOREMS ONLY (helper lemmas live in Proofs/ShellQuote.lean).
Stated against the escape table regenerated from /repo (`Gen.shellEscapes`).
-/
import Martian.ShellQuote
import Proofs.ShellQuote
import Gen.Facts

namespace Props.C18
open Martian.ShellQuote

/-- Regenerated obligation: the escape table found in the current source is
sound for POSIX double quotes (covers `$`, `` ` ``, `"`, `\`; escapes nothing a
backslash does not quote). Fails on a tree whose `switch` lacks one of them. -/
theorem table_ok : TableOK Gen.shellEscapes = true := by decide

/-- Every NUL-free valid-UTF-8 string survives quoting followed by POSIX
double-quote evaluation, and no expansion is ever triggered. -/
theorem dq_roundtrip (s : Bytes) (hv : validUtf8 s = true) (h0 : (0 : UInt8) ∉ s) :
    dqEval (quote Gen.shellEscapes s) = some s := by
  unfold dqEval quote
  have := dqEvalBody_quoteFrom table_ok s 0 [] hv (by simp) h0
  simp only [quoteBody]
  rw [this]

/-- Non-vacuity: a string containing every special character meets the hypotheses. -/
example : validUtf8 [0x61, 0x22, 0x24, 0x60, 0x5C, 0x0A, 0xE2, 0x98, 0xBA] = true
    ∧ (0 : UInt8) ∉ [0x61, 0x22, 0x24, 0x60, 0x5C, 0x0A, 0xE2, 0x98, 0xBA] := by decide

/-- Negative witness for the "arbitrary bytes" extension (F13): an invalid
UTF-8 byte is written as a backslash-octal escape, which `sh` does not
interpret inside double quotes, so the byte is *not* reproduced. -/
theorem invalid_byte_not_reproduced :
    dqEval (quote Gen.shellEscapes [0xBF]) ≠ some [0xBF] := by decide

end Props.C18
