/-
C18 — cluster job scripts reproduce commands, paths and environment exactly.
PROPERTY THEOREMS ONLY (helper lemmas live in Proofs/ShellQuote.lean).
Stated against the escape table regenerated from /repo (`Gen.shellEscapes`).
-/
import Martian.ShellQuote
import Proofs.ShellQuote
import Proofs.ShellWords
import Martian.JobTemplate
import Proofs.ShellLine
import Proofs.ShellScript
import Proofs.ShellShapes
import Proofs.ShellJob
import Proofs.ShellReplace
import Proofs.ShellJobReplace
import Gen.Facts

namespace Props.C18
open Martian.ShellQuote Martian.JobTemplate

/-- Regenerated obligation: the escape table found in the current source is
sound for POSIX double quotes (covers `$`, `` ` ``, `"`, `\`; escapes nothing a
backslash does not quote). Fails on a tree whose `switch` lacks one of them. -/
theorem table_ok : TableOK Gen.shellEscapes = true := by decide

/-- Every NUL-free valid-UTF-8 string survives quoting followed by POSIX
double-quote evaluation, and no expansion is ever triggered. -/
theorem dq_roundtrip (s : Bytes) (hv : validUtf8 s = true) (h0 : (0 : UInt8) ∉ s) :
    dqEval (quote Gen.shellEscapes s) = some s := by
  unfold dqEval quote
  have := dqEvalBody_quoteFrom table_ok s 0 [] hv (by simp) h0
  simp only [quoteBody]
  rw [this]

/-- Non-vacuity: a string containing every special character meets the hypotheses. -/
example : validUtf8 [0x61, 0x22, 0x24, 0x60, 0x5C, 0x0A, 0xE2, 0x98, 0xBA] = true
    ∧ (0 : UInt8) ∉ [0x61, 0x22, 0x24, 0x60, 0x5C, 0x0A, 0xE2, 0x98, 0xBA] := by decide

/-- Negative witness for the "arbitrary bytes" extension (F13): an invalid
UTF-8 byte is written as a backslash-octal escape, which `sh` does not
interpret inside double quotes, so the byte is *not* reproduced. -/
theorem invalid_byte_not_reproduced :
    dqEval (quote Gen.shellEscapes [0xBF]) ≠ some [0xBF] := by decide

/-- `formatArgs` (environment assignments in the order given, command, arguments,
joined by ` \⏎  `): a POSIX shell splits the text into exactly the words
`KEY=value`…, `cmd`, `arg`… — every value is reproduced byte for byte and the
number of words does not depend on the values (no injection). Keys are
names (`A-Za-z0-9_`, as environment variable names are); values, command and
arguments are arbitrary NUL-free valid UTF-8. -/
theorem formatArgs_words (envs : List (Bytes × Bytes)) (cmd : Bytes) (argv : List Bytes)
    (hk : ∀ kv ∈ envs, (∀ b ∈ kv.1, isPlain b = true) ∧ validUtf8 kv.2 = true ∧ (0 : UInt8) ∉ kv.2)
    (hc : validUtf8 cmd = true ∧ (0 : UInt8) ∉ cmd)
    (ha : ∀ a ∈ argv, validUtf8 a = true ∧ (0 : UInt8) ∉ a) :
    shWords (formatArgsOrdered Gen.shellEscapes envs cmd argv)
      = some (envs.map assignWord ++ cmd :: argv) := by
  unfold shWords formatArgsOrdered
  rw [List.append_assoc, sw_envs table_ok envs _ [] hk,
    sw_quote table_ok cmd _ [] false _ hc.1 hc.2,
    sw_args table_ok argv _ _ ha]
  simp

/-- `formatArgs` sorts the rendered assignments; sorting only permutes them, so
the multiset of words is independent of the (unordered) Go map's iteration. -/
theorem formatArgs_sorted_words (envs : List (Bytes × Bytes)) (cmd : Bytes) (argv : List Bytes)
    (hk : ∀ kv ∈ sortEnvs Gen.shellEscapes envs,
      (∀ b ∈ kv.1, isPlain b = true) ∧ validUtf8 kv.2 = true ∧ (0 : UInt8) ∉ kv.2)
    (hc : validUtf8 cmd = true ∧ (0 : UInt8) ∉ cmd)
    (ha : ∀ a ∈ argv, validUtf8 a = true ∧ (0 : UInt8) ∉ a) :
    shWords (formatArgs Gen.shellEscapes envs cmd argv)
      = some ((sortEnvs Gen.shellEscapes envs).map assignWord ++ cmd :: argv) :=
  formatArgs_words (sortEnvs Gen.shellEscapes envs) cmd argv hk hc ha

/-- Non-vacuity: hypotheses are met by a concrete command line with metacharacters. -/
example : (∀ kv ∈ [([0x41, 0x5F, 0x31], [0x24, 0x28, 0x69, 0x64, 0x29])],
      (∀ b ∈ (kv : Bytes × Bytes).1, isPlain b = true) ∧ validUtf8 kv.2 = true ∧ (0 : UInt8) ∉ kv.2)
    ∧ (validUtf8 [0x60, 0x22] = true ∧ (0 : UInt8) ∉ [0x60, 0x22]) := by decide

/-! ## Whole job scripts (template substitution of `RemoteJobManager.jobScript`)

`Martian.JobTemplate.run/shToks` is a POSIX shell line lexer (state machine:
blanks, newline, backslash, double and single quotes, comments, `>` `N>` `&`,
`$!`, assignment prefixes; anything else is refused).  `renderScript` is the
substitution on a template cut into lines and segments (the regenerated fact
`Gen.jobTemplates`), `params` the parameter table of `jobScript`. -/

/-- Regenerated obligation: names, order and KINDS of the `jobScript` parameters are those of
the model — STDOUT, STDERR, JOB_WORKDIR go through `shellSafeQuote`, CMD is `formatArgs`, the
numbers are `strconv.Itoa`, and exactly JOB_NAME, ACCOUNT, RESOURCES are substituted raw.
Fails on a tree that stops quoting one of them or adds a parameter. -/
theorem job_params_match_source : paramSpec = Gen.jobScriptParams := by decide

/-- Regenerated obligation: every line of every shipped template (with a command line) has a
shape the theorems below cover: empty, a `#` line not holding the command, `__MRO_CMD__` alone,
`__MRO_RESOURCES__` alone, `cd __MRO_JOB_WORKDIR__`, or the fake_remote line
`/usr/bin/env __MRO_CMD__ > __MRO_STDOUT__ 2> __MRO_STDERR__ & echo $!`; its literal text holds
no newline and its variables are parameters.  In particular no raw parameter and no variable
inside template quotes occurs on a command line.  Fails when a template gains another shape. -/
theorem shipped_templates_covered : Gen.jobTemplates.all (fun t => t.2.all lineOK) = true := by
  decide

/-- Non-vacuity: templates were found, each holds exactly one command line with `__MRO_CMD__`. -/
example : Gen.jobTemplates.length ≥ 8 ∧ Gen.jobTemplates.all (fun t =>
    (t.2.filter fun l => shapeOf l == .cmdAlone || shapeOf l == .envCmdBg).length == 1) = true := by
  decide

/-- Regenerated obligation: every `resopt` of jobmanagers/config.json (the text that, with the
mapped resource, replaces `__MRO_RESOURCES__`) is a one-line `#` directive. -/
theorem resopts_are_directives :
    Gen.jobResOpts.all (fun p => match p.2 with
      | 0x23 :: r => !r.contains 0x0A
      | _ => false) = true := by decide

example : Gen.jobResOpts ≠ [] := by decide

/-- … and then so is the substituted option, whatever newline-free resource is mapped:
the hypothesis `JobOK.res` of the theorems below holds for the shipped configuration. -/
theorem resources_option_is_comment (res r : Bytes) (hr : (0x0A : UInt8) ∉ r)
    (hres : (0x0A : UInt8) ∉ res) :
    ∃ r', replaceFirst resKey res (0x23 :: r) = 0x23 :: r' ∧ (0x0A : UInt8) ∉ r' := by
  refine ⟨replaceFirst resKey res r, replaceFirst_hash res r, ?_⟩
  intro h
  rcases replaceFirst_mem resKey res r _ h with h | h
  · exact hres h
  · exact hr h

/-- `formatArgs` in the state machine: from the start of a command, the lexer completes exactly
the words `KEY=value`… (marked as assignments), `cmd`, `arg`… — all but the last, which is
pending until the text after it ends the word.  Values arbitrary NUL-free valid UTF-8. -/
theorem formatArgs_tokens (envs : List (Bytes × Bytes)) (cmd : Bytes) (argv : List Bytes)
    (hk : ∀ kv ∈ envs, isName kv.1 = true ∧ validUtf8 kv.2 = true ∧ (0 : UInt8) ∉ kv.2)
    (hc : validUtf8 cmd = true ∧ (0 : UInt8) ∉ cmd)
    (ha : ∀ a ∈ argv, validUtf8 a = true ∧ (0 : UInt8) ∉ a) :
    shToks (formatArgsOrdered Gen.shellEscapes envs cmd argv)
      = some (envs.map (fun kv => Tok.word (assignWord kv) true) ++ w cmd :: argv.map w) := by
  unfold shToks
  rw [run_formatArgsOrdered table_ok envs cmd argv hk hc ha]
  simp only [finish, flush]
  have := congrArg (List.map w) (initOf_lastOf cmd argv)
  simp only [List.map_append, List.map_cons, List.map_nil] at this
  rw [← this]
  simp [w]

/-- no_injection, whole script, general form: for ANY template made of covered lines and ANY
values — command, arguments, environment (names are names), paths: arbitrary NUL-free valid
UTF-8 — the shell's token list of the rendered script is `expectedToks`: per line the
assignments in sorted order, the command and the arguments, each reproduced byte for byte
(plus the template's own words and operators), separated by newline tokens; number and
boundaries of the tokens do not depend on the values.  Comment lines need their values to be
newline-free (`hnl`). -/
theorem script_tokens (vals : String → Bytes) (g : Given) (hv : ValsOK Gen.shellEscapes vals g)
    (ls : List SegLine) (hs : ∀ l ∈ ls, shapeOf l ≠ .other)
    (hnl : ∀ l ∈ ls, shapeOf l = .inert →
      ∀ s ∈ l, (0x0A : UInt8) ∉ (if segIsVar s then vals s.1 else s.2)) :
    shToks (renderScript vals ls) = some (expectedToks g ls) :=
  script_tokens_of_lines table_ok hv ls hs hnl

/-- no_injection for every SHIPPED template and the parameter values `jobScript` computes
(`params`: quoted paths, `formatArgs` of the thread variables merged with the job's
environment, decimal numbers, raw job name / account / resources option). -/
theorem jobScript_tokens (t : String × List SegLine) (ht : t ∈ Gen.jobTemplates)
    (j : JobIn) (hj : JobOK j) (hn : NoNl j) :
    shToks (renderScript (valsOf (params Gen.shellEscapes j)) t.2)
      = some (expectedToks (givenOf Gen.shellEscapes j) t.2) := by
  have := shipped_templates_covered
  rw [List.all_eq_true] at this
  exact job_tokens_of_lines table_ok j hj hn t.2 (this t ht)

/-- Templates whose comment lines hold no variable (fake_remote.template): the same without
any newline hypothesis — paths with newlines are reproduced too. -/
theorem jobScript_tokens_no_comment_vars (t : String × List SegLine) (ht : t ∈ Gen.jobTemplates)
    (hnv : noVarsInComments t.2 = true) (j : JobIn) (hj : JobOK j) :
    shToks (renderScript (valsOf (params Gen.shellEscapes j)) t.2)
      = some (expectedToks (givenOf Gen.shellEscapes j) t.2) := by
  have := shipped_templates_covered
  rw [List.all_eq_true] at this
  exact job_tokens_no_comment_vars table_ok j hj t.2 (this t ht) hnv

/-- Non-vacuity: such a template is shipped. -/
example : ∃ t ∈ Gen.jobTemplates, noVarsInComments t.2 = true := by decide

/-- Non-vacuity of `JobOK`/`NoNl`: a job with metacharacters in command, argument, environment
value and paths (`$(id)`, backtick, quote, backslash, blank) is inside the domain. -/
example : ∃ j : JobIn, JobOK j ∧ NoNl j ∧ j.cmd = [0x2F, 0x24, 0x28, 0x69, 0x64, 0x29] :=
  ⟨{ tmpl := [], fqname := [0x49, 0x44], shellName := [0x6D], stdout := [0x2F, 0x60, 0x22],
     stderr := [0x2F, 0x5C], workdir := [0x2F, 0x20, 0x27], threadEnvs := [[0x54]],
     envs := [([0x41], [0x24, 0x48])], cmd := [0x2F, 0x24, 0x28, 0x69, 0x64, 0x29],
     argv := [[0x3B, 0x26]], threads := 1, memGB := 1, vmemGB := 0, threadsPerJob := 1,
     memGBPerJob := 1, extraVmemGB := 0, memGBPerCore := 0, alwaysVmem := false, account := [],
     special := [], mappings := [], resOpt := [] },
   { threadEnvs := by decide, envs := by decide, cmd := by decide, argv := by decide,
     stdout := by decide, stderr := by decide, workdir := by decide, res := Or.inl rfl },
   { fqname := by decide, shellName := by decide, stdout := by decide, stderr := by decide,
     workdir := by decide, account := by decide }, rfl⟩

/-- Negative witness (F31): the newline hypothesis cannot be dropped for templates that carry a
path on a scheduler-directive line.  `#$ -o ` followed by the correctly quoted path
`/p⏎id #`: the newline ends the comment and the shell reads the command `id`. -/
theorem newline_in_directive_path_is_code :
    shToks ([0x23, 0x24, 0x20, 0x2D, 0x6F, 0x20] ++
        quote Gen.shellEscapes [0x2F, 0x70, 0x0A, 0x69, 0x64, 0x20, 0x23])
      = some [Tok.nl, Tok.word [0x69, 0x64] false] := by decide

set_option maxRecDepth 20000 in
/-- Values substituted RAW (JOB_NAME, ACCOUNT, RESOURCES): in every shipped template they sit
on `#` lines only (`shipped_templates_covered`), where every byte but newline is harmless.  On a
command line a raw byte `b` between two letters stays part of one literal word exactly when it
is a letter, digit, `_` or one of `/ . - + : , @ % #` (`=` keeps one word but gives it the
shape of an assignment; every other byte — blank, quote, `$`, `&`, `;`, `|`, `<`, `>`, `(`,
`*`, `?`, `~`, backslash, control and non-ASCII bytes … — is split, interpreted or refused): -/
theorem raw_byte_safe_iff :
    (List.range 256).all (fun n =>
      let b := n.toUInt8
      (shToks [0x78, b, 0x78] == some [Tok.word [0x78, b, 0x78] false])
        == (isNameCh b || isBareExtra b || b == 0x23)) = true := by decide

/-- Negative witness for a raw value on a command line: the fork name of the map key `a&b`
(`url.PathEscape` leaves `$ & + = : @` alone) would be split into two commands. -/
theorem raw_job_name_on_command_line_splits :
    shToks [0x65, 0x63, 0x68, 0x6F, 0x20, 0x61, 0x26, 0x62]
      = some [Tok.word [0x65, 0x63, 0x68, 0x6F] false, Tok.word [0x61] false, Tok.op [0x26],
              Tok.word [0x62] false] := by decide

/-! ## The byte-level replacer IS the segment-level rendering

`jobScript` builds the script with `strings.NewReplacer` on the raw template text
(`replaceGo`, `replArgs`: key ↦ value pairs, and for an empty value every line holding the key
↦ ""); the theorems above speak about `renderScript` on the template cut into segments.
`wfTemplate` is a decidable condition on the segmentation (no key and no removable line text
starts inside literal text, exactly the variable's key starts at a variable, a removable line
starts with literal text or is one variable alone, …) under which the two agree for ALL values. -/

/-- Regenerated obligation: the key table of the model is the source's (`__MRO_` name `__`). -/
theorem job_keys_match_source : paramKeys = Gen.jobScriptKeys := by decide

/-- Regenerated obligation: every shipped template, as cut by verif-extract, is well formed
(checked at every byte position of every template; kernel evaluation). -/
theorem shipped_templates_wellformed :
    Gen.jobTemplates.all (fun t => wfTemplate Gen.jobScriptKeys maybeEmptyParams t.2) = true := by
  decide +kernel

/-- General form: for any key table, any well-formed segmented template and ANY values of which
only the `maybeEmpty` parameters may be empty, Go's replacer applied to the template text
yields exactly `renderScript`. -/
theorem replacer_is_renderScript (keys : Keys) (maybeEmpty : List String) (ls : List SegLine)
    (vals : String → Bytes) (hwf : wfTemplate keys maybeEmpty ls = true)
    (hne : ∀ nk ∈ keys, nk.1 ∉ maybeEmpty → vals nk.1 ≠ []) :
    replaceGo (pairsOf keys vals ls) 0 (templateTextK keys ls) = renderScript vals ls :=
  (Setting.mk hwf hne).replace_eq_render

/-- Non-vacuity: a template with a removable line and two variables is well formed. -/
example : wfTemplate [("A", [0x5F, 0x41]), ("B", [0x5F, 0x42])] ["B"]
    [[("", [0x23, 0x20]), ("B", [])], [("", [0x78, 0x20]), ("A", []), ("", [0x79])], []] = true := by
  decide

/-- `jobScript` on the text of a shipped template = `renderScript` on its segments, for every
job (the quoted, numeric and command parameters are never empty: `job_vals_ne`). -/
theorem jobScript_is_renderScript (t : String × List SegLine) (ht : t ∈ Gen.jobTemplates)
    (j : JobIn) (hT : j.tmpl = templateTextK Gen.jobScriptKeys t.2) :
    jobScript Gen.shellEscapes j = renderScript (valsOf (params Gen.shellEscapes j)) t.2 := by
  have h := shipped_templates_wellformed
  rw [List.all_eq_true] at h
  have hw := h t ht
  rw [← job_keys_match_source] at hw hT
  exact jobScript_eq_render t.2 hw j hT

/-- no_injection for the script `jobScript` really produces (byte-level replacer model) from the
text of any shipped template: its shell tokens are the value-independent skeleton with every
given string reproduced as exactly one word. -/
theorem jobScript_no_injection (t : String × List SegLine) (ht : t ∈ Gen.jobTemplates)
    (j : JobIn) (hT : j.tmpl = templateTextK Gen.jobScriptKeys t.2) (hj : JobOK j) (hn : NoNl j) :
    shToks (jobScript Gen.shellEscapes j)
      = some (expectedToks (givenOf Gen.shellEscapes j) t.2) := by
  rw [jobScript_is_renderScript t ht j hT]
  exact jobScript_tokens t ht j hj hn

/-! ## Audit follow-up -/

/-- The regenerated facts the job-script theorems rest on were really extracted from the tree
(none of them may silently fall back to a committed default). -/
theorem job_facts_extracted :
    Gen.shellEscapes_extracted = true ∧ Gen.jobScriptParams_extracted = true ∧
    Gen.jobScriptKeys_extracted = true ∧ Gen.jobTemplates_extracted = true ∧
    Gen.jobResOpts_extracted = true := by decide

theorem mem_of_lookup {k v : Bytes} : ∀ {l : List (Bytes × Bytes)}, l.lookup k = some v → (k, v) ∈ l
  | [], h => by cases h
  | (a, b) :: t, h => by
    simp only [List.lookup] at h
    split at h
    · rename_i e
      have : k = a := by simpa using e
      cases h
      simp [this]
    · exact List.mem_cons_of_mem _ (mem_of_lookup h)

/-- LOW-2: the hypothesis `JobOK.res` (the substituted resources option is absent or a
one-line comment) HOLDS for every job whose `resopt` is one of the shipped `config.json` and
whose MRO_JOBRESOURCES mapping values contain no newline — `mappedResources j` itself, not
only `replaceFirst`. -/
theorem shipped_resopt_gives_JobOK_res (j : JobIn) (h : ∃ p ∈ Gen.jobResOpts, p.2 = j.resOpt)
    (hm : ∀ kv ∈ j.mappings, (0x0A : UInt8) ∉ kv.2) :
    mappedResources j = [] ∨ ∃ r, mappedResources j = 0x23 :: r ∧ (0x0A : UInt8) ∉ r := by
  unfold mappedResources
  split
  · exact Or.inl rfl
  · split
    · rename_i res hl
      right
      obtain ⟨p, hp, he⟩ := h
      have hd := resopts_are_directives
      rw [List.all_eq_true] at hd
      have := hd p hp
      rw [he] at this
      split at this
      · rename_i r heq
        have hr : (0x0A : UInt8) ∉ r := by simpa using this
        rw [heq]
        exact resources_option_is_comment res r hr (hm _ (mem_of_lookup hl))
      · cases this
    · exact Or.inl rfl

/-- Non-vacuity with a MAPPED resources option (`__special = highmem`, MRO_JOBRESOURCES
`highmem:mem_free=64G`, the shipped sge `resopt`): the job is inside the domain and the raw text
lands in the script as the directive `#$ -l mem_free=64G`. -/
example : ∃ j : JobIn, JobOK j ∧ NoNl j ∧
    mappedResources j = [0x23, 0x24, 0x20, 0x2D, 0x6C, 0x20, 0x6D, 0x65, 0x6D, 0x5F, 0x66, 0x72, 0x65,
      0x65, 0x3D, 0x36, 0x34, 0x47] :=
  ⟨{ tmpl := [], fqname := [0x49, 0x44], shellName := [0x6D], stdout := [0x2F, 0x6F],
     stderr := [0x2F, 0x65], workdir := [0x2F, 0x77], threadEnvs := [],
     envs := [], cmd := [0x2F, 0x70], argv := [], threads := 1, memGB := 1, vmemGB := 0,
     threadsPerJob := 1, memGBPerJob := 1, extraVmemGB := 0, memGBPerCore := 0, alwaysVmem := false,
     account := [0x61], special := [0x68, 0x69, 0x67, 0x68, 0x6D, 0x65, 0x6D],
     mappings := [([0x68, 0x69, 0x67, 0x68, 0x6D, 0x65, 0x6D],
       [0x6D, 0x65, 0x6D, 0x5F, 0x66, 0x72, 0x65, 0x65, 0x3D, 0x36, 0x34, 0x47])],
     resOpt := [0x23, 0x24, 0x20, 0x2D, 0x6C, 0x20, 0x5F, 0x5F, 0x52, 0x45, 0x53, 0x4F, 0x55, 0x52, 0x43,
       0x45, 0x53, 0x5F, 0x5F] },
   { threadEnvs := by decide, envs := by decide, cmd := by decide, argv := by decide,
     stdout := by decide, stderr := by decide, workdir := by decide,
     res := Or.inr ⟨[0x24, 0x20, 0x2D, 0x6C, 0x20, 0x6D, 0x65, 0x6D, 0x5F, 0x66, 0x72, 0x65, 0x65, 0x3D, 0x36,
       0x34, 0x47], by decide, by decide⟩ },
   { fqname := by decide, shellName := by decide, stdout := by decide, stderr := by decide,
     workdir := by decide, account := by decide }, by decide⟩

/-- Non-vacuity of the JOINT hypotheses of `jobScript_no_injection` (audit pass 2, LOW-4): for
EVERY shipped template there is a job on that template's own text, with metacharacters in the
command, an argument, an environment value and the paths, inside `JobOK` and `NoNl`. -/
example : ∀ t ∈ Gen.jobTemplates, ∃ j : JobIn,
    j.tmpl = templateTextK Gen.jobScriptKeys t.2 ∧ JobOK j ∧ NoNl j :=
  fun t _ =>
  ⟨{ tmpl := templateTextK Gen.jobScriptKeys t.2, fqname := [0x49, 0x44], shellName := [0x6D],
     stdout := [0x2F, 0x60, 0x22], stderr := [0x2F, 0x5C], workdir := [0x2F, 0x20, 0x27],
     threadEnvs := [[0x54]], envs := [([0x41], [0x24, 0x48])],
     cmd := [0x2F, 0x24, 0x28, 0x69, 0x64, 0x29], argv := [[0x3B, 0x26]], threads := 1, memGB := 1,
     vmemGB := 0, threadsPerJob := 1, memGBPerJob := 1, extraVmemGB := 0, memGBPerCore := 0,
     alwaysVmem := false, account := [], special := [], mappings := [], resOpt := [] },
   rfl,
   { threadEnvs := show ∀ n ∈ [[(0x54 : UInt8)]], isName n = true by decide,
     envs := show ∀ kv ∈ [(([0x41], [0x24, 0x48]) : Bytes × Bytes)],
       isName kv.1 = true ∧ validUtf8 kv.2 = true ∧ (0 : UInt8) ∉ kv.2 by decide,
     cmd := show validUtf8 [0x2F, 0x24, 0x28, 0x69, 0x64, 0x29] = true
       ∧ (0 : UInt8) ∉ [0x2F, 0x24, 0x28, 0x69, 0x64, 0x29] by decide,
     argv := show ∀ a ∈ [[(0x3B : UInt8), 0x26]], validUtf8 a = true ∧ (0 : UInt8) ∉ a by decide,
     stdout := show validUtf8 [0x2F, 0x60, 0x22] = true ∧ (0 : UInt8) ∉ [0x2F, 0x60, 0x22] by decide,
     stderr := show validUtf8 [0x2F, 0x5C] = true ∧ (0 : UInt8) ∉ [0x2F, 0x5C] by decide,
     workdir := show validUtf8 [0x2F, 0x20, 0x27] = true ∧ (0 : UInt8) ∉ [0x2F, 0x20, 0x27] by decide,
     res := Or.inl rfl },
   { fqname := show (0x0A : UInt8) ∉ [0x49, 0x44] by decide,
     shellName := show (0x0A : UInt8) ∉ [0x6D] by decide,
     stdout := show (0x0A : UInt8) ∉ [0x2F, 0x60, 0x22] by decide,
     stderr := show (0x0A : UInt8) ∉ [0x2F, 0x5C] by decide,
     workdir := show (0x0A : UInt8) ∉ [0x2F, 0x20, 0x27] by decide,
     account := show (0x0A : UInt8) ∉ ([] : List UInt8) by decide }⟩

end Props.C18
