/-
C18 — cluster job scripts reproduce commands, paths and environment exactly.
PROPERTY THEOREMS ONLY (helper lemmas live in Proofs/ShellQuote.lean).
Stated against the escape table regenerated from /repo (`Gen.shellEscapes`).
-/
import Martian.ShellQuote
import Proofs.ShellQuote
import Proofs.ShellWords
import Gen.Facts

namespace Props.C18
open Martian.ShellQuote

/-- Regenerated obligation: the escape table found in the current source is
sound for POSIX double quotes (covers `$`, `` ` ``, `"`, `\`; escapes nothing a
backslash does not quote). Fails on a tree whose `switch` lacks one of them. -/
theorem table_ok : TableOK Gen.shellEscapes = true := by decide

/-- Every NUL-free valid-UTF-8 string survives quoting followed by POSIX
double-quote evaluation, and no expansion is ever triggered. -/
theorem dq_roundtrip (s : Bytes) (hv : validUtf8 s = true) (h0 : (0 : UInt8) ∉ s) :
    dqEval (quote Gen.shellEscapes s) = some s := by
  unfold dqEval quote
  have := dqEvalBody_quoteFrom table_ok s 0 [] hv (by simp) h0
  simp only [quoteBody]
  rw [this]

/-- Non-vacuity: a string containing every special character meets the hypotheses. -/
example : validUtf8 [0x61, 0x22, 0x24, 0x60, 0x5C, 0x0A, 0xE2, 0x98, 0xBA] = true
    ∧ (0 : UInt8) ∉ [0x61, 0x22, 0x24, 0x60, 0x5C, 0x0A, 0xE2, 0x98, 0xBA] := by decide

/-- Negative witness for the "arbitrary bytes" extension (F13): an invalid
UTF-8 byte is written as a backslash-octal escape, which `sh` does not
interpret inside double quotes, so the byte is *not* reproduced. -/
theorem invalid_byte_not_reproduced :
    dqEval (quote Gen.shellEscapes [0xBF]) ≠ some [0xBF] := by decide

/-- `formatArgs` (environment assignments in the order given, command, arguments,
joined by ` \⏎  `): a POSIX shell splits the text into exactly the words
`KEY=value`…, `cmd`, `arg`… — every value is reproduced byte for byte and the
number of words does not depend on the values (no injection). Keys are
names (`A-Za-z0-9_`, as environment variable names are); values, command and
arguments are arbitrary NUL-free valid UTF-8. -/
theorem formatArgs_words (envs : List (Bytes × Bytes)) (cmd : Bytes) (argv : List Bytes)
    (hk : ∀ kv ∈ envs, (∀ b ∈ kv.1, isPlain b = true) ∧ validUtf8 kv.2 = true ∧ (0 : UInt8) ∉ kv.2)
    (hc : validUtf8 cmd = true ∧ (0 : UInt8) ∉ cmd)
    (ha : ∀ a ∈ argv, validUtf8 a = true ∧ (0 : UInt8) ∉ a) :
    shWords (formatArgsOrdered Gen.shellEscapes envs cmd argv)
      = some (envs.map assignWord ++ cmd :: argv) := by
  unfold shWords formatArgsOrdered
  rw [List.append_assoc, sw_envs table_ok envs _ [] hk,
    sw_quote table_ok cmd _ [] false _ hc.1 hc.2,
    sw_args table_ok argv _ _ ha]
  simp

/-- `formatArgs` sorts the rendered assignments; sorting only permutes them, so
the multiset of words is independent of the (unordered) Go map's iteration. -/
theorem formatArgs_sorted_words (envs : List (Bytes × Bytes)) (cmd : Bytes) (argv : List Bytes)
    (hk : ∀ kv ∈ sortEnvs Gen.shellEscapes envs,
      (∀ b ∈ kv.1, isPlain b = true) ∧ validUtf8 kv.2 = true ∧ (0 : UInt8) ∉ kv.2)
    (hc : validUtf8 cmd = true ∧ (0 : UInt8) ∉ cmd)
    (ha : ∀ a ∈ argv, validUtf8 a = true ∧ (0 : UInt8) ∉ a) :
    shWords (formatArgs Gen.shellEscapes envs cmd argv)
      = some ((sortEnvs Gen.shellEscapes envs).map assignWord ++ cmd :: argv) :=
  formatArgs_words (sortEnvs Gen.shellEscapes envs) cmd argv hk hc ha

/-- Non-vacuity: hypotheses are met by a concrete command line with metacharacters. -/
example : (∀ kv ∈ [([0x41, 0x5F, 0x31], [0x24, 0x28, 0x69, 0x64, 0x29])],
      (∀ b ∈ (kv : Bytes × Bytes).1, isPlain b = true) ∧ validUtf8 kv.2 = true ∧ (0 : UInt8) ∉ kv.2)
    ∧ (validUtf8 [0x60, 0x22] = true ∧ (0 : UInt8) ∉ [0x60, 0x22]) := by decide

end Props.C18
