/-
C04 tie: `pathIsInside` TRANSLATED from martian/core/storage.go on every run
(`Gen.tr_pathIsInside`; `filepath.Clean` is a parameter of the translated term)
is the model's `pathIsInsideRaw` when the parameter is the model's `cleanAbs`.
-/
import Martian.Vdr
import Martian.VdrFs
import Gen.Facts

namespace Props.C04
open Martian.Vdr

/-- for ALL paths: the translated Go function, with the model of
`filepath.Clean` plugged in, is `pathIsInsideRaw` -/
theorem tr_pathIsInside_eq_model (test parent : Path) :
    Gen.tr_pathIsInside cleanAbs test parent = pathIsInsideRaw test parent := by
  simp only [Gen.tr_pathIsInside, pathIsInsideRaw]
  have hslash : ([Char.ofNat 47] : List Char) = ['/'] := by decide
  by_cases h : test = parent
  · simp [h]
  · have hb : (test == parent) = false := by simpa using h
    simp [hb, hslash]

/-- whatever `filepath.Clean` does: a path is inside itself, and after cleaning
the test is "equal, or longer with the parent and a slash as prefix" -/
theorem tr_pathIsInside_spec (clean : Path → Path) (test parent : Path) :
    Gen.tr_pathIsInside clean test parent =
      (test == parent || clean test == clean parent ||
        (decide ((clean parent).length < (clean test).length) &&
          (clean parent ++ ['/']).isPrefixOf (clean test))) := by
  simp only [Gen.tr_pathIsInside]
  have hslash : ([Char.ofNat 47] : List Char) = ['/'] := by decide
  by_cases h : test = parent
  · simp [h]
  · have hb : (test == parent) = false := by simpa using h
    simp [hb, hslash]

/-- the translated term came from the source of THIS run: if the extraction pattern is ever
defeated the committed default is used and this obligation breaks (the tie does not fail open) -/
theorem tr_pathIsInside_is_extracted : Gen.tr_pathIsInside_extracted = true := by decide

/-- **the bridge to the headline theorems.**  The passes of the model (`killCore`, `collapse`,
`topLevel`) use the clean-path `pathIsInside`; on paths `filepath.Clean` leaves alone — walked
paths: the driver evaluates `cleanAbs d.path = d.path` for every entry of every replayed state
(hypothesis flag CleanD) — the translated Go function IS that `pathIsInside`. -/
theorem tr_pathIsInside_eq_pathIsInside (d k : Path) (hd : cleanAbs d = d) (hk : cleanAbs k = k) :
    Gen.tr_pathIsInside cleanAbs d k = pathIsInside d k := by
  rw [tr_pathIsInside_eq_model]
  unfold pathIsInsideRaw pathIsInside
  simp only [hd, hk]
  cases h : (d == k) <;> simp

/-- the hypothesis matters: an unclean spelling is inside for the Go function, not for the
clean-path test (the auditor's witness) -/
theorem bridge_needs_clean_paths :
    Gen.tr_pathIsInside cleanAbs "/a/./b".toList "/a/b".toList = true ∧
    pathIsInside "/a/./b".toList "/a/b".toList = false := by decide

example : Gen.tr_pathIsInside cleanAbs "/a/b/../c/d".toList "/a/c".toList = true ∧
    Gen.tr_pathIsInside cleanAbs "/a/cd".toList "/a/c".toList = false := by decide

/-- FAIL CLOSED (second audit pass, X2/X3): the tie theorems of this file are about the
definition(s) TRANSLATED FROM THE TREE UNDER TEST, not about the committed default the
extractor falls back to when the source leaves the translated subset – in that
case this obligation breaks and `./check` reports it (besides the note). -/
theorem translated_from_tree_under_test : Gen.tr_pathIsInside_extracted = true := by decide

end Props.C04
