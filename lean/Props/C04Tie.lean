/-
C04 tie: `pathIsInside` TRANSLATED from martian/core/storage.go on every run
(`Gen.tr_pathIsInside`; `filepath.Clean` is a parameter of the translated term)
is the model's `pathIsInsideRaw` when the parameter is the model's `cleanAbs`.
-/
import Martian.Vdr
import Martian.VdrFs
import Gen.Facts

namespace Props.C04
open Martian.Vdr

/-- for ALL paths: the translated Go function, with the model of
`filepath.Clean` plugged in, is `pathIsInsideRaw` -/
theorem tr_pathIsInside_eq_model (test parent : Path) :
    Gen.tr_pathIsInside cleanAbs test parent = pathIsInsideRaw test parent := by
  simp only [Gen.tr_pathIsInside, pathIsInsideRaw]
  have hslash : ([Char.ofNat 47] : List Char) = ['/'] := by decide
  by_cases h : test = parent
  · simp [h]
  · have hb : (test == parent) = false := by simpa using h
    simp [hb, hslash]

/-- whatever `filepath.Clean` does: a path is inside itself, and after cleaning
the test is "equal, or longer with the parent and a slash as prefix" -/
theorem tr_pathIsInside_spec (clean : Path → Path) (test parent : Path) :
    Gen.tr_pathIsInside clean test parent =
      (test == parent || clean test == clean parent ||
        (decide ((clean parent).length < (clean test).length) &&
          (clean parent ++ ['/']).isPrefixOf (clean test))) := by
  simp only [Gen.tr_pathIsInside]
  have hslash : ([Char.ofNat 47] : List Char) = ['/'] := by decide
  by_cases h : test = parent
  · simp [h]
  · have hb : (test == parent) = false := by simpa using h
    simp [hb, hslash]

example : Gen.tr_pathIsInside cleanAbs "/a/b/../c/d".toList "/a/c".toList = true ∧
    Gen.tr_pathIsInside cleanAbs "/a/cd".toList "/a/c".toList = false := by decide

/-- FAIL CLOSED (second audit pass, X2/X3): the tie theorems of this file are about the
definition(s) TRANSLATED FROM THE TREE UNDER TEST, not about the committed default the
extractor falls back to when the source leaves the translated subset – in that
case this obligation breaks and `./check` reports it (besides the note). -/
theorem translated_from_tree_under_test : Gen.tr_pathIsInside_extracted = true := by decide

end Props.C04
