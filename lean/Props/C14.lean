/-
C14 — VDR reclaims what it may and reports exactly what it removed.
PROPERTY THEOREMS ONLY (lemmas: Proofs/VdrReport.lean, Proofs/VdrShrink.lean,
Proofs/VdrInv.lean; model: Martian/Vdr.lean).
-/
import Martian.Vdr
import Proofs.VdrReport
import Proofs.VdrShrink
import Proofs.VdrExact
import Proofs.VdrReclaim
import Proofs.VdrExample
import Proofs.VdrTmp
import Martian.VdrFs
import Martian.VdrBuild
import Proofs.VdrBuild
import Proofs.VdrListed
import Proofs.VdrRefuse
import Proofs.VdrFinal
import Proofs.VdrFs
import Proofs.VdrHyp
import Proofs.VdrCover
import Martian.VdrWalk
import Proofs.VdrWalk

namespace Props.C14
open Martian.Vdr

/-- **merge_preserves_totals.**  `mergeVDRKillReports` (nil entries skipped):
count and size are the sums, the paths the concatenation, and the byte
deltas of the merged events add up to those of all input events. -/
theorem merge_preserves_totals (rs : List (Option KReport)) :
    (mergeReports rs).count = ((present rs).map (·.count)).sum ∧
    (mergeReports rs).size = ((present rs).map (·.size)).sum ∧
    (mergeReports rs).paths = ((present rs).map (·.paths)).flatten ∧
    sumDelta (mergeReports rs).events = ((present rs).map (fun r => sumDelta r.events)).sum := by
  obtain ⟨h1, h2, h3, h4⟩ := foldl_mergeAcc rs {}
  unfold mergeReports
  refine ⟨?_, ?_, ?_, ?_⟩
  · simpa using h1
  · simpa using h2
  · simpa using h3
  · show sumDelta (mergeEvents (rs.foldl mergeAcc {}).events) = _
    rw [sumDelta_mergeEvents, h4]; simp

/-- `mergeEvents` (sort, then fuse events of the same second and sign) keeps the total. -/
theorem mergeEvents_preserves_total (l : List VEvent) : sumDelta (mergeEvents l) = sumDelta l :=
  sumDelta_mergeEvents l

/-- **inside_pipestance**, on the resolved location (for entry lists of ANY origin, with the
shape of the enumeration as a hypothesis — the statement transports `h`/`hreal` along
`removed ⊆ s0.disk`; for what the walk enumerates `inside_pipestance_walked` and
`removed_in_place_or_nothing` need no such hypothesis and supersede it).  Under every
interleaving and for every configuration, whatever is removed was an entry of
the fork's own files/ or tmp/ directories, as enumerated by the walk.
ASSUMED about that enumeration (this is what `util.Walk` not following links
provides, repaired in this round; checked at run time by the sentinels behind
links to outside directories and files below files/ and tmp/): the entries
lie lexically inside the pipestance directory, and no symbolic link is a
proper ancestor of an entry (`ParentsReal`: a link is an entry of its own and
is never descended into).  Then every removed path still has only real
directories as parent components — `os.RemoveAll` acts exactly where the path
is written (`throughLink e p = p` for every link `e`: `parentsReal_acts_in_place`),
removing a link as a link — and that place is inside the pipestance directory.
(That what is removed was an entry of the fork's own directories holds by
construction of the model: the passes filter the fork's entry list.) -/
theorem inside_pipestance (c : Cfg) (s0 : St) (evs : List Ev) (root : Path) (fs : List FsEnt)
    (fr : s0.removed = []) (h : ∀ d ∈ s0.disk, pathIsInside d.path root = true)
    (hreal : ∀ d ∈ s0.disk, ParentsReal fs d.path) :
    ∀ d ∈ (run c s0 evs).removed, pathIsInside d.path root = true ∧ ParentsReal fs d.path ∧
      ∀ e ∈ fs, pathIsInside (throughLink e d.path) root = true := by
  intro d hd
  rcases (shr_run c s0 evs).removed d hd with h1 | h1
  · rw [fr] at h1; cases h1
  · refine ⟨h d h1, hreal d h1, ?_⟩
    intro e he
    rw [parentsReal_acts_in_place fs d.path (hreal d h1) e he]
    exact h d h1

/-- **inside_pipestance_walked.**  `ParentsReal` is not an assumption for what the
walk enumerates: if the fork's entries are what `util.Walk` reports below a
directory `root` whose content is the (well-formed: names non-empty, without
separator, pairwise different) tree `t` — the walk reports a symbolic link as
a link and descends into real directories only —, then under every
interleaving every removed path has only real directories between `root` and
itself, is therefore acted on where it is written (`throughLink e p = p` for
every link `e` below `root`), and that place is inside `root`.  (Links ABOVE
`root`: the node's directory and the pipelines' above it are checked by
`Node.vdrCheckSymlink` — a fork below a link is refused,
`removed_in_place_or_nothing` —; the fork and job directories between the
node directory and the walk roots are created by mrp itself and not modelled.) -/
theorem inside_pipestance_walked (c : Cfg) (s0 : St) (evs : List Ev) (root : Path) (t : FsTree)
    (hw : t.wf = true) (fr : s0.removed = [])
    (hdisk : ∀ d ∈ s0.disk, ∃ k, (d.path, k) ∈ walkBelow root t) :
    ∀ d ∈ (run c s0 evs).removed,
      pathIsInside d.path root = true ∧ ParentsReal (entsBelow root t) d.path ∧
      ∀ e ∈ entsBelow root t, throughLink e d.path = d.path := by
  intro d hd
  rcases (shr_run c s0 evs).removed d hd with h1 | h1
  · rw [fr] at h1; cases h1
  · obtain ⟨k, hk⟩ := hdisk d h1
    have hp := walkBelow_parentsReal t hw root d.path k hk
    exact ⟨walkBelow_inside t root d.path k hk, hp, parentsReal_acts_in_place _ _ hp⟩

/-- **removed_in_place_or_nothing.**  The dichotomy, PROVED, with the guard in
the model: `refusedBy fs chain` is what `Fork.vdrAcrossSymlink` computes — is
one of the directories the code lstats on the way to the fork's files (`chain`:
the node's directory and the pipelines' above it, the fork directory, every
job's directory, files and temp directory; fork/job/files level since the
repair of the last round) a symbolic link of the file system `fs` —, and
`runG` is a history under that guard (refused: the removing passes return at
once).  If the fork's entries are what the walk reports below `root` (tree
`t`, well-formed) and every link of the file system is either one of the
guarded directories or lies below `root`, then EITHER the fork is refused and
nothing at all is removed, reported or made final, OR every removed path has
only real directories above it — no link of `fs` is a proper ancestor —, is
acted on where it is written and lies inside `root`.  (`chain` is a parameter here; `removed_in_place_or_nothing_fork` fixes it to the
directories the Go guard lstats and weakens the link hypothesis to the decided
`hfsB`.  One walk root; a fork
has several — each job's files and temp directory —: links below ANOTHER root
of the same fork are covered only if the roots do not nest, which is not
modelled.) -/
theorem removed_in_place_or_nothing (c : Cfg) (s0 : St) (evs : List Ev) (root : Path) (t : FsTree)
    (fs : List FsEnt) (chain : List Path) (hw : t.wf = true) (fr : s0.removed = [])
    (hdisk : ∀ d ∈ s0.disk, ∃ k, (d.path, k) ∈ walkBelow root t)
    (hfs : ∀ e ∈ fs, e.link ≠ none → e.path ∈ chain ∨ e ∈ entsBelow root t) :
    (refusedBy fs chain = true ∧ (runG true c s0 evs).removed = [] ∧ (runG true c s0 evs).disk = s0.disk ∧
      (runG true c s0 evs).report = s0.report ∧ (runG true c s0 evs).final = s0.final) ∨
    (refusedBy fs chain = false ∧
      ∀ d ∈ (runG (refusedBy fs chain) c s0 evs).removed,
        pathIsInside d.path root = true ∧ ParentsReal fs d.path ∧ ∀ e ∈ fs, throughLink e d.path = d.path) := by
  cases hr : refusedBy fs chain with
  | true =>
    obtain ⟨h1, h2, h3, h4⟩ := runG_true_removed c s0 evs
    exact Or.inl ⟨rfl, by rw [h1, fr], h2, h3, h4⟩
  | false =>
    refine Or.inr ⟨rfl, ?_⟩
    rw [runG_false]
    intro d hd
    rcases (shr_run c s0 evs).removed d hd with h1 | h1
    · rw [fr] at h1; cases h1
    · obtain ⟨k, hk⟩ := hdisk d h1
      have hp : ParentsReal fs d.path := by
        intro e he hl
        rcases hfs e he hl with hc | hb
        · exact absurd hc (not_refused hr e he hl)
        · exact walkBelow_no_link_above t hw root d.path k hk e hb hl
      exact ⟨walkBelow_inside t root d.path k hk, hp, parentsReal_acts_in_place _ _ hp⟩

/-- **removed_in_place_or_nothing_fork.**  The dichotomy for the chain the Go
guard REALLY lstats — `guardChain nodeDirs forkDir jobDirs`, a function of the
fork (node directory and the pipelines' above it, the fork directory, every
job's directory with its files/ and tmp/) — and for the shape of the file
system as it really is (`hfsB`, decided; evaluated by the driver on the
independently lstat'ed directory trees of real runs, relocation runs included,
and required there): every link is one of those directories, or lies below the
walk's root, or is elsewhere (neither the root or above it nor lexically below
it — mrp's own `chnk0 -> chnk0-u…` links).  Then either the fork is refused
and nothing is removed, reported or made final, or every removed path has no
link of the file system above it, is acted on in place and lies inside the root. -/
theorem removed_in_place_or_nothing_fork (c : Cfg) (s0 : St) (evs : List Ev) (root : Path) (t : FsTree)
    (fs : List FsEnt) (nodeDirs : List Path) (forkDir : Path) (jobDirs : List Path)
    (hw : t.wf = true) (fr : s0.removed = [])
    (hdisk : ∀ d ∈ s0.disk, ∃ k, (d.path, k) ∈ walkBelow root t)
    (hfs : hfsB fs (guardChain nodeDirs forkDir jobDirs) root t = true) :
    (refusedBy fs (guardChain nodeDirs forkDir jobDirs) = true ∧ (runG true c s0 evs).removed = [] ∧
      (runG true c s0 evs).disk = s0.disk ∧ (runG true c s0 evs).report = s0.report ∧
      (runG true c s0 evs).final = s0.final) ∨
    (refusedBy fs (guardChain nodeDirs forkDir jobDirs) = false ∧
      ∀ d ∈ (runG (refusedBy fs (guardChain nodeDirs forkDir jobDirs)) c s0 evs).removed,
        pathIsInside d.path root = true ∧ ParentsReal fs d.path ∧ ∀ e ∈ fs, throughLink e d.path = d.path) := by
  cases hr : refusedBy fs (guardChain nodeDirs forkDir jobDirs) with
  | true =>
    obtain ⟨h1, h2, h3, h4⟩ := runG_true_removed c s0 evs
    exact Or.inl ⟨rfl, by rw [h1, fr], h2, h3, h4⟩
  | false =>
    refine Or.inr ⟨rfl, ?_⟩
    rw [runG_false]
    intro d hd
    rcases (shr_run c s0 evs).removed d hd with h1 | h1
    · rw [fr] at h1; cases h1
    · obtain ⟨k, hk⟩ := hdisk d h1
      have hin := walkBelow_inside t root d.path k hk
      have hp : ParentsReal fs d.path := by
        intro e he hl
        rcases hfsB_spec hfs e he hl with hc | hb | ⟨e1, e2⟩
        · exact absurd hc (not_refused hr e he hl)
        · exact walkBelow_no_link_above t hw root d.path k hk e hb hl
        · exact elsewhere_not_above e1 e2 hin
      exact ⟨hin, hp, parentsReal_acts_in_place _ _ hp⟩

/-- the hypotheses on a fork as mrp lays it out: its own `chnk0 -> chnk0-u1` link is
"elsewhere", a link below the walk root is admitted, the fork is not refused; with the
files directory linked the fork is refused -/
theorem fork_layout_admitted :
    let nodeDirs := ["/ps/TOP".toList, "/ps/TOP/N".toList]
    let jobs := ["/ps/TOP/N/fork0/chnk0-u1".toList]
    let root := "/ps/TOP/N/fork0/chnk0-u1/files".toList
    let t : FsTree := .file "a".toList 1 (.link "l".toList "/elsewhere".toList .nil)
    let fs : List FsEnt := [⟨"/ps/TOP/N/fork0/chnk0".toList, some "chnk0-u1".toList⟩,
                            ⟨"/ps/TOP/N/fork0/chnk0-u1/files/l".toList, some "/elsewhere".toList⟩]
    hfsB fs (guardChain nodeDirs "/ps/TOP/N/fork0".toList jobs) root t = true ∧
    refusedBy fs (guardChain nodeDirs "/ps/TOP/N/fork0".toList jobs) = false ∧
    refusedBy (⟨root, some "/other/volume".toList⟩ :: fs) (guardChain nodeDirs "/ps/TOP/N/fork0".toList jobs) = true := by
  decide

/-- the guard is not vacuous either way: a linked files directory refuses the fork, a link
below the walk root does not -/
theorem guard_refuses_linked_files_dir :
    refusedBy [⟨"/ps/N/fork0/chnk0-u1/files".toList, some "/elsewhere".toList⟩]
      ["/ps/N".toList, "/ps/N/fork0".toList, "/ps/N/fork0/chnk0-u1".toList, "/ps/N/fork0/chnk0-u1/files".toList] = true ∧
    refusedBy [⟨"/ps/N/fork0/chnk0-u1/files/l".toList, some "/elsewhere".toList⟩]
      ["/ps/N".toList, "/ps/N/fork0".toList, "/ps/N/fork0/chnk0-u1".toList, "/ps/N/fork0/chnk0-u1/files".toList] = false := by
  decide

/-- the walk does not follow a link at its root (fix 950c00b) nor below it: a tree with a
directory, a link to a directory outside, a cycle and a dangling link -/
theorem walk_reports_links_as_links :
    let t : FsTree := .dir "d".toList (.file "x".toList 1 (.link "up".toList "..".toList .nil))
      (.link "ext".toList "/outside".toList (.link "gone".toList "nowhere".toList .nil))
    t.wf = true ∧
    (walk "/r".toList (.dir t)).map (fun x => String.ofList x.1) = ["/r", "/r/d", "/r/d/x", "/r/d/up", "/r/ext", "/r/gone"] ∧
    (walk "/r/ext".toList (.link "/outside".toList)) = [("/r/ext".toList, .link)] := by decide

/-- Without `ParentsReal` the lexical statement is worthless — the defect of
the walk that followed a link at its root: the entry `/ps/files/ref/x.txt`
recorded below the link `/ps/files/ref -> /ext` is lexically inside `/ps`,
but removing it acts on `/ext/x.txt`, outside. -/
theorem followed_link_leaves_pipestance :
    let e : FsEnt := ⟨"/ps/files/ref".toList, some "/ext".toList⟩
    pathIsInside "/ps/files/ref/x.txt".toList "/ps".toList = true ∧
    throughLink e "/ps/files/ref/x.txt".toList = "/ext/x.txt".toList ∧
    pathIsInside (throughLink e "/ps/files/ref/x.txt".toList) "/ps".toList = false := by decide

/-- … and nothing reappears: the disk only shrinks. -/
theorem disk_only_shrinks (c : Cfg) (s0 : St) (evs : List Ev) :
    ∀ d ∈ (run c s0 evs).disk, d ∈ s0.disk := (shr_run c s0 evs).disk

/-- **report_exact_partial.**  (Partial: needs `DiskWF`, in particular `LinksTop` — no
symbolic link below another entry of the files/ directories — which is inside
the property's domain; the full statement without it is FALSE in code and
model alike, see `report_undercounts_nested_link`.  For temp cleaning and the
passes of non-volatile forks the equality holds by definition of the model's
accounting; the content is the per-file pass `vdrKillSome`.)  For every configuration (volatile, strict, splitting
or not) and under every interleaving: the report's count is the number of
entries removed and its size the sum of their sizes.  The proof maintains the
one-to-one alignment between the file -> arguments cache and the entries
below the files/ directories (`Aligned`), and that a directory entry lists at
least the arguments of everything below it (`Mono`), through
cacheParamFileMap / updateParamFileCache / vdrKillSome / temp cleaning.
`DiskWF`: temp entries are not below files/ entries, and symbolic links are
not below another entry of the files/ directories (`LinksTop`; see
`report_undercounts_nested_link`). -/
theorem report_exact_partial (c : Cfg) (s0 : St) (evs : List Ev) (ok : CfgOK c s0) (wf : DiskWF s0.disk)
    (fr : Fresh s0) (h0 : s0.report.count = 0 ∧ s0.report.size = 0) :
    (run c s0 evs).report.count = (run c s0 evs).removed.length ∧
    (run c s0 evs).report.size = sumSize (run c s0 evs).removed :=
  ((XInv.init s0 fr h0).run ok wf evs).exact

/-- Without `LinksTop` exactness fails in the code as in the model: a link
below an otherwise unreferenced directory, pointing to a file an argument
names, is kept alive by that argument (walked-side name expansion) while its
directory is not; the directory is removed with the link in it, and the link
is not counted. -/
theorem report_undercounts_nested_link :
    let c : Cfg := { volatile := true, strict := true, splits := false
                     argNames := [("a", ["/p/f/t".toList])], argFiles := [("a", ["/p/f/t".toList])] }
    let s : St := { fileArgs := [("a", [none])], postNodes := [],
                    disk := [⟨"/p/f/t".toList, 1, .out, [], 0⟩, ⟨"/p/f/sub".toList, 4096, .out, [], 0⟩,
                             ⟨"/p/f/sub/l".toList, 6, .out, ["/p/f/t".toList], 0⟩] }
    (run c s [.cacheMap, .kill]).removed.length = 2 ∧ (run c s [.cacheMap, .kill]).report.count = 1 := by
  decide

/-- **reclaims_all_unreferenced.**  A volatile fork whose two bookkeeping maps
are consistent (`BK`: a node holds an argument iff it is a post node listing
it; no argument without holders): after ANY history in which every post node
has completed, the complete-state pass (`Pipestance.VDRKill`) makes the fork
final and every entry left below its files/ directories is referenced (equal,
ancestor or descendant; for a symbolic link also through what it points to)
by an argument the top level or a retain holds.  For ANY shape of the disk:
no `DiskWF` (nested links, temp entries anywhere) and no assumption on the
report — the proof keeps only that every entry below files/ has a cache entry
describing it (`Covered`, Proofs/VdrCover.lean), not the one-to-one alignment
the accounting needs. -/
theorem reclaims_all_unreferenced (c : Cfg) (s0 : St) (evs : List Ev) (ok : CfgOK c s0) (fr : Fresh s0)
    (hv : c.volatile = true) (bk : BK s0) (hf : s0.final = false)
    (hdone : ∀ p ∈ s0.postNodes, p.1 ∈ (run c s0 evs).doneNodes) :
    (run c s0 (evs ++ [.kill])).final = true ∧
    ∀ d ∈ (run c s0 (evs ++ [.kill])).disk, isTmp d.kind = false →
      ∃ a, Holds s0 a none ∧ refsN c a (d.path :: d.alts) = true := by
  obtain ⟨v, r⟩ := VR.run ok hv bk (VInv.init s0 fr) (RInv.init c s0 fr bk hf) evs
  have hrun : run c s0 (evs ++ [.kill]) = kill c (run c s0 evs) := by
    unfold run; rw [List.foldl_append]; rfl
  rw [hrun]
  have hfin : (kill c (run c s0 evs)).final = true := by
    apply kill_final hv
    intro p hp
    obtain ⟨q, hq, e⟩ := r.sh.keys p hp
    rw [← e]; exact hdone q hq
  exact ⟨hfin, (VR.kill hv v r).2.fin hfin⟩

/-- **tmp_gone_when_final.**  For every configuration and interleaving: once
the fork's final report is written, no entry of the split / chunk / join temp
directories is left (the split phase only counts for stages that split). -/
theorem tmp_gone_when_final (c : Cfg) (s0 : St) (evs : List Ev) (hr : s0.ran = []) (hf : s0.final = false)
    (hfin : (run c s0 evs).final = true) :
    ∀ d ∈ (run c s0 evs).disk, ∀ ph, ph < 3 → (ph ≠ 0 ∨ c.splits = true) → d.kind ≠ .tmp ph := by
  have t0 : TInv c s0 := by
    refine ⟨?_, ?_⟩
    · intro ph hp; rw [hr] at hp; cases hp
    · intro h; rw [hf] at h; cases h
  have t := t0.run evs
  intro d hd ph hlt hne
  exact t.clean ph (t.fin hfin ph ⟨hlt, hne⟩) d hd

/-- Without that consistency the statement fails — the defect repaired in
round 1 (the post-node argument set shared between static forks) is exactly a
violation of `BK`: post node `C` no longer lists `a`, `C` completes, and the
file stays although nobody but the finished `C` holds it. -/
theorem reclaim_needs_consistency :
    let c : Cfg := { volatile := true, strict := true, splits := false
                     argNames := [("a", ["/p/files/a".toList])], argFiles := [("a", ["/p/files/a".toList])] }
    let s : St := { fileArgs := [("a", [some "C"])], postNodes := [("C", [])],
                    disk := [⟨"/p/files/a".toList, 1, .out, [], 0⟩] }
    (run c s [.removeEmpty, .cacheMap, .nodeDone "C", .kill]).disk.map (·.path) = ["/p/files/a".toList] := by
  decide

/-! ### listed paths are gone -/

/-- **listed_paths_gone.**  For every configuration (volatile, strict,
splitting or not) and under every interleaving: no entry with a path listed
in the kill report is left on disk (temp cleaning lists the top-level entries
of the phase's temp directories, `vdrKillSome` the collapsed kill paths,
`vdrKill` the chunk-level files).  `PathKinds`: a path is one entry (entries
with equal paths are of the same kind). -/
theorem listed_paths_gone (c : Cfg) (s0 : St) (evs : List Ev) (h0 : s0.report.paths = [])
    (hu : PathKinds s0.disk) :
    ∀ p ∈ (run c s0 evs).report.paths, ∀ d ∈ (run c s0 evs).disk, d.path ≠ p := by
  have l0 : LInv s0 := ⟨fun p hp => (by rw [h0] at hp; cases hp), hu⟩
  exact (l0.run evs).gone

/-- … and they stay gone whatever happens afterwards (the model's event
language has no event that writes; a retry that re-creates a path is a reset
of the fork, after which a new report is begun). -/
theorem listed_paths_stay_gone (c : Cfg) (s0 : St) (evs more : List Ev) (h0 : s0.report.paths = [])
    (hu : PathKinds s0.disk) :
    ∀ p ∈ (run c s0 evs).report.paths, ∀ d ∈ (run c s0 (evs ++ more)).disk, d.path ≠ p := by
  intro p hp d hd
  have hrun : run c s0 (evs ++ more) = run c (run c s0 evs) more := by
    unfold run; rw [List.foldl_append]
  rw [hrun] at hd
  exact listed_paths_gone c s0 evs h0 hu p hp d ((shr_run c (run c s0 evs) more).disk d hd)

/-- a listed path is removed together with everything below it when it was
listed by `vdrKillSome` (the per-file pass of volatile forks): collapsing the
kill paths loses nothing, no entry at or below a listed path is left. -/
theorem killed_paths_gone_with_contents (s : St) (es : List Entry) :
    ∀ p ∈ collapse [] (((es.filter (fun e => e.args.isEmpty)).map (·.path)).mergeSort pathLe),
      ∀ d ∈ (killCore s es).disk, pathIsInside d.path p = false := by
  intro p hp d hd
  rcases collapse_sub [] _ p hp with h | h
  · cases h
  · rw [List.mem_mergeSort] at h
    unfold killCore at hd
    simp only [List.mem_filter] at hd
    cases hin : pathIsInside d.path p with
    | false => rfl
    | true =>
      have hk : ((List.map (fun x => x.path) (List.filter (fun e => e.args.isEmpty) es)).any
          fun k => pathIsInside d.path k) = true := by
        rw [List.any_eq_true]; exact ⟨p, h, hin⟩
      have := hd.2
      simp only [hk] at this
      cases this

/-- `PathKinds` is needed in the model only because its disk is a list: with
two entries of one path and different kinds, cleaning one kind lists the path
while the other entry stays (a file system has one entry per path). -/
theorem listed_needs_one_entry_per_path :
    let c : Cfg := { volatile := false, strict := false, splits := false, argNames := [], argFiles := [] }
    let s : St := { fileArgs := [], postNodes := [],
                    disk := [⟨"/p/x".toList, 1, .tmp 1, [], 0⟩, ⟨"/p/x".toList, 1, .out, [], 0⟩] }
    (run c s [.early 2]).report.paths = ["/p/x".toList] ∧
    (run c s [.early 2]).disk.map (·.path) = ["/p/x".toList] := by decide

/-- **refused_fork_untouched.**  A fork VDR refuses (its node lies below a
symbolic link: `Node.vdrCheckSymlink`; no temp cleaning and no kill pass is
performed for it): whatever else happens — consumers complete, fail, are
reset, its bookkeeping is pruned, its cache is built — nothing of it is
removed, nothing is reported and it never becomes final. -/
theorem refused_fork_untouched (c : Cfg) (s0 : St) (evs : List Ev) (h : ∀ e ∈ evs, e.removes = false) :
    (run c s0 evs).disk = s0.disk ∧ (run c s0 evs).removed = s0.removed ∧
    (run c s0 evs).report = s0.report ∧ (run c s0 evs).final = s0.final :=
  run_refused c s0 evs h

/-! ### completion: final for every configuration, temp directories and chunk files gone -/

/-- **final_when_all_done.**  For EVERY configuration (volatile or not, strict or
not): a complete-state pass at a moment when every remaining post node has
completed makes the fork final. -/
theorem final_when_all_done (c : Cfg) (s0 : St) (evs : List Ev)
    (hdone : ∀ p ∈ (run c s0 evs).postNodes, p.1 ∈ (run c s0 evs).doneNodes) :
    (run c s0 (evs ++ [.kill])).final = true := by
  have hrun : run c s0 (evs ++ [.kill]) = kill c (run c s0 evs) := by
    unfold run; rw [List.foldl_append]; rfl
  rw [hrun]
  exact kill_final_any hdone

/-- **tmp_and_chunk_files_gone_at_completion.**  When that pass has run — for a
non-volatile fork as for any other — no entry of the split / chunk / join temp
directories is left, and for a non-volatile (non-strict) splitting stage no
chunk-level file is left either. -/
theorem tmp_and_chunk_files_gone_at_completion (c : Cfg) (s0 : St) (evs : List Ev) (hr : s0.ran = [])
    (hf : s0.final = false)
    (hdone : ∀ p ∈ (run c s0 evs).postNodes, p.1 ∈ (run c s0 evs).doneNodes) :
    (∀ d ∈ (run c s0 (evs ++ [.kill])).disk, ∀ ph, ph < 3 → (ph ≠ 0 ∨ c.splits = true) → d.kind ≠ .tmp ph) ∧
    (c.volatile = false → c.strict = false → c.splits = true →
      ∀ d ∈ (run c s0 (evs ++ [.kill])).disk, d.kind ≠ .chunk) := by
  have hfin := final_when_all_done c s0 evs hdone
  refine ⟨tmp_gone_when_final c s0 (evs ++ [.kill]) hr hf hfin, ?_⟩
  intro hv hs hsp d hd hk
  have i0 : CInv c s0 := fun h => by rw [hf] at h; cases h
  exact (i0.run hv hs (evs ++ [.kill])) hfin d hd ⟨hsp, hk⟩

/-! ### `BK` is what the construction establishes -/

/-- **built_bookkeeping_consistent.**  The tables `attachToFileParents` /
`setupRetains` / `buildForks` give the forks of any node of a pipestance
(model: `build (opsOf tr)`, compared with the real tables on every run)
satisfy the bookkeeping invariant `BK`; a fork starting with them is fresh
and not final.  (`wfOps`: decided by the driver for every pipestance built.) -/
theorem built_bookkeeping_consistent (tr : PTree) (w : wfOps [] [] (opsOf tr) = true) (p : Node) (t : Tab)
    (h : (p, t) ∈ build (opsOf tr)) (disk : List DiskEnt) :
    BK (t.st disk) ∧ Fresh (t.st disk) ∧ (t.st disk).final = false ∧
      (t.st disk).report.count = 0 ∧ (t.st disk).report.size = 0 :=
  ⟨(build_bk w h).st disk, ⟨rfl, rfl⟩, rfl, rfl, rfl⟩

/-- **reclaims_all_unreferenced_built.**  `reclaims_all_unreferenced` without
the assumption `BK`: for a volatile fork that starts with the constructed
tables, after any history in which its post nodes completed, the
complete-state pass leaves only what the top level or a retain references. -/
theorem reclaims_all_unreferenced_built (tr : PTree) (w : wfOps [] [] (opsOf tr) = true) (p : Node) (t : Tab)
    (h : (p, t) ∈ build (opsOf tr)) (c : Cfg) (disk : List DiskEnt) (evs : List Ev)
    (ok : CfgOK c (t.st disk)) (hv : c.volatile = true)
    (hdone : ∀ q ∈ t.postNodes, q.1 ∈ (run c (t.st disk) evs).doneNodes) :
    (run c (t.st disk) (evs ++ [.kill])).final = true ∧
    ∀ d ∈ (run c (t.st disk) (evs ++ [.kill])).disk, isTmp d.kind = false →
      ∃ a, Holds (t.st disk) a none ∧ refsN c a (d.path :: d.alts) = true :=
  reclaims_all_unreferenced c (t.st disk) evs ok ⟨rfl, rfl⟩ hv ((build_bk w h).st disk) rfl hdone

theorem clone_after_history_consistent (c : Cfg) (s0 : St) (evs : List Ev) (ok : CfgOK c s0)
    (fr : Fresh s0) (hv : c.volatile = true) (bk : BK s0) (hf : s0.final = false) (disk : List DiskEnt) :
    BK (cloneFork (run c s0 evs) disk) := by
  obtain ⟨_, r⟩ := VR.run ok hv bk (VInv.init s0 fr) (RInv.init c s0 fr bk hf) evs
  exact cloneFork_bk r.bk disk

/-! ### definitional unfoldings (documentation of the model, not guarantees) -/

/-- (the case distinction as a HYPOTHESIS — `hcase` — kept from an earlier round; the proved
dichotomy is `removed_in_place_or_nothing`)  … and when a directory ABOVE the fork is a link (a relocated sub-pipeline
directory: `ParentsReal` fails for every entry of the fork), VDR refuses the
fork — `Node.vdrCheckSymlink`, since the repair of this round applied to the
fork's own transitions too — i.e. no temp cleaning and no kill pass runs, and
then nothing at all is removed (`refused_fork_untouched` below).  So for every
fork: either every removed path is acted on in place, inside the pipestance,
or nothing is removed. -/
theorem removed_in_place_or_nothing_cases (c : Cfg) (s0 : St) (evs : List Ev) (root : Path) (fs : List FsEnt)
    (fr : s0.removed = []) (h : ∀ d ∈ s0.disk, pathIsInside d.path root = true)
    (hcase : (∀ d ∈ s0.disk, ParentsReal fs d.path) ∨ (∀ e ∈ evs, e.removes = false)) :
    ∀ d ∈ (run c s0 evs).removed, ∀ e ∈ fs, pathIsInside (throughLink e d.path) root = true := by
  rcases hcase with hreal | href
  · intro d hd
    exact (inside_pipestance c s0 evs root fs fr h hreal d hd).2.2
  · intro d hd
    rw [(run_refused c s0 evs href).2.1, fr] at hd
    cases hd


/-- `cloneFork` is a value copy of the two tables in the model, so `BK` transfers by rewriting
(non-sharing of the real Go maps is probed on real forks, not proved).  Dynamic fork expansion: the fork `cloneFork`
makes of a consistent fork — at construction or after any history of the
original — is consistent, fresh and not final. -/
theorem clone_keeps_consistency (s : St) (disk : List DiskEnt) (k : BK s) :
    BK (cloneFork s disk) ∧ Fresh (cloneFork s disk) ∧ (cloneFork s disk).final = false :=
  ⟨cloneFork_bk k disk, ⟨rfl, rfl⟩, rfl⟩

/-! ### non-vacuity -/

/-- `listed_paths_gone` is not vacuous: a non-volatile splitting fork lists the
temp entries and the chunk file it removed -/
example :
    let c : Cfg := { volatile := false, strict := false, splits := true, argNames := [], argFiles := [] }
    let s : St := { fileArgs := [], postNodes := [],
                    disk := [⟨"/p/c0/files/x".toList, 4, .chunk, [], 0⟩, ⟨"/p/j/files/o".toList, 9, .out, [], 0⟩,
                             ⟨"/p/j/tmp/t".toList, 3, .tmp 2, [], 0⟩, ⟨"/p/c0/tmp/d".toList, 4096, .tmp 1, [], 0⟩] }
    s.report.paths = [] ∧ PathKinds s.disk ∧
    (run c s [.early 2, .kill]).report.paths =
      ["/p/c0/tmp/d".toList, "/p/j/tmp/t".toList, "/p/c0/files/x".toList] := by
  refine ⟨rfl, ?_, by decide⟩
  intro d hd d' hd' e
  simp at hd hd'
  rcases hd with rfl | rfl | rfl | rfl <;> rcases hd' with rfl | rfl | rfl | rfl <;>
    first | rfl | (exact absurd e (by decide))

/-- a symbolic link at the top of files/ (`LinksTop` holds non-trivially): the junk goes, the
link is kept through the name of what it points to, and the report is exact -/
example :
    let c : Cfg := { volatile := true, strict := true, splits := false
                     argNames := [("a", ["/p/f/real/x".toList])], argFiles := [("a", ["/p/f/real/x".toList])]
                     initArgs := [("a", [none])] }
    let s : St := { fileArgs := [("a", [none])], postNodes := [],
                    disk := [⟨"/p/f/real".toList, 4096, .out, [], 0⟩, ⟨"/p/f/real/x".toList, 1, .out, [], 0⟩,
                             ⟨"/p/f/lnk".toList, 6, .out, ["/p/f/real/x".toList], 0⟩, ⟨"/p/f/junk".toList, 3, .out, [], 0⟩] }
    cfgOKB c s = true ∧ sepB s.disk = true ∧ linksTopB s.disk = true ∧
    (run c s [.cacheMap, .kill]).disk.map (·.path) = ["/p/f/real".toList, "/p/f/real/x".toList, "/p/f/lnk".toList] ∧
    (run c s [.cacheMap, .kill]).report.count = 1 ∧ (run c s [.cacheMap, .kill]).removed.length = 1 := by
  decide

/-- a non-volatile splitting fork with entries in all three temp phases: all gone and final
after the complete-state pass, chunk files too; a partial cleanup, a RESTART of mrp and the
final cleanup give the same -/
example :
    let c : Cfg := { volatile := false, strict := false, splits := true, argNames := [], argFiles := [] }
    let s : St := { fileArgs := [], postNodes := [],
                    disk := [⟨"/p/s/tmp/a".toList, 2, .tmp 0, [], 0⟩, ⟨"/p/c0/tmp/d".toList, 4096, .tmp 1, [], 0⟩,
                             ⟨"/p/j/tmp/t".toList, 3, .tmp 2, [], 0⟩, ⟨"/p/c0/files/x".toList, 4, .chunk, [], 0⟩,
                             ⟨"/p/j/files/o".toList, 9, .out, [], 0⟩] }
    (run c s [.kill]).final = true ∧ (run c s [.kill]).disk.map (·.path) = ["/p/j/files/o".toList] ∧
    (run c s [.early 1, .restart, .kill]).disk.map (·.path) = ["/p/j/files/o".toList] ∧
    (run c s [.early 1, .restart, .kill]).report.count = 4 ∧
    (run c s [.early 1, .restart, .kill]).removed.length = 4 := by
  decide

/-- restart between partial and final cleanup of the volatile fork of Props/C04.lean's example:
the consumer completes after the restart; count and removed agree, `a`'s file stays -/
example :
    (run exCfg exSt [.removeEmpty, .cacheMap, .kill, .restart, .nodeDone "C", .kill]).report.count = 4 ∧
    (run exCfg exSt [.removeEmpty, .cacheMap, .kill, .restart, .nodeDone "C", .kill]).removed.length = 4 ∧
    (run exCfg exSt [.removeEmpty, .cacheMap, .kill, .restart, .nodeDone "C", .kill]).disk.map (·.path) =
      ["/p/files/a.txt".toList] ∧
    (cloneFork (run exCfg exSt [.removeEmpty, .cacheMap, .kill]) []).postNodes = [("C", ["a", "b"])] := by
  decide

/-- reclaim on a disk that violates `LinksTop` (a link nested below an unreferenced directory,
pointing to a named file — the disk of `report_undercounts_nested_link`): final, and what is left
is referenced -/
example :
    let c : Cfg := { volatile := true, strict := true, splits := false
                     argNames := [("a", ["/p/f/t".toList])], argFiles := [("a", ["/p/f/t".toList])]
                     initArgs := [("a", [none])] }
    let s : St := { fileArgs := [("a", [none])], postNodes := [],
                    disk := [⟨"/p/f/t".toList, 1, .out, [], 0⟩, ⟨"/p/f/sub".toList, 4096, .out, [], 0⟩,
                             ⟨"/p/f/sub/l".toList, 6, .out, ["/p/f/t".toList], 0⟩] }
    linksTopB s.disk = false ∧ cfgOKB c s = true ∧
    (run c s [.cacheMap, .kill]).final = true ∧ (run c s [.cacheMap, .kill]).disk.map (·.path) = ["/p/f/t".toList] := by
  decide

/-- a refused fork: the history of Props/C04.lean's example without its kill passes removes nothing -/
example : (∀ e ∈ [Ev.removeEmpty, .cacheMap, .nodeDone "C"], e.removes = false) ∧
    (run exCfg exSt [.removeEmpty, .cacheMap, .nodeDone "C"]).removed = [] := by
  constructor
  · intro e he
    simp at he
    rcases he with rfl | rfl | rfl <;> rfl
  · decide

/-- the construction yields tables (for node `A` of `exTree`: one consumer, one retain) -/
example : wfOps [] [] (opsOf exTree) = true ∧ ((build (opsOf exTree)).lookup "A").isSome = true := by
  constructor <;> decide


example :
    mergeEvents [⟨3000000000, -5⟩, ⟨1000000000, 7⟩, ⟨1000000500, 2⟩, ⟨3000000001, -1⟩] =
      [⟨1000000000, 9⟩, ⟨3000000000, -6⟩] := by decide

example :
    (mergeReports [some { count := 2, size := 10, paths := [['a']] }, none,
                   some { count := 3, size := 5, paths := [['b']] }]).count = 5 := by decide

/-- a non-volatile splitting fork: temp entries and chunk files go, the join's output stays,
and the report says 3 entries / 4103 bytes -/
example :
    let c : Cfg := { volatile := false, strict := false, splits := true, argNames := [], argFiles := [] }
    let s : St := { fileArgs := [], postNodes := [],
                    disk := [⟨"/p/c0/files/x".toList, 4, .chunk, [], 0⟩, ⟨"/p/j/files/o".toList, 9, .out, [], 0⟩,
                             ⟨"/p/j/tmp/t".toList, 3, .tmp 2, [], 0⟩, ⟨"/p/c0/tmp/d".toList, 4096, .tmp 1, [], 0⟩] }
    ((run c s [.early 2, .kill]).disk.map (·.path) = ["/p/j/files/o".toList]) ∧
    (run c s [.early 2, .kill]).report.count = 3 ∧ (run c s [.early 2, .kill]).report.size = 4103 := by
  decide

/-- the hypotheses of `report_exact_partial` / `reclaims_all_unreferenced` are satisfiable
(the fork of Props/C04.lean's example) and the conclusions are not vacuous -/
example : DiskWF exSt.disk ∧ BK exSt ∧ exSt.final = false ∧
    (run exCfg exSt [.removeEmpty, .cacheMap, .kill, .nodeDone "C", .kill]).report.count = 4 ∧
    (run exCfg exSt [.removeEmpty, .cacheMap, .kill, .nodeDone "C", .kill]).removed.length = 4 := by
  refine ⟨⟨?_, ?_⟩, ⟨?_, ?_⟩, rfl, by decide, by decide⟩
  · intro d hd ht d' hd' ht'
    simp [exSt] at hd hd'
    rcases hd with rfl | rfl | rfl | rfl | rfl <;> simp [isTmp] at ht
    rcases hd' with rfl | rfl | rfl | rfl | rfl <;> first | decide | (simp [isTmp] at ht')
  · intro d hd hal
    simp [exSt] at hd
    rcases hd with rfl | rfl | rfl | rfl | rfl <;> simp at hal
  · intro a hs hm n hn
    simp [exSt] at hm
    rcases hm with ⟨rfl, rfl⟩ | ⟨rfl, rfl⟩
    · simp at hn; subst hn; exact ⟨["a", "b"], by decide, by decide⟩
    · simp at hn; subst hn; exact ⟨["a", "b"], by decide, by decide⟩
  · intro a hs hm
    simp [exSt] at hm
    rcases hm with ⟨rfl, rfl⟩ | ⟨rfl, rfl⟩ <;> simp

end Props.C14
