/-
C14 — VDR reclaims what it may and reports exactly what it removed.
PROPERTY THEOREMS ONLY (lemmas: Proofs/VdrReport.lean, Proofs/VdrShrink.lean,
Proofs/VdrInv.lean; model: Martian/Vdr.lean).
-/
import Martian.Vdr
import Proofs.VdrReport
import Proofs.VdrShrink

namespace Props.C14
open Martian.Vdr

/-- **merge_preserves_totals.**  `mergeVDRKillReports` (nil entries skipped):
count and size are the sums, the paths the concatenation, and the byte
deltas of the merged events add up to those of all input events. -/
theorem merge_preserves_totals (rs : List (Option KReport)) :
    (mergeReports rs).count = ((present rs).map (·.count)).sum ∧
    (mergeReports rs).size = ((present rs).map (·.size)).sum ∧
    (mergeReports rs).paths = ((present rs).map (·.paths)).flatten ∧
    sumDelta (mergeReports rs).events = ((present rs).map (fun r => sumDelta r.events)).sum := by
  obtain ⟨h1, h2, h3, h4⟩ := foldl_mergeAcc rs {}
  unfold mergeReports
  refine ⟨?_, ?_, ?_, ?_⟩
  · simpa using h1
  · simpa using h2
  · simpa using h3
  · show sumDelta (mergeEvents (rs.foldl mergeAcc {}).events) = _
    rw [sumDelta_mergeEvents, h4]; simp

/-- `mergeEvents` (sort, then fuse events of the same second and sign) keeps the total. -/
theorem mergeEvents_preserves_total (l : List VEvent) : sumDelta (mergeEvents l) = sumDelta l :=
  sumDelta_mergeEvents l

/-- **inside_pipestance.**  Under every interleaving and for every
configuration, whatever is logged as removed was an entry of the fork's own
files/ or tmp/ directories; so when those lie inside the pipestance
directory, every removed path does. -/
theorem inside_pipestance (c : Cfg) (s0 : St) (evs : List Ev) (root : Path) (fr : s0.removed = [])
    (h : ∀ d ∈ s0.disk, pathIsInside d.path root = true) :
    ∀ d ∈ (run c s0 evs).removed, pathIsInside d.path root = true := by
  intro d hd
  rcases (shr_run c s0 evs).removed d hd with h1 | h1
  · rw [fr] at h1; cases h1
  · exact h d h1

/-- … and nothing reappears: the disk only shrinks. -/
theorem disk_only_shrinks (c : Cfg) (s0 : St) (evs : List Ev) :
    ∀ d ∈ (run c s0 evs).disk, d ∈ s0.disk := (shr_run c s0 evs).disk

/-- **report_exact** for non-volatile forks (temp directories and chunk-level
files), under every interleaving: the report's count is the number of
entries removed and its size the sum of their sizes.

The full statement (also for the file-level removal of volatile forks,
`vdrKillSome`) needs the invariant that the cache holds exactly one entry per
remaining entry below the files/ directories; it is not proved here and is
covered by the correspondence (`fork_life_replay`, `partialVdrKill_step`) and
by the `report-totals` monitor on the real code. -/
theorem report_exact_partial (c : Cfg) (s0 : St) (evs : List Ev)
    (hv : c.volatile = false) (hs : c.strict = false)
    (h0 : s0.report.count = 0 ∧ s0.report.size = 0 ∧ s0.removed = []) :
    (run c s0 evs).report.count = (run c s0 evs).removed.length ∧
    (run c s0 evs).report.size = sumSize (run c s0 evs).removed := by
  apply exact_run_nonvol c s0 hv hs evs
  obtain ⟨a, b, r⟩ := h0
  unfold Exact
  rw [a, b, r]; simp [sumSize]

/-- **reclaims_all_unreferenced**, one full pass: after the file-level pass
of a volatile fork (cache built from the disk), every entry left below the
files/ directories is referenced (equal, ancestor or descendant) by an
argument that is still held.

Partial: that at completion the arguments still held are exactly those with a
`none` holder (top level / retain) needs the consistency of `filePostNodes`
with `fileArgs`; the defect repaired in this round (the post-node argument
set shared between static forks) broke exactly that consistency.  Covered by
the `volatile-file-survives` monitor and the correspondence. -/
theorem reclaims_all_unreferenced_partial (c : Cfg) (s : St) (done : Bool) (hc : s.cache = none) :
    ∀ d ∈ (vdrKillSome c s done).disk, isTmp d.kind = false →
      ∃ a, a ∈ s.dom ∧ refs c a d.path = true :=
  vdrKillSome_leaves_referenced c s done hc

/-! ### non-vacuity -/

example :
    mergeEvents [⟨3000000000, -5⟩, ⟨1000000000, 7⟩, ⟨1000000500, 2⟩, ⟨3000000001, -1⟩] =
      [⟨1000000000, 9⟩, ⟨3000000000, -6⟩] := by decide

example :
    (mergeReports [some { count := 2, size := 10, paths := [['a']] }, none,
                   some { count := 3, size := 5, paths := [['b']] }]).count = 5 := by decide

/-- a non-volatile splitting fork: temp entries and chunk files go, the join's output stays,
and the report says 3 entries / 4103 bytes -/
example :
    let c : Cfg := { volatile := false, strict := false, splits := true, argNames := [], argFiles := [] }
    let s : St := { fileArgs := [], postNodes := [],
                    disk := [⟨"/p/c0/files/x".toList, 4, .chunk⟩, ⟨"/p/j/files/o".toList, 9, .out⟩,
                             ⟨"/p/j/tmp/t".toList, 3, .tmp 2⟩, ⟨"/p/c0/tmp/d".toList, 4096, .tmp 1⟩] }
    ((run c s [.early 2, .kill]).disk.map (·.path) = ["/p/j/files/o".toList]) ∧
    (run c s [.early 2, .kill]).report.count = 3 ∧ (run c s [.early 2, .kill]).report.size = 4103 := by
  decide

end Props.C14
