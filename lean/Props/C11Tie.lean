/-
C11 tie: `util.WidthForInt` TRANSLATED from martian/util/util.go on every run
(`Gen.tr_WidthForInt`).  The function is recursive (`1 + WidthForInt(-max)` for
a negative argument): the translated term takes explicit fuel.  Its float tail
`1 + int(math.Log10(float64(max)))` (arguments ≥ 100000) is a parameter `log10`
of the term – floating point is outside the translated subset.  Below 100000
the translated function is the model's `widthForInt` (= number of digits
`strconv.Itoa` writes), which is what pads `fork%0*d` / `chnk%0*d`.
-/
import Martian.ForkName
import Gen.Facts
import Proofs.TieDefs

namespace Props.C11
open Martian.ForkName Proofs.Tie

/-- one unfolding of the translated recursion -/
theorem tr_WidthForInt_unfold (log10 : Int → Int) (fuel : Nat) (m : Int) :
    Gen.tr_WidthForInt log10 (fuel + 1) m =
      if m < 0 then 1 + Gen.tr_WidthForInt log10 fuel (-m)
      else if m < 10 then 1 else if m < 100 then 2 else if m < 1000 then 3
      else if m < 10000 then 4 else if m < 100000 then 5 else 1 + log10 m := by
  simp only [Gen.tr_WidthForInt, decide_eq_true_eq]

/-- for every argument `0 ≤ n < 100000` (any fuel ≥ 1, any `log10`): the
translated Go function returns the number of decimal digits of `n` -/
theorem tr_WidthForInt_eq_model (log10 : Int → Int) (fuel n : Nat) (h : n < 100000) :
    Gen.tr_WidthForInt log10 (fuel + 1) (n : Int) = (widthForInt n : Int) := by
  rw [tr_WidthForInt_unfold]
  simp only [widthForInt]
  have h0 : ¬ ((n : Int) < 0) := by omega
  simp only [h0, if_false]
  by_cases h1 : n < 10
  · rw [itoa_len 0 n (by simpa using h1) (Or.inl rfl)]
    have : (n : Int) < 10 := by omega
    simp [this]
  by_cases h2 : n < 100
  · rw [itoa_len 1 n (by simpa using h2) (Or.inr (by simpa using Nat.le_of_not_lt h1))]
    have a : ¬ (n : Int) < 10 := by omega
    have b : (n : Int) < 100 := by omega
    simp [a, b]
  by_cases h3 : n < 1000
  · rw [itoa_len 2 n (by simpa using h3) (Or.inr (by simpa using Nat.le_of_not_lt h2))]
    have a : ¬ (n : Int) < 10 := by omega
    have b : ¬ (n : Int) < 100 := by omega
    have c : (n : Int) < 1000 := by omega
    simp [a, b, c]
  by_cases h4 : n < 10000
  · rw [itoa_len 3 n (by simpa using h4) (Or.inr (by simpa using Nat.le_of_not_lt h3))]
    have a : ¬ (n : Int) < 10 := by omega
    have b : ¬ (n : Int) < 100 := by omega
    have c : ¬ (n : Int) < 1000 := by omega
    have d : (n : Int) < 10000 := by omega
    simp [a, b, c, d]
  · rw [itoa_len 4 n (by simpa using h) (Or.inr (by simpa using Nat.le_of_not_lt h4))]
    have a : ¬ (n : Int) < 10 := by omega
    have b : ¬ (n : Int) < 100 := by omega
    have c : ¬ (n : Int) < 1000 := by omega
    have d : ¬ (n : Int) < 10000 := by omega
    have e : (n : Int) < 100000 := by omega
    simp [a, b, c, d, e]

/-- from 100000 on the result is `1 + log10 n`, whatever `log10` is (the model
`widthForInt` then demands `log10 n = ⌊log₁₀ n⌋`, which Go computes in float64) -/
theorem tr_WidthForInt_large (log10 : Int → Int) (fuel : Nat) (m : Int) (h : 100000 ≤ m) :
    Gen.tr_WidthForInt log10 (fuel + 1) m = 1 + log10 m := by
  rw [tr_WidthForInt_unfold]
  have a : ¬ m < 0 := by omega
  have b : ¬ m < 10 := by omega
  have c : ¬ m < 100 := by omega
  have d : ¬ m < 1000 := by omega
  have e : ¬ m < 10000 := by omega
  have f : ¬ m < 100000 := by omega
  simp [a, b, c, d, e, f]

/-- a negative argument costs one more column (the sign) -/
theorem tr_WidthForInt_neg (log10 : Int → Int) (fuel : Nat) (m : Int) (h : m < 0) :
    Gen.tr_WidthForInt log10 (fuel + 2) m = 1 + Gen.tr_WidthForInt log10 (fuel + 1) (-m) := by
  rw [tr_WidthForInt_unfold]
  simp [h]

example : Gen.tr_WidthForInt (fun _ => 0) 2 9 = 1 ∧ Gen.tr_WidthForInt (fun _ => 0) 2 10 = 2 ∧
    Gen.tr_WidthForInt (fun _ => 0) 2 99999 = 5 ∧ Gen.tr_WidthForInt (fun _ => 0) 2 (-42) = 3 ∧
    widthForInt 99999 = 5 := by decide

/-- FAIL CLOSED (second audit pass, X2/X3): the tie theorems of this file are about the
definition(s) TRANSLATED FROM THE TREE UNDER TEST, not about the committed default the
extractor falls back to when the source leaves the translated subset – in that
case this obligation breaks and `./check` reports it (besides the note). -/
theorem translated_from_tree_under_test : Gen.tr_WidthForInt_extracted = true := by decide

end Props.C11
