/-
C09 tie (by x-c08): x-c09's round-trip theorems are about a hand-written
recursive-descent READER (`Martian.FormatExp.parseToks` / `parseValExp`).  The
real parser is goyacc's table-driven loop; `Martian.LexerLR.parseLR` is that
loop — the model of `mmParse` on the tables re-read from grammar.go on every
run (proved memory safe and terminating for all inputs, Props/C08.lean
`lr_driver_total`; its state/action trace is compared with the real parser's own
debug trace on every run) — with the semantic actions of the value-expression
sub-grammar, recognised by their text in grammar.go, building the same AST type.

NOT proved: that the two parsers are equal on every token list THE LEXER CAN
PRODUCE (`LRAgrees`, quantified over the outputs of `lexAll`; on arbitrary lists
of token values it is false, `agreement_needs_lexable_tokens`; the
standard LR-correctness argument for this grammar was out of reach).  PROVED: the
instances for scalar expressions and empty collections (`lr_agrees_on_scalars`,
`format_then_goyacc_parse_scalar`, unconditional).  It is
CHECKED on every run of `./check C08`: ≥ 12 000 generated value expressions and
token-level mutants per quick run, model against model (`C08.lrcmp`), both also
against `Parser.ParseValExp`'s accept/reject; and EXHAUSTIVELY for every token
sequence of length ≤ 4 (thorough: ≤ 5) over an alphabet with one token of each
kind the grammar distinguishes (18 tokens, 111 151 sequences; `C08.lrexh`).  The corollaries below are
therefore `_partial`: they carry `LRAgrees` (or its instance for the token list
at hand) as an explicit hypothesis.
-/
import Props.C09
import Martian.LexerLRSem
import Proofs.LexerLRScalar
import Proofs.TieC09

namespace Props.C09
open Martian.FormatExp Martian.LexerLR Martian.FormatCall Martian.FormatCall2

/-- the goyacc parser model and the recursive-descent reader return the same
result on every token list that x-c09's tokenizer `lexAll` produces from some
source text.  (Restricted to lexer outputs: the token TYPE has values no source
yields — `.reserved "true"`, `.punct 0` — on which the two functions differ,
see `agreement_needs_lexable_tokens`.)
What the per-run checks establish about it: `C08.lrcmp` compares the two on
`lexAll src` for ≥ 12 000 generated and mutated sources `src` per quick run —
instances of exactly this statement; `C08.lrexh` compares them on every sequence
of length ≤ 4 (thorough ≤ 5) over 18 tokens each of which the lexer produces
(one per token kind), i.e. on the lexer outputs of the sources obtained by
joining these tokens with blanks. -/
def LRAgrees : Prop := ∀ (src : List UInt8) (ts : List Tok), lexAll src = some ts → parseLR ts = parseToks ts

/- Full statement (the goal; not proved):
     theorem lr_agrees : LRAgrees -/

/-- Under `LRAgrees` the two front ends are the same function of the source text. -/
theorem goyacc_parse_eq_reader_partial (h : LRAgrees) (src : List UInt8) :
    parseValExpLR src = parseValExp src := by
  unfold parseValExpLR parseValExp
  cases hl : lexAll src with
  | none => rfl
  | some ts => exact h src ts hl

/-- **format, then the goyacc parser**: modulo `LRAgrees`, the real LR algorithm
with the real tables reads a printed well-formed value expression back as the
expression (up to the documented normalisations `norm`). -/
theorem format_then_goyacc_parse_partial (h : LRAgrees) (e : Exp) (hw : wf e = true) (hv : isVal e = true) :
    parseValExpLR (fmt [] e) = some (norm e) := by
  rw [goyacc_parse_eq_reader_partial h]
  exact parse_format_exp e hw hv

/-- the same with any white-space indentation prefix -/
theorem format_prefix_then_goyacc_parse_partial (h : LRAgrees) (e : Exp) (p : List UInt8) (hw : wf e = true)
    (hv : isVal e = true) (hp : p.all isSp = true) : parseValExpLR (fmt p e) = some (norm e) := by
  rw [goyacc_parse_eq_reader_partial h]
  exact parse_format_exp_prefix e p hw hv hp

/-- and read-then-print through the goyacc parser is idempotent on printed texts -/
theorem goyacc_read_print_fixed_partial (h : LRAgrees) (e : Exp) (hw : wf e = true) (hv : isVal e = true) :
    (parseValExpLR (fmt [] e)).map (fmt []) = some (fmt [] e) := by
  rw [format_then_goyacc_parse_partial h e hw hv]
  simp only [Option.map_some]
  rw [format_exp_idem e [] hw]

-- non-vacuity: on concrete token lists the two parsers do agree (kernel-evaluated: the LR loop on the
-- regenerated tables with the actions, against the reader), accepted and rejected alike:
-- `[1, {"a": null}, X.y]`, `{k: [true]}`, `[1,,]`, `X.y`
example :
    optExpEq (parseLR [.punct 0x5B, .int [0x31], .punct 0x2C, .punct 0x7B, .str [0x22, 0x61, 0x22], .punct 0x3A, .kNull,
        .punct 0x7D, .punct 0x2C, .id [0x58], .punct 0x2E, .id [0x79], .punct 0x5D])
      (parseToks [.punct 0x5B, .int [0x31], .punct 0x2C, .punct 0x7B, .str [0x22, 0x61, 0x22], .punct 0x3A, .kNull,
        .punct 0x7D, .punct 0x2C, .id [0x58], .punct 0x2E, .id [0x79], .punct 0x5D]) = true ∧
    (parseLR [.punct 0x7B, .id [0x6B], .punct 0x3A, .punct 0x5B, .kTrue, .punct 0x5D, .punct 0x7D]).isSome = true ∧
    optExpEq (parseLR [.punct 0x5B, .int [0x31], .punct 0x2C, .punct 0x2C, .punct 0x5D])
      (parseToks [.punct 0x5B, .int [0x31], .punct 0x2C, .punct 0x2C, .punct 0x5D]) = true ∧
    (parseLR [.id [0x58], .punct 0x2E, .id [0x79]]).isNone = true := by decide +kernel

/-! ## proved instances of `LRAgrees` -/

/-- `LRAgrees` holds on the token list of every printed SCALAR expression
(integers, floats, strings, booleans, null) and of the empty collections `[]`,
`{}`, for every token text: the driver run on the token kinds is evaluated by
the kernel on the regenerated tables, the semantic actions are replayed on the
symbolic token text. -/
theorem lr_agrees_on_scalars (e : Exp) (hs : isScalar e = true) : parseLR (toks e) = parseToks (toks e) :=
  lr_agrees_scalar e hs

/-- **format, then the goyacc parser — UNCONDITIONAL for scalar expressions and
empty collections**: no `LRAgrees` hypothesis. -/
theorem format_then_goyacc_parse_scalar (e : Exp) (hw : wf e = true) (hs : isScalar e = true) :
    parseValExpLR (fmt [] e) = some (norm e) :=
  Martian.LexerLR.format_then_goyacc_parse_scalar e hw hs

example : isScalar (.int (-5)) = true ∧ isScalar (.str [0x61]) = true ∧ isScalar (.arr []) = true ∧
    isScalar (.arr [.int 1]) = false := by decide

/-- Non-vacuity of `LRAgrees`: its instances for the printed scalar expressions
and empty collections are PROVED — the source `fmt [] e` lexes to `toks e`, and
on that token list the two parsers agree. -/
theorem lr_agrees_instances_proved (e : Exp) (hw : wf e = true) (hs : isScalar e = true) :
    lexAll (fmt [] e) = some (toks e) ∧ parseLR (toks e) = parseToks (toks e) :=
  ⟨lexAll_fmt_top e hw, lr_agrees_scalar e hs⟩

/-- Why the hypothesis is restricted to lexer outputs: on token VALUES that no
source text yields the two functions differ — the reader takes the word of a
`reserved` token or the byte of a `punct` token at face value, the goyacc model
translates them to scanner ids first (`.reserved "true"` becomes the TRUE token;
`.punct 0` becomes the end-of-input id).  (Kernel-evaluated.) -/
theorem agreement_needs_lexable_tokens :
    optExpEq (parseLR [.reserved [0x74, 0x72, 0x75, 0x65]]) (parseToks [.reserved [0x74, 0x72, 0x75, 0x65]]) = false ∧
    optExpEq (parseLR [.int [0x31], .punct 0]) (parseToks [.int [0x31], .punct 0]) = false := by decide +kernel

/-! ## call statements (`file: call_stm`) -/

/-- the goyacc parser model and x-c09's reader of a call statement return the
same result on every token list `lexAll` produces from some source text (NOT
proved; checked per run on `lexAll src` for ≥ 6000 generated call statements and
token-level mutants `src`, `C08.lrcmpcall`) -/
def LRCallAgrees : Prop :=
  ∀ (src : List UInt8) (ts : List Tok), lexAll src = some ts →
    parseLRCall ts = (match pCall2 ts with | some (c, []) => some c | _ => none)

/-- `ParseSourceBytes` on a file holding one call statement, through the goyacc model -/
def parseCallLR (src : List UInt8) : Option Call2 := (lexAll src).bind parseLRCall

theorem goyacc_parse_call_eq_reader_partial (h : LRCallAgrees) (src : List UInt8) :
    parseCallLR src = parseCall2 src := by
  unfold parseCallLR parseCall2
  cases hl : lexAll src with
  | none => rfl
  | some ts => simp only [Option.bind_some]; exact h src ts hl

/-- **format a call statement, then the goyacc parser**: modulo `LRCallAgrees`, the
real LR algorithm with the real tables and the real actions reads a printed
well-formed call statement (modifiers, `as`, `split` bindings, wildcard, `using`
block) back as the call in normal form. -/
theorem format_call_then_goyacc_parse_partial (h : LRCallAgrees) (c : Call2) (hw : wfCall2 c = true) :
    parseCallLR (fmtCall2 [] c) = some (normCall2 c) := by
  rw [goyacc_parse_call_eq_reader_partial h]
  exact parse_format_call2 c hw

/-! ### translated definitions (by x-c07; development in Proofs/TieC09.lean)

`Gen.tr_idWidth` / `Gen.tr_BindStmFormat` are TRANSLATED from
martian/syntax/format_callable.go on every run (TRANSLATOR.md). -/

/-- the first loop of `BindStms.format` (records, `break`), on the ids of ANY list
of bindings, computes the model's `idWidthGo`; demands that the definition was
really extracted from the tree under test (not the committed default) -/
theorem tr_idWidth_eq_model (bs : List Martian.FormatCall.Bind) :
    Gen.tr_idWidth_extracted = true ∧
    Gen.tr_idWidth (bs.map (·.id)) = Int.ofNat (Martian.FormatCall2.idWidthGo bs) :=
  ⟨by decide, Proofs.TieC09.tr_idWidth_eq_model bs⟩

/-- `BindStm.format` (byte trace of the printer) with the column width `w` is the
model's `fmtBind`; extracted from the tree under test -/
theorem tr_BindStmFormat_eq_model (p : List UInt8) (w : Nat) (b : Martian.FormatCall.Bind) :
    Gen.tr_BindStmFormat_extracted = true ∧
    Gen.tr_BindStmFormat p (Int.ofNat w) b.id
        (fun q => (if b.split then Martian.FormatExp.sSplit ++ [0x20] else []) ++ Martian.FormatExp.fmt q b.exp) =
      Martian.FormatCall2.fmtBind p w b :=
  ⟨by decide, Proofs.TieC09.tr_BindStmFormat_eq_model p w b⟩


end Props.C09
