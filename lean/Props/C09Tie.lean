/-
C09 tie (by x-c08): x-c09's round-trip theorems are about a hand-written
recursive-descent READER (`Martian.FormatExp.parseToks` / `parseValExp`).  The
real parser is goyacc's table-driven loop; `Martian.LexerLR.parseLR` is that
loop — the model of `mmParse` on the tables re-read from grammar.go on every
run (proved memory safe and terminating for all inputs, Props/C08.lean
`lr_driver_total`; its state/action trace is compared with the real parser's own
debug trace on every run) — with the semantic actions of the value-expression
sub-grammar, recognised by their text in grammar.go, building the same AST type.

NOT proved: that the two parsers are equal on all token lists (`LRAgrees`; the
standard LR-correctness argument for this grammar was out of reach).  It is
CHECKED on every run of `./check C08`: ≥ 12 000 generated value expressions and
token-level mutants per quick run, model against model (`C08.lrcmp`), and both
against `Parser.ParseValExp`'s accept/reject.  The corollaries below are
therefore `_partial`: they carry `LRAgrees` (or its instance for the token list
at hand) as an explicit hypothesis.
-/
import Props.C09
import Martian.LexerLRSem

namespace Props.C09
open Martian.FormatExp Martian.LexerLR

/-- the goyacc parser model and the recursive-descent reader return the same
result on every token list -/
def LRAgrees : Prop := ∀ ts : List Tok, parseLR ts = parseToks ts

/- Full statement (the goal; not proved):
     theorem lr_agrees : LRAgrees -/

/-- Under `LRAgrees` the two front ends are the same function of the source text. -/
theorem goyacc_parse_eq_reader_partial (h : LRAgrees) (src : List UInt8) :
    parseValExpLR src = parseValExp src := by
  unfold parseValExpLR parseValExp
  cases lexAll src with
  | none => rfl
  | some ts => exact h ts

/-- **format, then the goyacc parser**: modulo `LRAgrees`, the real LR algorithm
with the real tables reads a printed well-formed value expression back as the
expression (up to the documented normalisations `norm`). -/
theorem format_then_goyacc_parse_partial (h : LRAgrees) (e : Exp) (hw : wf e = true) (hv : isVal e = true) :
    parseValExpLR (fmt [] e) = some (norm e) := by
  rw [goyacc_parse_eq_reader_partial h]
  exact parse_format_exp e hw hv

/-- the same with any white-space indentation prefix -/
theorem format_prefix_then_goyacc_parse_partial (h : LRAgrees) (e : Exp) (p : List UInt8) (hw : wf e = true)
    (hv : isVal e = true) (hp : p.all isSp = true) : parseValExpLR (fmt p e) = some (norm e) := by
  rw [goyacc_parse_eq_reader_partial h]
  exact parse_format_exp_prefix e p hw hv hp

/-- and read-then-print through the goyacc parser is idempotent on printed texts -/
theorem goyacc_read_print_fixed_partial (h : LRAgrees) (e : Exp) (hw : wf e = true) (hv : isVal e = true) :
    (parseValExpLR (fmt [] e)).map (fmt []) = some (fmt [] e) := by
  rw [format_then_goyacc_parse_partial h e hw hv]
  simp only [Option.map_some]
  rw [format_exp_idem e [] hw]

-- non-vacuity: on concrete token lists the two parsers do agree (kernel-evaluated: the LR loop on the
-- regenerated tables with the actions, against the reader), accepted and rejected alike:
-- `[1, {"a": null}, X.y]`, `{k: [true]}`, `[1,,]`, `X.y`
example :
    optExpEq (parseLR [.punct 0x5B, .int [0x31], .punct 0x2C, .punct 0x7B, .str [0x22, 0x61, 0x22], .punct 0x3A, .kNull,
        .punct 0x7D, .punct 0x2C, .id [0x58], .punct 0x2E, .id [0x79], .punct 0x5D])
      (parseToks [.punct 0x5B, .int [0x31], .punct 0x2C, .punct 0x7B, .str [0x22, 0x61, 0x22], .punct 0x3A, .kNull,
        .punct 0x7D, .punct 0x2C, .id [0x58], .punct 0x2E, .id [0x79], .punct 0x5D]) = true ∧
    (parseLR [.punct 0x7B, .id [0x6B], .punct 0x3A, .punct 0x5B, .kTrue, .punct 0x5D, .punct 0x7D]).isSome = true ∧
    optExpEq (parseLR [.punct 0x5B, .int [0x31], .punct 0x2C, .punct 0x2C, .punct 0x5D])
      (parseToks [.punct 0x5B, .int [0x31], .punct 0x2C, .punct 0x2C, .punct 0x5D]) = true ∧
    (parseLR [.id [0x58], .punct 0x2E, .id [0x79]]).isNone = true := by decide +kernel

end Props.C09
